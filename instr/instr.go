// Package instr is engine E4 (a+b) of the goa verification machinery: a build-time source
// instrumenter. From the CURRENT working tree of the packages it is pointed at it writes
// rewritten copies of their Go files plus an overlay.json for `go build -overlay`; the
// originals are never touched.
//
// Rewrites
//
//	(a) sync shim: `import "sync"` / `"sync/atomic"` become the shim packages
//	    <vrt>/vsync and <vrt>/vatomic (same API, every operation a scheduling point);
//	    time.Now / time.Since / time.Until become vrt.Now / Since / Until (virtual clock);
//	    `go func() {...}()` becomes vrt.Go(func() {...}).
//	(b) shared-access hooks, found AUTOMATICALLY from the type-checked AST:
//	      1. package-level variables of the instrumented packages        ("pkgvar")
//	      2. variables captured by a function literal                     ("captured")
//	      3. fields reached through a pointer receiver                    ("recvfield")
//	      4. map / slice elements and pointees reached from 1-3           ("elem")
//	      5. with Deep: every field/element/pointee reached through any
//	         pointer, slice or map                                        ("deep")
//	    Locals and parameters that are not captured are not shared and not hooked.
//	(c) opaque shared objects ("opaque"): a USE -- method call on it, field access through it,
//	    passing it to a call -- of a package-level variable (of the instrumented packages or of
//	    any package they import), or of a value reached only through one, whose type is declared
//	    outside the instrumented packages becomes `vrt.OV(x, site)` / `vrt.OP(&x, site)`: at run
//	    time an access to the OBJECT, nothing for the types of vrt.ConcurrencySafe (documented
//	    as safe for concurrent use), a WRITE for every other type. When the static type is
//	    concrete and allow-listed no hook is emitted.
//	(d) context cancellation: the statement `<-x.Done()` (x a context.Context) becomes
//	    vrt.AwaitDone(x), a call of a context.CancelFunc value becomes vrt.Cancel(f): waiting
//	    for a cancellation is a blocking scheduler operation instead of a channel receive.
//
// Granularity. Hooks are placed IN the expression, at the exact evaluation position:
// a read of x becomes `*vrt.RP(&x, site)`, a write `*vrt.WP(&x, site) = v`, a map lookup
// `vrt.RM(m, site)[k]`, a map store / delete `vrt.WM(m, site)[k] = v`. No statement is hoisted,
// so short-circuit operands, else-if conditions, loop conditions and case expressions are
// hooked precisely where (and only if) they are evaluated. Not hooked (counted in
// Report.Skipped): the element traffic of copy() and of range-over-slice, implicit result
// assignments of `return`, redeclarations through `:=`, `go` statements with arguments.
// Address-of (`&x`, implicit `&x` of a pointer-receiver method call) is not an access.
//
// If a file does not parse or type-check the instrumenter fails (the driver turns that into a
// harness error, exit status 2): it never produces a partial overlay.
package instr

import (
	"bytes"
	"encoding/json"
	"fmt"
	"go/ast"
	"go/importer"
	"go/parser"
	"go/printer"
	"go/token"
	"go/types"
	"io"
	"os"
	"os/exec"
	"path/filepath"
	"sort"
	"strings"

	"verif/sched/vrt"
)

// Target is a set of packages to instrument, resolved by `go list` run in Dir.
type Target struct {
	Dir      string   // working directory for go list (a directory inside the module that provides the packages)
	Patterns []string // import paths or patterns
	// Flags are extra flags for go list (e.g. -modfile=...).
	Flags []string
	// Root is the directory site strings are made relative to (defaults to the module root of
	// the first package).
	Root string
}

// Config drives one instrumentation run.
type Config struct {
	Targets []Target
	// OutDir receives the rewritten files (OutDir/files/...) and overlay.json.
	OutDir string
	// VrtImport is the import path under which package vrt is visible to the instrumented
	// code, VrtDir the directory (possibly virtual, inside the instrumented module) that the
	// overlay maps the runtime sources to, VrtSrc the directory that physically holds them.
	VrtImport string
	VrtDir    string
	VrtSrc    string
	// ExtraFiles adds files to the overlay (target path -> source path), e.g. the
	// `//go:build verif` export files.
	ExtraFiles map[string]string
	// BaseOverlay is an overlay.json whose replacements are read INSTEAD of the files on disk
	// (candidate patches, deliberate mutations). Its other entries are carried over.
	BaseOverlay string
	Tags        []string
	Deep        bool
	// NoAccessHooks restricts the run to rewrite (a).
	NoAccessHooks bool
	Env           []string
}

// Report describes what was instrumented.
type Report struct {
	Overlay    string         `json:"overlay"`
	Packages   []string       `json:"packages"`
	Files      int            `json:"files"`
	Hooks      int            `json:"hooks"`
	ByCategory map[string]int `json:"hooks_by_category"`
	Skipped    map[string]int `json:"skipped"`
	SyncFiles  int            `json:"files_with_sync_shim"`
	Sites      []string       `json:"-"`
}

type listPkg struct {
	Dir        string
	ImportPath string
	Name       string
	Export     string
	GoFiles    []string
	CgoFiles   []string
	Imports    []string
	ImportMap  map[string]string
	Standard   bool
	DepOnly    bool
	Module     *struct{ Path, Dir string }
	Error      *struct{ Err string }
}

type overlayDoc struct {
	Replace map[string]string `json:"Replace"`
}

// Run instruments the targets and writes the overlay.
func Run(cfg Config) (*Report, error) {
	rep := &Report{ByCategory: map[string]int{}, Skipped: map[string]int{}}
	base := overlayDoc{Replace: map[string]string{}}
	if cfg.BaseOverlay != "" {
		b, err := os.ReadFile(cfg.BaseOverlay)
		if err != nil {
			return nil, fmt.Errorf("base overlay: %w", err)
		}
		if err := json.Unmarshal(b, &base); err != nil {
			return nil, fmt.Errorf("base overlay %s: %w", cfg.BaseOverlay, err)
		}
	}
	out := overlayDoc{Replace: map[string]string{}}
	for k, v := range base.Replace {
		out.Replace[k] = v
	}
	filesDir := filepath.Join(cfg.OutDir, "files")
	if err := os.RemoveAll(filesDir); err != nil {
		return nil, err
	}
	if err := os.MkdirAll(filesDir, 0o755); err != nil {
		return nil, err
	}
	// 1. the runtime packages (vrt, vsync, vatomic) become a virtual package tree at VrtDir
	if err := addRuntime(cfg, filesDir, out.Replace); err != nil {
		return nil, err
	}
	for k, v := range cfg.ExtraFiles {
		out.Replace[k] = v
	}
	// 2. the targets
	for _, tg := range cfg.Targets {
		if err := instrumentTarget(cfg, tg, base.Replace, filesDir, out.Replace, rep); err != nil {
			return nil, err
		}
	}
	b, _ := json.MarshalIndent(out, "", " ")
	rep.Overlay = filepath.Join(cfg.OutDir, "overlay.json")
	if err := os.WriteFile(rep.Overlay, b, 0o644); err != nil {
		return nil, err
	}
	sort.Strings(rep.Packages)
	return rep, nil
}

func addRuntime(cfg Config, filesDir string, replace map[string]string) error {
	for _, sub := range []string{"", "vsync", "vatomic"} {
		src := filepath.Join(cfg.VrtSrc, sub)
		ents, err := os.ReadDir(src)
		if err != nil {
			return fmt.Errorf("runtime sources: %w", err)
		}
		for _, e := range ents {
			n := e.Name()
			if e.IsDir() || !strings.HasSuffix(n, ".go") || strings.HasSuffix(n, "_test.go") {
				continue
			}
			target := filepath.Join(cfg.VrtDir, sub, n)
			if sub == "" {
				replace[target] = filepath.Join(src, n)
				continue
			}
			// the shims import the runtime by its verif path: rewrite to the overlay path
			b, err := os.ReadFile(filepath.Join(src, n))
			if err != nil {
				return err
			}
			s := strings.ReplaceAll(string(b), `"verif/sched/vrt"`, `"`+cfg.VrtImport+`"`)
			dst := filepath.Join(filesDir, "_vrt", sub, n)
			if err := os.MkdirAll(filepath.Dir(dst), 0o755); err != nil {
				return err
			}
			if err := os.WriteFile(dst, []byte(s), 0o644); err != nil {
				return err
			}
			replace[target] = dst
		}
	}
	return nil
}

func goList(cfg Config, dir string, args ...string) ([]*listPkg, error) {
	full := append([]string{"list", "-e", "-json=Dir,ImportPath,Name,Export,GoFiles,CgoFiles,Imports,ImportMap,Standard,DepOnly,Module,Error"}, args...)
	cmd := exec.Command("go", full...)
	cmd.Dir = dir
	cmd.Env = append(os.Environ(), cfg.Env...)
	var stderr bytes.Buffer
	cmd.Stderr = &stderr
	outb, err := cmd.Output()
	if err != nil {
		return nil, fmt.Errorf("go %s: %v\n%s", strings.Join(full, " "), err, stderr.String())
	}
	dec := json.NewDecoder(bytes.NewReader(outb))
	var pkgs []*listPkg
	for dec.More() {
		p := new(listPkg)
		if err := dec.Decode(p); err != nil {
			return nil, err
		}
		pkgs = append(pkgs, p)
	}
	return pkgs, nil
}

func instrumentTarget(cfg Config, tg Target, baseRepl map[string]string, filesDir string, replace map[string]string, rep *Report) error {
	args := []string{"-export", "-deps"}
	if len(cfg.Tags) > 0 {
		args = append(args, "-tags", strings.Join(cfg.Tags, ","))
	}
	if cfg.BaseOverlay != "" {
		args = append(args, "-overlay", cfg.BaseOverlay)
	}
	args = append(args, tg.Flags...)
	args = append(args, tg.Patterns...)
	pkgs, err := goList(cfg, tg.Dir, args...)
	if err != nil {
		return err
	}
	exports := map[string]string{}
	var targets []*listPkg
	for _, p := range pkgs {
		if p.Export != "" {
			exports[p.ImportPath] = p.Export
		}
		if !p.DepOnly {
			if p.Error != nil {
				return fmt.Errorf("package %s: %s", p.ImportPath, p.Error.Err)
			}
			targets = append(targets, p)
		}
	}
	if len(targets) == 0 {
		return fmt.Errorf("no packages match %v in %s", tg.Patterns, tg.Dir)
	}
	targetSet := map[string]bool{}
	for _, p := range targets {
		targetSet[p.ImportPath] = true
	}
	fset := token.NewFileSet()
	for _, p := range targets {
		if len(p.CgoFiles) > 0 {
			return fmt.Errorf("package %s uses cgo: not supported by the instrumenter", p.ImportPath)
		}
		root := tg.Root
		if root == "" && p.Module != nil {
			root = p.Module.Dir
		}
		imap := p.ImportMap
		lookup := func(path string) (string, bool) {
			if m, ok := imap[path]; ok {
				path = m
			}
			e, ok := exports[path]
			return e, ok
		}
		imp := importer.ForCompiler(fset, "gc", func(path string) (io.ReadCloser, error) {
			e, ok := lookup(path)
			if !ok || e == "" {
				return nil, fmt.Errorf("no export data for %q", path)
			}
			return os.Open(e)
		})
		var files []*ast.File
		var paths []string
		for _, f := range p.GoFiles {
			abs := filepath.Join(p.Dir, f)
			src := abs
			if r, ok := baseRepl[abs]; ok {
				if r == "" {
					continue
				}
				src = r
			}
			b, err := os.ReadFile(src)
			if err != nil {
				return err
			}
			af, err := parser.ParseFile(fset, abs, b, parser.ParseComments|parser.SkipObjectResolution)
			if err != nil {
				return fmt.Errorf("parse %s: %w", src, err)
			}
			files = append(files, af)
			paths = append(paths, abs)
		}
		info := &types.Info{
			Types: map[ast.Expr]types.TypeAndValue{}, Uses: map[*ast.Ident]types.Object{}, Defs: map[*ast.Ident]types.Object{},
			Selections: map[*ast.SelectorExpr]*types.Selection{}, Implicits: map[ast.Node]types.Object{}, Instances: map[*ast.Ident]types.Instance{},
		}
		var terrs []string
		conf := types.Config{Importer: imp, Error: func(err error) { terrs = append(terrs, err.Error()) }}
		tpkg, _ := conf.Check(p.ImportPath, fset, files, info)
		if len(terrs) > 0 {
			return fmt.Errorf("type-check %s: %s", p.ImportPath, strings.Join(terrs, "; "))
		}
		rep.Packages = append(rep.Packages, p.ImportPath)
		mutated := mutatedVars(files, info)
		for i, af := range files {
			rw := &rewriter{cfg: &cfg, fset: fset, info: info, pkg: tpkg, file: af, rep: rep, targetSet: targetSet, mutated: mutated}
			rel, err := filepath.Rel(root, paths[i])
			if err != nil || strings.HasPrefix(rel, "..") {
				rel = filepath.Join(filepath.Base(p.Dir), filepath.Base(paths[i]))
			}
			rw.rel = filepath.ToSlash(rel)
			changed, err := rw.rewriteFile()
			if err != nil {
				return fmt.Errorf("%s: %w", paths[i], err)
			}
			if !changed {
				continue
			}
			var buf bytes.Buffer
			if rw.buildLine != "" {
				buf.WriteString(rw.buildLine + "\n\n")
			}
			buf.WriteString("// Code generated by verif/instr from " + rw.rel + " (working tree). DO NOT EDIT.\n\n")
			if err := (&printer.Config{Mode: printer.UseSpaces | printer.TabIndent, Tabwidth: 8}).Fprint(&buf, fset, af); err != nil {
				return fmt.Errorf("print %s: %w", paths[i], err)
			}
			// the result must at least parse
			if _, err := parser.ParseFile(token.NewFileSet(), paths[i], buf.Bytes(), 0); err != nil {
				return fmt.Errorf("instrumented %s does not parse: %w", paths[i], err)
			}
			dst := filepath.Join(filesDir, sanitize(p.ImportPath), filepath.Base(paths[i]))
			if err := os.MkdirAll(filepath.Dir(dst), 0o755); err != nil {
				return err
			}
			if err := os.WriteFile(dst, buf.Bytes(), 0o644); err != nil {
				return err
			}
			replace[paths[i]] = dst
			rep.Files++
		}
	}
	return nil
}

func sanitize(s string) string {
	return strings.NewReplacer("/", "_", ".", "_").Replace(s)
}

// ---- the rewriter ---------------------------------------------------------------------

type rewriter struct {
	cfg       *Config
	fset      *token.FileSet
	info      *types.Info
	pkg       *types.Package
	file      *ast.File
	rel       string
	rep       *Report
	targetSet map[string]bool

	captured map[*types.Var]bool
	// mutated: variables of the package that are assigned, incremented, address-taken or
	// otherwise modifiable after their declaration (see mutatedVars)
	mutated map[*types.Var]bool
	// per function context
	fn        string     // enclosing function name for site strings
	recv      *types.Var // pointer receiver of the enclosing method
	usedVrt   bool
	timeUses  int // remaining uses of package time after rewriting
	timeRepl  int
	buildLine string
	vrtName   string
}

const vrtAlias = "verifvrt"

func (rw *rewriter) rewriteFile() (bool, error) {
	f := rw.file
	for _, cg := range f.Comments {
		for _, c := range cg.List {
			t := c.Text
			switch {
			case strings.HasPrefix(t, "//go:build "):
				if c.Pos() < f.Package {
					rw.buildLine = t
				}
			}
		}
	}
	// Directives such as //go:embed sit in the Doc comment of their declaration, which the
	// printer keeps; all other comments are dropped from rewritten files (a line comment
	// re-emitted inside a rewritten expression could swallow code).
	changed := false
	// (a) imports
	var timeName string
	for _, is := range f.Imports {
		path := strings.Trim(is.Path.Value, `"`)
		switch path {
		case "sync":
			is.Path.Value = `"` + rw.cfg.VrtImport + `/vsync"`
			if is.Name == nil {
				is.Name = ast.NewIdent("sync")
			}
			changed = true
			rw.rep.SyncFiles++
		case "sync/atomic":
			is.Path.Value = `"` + rw.cfg.VrtImport + `/vatomic"`
			if is.Name == nil {
				is.Name = ast.NewIdent("atomic")
			}
			changed = true
		case "time":
			timeName = "time"
			if is.Name != nil {
				timeName = is.Name.Name
			}
		}
	}
	_ = timeName
	rw.findCaptured()
	for _, d := range f.Decls {
		switch d := d.(type) {
		case *ast.FuncDecl:
			if d.Body == nil {
				continue
			}
			rw.fn = d.Name.Name
			rw.recv = nil
			if d.Recv != nil && len(d.Recv.List) == 1 {
				if len(d.Recv.List[0].Names) == 1 {
					if v, ok := rw.info.Defs[d.Recv.List[0].Names[0]].(*types.Var); ok {
						if _, isPtr := v.Type().Underlying().(*types.Pointer); isPtr {
							rw.recv = v
						}
					}
				}
				rw.fn = recvTypeName(d.Recv.List[0].Type) + "." + d.Name.Name
			}
			rw.block(d.Body)
		case *ast.GenDecl:
			if d.Tok != token.VAR {
				continue
			}
			// initialisers run single-threaded at init; only function literals inside them
			// can run later
			for _, s := range d.Specs {
				vs := s.(*ast.ValueSpec)
				name := "init"
				if len(vs.Names) > 0 {
					name = vs.Names[0].Name
				}
				for _, v := range vs.Values {
					ast.Inspect(v, func(n ast.Node) bool {
						if fl, ok := n.(*ast.FuncLit); ok {
							rw.fn, rw.recv = name+".func", nil
							rw.block(fl.Body)
							return false
						}
						return true
					})
				}
			}
		}
	}
	if rw.usedVrt {
		changed = true
		addImport(f, vrtAlias, rw.cfg.VrtImport)
	}
	if rw.timeRepl > 0 {
		// drop the time import when nothing else uses it
		uses := 0
		for id, obj := range rw.info.Uses {
			if pn, ok := obj.(*types.PkgName); ok && pn.Imported().Path() == "time" && id.Pos() >= f.Pos() && id.End() <= f.End() {
				uses++
			}
		}
		if uses == rw.timeRepl {
			removeImport(f, "time")
		}
	}
	if changed {
		f.Comments = nil
		f.Doc = nil
	}
	return changed, nil
}

func recvTypeName(e ast.Expr) string {
	switch t := e.(type) {
	case *ast.StarExpr:
		return recvTypeName(t.X)
	case *ast.Ident:
		return t.Name
	case *ast.IndexExpr:
		return recvTypeName(t.X)
	case *ast.IndexListExpr:
		return recvTypeName(t.X)
	case *ast.ParenExpr:
		return recvTypeName(t.X)
	}
	return "?"
}

func addImport(f *ast.File, name, path string) {
	spec := &ast.ImportSpec{Name: ast.NewIdent(name), Path: &ast.BasicLit{Kind: token.STRING, Value: `"` + path + `"`}}
	decl := &ast.GenDecl{Tok: token.IMPORT, Specs: []ast.Spec{spec}}
	f.Decls = append([]ast.Decl{decl}, f.Decls...)
	f.Imports = append(f.Imports, spec)
}

func removeImport(f *ast.File, path string) {
	for _, d := range f.Decls {
		gd, ok := d.(*ast.GenDecl)
		if !ok || gd.Tok != token.IMPORT {
			continue
		}
		var keep []ast.Spec
		for _, s := range gd.Specs {
			if strings.Trim(s.(*ast.ImportSpec).Path.Value, `"`) != path {
				keep = append(keep, s)
			}
		}
		gd.Specs = keep
	}
	var decls []ast.Decl
	for _, d := range f.Decls {
		if gd, ok := d.(*ast.GenDecl); ok && gd.Tok == token.IMPORT && len(gd.Specs) == 0 {
			continue
		}
		decls = append(decls, d)
	}
	f.Decls = decls
}

// mutatedVars returns the variables of a package that can change after their declaration:
// targets of assignments (including op-assign, ++/--, range with '=', `:=` redeclaration),
// variables whose address (or the address of a part of them) is taken explicitly, by a
// pointer-receiver method call or by slicing an array, and named results (assigned by
// `return`). A variable outside this set is initialised once, before any closure or goroutine
// that can see it exists; its reads need neither a scheduling point nor a race check.
func mutatedVars(files []*ast.File, info *types.Info) map[*types.Var]bool {
	out := map[*types.Var]bool{}
	var root func(e ast.Expr) *types.Var
	root = func(e ast.Expr) *types.Var {
		switch x := e.(type) {
		case *ast.ParenExpr:
			return root(x.X)
		case *ast.Ident:
			v, _ := info.Uses[x].(*types.Var)
			if v != nil && !v.IsField() {
				return v
			}
		case *ast.SelectorExpr:
			if sel, ok := info.Selections[x]; ok && sel.Kind() == types.FieldVal {
				if t := info.Types[x.X].Type; t != nil {
					if _, isPtr := t.Underlying().(*types.Pointer); isPtr || sel.Indirect() {
						return nil // memory behind a pointer, not the variable itself
					}
				}
				return root(x.X)
			}
		case *ast.IndexExpr:
			if t := info.Types[x.X].Type; t != nil {
				if _, isArr := t.Underlying().(*types.Array); isArr {
					return root(x.X)
				}
			}
		}
		return nil
	}
	mark := func(e ast.Expr) {
		if v := root(e); v != nil {
			out[v] = true
		}
	}
	for _, f := range files {
		ast.Inspect(f, func(n ast.Node) bool {
			switch x := n.(type) {
			case *ast.AssignStmt:
				for _, l := range x.Lhs {
					if x.Tok == token.DEFINE {
						if id, ok := l.(*ast.Ident); ok && info.Defs[id] == nil {
							mark(id)
						}
						continue
					}
					mark(l)
				}
			case *ast.IncDecStmt:
				mark(x.X)
			case *ast.RangeStmt:
				if x.Tok == token.ASSIGN {
					if x.Key != nil {
						mark(x.Key)
					}
					if x.Value != nil {
						mark(x.Value)
					}
				}
			case *ast.UnaryExpr:
				if x.Op == token.AND {
					mark(x.X)
				}
			case *ast.SliceExpr:
				if t := info.Types[x.X].Type; t != nil {
					if _, isArr := t.Underlying().(*types.Array); isArr {
						mark(x.X)
					}
				}
			case *ast.SelectorExpr:
				if sel, ok := info.Selections[x]; ok && sel.Kind() != types.FieldVal {
					if fn, ok := sel.Obj().(*types.Func); ok {
						if sig, ok := fn.Type().(*types.Signature); ok && sig.Recv() != nil {
							_, ptrRecv := sig.Recv().Type().Underlying().(*types.Pointer)
							if t := info.Types[x.X].Type; ptrRecv && t != nil {
								if _, isPtr := t.Underlying().(*types.Pointer); !isPtr {
									mark(x.X) // implicit &x
								}
							}
						}
					}
				}
			case *ast.FuncType:
				if x.Results != nil {
					for _, fld := range x.Results.List {
						for _, id := range fld.Names {
							if v, ok := info.Defs[id].(*types.Var); ok {
								out[v] = true
							}
						}
					}
				}
			}
			return true
		})
	}
	return out
}

// findCaptured marks every variable that is used inside a function literal but declared
// outside of it (a free variable of a closure).
func (rw *rewriter) findCaptured() {
	rw.captured = map[*types.Var]bool{}
	var stack []*ast.FuncLit
	var visit func(n ast.Node) bool
	visit = func(n ast.Node) bool {
		switch n := n.(type) {
		case *ast.FuncLit:
			stack = append(stack, n)
			ast.Inspect(n.Body, visit)
			stack = stack[:len(stack)-1]
			return false
		case *ast.Ident:
			if len(stack) == 0 {
				return true
			}
			v, ok := rw.info.Uses[n].(*types.Var)
			if !ok || v.IsField() || v.Pkg() == nil || v.Parent() == v.Pkg().Scope() {
				return true
			}
			for _, fl := range stack {
				if v.Pos() < fl.Pos() || v.Pos() >= fl.End() {
					rw.captured[v] = true
					break
				}
			}
		}
		return true
	}
	ast.Inspect(rw.file, visit)
}

func (rw *rewriter) skip(why string) { rw.rep.Skipped[why]++ }

func (rw *rewriter) site(e ast.Expr) *ast.BasicLit {
	pos := rw.fset.Position(e.Pos())
	s := fmt.Sprintf("%s:%d|%s|%s", rw.rel, pos.Line, rw.fn, types.ExprString(e))
	rw.rep.Sites = append(rw.rep.Sites, s)
	return &ast.BasicLit{Kind: token.STRING, Value: fmt.Sprintf("%q", s)}
}

func (rw *rewriter) call(fn string, args ...ast.Expr) *ast.CallExpr {
	rw.usedVrt = true
	return &ast.CallExpr{Fun: &ast.SelectorExpr{X: ast.NewIdent(vrtAlias), Sel: ast.NewIdent(fn)}, Args: args}
}

// hookPtr builds `*vrt.RP(&loc, site)` / `*vrt.WP(&loc, site)`.
func (rw *rewriter) hookPtr(orig, loc ast.Expr, write bool, cat string) ast.Expr {
	fn := "RP"
	if write {
		fn = "WP"
	}
	rw.rep.Hooks++
	rw.rep.ByCategory[cat]++
	var addr ast.Expr
	if st, ok := loc.(*ast.StarExpr); ok {
		addr = st.X // &*p == p
	} else {
		addr = &ast.UnaryExpr{Op: token.AND, X: loc}
	}
	return &ast.ParenExpr{X: &ast.StarExpr{X: rw.call(fn, addr, rw.site(orig))}}
}

// hookMap builds `vrt.RM(m, site)` / `vrt.WM(m, site)`.
func (rw *rewriter) hookMap(orig, m ast.Expr, write bool, cat string) ast.Expr {
	fn := "RM"
	if write {
		fn = "WM"
	}
	rw.rep.Hooks++
	rw.rep.ByCategory[cat+"-map"]++
	return rw.call(fn, m, rw.site(orig))
}

func (rw *rewriter) typeOf(e ast.Expr) types.Type {
	if tv, ok := rw.info.Types[e]; ok {
		return tv.Type
	}
	if id, ok := e.(*ast.Ident); ok {
		if o := rw.info.Uses[id]; o != nil {
			return o.Type()
		}
		if o := rw.info.Defs[id]; o != nil {
			return o.Type()
		}
	}
	return nil
}

func under(t types.Type) types.Type {
	if t == nil {
		return nil
	}
	return t.Underlying()
}

func isPtr(t types.Type) bool {
	_, ok := under(t).(*types.Pointer)
	return ok
}

// shared classifies the location denoted by e. cat == "" means: not a shared location.
func (rw *rewriter) shared(e ast.Expr) (cat string) { return rw.classify(e, true) }

// classify is shared with the option to ignore the never-modified filter: memory REACHED
// through a never-modified variable (the elements of a map held in such a variable, the
// pointee of such a pointer) is as shared as ever; only the variable's own reads need no hook.
func (rw *rewriter) classify(e ast.Expr, forHook bool) (cat string) {
	switch e := e.(type) {
	case *ast.ParenExpr:
		return rw.classify(e.X, forHook)
	case *ast.Ident:
		v, ok := rw.info.Uses[e].(*types.Var)
		if !ok || v.IsField() {
			return ""
		}
		if v.Pkg() != nil && v.Parent() == v.Pkg().Scope() {
			if forHook && v.Pkg() == rw.pkg && !v.Exported() && !rw.mutated[v] {
				// an unexported package variable that nothing in its package modifies after
				// its initialisation: reads cannot race and commute with everything
				rw.skip("reads of never-modified unexported package variables (no hook needed)")
				return ""
			}
			if v.Pkg() == rw.pkg || rw.targetSet[v.Pkg().Path()] {
				return "pkgvar"
			}
			return ""
		}
		if rw.captured[v] {
			if forHook && !rw.mutated[v] {
				// captured but only ever initialised at its declaration (effectively final)
				rw.skip("reads of never-modified captured variables (no hook needed)")
				return ""
			}
			return "captured"
		}
		return ""
	case *ast.SelectorExpr:
		sel, ok := rw.info.Selections[e]
		if !ok {
			// qualified identifier pkg.Var
			if v, ok := rw.info.Uses[e.Sel].(*types.Var); ok && v.Pkg() != nil && rw.targetSet[v.Pkg().Path()] {
				return "pkgvar"
			}
			return ""
		}
		if sel.Kind() != types.FieldVal {
			return ""
		}
		if isPtr(rw.typeOf(e.X)) || sel.Indirect() {
			return rw.through(e.X)
		}
		return rw.classify(e.X, forHook)
	case *ast.IndexExpr:
		switch under(rw.typeOf(e.X)).(type) {
		case *types.Slice, *types.Pointer, *types.Map:
			return rw.through(e.X)
		case *types.Array:
			return rw.classify(e.X, forHook)
		}
		return ""
	case *ast.StarExpr:
		return rw.through(e.X)
	}
	return ""
}

// through classifies memory reached by dereferencing the pointer / slice / map value p.
func (rw *rewriter) through(p ast.Expr) string {
	for {
		pe, ok := p.(*ast.ParenExpr)
		if !ok {
			break
		}
		p = pe.X
	}
	if id, ok := p.(*ast.Ident); ok && rw.recv != nil && rw.info.Uses[id] == rw.recv {
		return "recvfield"
	}
	if rw.classify(p, false) != "" {
		return "elem"
	}
	if rw.cfg.Deep {
		return "deep"
	}
	return ""
}

// rootPkgVar reports whether e is a package-level variable (of any package) or a location /
// value reached only through one by field selections, indexing and dereferences.
func (rw *rewriter) rootPkgVar(e ast.Expr) bool {
	switch x := e.(type) {
	case *ast.ParenExpr:
		return rw.rootPkgVar(x.X)
	case *ast.Ident:
		v, ok := rw.info.Uses[x].(*types.Var)
		return ok && !v.IsField() && v.Pkg() != nil && v.Parent() == v.Pkg().Scope()
	case *ast.SelectorExpr:
		sel, ok := rw.info.Selections[x]
		if !ok { // qualified identifier pkg.Var
			v, isVar := rw.info.Uses[x.Sel].(*types.Var)
			return isVar && v.Pkg() != nil && v.Parent() == v.Pkg().Scope()
		}
		return sel.Kind() == types.FieldVal && rw.rootPkgVar(x.X)
	case *ast.IndexExpr:
		switch under(rw.typeOf(x.X)).(type) {
		case *types.Slice, *types.Array, *types.Pointer, *types.Map:
			return rw.rootPkgVar(x.X)
		}
	case *ast.StarExpr:
		return rw.rootPkgVar(x.X)
	case *ast.UnaryExpr:
		if x.Op == token.AND { // &pkgVar handed out: the callee works on the variable itself
			return rw.rootPkgVar(x.X)
		}
	}
	return false
}

// opaqueUse decides whether a use of e must be recorded as an access to an opaque shared object:
// e is rooted at a package-level variable and its type is an interface (decided at run time on
// the dynamic type) or a named type -- or a pointer to one -- declared outside the instrumented
// packages that is not on the allow-list vrt.ConcurrencySafe.
func (rw *rewriter) opaqueUse(e ast.Expr) bool {
	if rw.cfg.NoAccessHooks || !rw.rootPkgVar(e) {
		return false
	}
	t := rw.typeOf(e)
	if t == nil {
		return false
	}
	if _, isIface := under(t).(*types.Interface); isIface {
		if _, isTP := t.(*types.TypeParam); isTP {
			return false
		}
		return true
	}
	if p, ok := under(t).(*types.Pointer); ok {
		if _, named := t.(*types.Named); !named {
			t = p.Elem()
		}
	}
	n, ok := t.(*types.Named)
	if !ok || n.Obj() == nil || n.Obj().Pkg() == nil {
		return false
	}
	switch under(n).(type) {
	case *types.Struct, *types.Map, *types.Chan, *types.Pointer:
	default:
		return false // named numbers, strings, funcs, slices: values, no hidden shared state
	}
	path := n.Obj().Pkg().Path()
	if path == rw.pkg.Path() || rw.targetSet[path] || vrt.InternalPkg(path) || strings.HasPrefix(path, rw.cfg.VrtImport) {
		return false
	}
	if vrt.SafeReason(path, n.Obj().Name()) != "" {
		rw.skip("uses of package-level values of allow-listed concurrency-safe types (no hook needed)")
		return false
	}
	return true
}

// opaqueValue wraps the already rewritten value expression r (originally orig).
func (rw *rewriter) opaqueValue(orig, r ast.Expr) ast.Expr {
	if id, ok := orig.(*ast.Ident); ok {
		// the object is named after the variable, however it is handed out (x, &x)
		orig = &ast.Ident{NamePos: id.NamePos, Name: strings.TrimLeft(id.Name, "&(")}
	}
	rw.rep.Hooks++
	rw.rep.ByCategory["opaque"]++
	return rw.call("OV", r, rw.site(orig))
}

func (rw *rewriter) isNamed(t types.Type, pkgPath, name string) bool {
	n, ok := t.(*types.Named)
	return ok && n.Obj() != nil && n.Obj().Pkg() != nil && n.Obj().Pkg().Path() == pkgPath && n.Obj().Name() == name
}

// doneReceive matches `<-x.Done()` with x a context.Context and returns x.
func (rw *rewriter) doneReceive(e ast.Expr) ast.Expr {
	u, ok := unparen(e).(*ast.UnaryExpr)
	if !ok || u.Op != token.ARROW {
		return nil
	}
	c, ok := unparen(u.X).(*ast.CallExpr)
	if !ok || len(c.Args) != 0 {
		return nil
	}
	se, ok := c.Fun.(*ast.SelectorExpr)
	if !ok || se.Sel.Name != "Done" {
		return nil
	}
	if t := rw.typeOf(se.X); t != nil && rw.isNamed(t, "context", "Context") {
		return se.X
	}
	return nil
}

func (rw *rewriter) isPkgSel(e ast.Expr, pkgPath, name string) bool {
	se, ok := e.(*ast.SelectorExpr)
	if !ok || se.Sel.Name != name {
		return false
	}
	id, ok := se.X.(*ast.Ident)
	if !ok {
		return false
	}
	pn, ok := rw.info.Uses[id].(*types.PkgName)
	return ok && pn.Imported().Path() == pkgPath
}

// path rewrites e as an ADDRESS computation: the final location is not accessed, but pointer
// values read on the way are.
func (rw *rewriter) path(e ast.Expr) ast.Expr {
	switch x := e.(type) {
	case *ast.ParenExpr:
		x.X = rw.path(x.X)
		return x
	case *ast.Ident:
		return x
	case *ast.SelectorExpr:
		sel, ok := rw.info.Selections[x]
		if !ok || sel.Kind() != types.FieldVal {
			return rw.read(e)
		}
		if isPtr(rw.typeOf(x.X)) {
			x.X = rw.read(x.X)
		} else {
			x.X = rw.path(x.X)
		}
		return x
	case *ast.IndexExpr:
		switch under(rw.typeOf(x.X)).(type) {
		case *types.Array:
			x.X = rw.path(x.X)
			x.Index = rw.read(x.Index)
			return x
		case *types.Slice, *types.Pointer:
			x.X = rw.read(x.X)
			x.Index = rw.read(x.Index)
			return x
		}
		return rw.read(e)
	case *ast.StarExpr:
		x.X = rw.read(x.X)
		return x
	case *ast.CompositeLit:
		return rw.read(e)
	}
	return rw.read(e)
}

// read rewrites e as a value computation.
func (rw *rewriter) read(e ast.Expr) ast.Expr {
	if e == nil {
		return nil
	}
	if tv, ok := rw.info.Types[e]; ok && (tv.IsType() || tv.Value != nil) {
		return e // types and constant expressions
	}
	switch x := e.(type) {
	case *ast.BasicLit:
		return x
	case *ast.Ident:
		if rw.cfg.NoAccessHooks {
			return x
		}
		if cat := rw.shared(x); cat != "" {
			return rw.hookPtr(x, x, false, cat)
		}
		return x
	case *ast.ParenExpr:
		x.X = rw.read(x.X)
		return x
	case *ast.FuncLit:
		saveFn, saveRecv := rw.fn, rw.recv
		if !strings.HasSuffix(rw.fn, ".func") {
			rw.fn += ".func"
		}
		rw.block(x.Body)
		rw.fn, rw.recv = saveFn, saveRecv
		return x
	case *ast.CompositeLit:
		isStruct := false
		if t := rw.typeOf(x); t != nil {
			ut := under(t)
			if p, ok := ut.(*types.Pointer); ok {
				ut = under(p.Elem())
			}
			_, isStruct = ut.(*types.Struct)
		}
		for i, el := range x.Elts {
			if kv, ok := el.(*ast.KeyValueExpr); ok {
				if !isStruct {
					kv.Key = rw.read(kv.Key)
				}
				kv.Value = rw.read(kv.Value)
			} else {
				x.Elts[i] = rw.read(el)
			}
		}
		return x
	case *ast.SelectorExpr:
		sel, ok := rw.info.Selections[x]
		if !ok {
			// qualified identifier
			if !rw.cfg.NoAccessHooks {
				if cat := rw.shared(x); cat != "" {
					return rw.hookPtr(x, x, false, cat)
				}
			}
			return x
		}
		switch sel.Kind() {
		case types.FieldVal:
			cat := ""
			if !rw.cfg.NoAccessHooks {
				cat = rw.shared(x)
			}
			orig := rw.copyForSite(x)
			opaque := isPtr(rw.typeOf(x.X)) && rw.opaqueUse(x.X)
			origBase := rw.copyForSite(x.X)
			loc := rw.path(x)
			if opaque {
				if se, ok := loc.(*ast.SelectorExpr); ok {
					se.X = rw.opaqueValue(origBase, se.X)
				}
			}
			if cat != "" && rw.addressable(x) {
				return rw.hookPtr(orig, loc, false, cat)
			}
			return loc
		default: // method value / call target
			recvT := rw.typeOf(x.X)
			fn, _ := sel.Obj().(*types.Func)
			ptrMethod := false
			if fn != nil {
				if sig, ok := fn.Type().(*types.Signature); ok && sig.Recv() != nil {
					ptrMethod = isPtr(sig.Recv().Type())
				}
			}
			opaque := rw.opaqueUse(x.X)
			orig := rw.copyForSite(x.X)
			if ptrMethod && !isPtr(recvT) {
				addr := rw.addressable(x.X)
				x.X = rw.path(x.X) // implicit &x: not an access
				if opaque && addr {
					rw.rep.Hooks++
					rw.rep.ByCategory["opaque"]++
					x.X = rw.call("OP", &ast.UnaryExpr{Op: token.AND, X: x.X}, rw.site(orig))
				}
			} else {
				x.X = rw.read(x.X)
				if opaque {
					x.X = rw.opaqueValue(orig, x.X)
				}
			}
			return x
		}
	case *ast.IndexExpr:
		if tv, ok := rw.info.Types[x.Index]; ok && tv.IsType() {
			return x // generic instantiation
		}
		if tv, ok := rw.info.Types[x.X]; ok && tv.IsType() {
			return x
		}
		switch under(rw.typeOf(x.X)).(type) {
		case *types.Map:
			cat := ""
			if !rw.cfg.NoAccessHooks {
				cat = rw.through(x.X)
			}
			orig := rw.copyForSite(x.X)
			x.X = rw.read(x.X)
			x.Index = rw.read(x.Index)
			if cat != "" {
				x.X = rw.hookMap(orig, x.X, false, cat)
			}
			return x
		case *types.Slice, *types.Pointer, *types.Array:
			cat := ""
			if !rw.cfg.NoAccessHooks {
				cat = rw.shared(x)
			}
			orig := rw.copyForSite(x)
			loc := rw.path(x)
			if cat != "" && rw.addressable(x) {
				return rw.hookPtr(orig, loc, false, cat)
			}
			return loc
		}
		x.X = rw.read(x.X)
		x.Index = rw.read(x.Index)
		return x
	case *ast.IndexListExpr:
		return x
	case *ast.SliceExpr:
		if _, isArr := under(rw.typeOf(x.X)).(*types.Array); isArr {
			x.X = rw.path(x.X)
		} else {
			x.X = rw.read(x.X)
		}
		x.Low, x.High, x.Max = rw.read(x.Low), rw.read(x.High), rw.read(x.Max)
		return x
	case *ast.StarExpr:
		cat := ""
		if !rw.cfg.NoAccessHooks {
			cat = rw.shared(x)
		}
		orig := rw.copyForSite(x)
		x.X = rw.read(x.X)
		if cat != "" {
			return rw.hookPtr(orig, x, false, cat)
		}
		return x
	case *ast.UnaryExpr:
		if x.Op == token.AND {
			x.X = rw.path(x.X)
			return x
		}
		x.X = rw.read(x.X)
		return x
	case *ast.BinaryExpr:
		x.X = rw.read(x.X)
		x.Y = rw.read(x.Y)
		return x
	case *ast.KeyValueExpr:
		x.Value = rw.read(x.Value)
		return x
	case *ast.TypeAssertExpr:
		x.X = rw.read(x.X)
		return x
	case *ast.CallExpr:
		return rw.callExpr(x)
	}
	return e
}

// copyForSite keeps a printable copy of the original expression text (the tree is rewritten
// in place afterwards).
func (rw *rewriter) copyForSite(e ast.Expr) ast.Expr {
	return &ast.Ident{NamePos: e.Pos(), Name: types.ExprString(e)}
}

// addressable reports whether &e is legal for a field / element expression.
func (rw *rewriter) addressable(e ast.Expr) bool {
	switch x := e.(type) {
	case *ast.ParenExpr:
		return rw.addressable(x.X)
	case *ast.Ident:
		_, ok := rw.info.Uses[x].(*types.Var)
		return ok
	case *ast.SelectorExpr:
		sel, ok := rw.info.Selections[x]
		if !ok {
			_, isVar := rw.info.Uses[x.Sel].(*types.Var)
			return isVar
		}
		if sel.Kind() != types.FieldVal {
			return false
		}
		if isPtr(rw.typeOf(x.X)) || sel.Indirect() {
			return true
		}
		return rw.addressable(x.X)
	case *ast.IndexExpr:
		switch under(rw.typeOf(x.X)).(type) {
		case *types.Slice, *types.Pointer:
			return true
		case *types.Array:
			return rw.addressable(x.X)
		}
		return false
	case *ast.StarExpr:
		return true
	case *ast.CompositeLit:
		return false
	}
	return false
}

func (rw *rewriter) callExpr(c *ast.CallExpr) ast.Expr {
	// conversions
	if tv, ok := rw.info.Types[c.Fun]; ok && tv.IsType() {
		for i, a := range c.Args {
			c.Args[i] = rw.read(a)
		}
		return c
	}
	// virtual clock
	for _, n := range []string{"Now", "Since", "Until"} {
		if rw.isPkgSel(c.Fun, "time", n) {
			rw.timeRepl++
			for i, a := range c.Args {
				c.Args[i] = rw.read(a)
			}
			c.Fun = &ast.SelectorExpr{X: ast.NewIdent(vrtAlias), Sel: ast.NewIdent(n)}
			rw.usedVrt = true
			return c
		}
	}
	// builtins
	if id, ok := unparen(c.Fun).(*ast.Ident); ok {
		if b, ok := rw.info.Uses[id].(*types.Builtin); ok {
			switch b.Name() {
			case "len", "cap":
				if len(c.Args) == 1 {
					if _, isMap := under(rw.typeOf(c.Args[0])).(*types.Map); isMap && !rw.cfg.NoAccessHooks {
						cat := rw.through(c.Args[0])
						orig := rw.copyForSite(c.Args[0])
						c.Args[0] = rw.read(c.Args[0])
						if cat != "" {
							c.Args[0] = rw.hookMap(orig, c.Args[0], false, cat)
						}
						return c
					}
				}
			case "delete", "clear":
				if len(c.Args) >= 1 {
					if _, isMap := under(rw.typeOf(c.Args[0])).(*types.Map); isMap && !rw.cfg.NoAccessHooks {
						cat := rw.through(c.Args[0])
						orig := rw.copyForSite(c.Args[0])
						c.Args[0] = rw.read(c.Args[0])
						if cat != "" {
							c.Args[0] = rw.hookMap(orig, c.Args[0], true, cat)
						}
						for i := 1; i < len(c.Args); i++ {
							c.Args[i] = rw.read(c.Args[i])
						}
						return c
					}
				}
			case "copy":
				rw.skip("copy(): element traffic not hooked")
			case "new", "make":
				for i := 1; i < len(c.Args); i++ {
					c.Args[i] = rw.read(c.Args[i])
				}
				return c
			}
			for i, a := range c.Args {
				c.Args[i] = rw.read(a)
			}
			return c
		}
	}
	if t := rw.typeOf(c.Fun); t != nil && len(c.Args) == 0 && rw.isNamed(t, "context", "CancelFunc") {
		// cancel() -> vrt.Cancel(cancel): a scheduling point and a release for the waiters
		rw.rep.ByCategory["cancel-call"]++
		return rw.call("Cancel", rw.read(c.Fun))
	}
	c.Fun = rw.read(c.Fun)
	for i, a := range c.Args {
		if c.Ellipsis.IsValid() && i == len(c.Args)-1 {
			c.Args[i] = rw.read(a)
			continue
		}
		opaque := rw.opaqueUse(a)
		orig := rw.copyForSite(a)
		c.Args[i] = rw.read(a)
		if opaque {
			c.Args[i] = rw.opaqueValue(orig, c.Args[i])
		}
	}
	return c
}

func unparen(e ast.Expr) ast.Expr {
	for {
		p, ok := e.(*ast.ParenExpr)
		if !ok {
			return e
		}
		e = p.X
	}
}

// write rewrites an assignment target.
func (rw *rewriter) write(e ast.Expr) ast.Expr {
	switch x := e.(type) {
	case *ast.ParenExpr:
		x.X = rw.write(x.X)
		return x
	case *ast.Ident:
		if x.Name == "_" || rw.cfg.NoAccessHooks {
			return x
		}
		if cat := rw.shared(x); cat != "" {
			return rw.hookPtr(x, x, true, cat)
		}
		return x
	case *ast.SelectorExpr:
		cat := ""
		if !rw.cfg.NoAccessHooks {
			cat = rw.shared(x)
		}
		orig := rw.copyForSite(x)
		loc := rw.path(x)
		if cat != "" && rw.addressable(x) {
			return rw.hookPtr(orig, loc, true, cat)
		}
		return loc
	case *ast.IndexExpr:
		if _, isMap := under(rw.typeOf(x.X)).(*types.Map); isMap {
			cat := ""
			if !rw.cfg.NoAccessHooks {
				cat = rw.through(x.X)
			}
			orig := rw.copyForSite(x.X)
			x.X = rw.read(x.X)
			x.Index = rw.read(x.Index)
			if cat != "" {
				x.X = rw.hookMap(orig, x.X, true, cat)
			}
			return x
		}
		cat := ""
		if !rw.cfg.NoAccessHooks {
			cat = rw.shared(x)
		}
		orig := rw.copyForSite(x)
		loc := rw.path(x)
		if cat != "" && rw.addressable(x) {
			return rw.hookPtr(orig, loc, true, cat)
		}
		return loc
	case *ast.StarExpr:
		cat := ""
		if !rw.cfg.NoAccessHooks {
			cat = rw.shared(x)
		}
		orig := rw.copyForSite(x)
		x.X = rw.read(x.X)
		if cat != "" {
			return rw.hookPtr(orig, x, true, cat)
		}
		return x
	}
	return rw.read(e)
}

func (rw *rewriter) block(b *ast.BlockStmt) {
	if b == nil {
		return
	}
	for i, s := range b.List {
		b.List[i] = rw.stmt(s)
	}
}

func (rw *rewriter) stmt(s ast.Stmt) ast.Stmt {
	switch s := s.(type) {
	case nil:
		return nil
	case *ast.ExprStmt:
		if ctx := rw.doneReceive(s.X); ctx != nil {
			rw.rep.ByCategory["await-done"]++
			s.X = rw.call("AwaitDone", rw.read(ctx))
			return s
		}
		s.X = rw.read(s.X)
	case *ast.AssignStmt:
		for i, r := range s.Rhs {
			s.Rhs[i] = rw.read(r)
		}
		if s.Tok == token.DEFINE {
			for _, l := range s.Lhs {
				if id, ok := l.(*ast.Ident); ok && rw.info.Defs[id] == nil && id.Name != "_" {
					if v, ok := rw.info.Uses[id].(*types.Var); ok && (rw.captured[v] || (v.Pkg() != nil && v.Parent() == v.Pkg().Scope())) {
						rw.skip(":= re-assigns a shared variable: write not hooked")
					}
				}
			}
		} else {
			for i, l := range s.Lhs {
				s.Lhs[i] = rw.write(l)
			}
		}
	case *ast.IncDecStmt:
		s.X = rw.write(s.X)
	case *ast.DeclStmt:
		if gd, ok := s.Decl.(*ast.GenDecl); ok && gd.Tok == token.VAR {
			for _, sp := range gd.Specs {
				vs := sp.(*ast.ValueSpec)
				for i, v := range vs.Values {
					vs.Values[i] = rw.read(v)
				}
			}
		}
	case *ast.ReturnStmt:
		for i, r := range s.Results {
			s.Results[i] = rw.read(r)
		}
	case *ast.SendStmt:
		s.Chan = rw.read(s.Chan)
		s.Value = rw.read(s.Value)
	case *ast.GoStmt:
		if fl, ok := s.Call.Fun.(*ast.FuncLit); ok && len(s.Call.Args) == 0 {
			rw.read(fl)
			return &ast.ExprStmt{X: rw.call("Go", fl)}
		}
		rw.skip("go statement with arguments: goroutine not under the scheduler")
		if ce, ok := rw.callExpr(s.Call).(*ast.CallExpr); ok {
			s.Call = ce
		}
	case *ast.DeferStmt:
		if ce, ok := rw.callExpr(s.Call).(*ast.CallExpr); ok {
			s.Call = ce
		}
	case *ast.BlockStmt:
		rw.block(s)
	case *ast.IfStmt:
		s.Init = rw.stmt(s.Init)
		s.Cond = rw.read(s.Cond)
		rw.block(s.Body)
		if s.Else != nil {
			s.Else = rw.stmt(s.Else)
		}
	case *ast.ForStmt:
		s.Init = rw.stmt(s.Init)
		if s.Cond != nil {
			s.Cond = rw.read(s.Cond)
		}
		s.Post = rw.stmt(s.Post)
		rw.block(s.Body)
	case *ast.RangeStmt:
		switch under(rw.typeOf(s.X)).(type) {
		case *types.Map:
			cat := ""
			if !rw.cfg.NoAccessHooks {
				cat = rw.through(s.X)
			}
			orig := rw.copyForSite(s.X)
			s.X = rw.read(s.X)
			if cat != "" {
				s.X = rw.hookMap(orig, s.X, false, cat)
			}
		case *types.Slice:
			if rw.shared(s.X) != "" {
				rw.skip("range over shared slice: element reads not hooked")
			}
			s.X = rw.read(s.X)
		default:
			s.X = rw.read(s.X)
		}
		if s.Tok == token.ASSIGN {
			if s.Key != nil {
				s.Key = rw.write(s.Key)
			}
			if s.Value != nil {
				s.Value = rw.write(s.Value)
			}
		}
		rw.block(s.Body)
	case *ast.SwitchStmt:
		s.Init = rw.stmt(s.Init)
		if s.Tag != nil {
			s.Tag = rw.read(s.Tag)
		}
		rw.block(s.Body)
	case *ast.TypeSwitchStmt:
		s.Init = rw.stmt(s.Init)
		switch a := s.Assign.(type) {
		case *ast.ExprStmt:
			if ta, ok := a.X.(*ast.TypeAssertExpr); ok {
				ta.X = rw.read(ta.X)
			}
		case *ast.AssignStmt:
			if ta, ok := a.Rhs[0].(*ast.TypeAssertExpr); ok {
				ta.X = rw.read(ta.X)
			}
		}
		rw.block(s.Body)
	case *ast.CaseClause:
		for i, e := range s.List {
			s.List[i] = rw.read(e)
		}
		for i, st := range s.Body {
			s.Body[i] = rw.stmt(st)
		}
	case *ast.SelectStmt:
		rw.block(s.Body)
	case *ast.CommClause:
		if es, ok := s.Comm.(*ast.ExprStmt); ok {
			// a receive used as a select case stays a channel operation
			if rw.doneReceive(es.X) != nil {
				rw.skip("select case <-ctx.Done(): not under the scheduler")
			}
			es.X = rw.read(es.X)
		} else {
			s.Comm = rw.stmt(s.Comm)
		}
		for i, st := range s.Body {
			s.Body[i] = rw.stmt(st)
		}
	case *ast.LabeledStmt:
		s.Stmt = rw.stmt(s.Stmt)
	}
	return s
}

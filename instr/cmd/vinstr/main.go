// vinstr runs the instrumenter by hand: vinstr -out DIR [-deep] [-dir CWD] pkg...
// It prints the report (hooks by category, what was not hooked) and leaves DIR/overlay.json.
package main

import (
	"encoding/json"
	"flag"
	"fmt"
	"os"
	"path/filepath"
	"sort"

	"verif/core"
	"verif/instr"
	"verif/sched"
)

func main() {
	out := flag.String("out", "", "output directory")
	deep := flag.Bool("deep", false, "hook every access through a pointer")
	dir := flag.String("dir", core.Root(), "directory to run go list in")
	sites := flag.Bool("sites", false, "print every hooked site")
	base := flag.String("base", "", "base overlay (mutations, patches)")
	flag.Parse()
	if *out == "" || flag.NArg() == 0 {
		flag.Usage()
		os.Exit(2)
	}
	cfg := instr.Config{
		Targets: []instr.Target{{Dir: *dir, Patterns: flag.Args(), Root: core.RepoDir()}},
		OutDir:  *out, VrtImport: sched.VrtImport, VrtDir: filepath.Join(core.RepoDir(), "pkg", "vrt"),
		VrtSrc: filepath.Join(core.Root(), "sched", "vrt"), Tags: []string{"verif"}, Deep: *deep, BaseOverlay: *base,
	}
	rep, err := instr.Run(cfg)
	if err != nil {
		fmt.Fprintln(os.Stderr, "HARNESS-ERROR instrumenter:", err)
		os.Exit(2)
	}
	b, _ := json.MarshalIndent(rep, "", " ")
	fmt.Println(string(b))
	if *sites {
		sort.Strings(rep.Sites)
		for _, s := range rep.Sites {
			fmt.Println(s)
		}
	}
}

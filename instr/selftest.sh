#!/bin/sh
# Self-test of the source instrumenter (E4): deep-instrument (nearly) every goa package from
# /repo's working tree, compile the result, and run goa's OWN tests of the runtime and core
# packages against the instrumented sources (no exploration active, so every hook and shim must
# be transparent). /repo is only read; the overlay lives under /tmp/instr-selftest (removed).
cd "$(dirname "$0")/.." || exit 2
export GOFLAGS=-mod=mod GOPROXY=off GOSUMDB=off GOTOOLCHAIN=local
S=/tmp/instr-selftest; rm -rf "$S"
M=goa.design/goa/v3
P="$M/pkg $M/http/... $M/grpc/... $M/middleware/... $M/eval $M/expr $M/codegen/... $M/dsl $M/security $M/cmd/goa"
go run ./instr/cmd/vinstr -deep -out "$S" $P > "$S.report" 2>&1 || { cat "$S.report"; rm -rf "$S" "$S.report"; exit 2; }
grep -E '"(files|hooks)"' "$S.report"
go build -overlay "$S/overlay.json" $P || { echo "FAIL: instrumented goa does not compile"; rm -rf "$S" "$S.report"; exit 1; }
echo "instrumented tree compiles"
(cd /repo && GOFLAGS=-mod=readonly go test -overlay="$S/overlay.json" -vet=off -count=1 ./pkg/ ./http/ ./http/middleware/ ./middleware/ ./eval/ ./expr/ ./grpc/middleware/ ./codegen/ ./codegen/service/ ./dsl/)
rc=$?
rm -rf "$S" "$S.report"
[ $rc = 0 ] && echo "goa's own tests pass on the instrumented sources" || echo "FAIL: goa's tests fail on the instrumented sources"
exit $rc

#!/bin/sh
# Demonstrates detection for the scheduler checks (C20 family A and the C17 schedules).
#
# usage: checks/c20/selftest.sh [-gotest] [name-substring]
#
# For every checks/c20/mutants/*.diff: copy the touched goa file from /repo's working tree to a
# scratch directory under /tmp/c20-selftest (removed at the end), apply the mutation there,
# hand it to the check through VERIF_OVERLAY (an overlay.json; /repo is never modified) and
# compare the violation signatures with those of the unmutated tree:
#   "# expect: <text>"        a NEW signature containing <text> must be reported
#   "# expect: none"          BENIGN mutant: the signature set must not change
#   "# expect: fixes <text>"  the signatures containing <text> must disappear, nothing else changes
# "TIER=thorough" / "ONLY=<scenario text>" in the "# mutant:" line select the tier and restrict
# the run to matching scenarios (VERIF_SCHED_ONLY) for mutants only the thorough tier can see.
# With -gotest the mutated tree must also keep goa's own tests of the touched package green
# (scratch copy of /repo under /tmp).
cd "$(dirname "$0")/../.." || exit 2
export GOFLAGS=-mod=mod GOPROXY=off GOSUMDB=off GOTOOLCHAIN=local
gotest=0
if [ "$1" = "-gotest" ]; then gotest=1; shift; fi
filter="$1"
S=/tmp/c20-selftest
rm -rf "$S"; mkdir -p "$S" bin
go build -tags verif -o bin/c20 ./cmd/c20 || exit 2
go build -tags verif -o bin/c17sched ./checks/c17sched/cmd/c17sched || exit 2
# replay files written while mutants are applied must not stay behind
mkdir -p replays/C20 replays/C17
(cd replays && ls C20/* C17/* 2>/dev/null | sort) > "$S/replays.before"
cleanup_replays() { (cd replays && ls C20/* C17/* 2>/dev/null | sort | comm -13 "$S/replays.before" - | xargs -r rm -f); }
sigs() { grep '^  signature: ' | sed 's/^  signature: //' | sort -u; }
# (family A only: VERIF_C20_FAMILIES=A; family B has its own self-test in checks/c20b)
run() { # $1 = c20|c17sched  $2 = overlay or ""  $3 = tier  $4 = scenario filter
  VERIF_C20_FAMILIES=A VERIF_OVERLAY="$2" VERIF_SCHED_ONLY="$4" ./bin/$1 --tier "${3:-quick}" --no-evidence 2>&1
}
run c20 "" > "$S/base.c20.out"; sigs < "$S/base.c20.out" > "$S/base.c20.sigs"
run c17sched "" > "$S/base.c17sched.out"; sigs < "$S/base.c17sched.out" > "$S/base.c17sched.sigs"
if grep -q HARNESS-ERROR "$S/base.c20.out" "$S/base.c17sched.out"; then echo "baseline run has a harness error"; cat "$S"/base.*.out | grep HARNESS; exit 2; fi
echo "baseline signatures (unmutated tree): c20=$(wc -l < "$S/base.c20.sigs") c17sched=$(wc -l < "$S/base.c17sched.sigs")"
fail=0
for m in checks/c20/mutants/*.diff; do
  name=$(basename "$m" .diff)
  case "$name" in *"$filter"*) ;; *) continue;; esac
  expect=$(sed -n 's/^# expect: //p' "$m")
  file=$(sed -n 's#^--- a/##p' "$m")
  d="$S/$name"; mkdir -p "$d/$(dirname "$file")"
  cp "/repo/$file" "$d/$file"
  (cd "$d" && patch -s -p1 < "$OLDPWD/$m") || { echo "FAIL $name: mutant does not apply to the current tree"; fail=1; continue; }
  printf '{"Replace":{"/repo/%s":"%s/%s"}}\n' "$file" "$d" "$file" > "$d/overlay.json"
  checks="c20"
  case "$name" in c17-*) checks="c20 c17sched";; esac
  doc=$(sed -n 's/^# mutant: //p' "$m")
  tier=quick; only=""
  case "$doc" in *TIER=thorough*) tier=thorough;; esac
  case "$doc" in *ONLY=*) only=$(echo "$doc" | sed 's/.*ONLY=\([^ ]*\).*/\1/');; esac
  for chk in $checks; do
    run $chk "$d/overlay.json" $tier "$only" > "$d/$chk.out"; sigs < "$d/$chk.out" > "$d/$chk.sigs"
    new=$(comm -13 "$S/base.$chk.sigs" "$d/$chk.sigs"); gone=$(comm -23 "$S/base.$chk.sigs" "$d/$chk.sigs")
    if grep -q HARNESS-ERROR "$d/$chk.out"; then echo "FAIL $name [$chk]: harness error"; grep HARNESS-ERROR "$d/$chk.out" | cut -c1-300; fail=1; continue; fi
    case "$expect" in
      none)
        if [ -z "$new" ] && [ -z "$gone" ]; then echo "ok   $name [$chk]: benign, no alarm"; else echo "FAIL $name [$chk]: benign mutant changed the verdict: +[$new] -[$gone]"; fail=1; fi;;
      fixes\ *)
        t=${expect#fixes }
        if [ -z "$new" ] && [ -n "$gone" ] && ! echo "$gone" | grep -qv "$t" && ! grep -q "$t" "$d/$chk.sigs"; then echo "ok   $name [$chk]: removes $(echo "$gone" | wc -l) signature(s) '$t', no new alarm"
        elif [ -z "$new" ] && ! grep -q "$t" "$S/base.$chk.sigs"; then echo "ok   $name [$chk]: nothing to fix in this check, no alarm"
        else echo "FAIL $name [$chk]: +[$new] -[$gone]"; fail=1; fi;;
      *)
        if echo "$new" | grep -q "$expect"; then echo "ok   $name [$chk]: DETECTED: $(echo "$new" | grep "$expect" | head -1 | cut -c1-160)  (+$(echo "$new" | wc -l) new signature(s))"
        else echo "FAIL $name [$chk]: expected a new signature containing '$expect', got: [$new]"; fail=1; fi;;
    esac
  done
  if [ $gotest = 1 ]; then
    r="$S/repo-$name"; rsync -a --exclude .git /repo/ "$r/" && (cd "$r" && patch -s -p1 < "$OLDPWD/$m" && go test -vet=off -count=1 "./$(dirname "$file")/" > "$d/gotest.out" 2>&1) \
      && echo "     $name: goa's own tests of ./$(dirname "$file") still pass" || { echo "     $name: NOTE goa's own tests fail with this mutant"; tail -5 "$d/gotest.out"; }
    rm -rf "$r"
  fi
done
cleanup_replays
rm -rf "$S"
exit $fail

//go:build verifworker

// Package scen holds the C20 FAMILY A scenarios: the runtime helpers that every generated
// server shares between its in-flight requests, driven directly by 2-3 virtual threads under
// the controlled scheduler. Compiled only into worker binaries (overlay build).
//
// Alphabet (operations, each on the REAL goa code):
//   - the closure returned by goahttp.ErrorEncoder (formatter nil / non-nil) on distinct errors
//   - goahttp.ResponseEncoder with distinct Accept / Content-Type context values, per-thread recorders
//   - Muxer.ServeHTTP + Vars + ResolvePattern on colliding, distinct and catch-all patterns,
//     with and without the RequestID / Trace middlewares, on a muxer built single-threaded;
//     concurrent Handle/Use (the purpose of mux.mu)
//   - goa.ValidatePattern (the C17 scenarios are linked into the same worker)
//   - middleware adaptive sampler Sample() around the sample-size rollover, fixed sampler
//   - goa.MergeErrors on per-thread errors
//
// Bound: 2-3 threads x 1-2 operations; every schedule with <= 2 preemptions (thorough: 3 for two
// threads). Oracle: happens-before race oracle on every instrumented access of pkg, http,
// http/middleware, middleware; differential per-thread oracle (status, headers, body modulo
// error ID must equal the thread's result when run alone on a fresh instance); no deadlock.
package scen

import (
	"context"
	"encoding/json"
	"errors"
	"fmt"
	"net/http"
	"net/http/httptest"
	"os"
	"regexp"
	"sort"
	"strings"

	goahttp "goa.design/goa/v3/http"
	httpmw "goa.design/goa/v3/http/middleware"
	"goa.design/goa/v3/middleware"
	goa "goa.design/goa/v3/pkg"
	"goa.design/goa/v3/pkg/vrt"
)

var idJSON = regexp.MustCompile(`"id":"[^"]*"`)
var idXML = regexp.MustCompile(`<id>[^<]*</id>`)

// observe renders a recorded response: status, sorted headers, body with the random error ID
// masked (the property allows it to differ).
func observe(rec *httptest.ResponseRecorder, err error) string {
	var hs []string
	for k, v := range rec.Header() {
		hs = append(hs, k+"="+strings.Join(v, ","))
	}
	sort.Strings(hs)
	body := rec.Body.String()
	body = idJSON.ReplaceAllString(body, `"id":"*"`)
	body = idXML.ReplaceAllString(body, `<id>*</id>`)
	if strings.Contains(rec.Header().Get("Content-Type"), "gob") {
		body = fmt.Sprintf("gob[%d bytes]", len(body))
	}
	s := fmt.Sprintf("%d [%s] %s", rec.Code, strings.Join(hs, "; "), strings.TrimSpace(body))
	if err != nil {
		s += " err=" + err.Error()
	}
	return s
}

// ---- ErrorEncoder ---------------------------------------------------------------------

type customStatus struct {
	Msg  string `json:"msg" xml:"msg"`
	Code int    `json:"code" xml:"code"`
}

func (c *customStatus) StatusCode() int { return c.Code }

type errEnv struct {
	enc func(context.Context, http.ResponseWriter, error) error
}

func mkErr(k string) error {
	switch k {
	case "permanent":
		return goa.PermanentError("bad_request", "first is bad")
	case "fault":
		return goa.Fault("second exploded")
	case "plain":
		return errors.New("third is plain")
	case "timeout":
		return goa.TemporaryTimeoutError("slow", "fourth timed out")
	}
	return goa.InvalidPatternError("name", "v-"+k, "^p$")
}

func encodeErr(accept string, kinds ...string) func(any) any {
	return func(env any) any {
		e := env.(*errEnv)
		var out []string
		for _, k := range kinds {
			rec := httptest.NewRecorder()
			ctx := context.WithValue(context.Background(), goahttp.AcceptTypeKey, accept)
			err := e.enc(ctx, rec, mkErr(k))
			out = append(out, observe(rec, err))
		}
		return strings.Join(out, " ;; ")
	}
}

func errorEncoderScenario(name, doc string, custom bool, accepts []string, threads ...[]string) vrt.Scenario {
	sc := vrt.Scenario{Name: name, Doc: doc, Family: "c20A"}
	sc.Setup = func() any {
		// exactly what the generated server does once per handler: one closure for all requests
		var formatter func(ctx context.Context, err error) goahttp.Statuser
		if custom {
			formatter = func(_ context.Context, err error) goahttp.Statuser {
				return &customStatus{Msg: "custom:" + err.Error(), Code: 418}
			}
		}
		return &errEnv{enc: goahttp.ErrorEncoder(goahttp.ResponseEncoder, formatter)}
	}
	for i, kinds := range threads {
		sc.Threads = append(sc.Threads, encodeErr(accepts[i%len(accepts)], kinds...))
		sc.Labels = append(sc.Labels, "ErrorEncoder("+strings.Join(kinds, "+")+","+accepts[i%len(accepts)]+")")
	}
	return sc
}

// ---- ResponseEncoder ------------------------------------------------------------------

type payload struct {
	A string `json:"a" xml:"a"`
	N int    `json:"n" xml:"n"`
}

type encOp struct {
	accept, ct string
	text       bool
	val        string
}

func encodeResp(ops ...encOp) func(any) any {
	return func(any) any {
		var out []string
		for i, op := range ops {
			rec := httptest.NewRecorder()
			ctx := context.WithValue(context.Background(), goahttp.AcceptTypeKey, op.accept)
			if op.ct != "" {
				ctx = context.WithValue(ctx, goahttp.ContentTypeKey, op.ct)
			}
			enc := goahttp.ResponseEncoder(ctx, rec)
			var err error
			if op.text {
				err = enc.Encode(op.val)
			} else {
				err = enc.Encode(&payload{A: op.val, N: i})
			}
			out = append(out, observe(rec, err))
		}
		return strings.Join(out, " ;; ")
	}
}

func responseEncoderScenario(name, doc string, threads ...[]encOp) vrt.Scenario {
	sc := vrt.Scenario{Name: name, Doc: doc, Family: "c20A", Setup: func() any { return nil }}
	for _, ops := range threads {
		sc.Threads = append(sc.Threads, encodeResp(ops...))
		var l []string
		for _, op := range ops {
			s := "accept=" + op.accept
			if op.ct != "" {
				s += ",ct=" + op.ct
			}
			l = append(l, s)
		}
		sc.Labels = append(sc.Labels, "ResponseEncoder("+strings.Join(l, "+")+")")
	}
	return sc
}

// ---- Muxer ----------------------------------------------------------------------------

type muxEnv struct {
	mux goahttp.ResolverMuxer
}

type muxOpts struct {
	middlewares bool
	validate    bool // the handler validates the path variable with ValidatePattern and answers through the shared ErrorEncoder
}

func buildMux(o muxOpts) *muxEnv {
	goa.VerifResetPatterns()
	middleware.VerifSetIntn(func(int) int { return 0 })
	m := goahttp.NewMuxer()
	e := &muxEnv{mux: m}
	if o.middlewares {
		m.Use(httpmw.RequestID(httpmw.UseXRequestIDHeaderOption(true), httpmw.XRequestHeaderLimitOption(16)))
		m.Use(httpmw.Trace(httpmw.MaxSamplingRate(1), httpmw.SampleSize(2),
			httpmw.TraceIDFunc(func() string { return "generated-trace" }), httpmw.SpanIDFunc(func() string { return "generated-span" })))
	}
	encodeError := goahttp.ErrorEncoder(goahttp.ResponseEncoder, nil)
	echo := func(tag string) http.HandlerFunc {
		return func(w http.ResponseWriter, r *http.Request) {
			vars := m.Vars(r)
			var ks []string
			for k, v := range vars {
				ks = append(ks, k+"="+v)
			}
			sort.Strings(ks)
			ctx := context.WithValue(r.Context(), goahttp.AcceptTypeKey, r.Header.Get("Accept"))
			if o.validate {
				if err := goa.ValidatePattern("id", vars["id"], `^[0-9]+$`); err != nil {
					_ = encodeError(ctx, w, err)
					return
				}
			}
			res := map[string]any{"handler": tag, "vars": ks, "pattern": m.ResolvePattern(r)}
			if o.middlewares {
				res["request_id"] = r.Context().Value(middleware.RequestIDKey)
				res["trace_id"] = r.Context().Value(middleware.TraceIDKey)
				res["parent_span"] = r.Context().Value(middleware.TraceParentSpanIDKey)
			}
			_ = goahttp.ResponseEncoder(ctx, w).Encode(res)
		}
	}
	m.Handle("GET", "/users/{id}", echo("get-user"))
	m.Handle("POST", "/users/{id}", echo("post-user"))
	m.Handle("GET", "/users/{id}/posts/{pid}", echo("get-post"))
	m.Handle("GET", "/files/{*path}", echo("get-file"))
	m.Handle("PUT", "/files/{*where}", echo("put-file"))
	m.Handle("GET", "/static", echo("static"))
	return e
}

type reqSpec struct {
	method, path, accept, reqID, traceID string
}

func serve(reqs ...reqSpec) func(any) any {
	return func(env any) any {
		e := env.(*muxEnv)
		var out []string
		for _, rs := range reqs {
			r := httptest.NewRequest(rs.method, rs.path, nil)
			if rs.accept != "" {
				r.Header.Set("Accept", rs.accept)
			}
			if rs.reqID != "" {
				r.Header.Set("X-Request-Id", rs.reqID)
			}
			if rs.traceID != "" {
				r.Header.Set(httpmw.TraceIDHeader, rs.traceID)
				r.Header.Set(httpmw.ParentSpanIDHeader, "parent-of-"+rs.traceID)
			}
			rec := httptest.NewRecorder()
			e.mux.ServeHTTP(rec, r)
			out = append(out, observe(rec, nil))
		}
		return strings.Join(out, " ;; ")
	}
}

func muxScenario(name, doc string, o muxOpts, threads ...[]reqSpec) vrt.Scenario {
	sc := vrt.Scenario{Name: name, Doc: doc, Family: "c20A", Setup: func() any { return buildMux(o) }}
	for _, reqs := range threads {
		sc.Threads = append(sc.Threads, serve(reqs...))
		var l []string
		for _, r := range reqs {
			l = append(l, r.method+" "+r.path)
		}
		sc.Labels = append(sc.Labels, "ServeHTTP("+strings.Join(l, "+")+")")
	}
	return sc
}

// concurrent mounting: what mux.mu is there for
func mountScenarios() []vrt.Scenario {
	type env struct {
		m     goahttp.ResolverMuxer
		trail *[]string
	}
	h := func(w http.ResponseWriter, r *http.Request) { w.WriteHeader(204) }
	probe := func(m goahttp.ResolverMuxer, method, path string) string {
		rec := httptest.NewRecorder()
		m.ServeHTTP(rec, httptest.NewRequest(method, path, nil))
		return fmt.Sprint(rec.Code)
	}
	handle := vrt.Scenario{Name: "c20A/mux-mount-concurrently", Family: "c20A", Shared: true,
		Doc:    "two services mount their routes (catch-alls included) on one muxer at the same time: the tables guarded by mux.mu",
		Labels: []string{"Handle(/a/{*rest})+Handle(/a2)", "Handle(/b/{*tail})+Handle(/b2/{id})"},
		Setup:  func() any { return &env{m: goahttp.NewMuxer()} },
		Threads: []func(any) any{
			func(e any) any {
				m := e.(*env).m
				m.Handle("GET", "/a/{*rest}", h)
				m.Handle("GET", "/a2", h)
				return nil
			},
			func(e any) any {
				m := e.(*env).m
				m.Handle("GET", "/b/{*tail}", h)
				m.Handle("GET", "/b2/{id}", h)
				return nil
			},
		},
		Check: func(e any, _ []any) string {
			m := e.(*env).m
			got := probe(m, "GET", "/a/x/y") + probe(m, "GET", "/a2") + probe(m, "GET", "/b/z") + probe(m, "GET", "/b2/7") + probe(m, "GET", "/nope")
			if got != "204204204204404" {
				return "mount-lost: routes answer " + got + ", want 204204204204404"
			}
			return ""
		}}
	mw := func(tag string, trail *[]string) func(http.Handler) http.Handler {
		return func(next http.Handler) http.Handler {
			return http.HandlerFunc(func(w http.ResponseWriter, r *http.Request) {
				*trail = append(*trail, tag)
				next.ServeHTTP(w, r)
			})
		}
	}
	use := vrt.Scenario{Name: "c20A/mux-use-concurrently", Family: "c20A", Shared: true,
		Doc:    "two goroutines register middlewares before the first Handle: the pending middleware list guarded by mux.mu",
		Labels: []string{"Use(mwA)", "Use(mwB)"},
		Setup: func() any {
			var trail []string
			return &env{m: goahttp.NewMuxer(), trail: &trail}
		},
		Threads: []func(any) any{
			func(e any) any { e.(*env).m.Use(mw("A", e.(*env).trail)); return nil },
			func(e any) any { e.(*env).m.Use(mw("B", e.(*env).trail)); return nil },
		},
		Check: func(e any, _ []any) string {
			en := e.(*env)
			en.m.Handle("GET", "/x", h)
			if c := probe(en.m, "GET", "/x"); c != "204" {
				return "use-broken: status " + c
			}
			t := append([]string{}, (*en.trail)...)
			sort.Strings(t)
			if strings.Join(t, "") != "AB" {
				return fmt.Sprintf("middleware-lost: request passed through %v, want A and B", *en.trail)
			}
			return ""
		}}
	return []vrt.Scenario{handle, use}
}

// ---- pre-routing middleware ---------------------------------------------------------------

// A middleware mounted with Use runs BEFORE chi routes the request; Vars and ResolvePattern
// then match the request on a scratch route context (mux.ensureContext). The middleware records
// what it sees before and after calling next, the handler what it sees once routed.
func preRoutingMux() *muxEnv {
	m := goahttp.NewMuxer()
	e := &muxEnv{mux: m}
	show := func(vars map[string]string) string {
		var ks []string
		for k, v := range vars {
			ks = append(ks, k+"="+v)
		}
		sort.Strings(ks)
		return strings.Join(ks, ",")
	}
	m.Use(func(next http.Handler) http.Handler {
		return http.HandlerFunc(func(w http.ResponseWriter, r *http.Request) {
			w.Header().Set("X-Mw-Before", "vars["+show(m.Vars(r))+"] pattern["+m.ResolvePattern(r)+"]")
			next.ServeHTTP(w, r)
		})
	})
	h := func(tag string) http.HandlerFunc {
		return func(w http.ResponseWriter, r *http.Request) {
			w.Header().Set("X-Handler", tag+" vars["+show(m.Vars(r))+"] pattern["+m.ResolvePattern(r)+"]")
			w.WriteHeader(http.StatusOK)
		}
	}
	m.Handle("GET", "/t/{tenant}/items/{id}", h("item"))
	m.Handle("GET", "/files/{*rest}", h("file"))
	m.Handle("PUT", "/files/{*where}", h("put-file"))
	return e
}

func preRoutingScenario(name, doc string, threads ...[]reqSpec) vrt.Scenario {
	sc := vrt.Scenario{Name: name, Doc: doc, Family: "c20A", Setup: func() any { return preRoutingMux() }}
	for _, reqs := range threads {
		sc.Threads = append(sc.Threads, serve(reqs...))
		var l []string
		for _, r := range reqs {
			l = append(l, r.method+" "+r.path)
		}
		sc.Labels = append(sc.Labels, "ServeHTTP(mw:Vars+ResolvePattern; "+strings.Join(l, "+")+")")
	}
	return sc
}

// ---- samplers -------------------------------------------------------------------------

type samplerEnv struct{ s middleware.Sampler }

func sample(n int) func(any) any {
	return func(env any) any {
		s := env.(*samplerEnv).s
		var out []string
		for i := 0; i < n; i++ {
			out = append(out, fmt.Sprint(s.Sample()))
		}
		return strings.Join(out, ",")
	}
}

func adaptiveScenario(name string, size int, calls ...int) vrt.Scenario {
	sc := vrt.Scenario{Name: name, Family: "c20A", Shared: true,
		Doc: fmt.Sprintf("adaptive sampler with sample size %d shared by all threads, calls cross the rollover (counter reset, rate recomputed under the mutex, virtual clock); "+
			"results legitimately depend on the other threads, so only races, deadlocks and panics are judged", size),
		Setup: func() any {
			middleware.VerifSetIntn(func(int) int { return 9999 }) // sampled only while the rate is at its upper bound
			return &samplerEnv{s: middleware.NewAdaptiveSampler(1, size)}
		},
		Check: func(env any, res []any) string {
			for _, r := range res {
				for _, v := range strings.Split(r.(string), ",") {
					if v != "true" && v != "false" {
						return "sampler-result: " + v
					}
				}
			}
			return ""
		},
		Classify: func(env any, res []any) string {
			c, r, _ := middleware.VerifSamplerState(env.(*samplerEnv).s)
			return fmt.Sprintf("counter=%d lastRate=%d", c, r)
		}}
	for _, n := range calls {
		sc.Threads = append(sc.Threads, sample(n))
		sc.Labels = append(sc.Labels, fmt.Sprintf("Sample()x%d", n))
	}
	return sc
}

func fixedScenario() vrt.Scenario {
	return vrt.Scenario{Name: "c20A/sampler-fixed", Family: "c20A",
		Doc: "fixed samplers are values: concurrent Sample() calls share only the random source variable",
		Setup: func() any {
			middleware.VerifSetIntn(func(n int) int { return 42 % n })
			return &samplerEnv{s: middleware.NewFixedSampler(50)}
		},
		Labels: []string{"Sample()x2", "Sample()x1", "Sample()x1"},
		Threads: []func(any) any{sample(2), sample(1), func(any) any {
			return fmt.Sprint(middleware.NewFixedSampler(30).Sample())
		}}}
}

// ---- MergeErrors ----------------------------------------------------------------------

func mergeBody(tag string, n int) func(any) any {
	return func(any) any {
		var err error
		for i := 0; i < n; i++ {
			var next error
			switch i % 3 {
			case 0:
				next = goa.MissingFieldError(tag+"-f", "body")
			case 1:
				next = errors.New(tag + "-plain")
			default:
				next = goa.TemporaryError(tag+"-tmp", "try %s again", tag)
			}
			err = goa.MergeErrors(err, next)
		}
		var se *goa.ServiceError
		if !errors.As(err, &se) {
			return "not a service error"
		}
		var hist []string
		for _, h := range se.History() {
			hist = append(hist, h.Name+":"+h.Message)
		}
		b, _ := json.Marshal(map[string]any{"name": se.Name, "msg": se.Message, "flags": []bool{se.Timeout, se.Temporary, se.Fault}, "history": hist})
		return string(b)
	}
}

func mergeScenario() vrt.Scenario {
	return vrt.Scenario{Name: "c20A/merge-errors", Family: "c20A", Setup: func() any { return nil },
		Doc:     "every thread merges its own validation errors (what generated decoders do per request)",
		Labels:  []string{"MergeErrors(x3)", "MergeErrors(x2)", "MergeErrors(x3)"},
		Threads: []func(any) any{mergeBody("one", 3), mergeBody("two", 2), mergeBody("three", 3)}}
}

// Scenarios returns family A.
func Scenarios() []vrt.Scenario {
	// a worker asked to explore one scenario of the request matrix builds just that one (the
	// matrix has > 15000 entries and a worker process is started per scenario)
	for i, a := range os.Args {
		if (a == "-scenario" || a == "--scenario") && i+1 < len(os.Args) {
			if sc, ok := matrixByName(os.Args[i+1]); ok {
				return []vrt.Scenario{sc}
			}
		}
	}
	js, xm := "application/json", "application/xml"
	thorough := func(s vrt.Scenario) vrt.Scenario { s.ThoroughOnly = true; return s }
	thoroughBound2 := func(s vrt.Scenario) vrt.Scenario {
		s.ThoroughOnly, s.ThoroughBound, s.NoThoroughComplete = true, 2, true
		return s
	}
	out := []vrt.Scenario{
		errorEncoderScenario("c20A/error-encoder-nil-formatter-2t", "two error responses through the one closure a handler owns, default formatter", false,
			[]string{js}, []string{"permanent"}, []string{"fault"}),
		errorEncoderScenario("c20A/error-encoder-nil-formatter-3t", "three error responses, json and xml, default formatter", false,
			[]string{js, xm}, []string{"permanent"}, []string{"plain"}, []string{"timeout"}),
		errorEncoderScenario("c20A/error-encoder-nil-formatter-2calls", "two threads, two error responses each", false,
			[]string{js, xm}, []string{"permanent", "fault"}, []string{"plain", "timeout"}),
		errorEncoderScenario("c20A/error-encoder-custom-formatter", "user supplied formatter", true,
			[]string{js, xm}, []string{"permanent"}, []string{"fault"}, []string{"plain"}),

		responseEncoderScenario("c20A/response-encoder-accept", "distinct Accept headers on per-thread recorders",
			[]encOp{{accept: js, val: "one"}}, []encOp{{accept: xm, val: "two"}}, []encOp{{accept: "text/plain", text: true, val: "three"}}),
		responseEncoderScenario("c20A/response-encoder-negotiation", "Accept with parameters, unknown types, explicit content types, two encodings per thread",
			[]encOp{{accept: "application/xml; q=0.9", val: "a"}, {accept: "image/png", val: "b"}},
			[]encOp{{accept: js, ct: "application/vnd.goa.thing+xml", val: "c"}, {accept: "application/gob", val: "d"}}),

		muxScenario("c20A/mux-colliding-pattern", "two requests matching the same pattern with different values", muxOpts{},
			[]reqSpec{{method: "GET", path: "/users/1"}}, []reqSpec{{method: "GET", path: "/users/2"}}),
		muxScenario("c20A/mux-catchall-and-methods", "catch-all patterns with different wildcard names per method, nested pattern, not-found", muxOpts{},
			[]reqSpec{{method: "GET", path: "/files/a/b.txt"}, {method: "GET", path: "/nowhere", accept: xm}},
			[]reqSpec{{method: "PUT", path: "/files/c/d"}, {method: "GET", path: "/users/7/posts/9"}}),
		muxScenario("c20A/mux-3t", "three requests: same pattern, other method, catch-all", muxOpts{},
			[]reqSpec{{method: "GET", path: "/users/1"}}, []reqSpec{{method: "POST", path: "/users/2"}}, []reqSpec{{method: "GET", path: "/files/x/y/z"}}),
		muxScenario("c20A/mux-middlewares", "RequestID and Trace middlewares (shared adaptive sampler) in front of the handlers", muxOpts{middlewares: true},
			[]reqSpec{{method: "GET", path: "/users/1", reqID: "rid-one"}, {method: "GET", path: "/static", reqID: "rid-three"}},
			[]reqSpec{{method: "GET", path: "/users/2", reqID: "rid-two-is-longer-than-the-limit", traceID: "trace-two"}}),
		muxScenario("c20A/request-pipeline", "mux -> Vars -> ValidatePattern -> ResponseEncoder or the shared ErrorEncoder: a valid and an invalid request in flight", muxOpts{validate: true},
			[]reqSpec{{method: "GET", path: "/users/42"}}, []reqSpec{{method: "GET", path: "/users/abc", accept: xm}}),
		thorough(muxScenario("c20A/request-pipeline-3t", "valid, invalid and not-found requests in flight", muxOpts{validate: true},
			[]reqSpec{{method: "GET", path: "/users/42"}}, []reqSpec{{method: "POST", path: "/users/abc"}}, []reqSpec{{method: "GET", path: "/nope"}})),
		adaptiveScenario("c20A/sampler-adaptive-2t", 2, 2, 2),
		adaptiveScenario("c20A/sampler-adaptive-3t", 2, 1, 1, 1),
		thorough(adaptiveScenario("c20A/sampler-adaptive-3t-2calls", 3, 2, 2, 2)),
		fixedScenario(),
		mergeScenario(),

		preRoutingScenario("c20A/mux-prerouting-middleware-params", "a middleware mounted with Use calls Vars / ResolvePattern before chi has routed: two requests on one param pattern, different values",
			[]reqSpec{{method: "GET", path: "/t/acme/items/1"}}, []reqSpec{{method: "GET", path: "/t/globex/items/22"}}),
		preRoutingScenario("c20A/mux-prerouting-middleware-mixed", "pre-routing Vars / ResolvePattern: a param pattern against a catch-all, and a second catch-all with another wildcard name",
			[]reqSpec{{method: "GET", path: "/t/acme/items/1"}, {method: "PUT", path: "/files/up/load.bin"}}, []reqSpec{{method: "GET", path: "/files/dir1/file15.txt"}}),
		thorough(preRoutingScenario("c20A/mux-prerouting-middleware-3t", "pre-routing Vars / ResolvePattern, three requests in flight",
			[]reqSpec{{method: "GET", path: "/t/acme/items/1"}}, []reqSpec{{method: "GET", path: "/files/a/b/c"}}, []reqSpec{{method: "GET", path: "/t/initech/items/333"}})),

		// thorough tier only: three threads x two operations, mixed helpers
		thorough(errorEncoderScenario("c20A/error-encoder-nil-formatter-3t-2calls", "three threads, two error responses each, json/xml/plain text negotiation", false,
			[]string{js, xm, "text/plain"}, []string{"permanent", "fault"}, []string{"plain", "timeout"}, []string{"fault", "pattern"})),
		thorough(responseEncoderScenario("c20A/response-encoder-3t-2calls", "three threads, two negotiated encodings each",
			[]encOp{{accept: js, val: "a"}, {accept: xm, val: "b"}},
			[]encOp{{accept: "text/html", text: true, val: "c"}, {accept: js, ct: "application/xml", val: "d"}},
			[]encOp{{accept: "*/*", val: "e"}, {accept: "application/gob", val: "f"}})),
		thoroughBound2(muxScenario("c20A/mux-3t-2calls", "three threads, two requests each over every route shape, middlewares mounted (preemption bound 2)", muxOpts{middlewares: true},
			[]reqSpec{{method: "GET", path: "/users/1", reqID: "r1"}, {method: "GET", path: "/files/a/b", reqID: "r2", traceID: "t2"}},
			[]reqSpec{{method: "POST", path: "/users/x", reqID: "r3", accept: xm}, {method: "GET", path: "/users/5/posts/6", reqID: "r4"}},
			[]reqSpec{{method: "PUT", path: "/files/q", reqID: "r5"}, {method: "GET", path: "/missing", reqID: "r6"}})),
	}
	out = append(out, mountScenarios()...)
	out = append(out, matrixScenarios()...)
	out = append(out, grpcScenarios()...)
	return out
}

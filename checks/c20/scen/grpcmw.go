//go:build verifworker

package scen

// FAMILY G of C20: the gRPC runtime middlewares (goa.design/goa/v3/grpc/middleware) under the
// controlled scheduler, WITHOUT a network: the interceptor functions are called directly, the
// way grpc.ChainStreamInterceptor / ChainUnaryInterceptor nest them, with a fake
// grpc.ServerStream and handlers that either return at once or serve until their context is
// cancelled (vrt.AwaitDone: a blocking scheduler operation, not a channel receive).
//
// Alphabet
//
//	calls      stream call = (method {/svc/Watch, /svc/Tail}, handler {block, return});
//	           unary call  = (method, incoming x-request-id present / absent / over the limit)
//	chains     canceler:  StreamCanceler
//	           full:      StreamRequestID(use + limit) -> StreamServerTrace(100 %) ->
//	                      StreamServerLog(recording logger) -> StreamCanceler
//	           nocancel:  StreamRequestID -> StreamServerTrace -> StreamServerLog
//	           unary:     UnaryRequestID -> UnaryServerTrace -> UnaryServerLog, the handler makes
//	                      an outgoing call through UnaryClientTrace with a fake invoker
//	shutdown   one more thread cancels the context the StreamCanceler was built with (the
//	           canceler's own goroutine -- `go func(){ <-ctx.Done(); ... }()` -- is a daemon
//	           thread of the execution)
//	prefix     none | a stream of the same method that completed before | of the other method
//
// Menus: streams2 = {canceler, full} x 3 prefixes x {same method, different methods} x
// {block||block, block||return, return||return} + shutdown thread + the canceler's goroutine:
// 36 scenarios of 4 threads (quick: 30, the full chain after an other-method prefix is thorough
// only); streams3 = 3 calls + shutdown + goroutine (5 threads), chain canceler: 3; nocancel: 2;
// unary: 4. Bounds (quick / thorough): canceler streams2 <= 2 / <= 3 preemptions and, without
// prefix, all interleavings; full streams2 <= 1 / <= 2; streams3 <= 1 / <= 2; nocancel and unary
// <= 2 / <= 3 and all interleavings for two threads.
//
// Oracle. Scenarios with a shutdown thread use the PROJECTION differential (vrt.Scenario.Env):
// every call's observable -- returned status, what its handler saw in its context (request id,
// trace ids, whether the shutdown had been requested when it was cancelled: "none before"), its
// own log lines, or BLOCKED if it never returns -- must equal the observable of the same call
// alone with the shutdown thread in the same relative order. So a stream that is in flight when
// the canceler sweeps is cancelled whatever its peers do, and a stream the sweep misses alone is
// not held against its peers. The other scenarios use the plain differential oracle (each call
// alone on a fresh chain). Happens-before races, panics and step horizon as everywhere.

import (
	"context"
	"fmt"
	"sort"
	"strings"
	"sync"

	grpcmw "goa.design/goa/v3/grpc/middleware"
	"goa.design/goa/v3/middleware"
	"goa.design/goa/v3/pkg/vrt"
	"google.golang.org/grpc"
	"google.golang.org/grpc/codes"
	"google.golang.org/grpc/metadata"
	"google.golang.org/grpc/status"
)

// gCall is one call of a scenario.
type gCall struct {
	unary   bool
	method  string // "/svc/Watch" | "/svc/Tail"
	handler string // streams: "block" | "return"
	reqID   string // incoming x-request-id: "tag" (= the issuer's tag), "long" (over the limit), "" (absent)
}

func (c gCall) label() string {
	if c.unary {
		return "unary"
	}
	return "stream(" + c.handler + ")"
}

func (c gCall) String() string {
	m := strings.TrimPrefix(c.method, "/svc/")
	if c.unary {
		return "unary:" + m + ":id=" + c.reqID
	}
	if c.reqID != "tag" {
		return m + ":" + c.handler + ":id=" + c.reqID
	}
	return m + ":" + c.handler
}

// recLogger is the middleware.Logger of a scenario: it keeps every line.
type recLogger struct {
	mu    sync.Mutex
	lines []string
}

func (l *recLogger) Log(keyvals ...any) error {
	var parts []string
	for i := 0; i+1 < len(keyvals); i += 2 {
		k, v := fmt.Sprint(keyvals[i]), fmt.Sprint(keyvals[i+1])
		if k == "time" {
			v = "*" // virtual clock: depends on the number of clock reads of all threads
		}
		parts = append(parts, k+"="+v)
	}
	l.mu.Lock()
	l.lines = append(l.lines, strings.Join(parts, " "))
	l.mu.Unlock()
	return nil
}

func (l *recLogger) of(id string) []string {
	l.mu.Lock()
	defer l.mu.Unlock()
	var out []string
	for _, s := range l.lines {
		if strings.HasPrefix(s, "id="+id+" ") {
			out = append(out, s)
		}
	}
	return out
}

// fakeStream is the grpc.ServerStream handed to the outermost interceptor.
type fakeStream struct {
	ctx context.Context
}

func (s *fakeStream) SetHeader(metadata.MD) error  { return nil }
func (s *fakeStream) SendHeader(metadata.MD) error { return nil }
func (s *fakeStream) SetTrailer(metadata.MD)       {}
func (s *fakeStream) Context() context.Context     { return s.ctx }
func (s *fakeStream) SendMsg(any) error            { return nil }
func (s *fakeStream) RecvMsg(any) error            { return nil }

type gEnv struct {
	root     context.Context
	shutdown context.CancelFunc
	log      *recLogger
	stream   []grpc.StreamServerInterceptor
	unary    []grpc.UnaryServerInterceptor
	client   grpc.UnaryClientInterceptor
}

func gMount(chain string) *gEnv {
	middleware.VerifSetIntn(func(int) int { return 0 })
	e := &gEnv{log: &recLogger{}}
	e.root, e.shutdown = context.WithCancel(context.Background())
	idOpts := []middleware.RequestIDOption{grpcmw.UseXRequestIDMetadataOption(true), grpcmw.XRequestMetadataLimitOption(12)}
	traceOpts := []middleware.TraceOption{grpcmw.SamplingPercent(100),
		grpcmw.TraceIDFunc(func() string { return "generated-trace" }), grpcmw.SpanIDFunc(func() string { return "generated-span" })}
	switch chain {
	case "canceler":
		e.stream = []grpc.StreamServerInterceptor{grpcmw.StreamCanceler(e.root)}
	case "full":
		e.stream = []grpc.StreamServerInterceptor{grpcmw.StreamRequestID(idOpts...), grpcmw.StreamServerTrace(traceOpts...),
			grpcmw.StreamServerLog(e.log), grpcmw.StreamCanceler(e.root)}
	case "nocancel":
		e.stream = []grpc.StreamServerInterceptor{grpcmw.StreamRequestID(idOpts...), grpcmw.StreamServerTrace(traceOpts...), grpcmw.StreamServerLog(e.log)}
	case "unary":
		e.unary = []grpc.UnaryServerInterceptor{grpcmw.UnaryRequestID(idOpts...), grpcmw.UnaryServerTrace(traceOpts...), grpcmw.UnaryServerLog(e.log)}
		e.client = grpcmw.UnaryClientTrace()
	default:
		panic("unknown chain " + chain)
	}
	return e
}

func gIncoming(c gCall, tag string) context.Context {
	md := metadata.MD{}
	switch c.reqID {
	case "tag":
		md.Set(grpcmw.RequestIDMetadataKey, tag)
	case "long":
		md.Set(grpcmw.RequestIDMetadataKey, tag+"-is-longer-than-the-limit")
	}
	if c.method == "/svc/Tail" {
		md.Set(grpcmw.TraceIDMetadataKey, "trace-of-"+tag)
		md.Set(grpcmw.ParentSpanIDMetadataKey, "parent-of-"+tag)
	}
	return metadata.NewIncomingContext(context.Background(), md)
}

// gSeen renders what a handler finds in its context. A request id the middleware generated is
// random: only the fact is stable.
func gSeen(ctx context.Context, generated bool) (string, string) {
	id, _ := ctx.Value(middleware.RequestIDKey).(string)
	shown := id
	md, _ := metadata.FromIncomingContext(ctx)
	if v := md.Get(grpcmw.RequestIDMetadataKey); id != "" && len(v) > 0 && v[0] != id {
		shown = id + "(metadata:" + v[0] + ")"
	}
	if generated && id != "" {
		shown = fmt.Sprintf("<generated, %d chars, in metadata: %v>", len(id), len(md.Get(grpcmw.RequestIDMetadataKey)) > 0 && md.Get(grpcmw.RequestIDMetadataKey)[0] == id)
	}
	return id, fmt.Sprintf("reqid=%s trace=%v span=%v parent=%v", shown, ctx.Value(middleware.TraceIDKey), ctx.Value(middleware.TraceSpanIDKey), ctx.Value(middleware.TraceParentSpanIDKey))
}

// gLog renders the log lines of one call (a generated id is masked).
func gLog(e *gEnv, id string, generated bool) string {
	lines := e.log.of(id)
	if generated && id != "" {
		for i := range lines {
			lines[i] = strings.Replace(lines[i], "id="+id+" ", "id=<generated> ", 1)
		}
	}
	return fmt.Sprintf("%q", lines)
}

func gStatus(err error) string {
	if err == nil {
		return "OK"
	}
	s, _ := status.FromError(err)
	return s.Code().String() + ": " + s.Message()
}

// gDo issues one call through the chain and renders everything observable about it.
func gDo(e *gEnv, c gCall, tag string) string {
	var seen, id string
	if c.unary {
		info := &grpc.UnaryServerInfo{FullMethod: c.method}
		var outgoing string
		handler := func(ctx context.Context, req any) (any, error) {
			id, seen = gSeen(ctx, c.reqID == "")
			// the service calls another service: the client interceptor propagates the trace
			_ = e.client(ctx, "/other/Method", req, nil, nil, func(ctx context.Context, _ string, _, _ any, _ *grpc.ClientConn, _ ...grpc.CallOption) error {
				md, _ := metadata.FromOutgoingContext(ctx)
				var ks []string
				for k, v := range md {
					ks = append(ks, k+"="+strings.Join(v, ","))
				}
				sort.Strings(ks)
				outgoing = strings.Join(ks, ";")
				return nil
			})
			return "reply to " + fmt.Sprint(req), nil
		}
		next := grpc.UnaryHandler(handler)
		for i := len(e.unary) - 1; i >= 0; i-- {
			ic, inner := e.unary[i], next
			next = func(ctx context.Context, req any) (any, error) { return ic(ctx, req, info, inner) }
		}
		resp, err := next(gIncoming(c, tag), "request of "+tag)
		return fmt.Sprintf("status=%s resp=%v | handler: %s outgoing=[%s] | log=%s", gStatus(err), resp, seen, outgoing, gLog(e, id, c.reqID == ""))
	}
	info := &grpc.StreamServerInfo{FullMethod: c.method, IsClientStream: true, IsServerStream: true}
	handler := func(_ any, ss grpc.ServerStream) error {
		ctx := ss.Context()
		id, seen = gSeen(ctx, c.reqID == "")
		if c.handler == "block" {
			vrt.AwaitDone(ctx) // serve until the stream's context is cancelled
			seen += fmt.Sprintf(" cancelled(shutdown requested=%v)", e.root.Err() != nil)
			return status.Error(codes.Canceled, "canceled "+tag)
		}
		return nil
	}
	next := grpc.StreamHandler(handler)
	for i := len(e.stream) - 1; i >= 0; i-- {
		ic, inner := e.stream[i], next
		next = func(srv any, ss grpc.ServerStream) error { return ic(srv, ss, info, inner) }
	}
	err := next("srv", &fakeStream{ctx: gIncoming(c, tag)})
	if seen == "" {
		seen = "not invoked"
	}
	return fmt.Sprintf("status=%s | handler: %s | log=%s", gStatus(err), seen, gLog(e, id, c.reqID == ""))
}

func gDiffClass(got, want string) string {
	if strings.HasPrefix(got, "BLOCKED") || strings.HasPrefix(want, "BLOCKED") {
		return "blocked"
	}
	g, w := strings.Split(got, " | "), strings.Split(want, " | ")
	if len(g) != 3 || len(w) != 3 {
		return "shape"
	}
	switch {
	case g[0] != w[0]:
		return "status"
	case g[1] != w[1]:
		return "handler-context"
	}
	return "log"
}

type gOpts struct {
	shutdown      bool
	thoroughOnly  bool
	noComplete    bool
	bound         int // quick preemption bound (0 = default 2)
	thoroughBound int // thorough preemption bound (0 = default 3)
}

func gScenario(chain string, pre *gCall, o gOpts, calls ...gCall) vrt.Scenario {
	var names []string
	sc := vrt.Scenario{Family: "c20G", SigName: "c20G/" + chain, DiffClass: gDiffClass, ThoroughOnly: o.thoroughOnly,
		NoThoroughComplete: o.noComplete, Bound: o.bound, ThoroughBound: o.thoroughBound,
		Setup: func() any { return gMount(chain) }}
	preName := "-"
	if pre != nil {
		p := *pre
		preName = p.String()
		sc.Prefix = func(env any) { _ = gDo(env.(*gEnv), p, "pre") }
	}
	for i, c := range calls {
		c, tag := c, fmt.Sprintf("t%d", i)
		sc.Threads = append(sc.Threads, func(env any) any { return gDo(env.(*gEnv), c, tag) })
		sc.Labels = append(sc.Labels, c.label())
		names = append(names, c.String())
	}
	if o.shutdown {
		sc.Threads = append(sc.Threads, func(env any) any { vrt.Cancel(env.(*gEnv).shutdown); return "shutdown requested" })
		sc.Labels = append(sc.Labels, "shutdown")
		sc.Env = []int{len(sc.Threads) - 1}
		names = append(names, "SHUTDOWN")
	}
	sc.Name = fmt.Sprintf("c20G/%s pre=%s %s", chain, preName, strings.Join(names, " || "))
	sc.Doc = "gRPC middlewares called directly (chain " + chain + "), sequential prefix call " + preName + ", then in flight: " + strings.Join(names, " || ")
	return sc
}

func grpcScenarios() []vrt.Scenario {
	var out []vrt.Scenario
	w := func(h string) gCall { return gCall{method: "/svc/Watch", handler: h, reqID: "tag"} }
	t := func(h string) gCall { return gCall{method: "/svc/Tail", handler: h, reqID: "tag"} }
	prefixes := []*gCall{nil, {method: "/svc/Watch", handler: "return", reqID: "tag"}, {method: "/svc/Tail", handler: "return", reqID: "tag"}}
	// streams2: two calls and the shutdown (with the canceler's goroutine: 4 threads). The full
	// chain has ~3x the scheduling points of the bare canceler: <= 1 preemption in the quick tier.
	for _, chain := range []string{"canceler", "full"} {
		o := gOpts{shutdown: true}
		if chain == "full" {
			o = gOpts{shutdown: true, bound: 1, thoroughBound: 2, noComplete: true}
		}
		for pi, pre := range prefixes {
			o := o
			if chain == "full" && pi == 2 {
				o.thoroughOnly = true
			}
			if pi > 0 {
				o.noComplete = true
			}
			for _, hs := range [][2]string{{"block", "block"}, {"block", "return"}, {"return", "return"}} {
				out = append(out, gScenario(chain, pre, o, w(hs[0]), w(hs[1])))
				out = append(out, gScenario(chain, pre, o, w(hs[0]), t(hs[1])))
			}
		}
	}
	// streams3: three calls and the shutdown (5 threads), <= 1 preemption (thorough 2)
	o3 := gOpts{shutdown: true, noComplete: true, bound: 1, thoroughBound: 2}
	out = append(out, gScenario("canceler", nil, o3, w("block"), w("block"), t("block")))
	out = append(out, gScenario("canceler", nil, o3, w("block"), w("return"), w("block")))
	out = append(out, gScenario("canceler", prefixes[1], o3, w("block"), t("return"), t("block")))
	// nocancel: request id / trace / log interceptors only, no shutdown
	out = append(out, gScenario("nocancel", nil, gOpts{}, w("return"), gCall{method: "/svc/Watch", handler: "return", reqID: "long"}))
	out = append(out, gScenario("nocancel", prefixes[2], gOpts{}, w("return"), t("return"), gCall{method: "/svc/Tail", handler: "return", reqID: ""}))
	// unary
	u := func(m, id string) gCall { return gCall{unary: true, method: m, reqID: id} }
	out = append(out, gScenario("unary", nil, gOpts{}, u("/svc/Watch", "tag"), u("/svc/Watch", "tag")))
	out = append(out, gScenario("unary", nil, gOpts{}, u("/svc/Watch", "tag"), u("/svc/Tail", "long")))
	out = append(out, gScenario("unary", nil, gOpts{}, u("/svc/Watch", "tag"), u("/svc/Tail", "")))
	pu := u("/svc/Tail", "tag")
	out = append(out, gScenario("unary", &pu, gOpts{noComplete: true}, u("/svc/Watch", "tag"), u("/svc/Tail", "long"), u("/svc/Watch", "")))
	return out
}

//go:build verifworker

package scen

// The REQUEST MATRIX of C20 family A: complete client -> wire -> server -> client round trips
// over goa's runtime helpers, enumerated as a stated finite product and run from NON-INITIAL
// states.
//
// One request kind = (negotiated response encoding) x (outcome class):
//
//	encodings  json, xml, gob, text (text/plain), html (text/html)        -- the Accept header
//	outcomes   ok          the endpoint answers a string (so that every encoder, the text ones
//	                       included, has something it can encode)
//	           invalid     the request decoder rejects the payload: ValidatePattern on the body
//	                       field AND on the path variable, merged with MergeErrors
//	           declared    the endpoint returns a designed error: own status, goa-error header,
//	                       own response body through the negotiated encoder
//	           undeclared  the endpoint returns a plain error: the shared ErrorEncoder closure
//	           notfound    unknown path: the muxer's not-found handler (404)
//	           notallowed  known path, other verb: the router's 405
//
// 5 x 6 = 30 kinds. Every request carries the tag of its issuer in the path variable and in the
// body, so a leak between requests shows in the observable.
//
// The server is what goa generates for one method (server_handler_init / error_encoder
// templates) written out on the real runtime: NewMuxer + Handle, RequestDecoder, Vars,
// ValidatePattern, MergeErrors, ResponseEncoder, ErrorEncoder(encoder, nil) built ONCE per
// handler, NewErrorResponse. The client side is what a generated client does: RequestEncoder
// into the request body, Doer, ResponseDecoder. The Doer is the in-memory wire (Request.Write
// -> http.ReadRequest -> Muxer.ServeHTTP on a recorder); it starts with a scheduling point (a
// real transport blocks there, so other callers run between "request encoded" and "request
// sent").
//
// A scenario = [sequential prefix: one request kind or none] ; then 2 or 3 requests in flight.
// The prefix runs single-threaded before the threads start, so whatever it leaves behind
// (pooled encoders / buffers, the pattern cache, lazily built globals) is the state the
// concurrent phase starts from.
//
// Menus (names say which one a scenario belongs to):
//
//	pairs     no prefix, ALL unordered pairs of the 30 kinds                       465
//	samenc    prefix (e,o0) ; (e,o1) || (e,o2): one encoding e, every prefix outcome,
//	          every unordered outcome pair                                   5*6*21 = 630
//	afterany  prefix = any of the 30 kinds ; (e1,ok) || (e2,ok), e1 <= e2      30*15 = 450
//	triples   3 threads, one encoding: with and without a not-found prefix            10
//	full      (thorough) prefix in {none} + 30 kinds ; ALL 465 pairs               14415
//	triples+  (thorough) 3 threads, one encoding e, prefix in {none,(e,notfound)},
//	          every outcome multiset of size 3                                5*2*56 = 560
//
// quick = pairs + samenc + afterany + triples (duplicates by name removed), every schedule with
// <= 2 preemptions. thorough = the quick menus again with deep hooks (the prefix-free pairs
// additionally in ALL interleavings, which subsumes every preemption bound) + full + triples+
// at <= 2 preemptions with the quick hooks (family c20Afull: a second worker build).
//
// Oracle: the differential per-request oracle against the SAME request alone on a FRESH server
// (no prefix, no peer): status, headers, body (error id masked), what the error handler was
// told, and what the client decoded must be equal; happens-before races, deadlocks, panics.

import (
	"bufio"
	"bytes"
	"context"
	"encoding/gob"
	"errors"
	"fmt"
	"io"
	"net/http"
	"net/http/httptest"
	"sort"
	"strings"

	goahttp "goa.design/goa/v3/http"
	goa "goa.design/goa/v3/pkg"
	"goa.design/goa/v3/pkg/vrt"
)

var mxEncodings = []struct{ name, accept string }{
	{"json", "application/json"}, {"xml", "application/xml"}, {"gob", "application/gob"},
	{"text", "text/plain"}, {"html", "text/html"},
}

var mxOutcomes = []string{"ok", "invalid", "declared", "undeclared", "notfound", "notallowed"}

// mxKind is one request kind; none is the absent prefix.
type mxKind struct{ enc, out int }

var mxNone = mxKind{-1, -1}

func (k mxKind) String() string {
	if k == mxNone {
		return "-"
	}
	return mxEncodings[k.enc].name + ":" + mxOutcomes[k.out]
}

func (k mxKind) index() int { return k.enc*len(mxOutcomes) + k.out }

func mxKinds() []mxKind {
	var out []mxKind
	for e := range mxEncodings {
		for o := range mxOutcomes {
			out = append(out, mxKind{e, o})
		}
	}
	return out
}

// ---- server: one generated-style method on goa's runtime ----------------------------------

type greetRequestBody struct {
	Name *string `json:"name,omitempty"`
	Mode *string `json:"mode,omitempty"`
}

type greetPayload struct{ ID, Name, Mode string }

// greetConflictBody is the designed response body of the declared error.
type greetConflictBody struct {
	Name    string `json:"name" xml:"name"`
	ID      string `json:"id" xml:"id"`
	Message string `json:"message" xml:"message"`
	Fault   bool   `json:"fault" xml:"fault"`
}

type errhKey struct{}

type mxEnv struct{ mux goahttp.Muxer }

func mxDecodeGreetRequest(mux goahttp.Muxer, decoder func(*http.Request) goahttp.Decoder) func(*http.Request) (any, error) {
	return func(r *http.Request) (any, error) {
		var body greetRequestBody
		err := decoder(r).Decode(&body)
		if err != nil {
			if err == io.EOF {
				return nil, goa.MissingPayloadError()
			}
			return nil, goa.DecodePayloadError(err.Error())
		}
		err = nil
		if body.Name == nil {
			err = goa.MergeErrors(err, goa.MissingFieldError("name", "body"))
		} else {
			err = goa.MergeErrors(err, goa.ValidatePattern("body.name", *body.Name, "^[a-z0-9]+$"))
		}
		if err != nil {
			return nil, err
		}
		id := mux.Vars(r)["id"]
		err = goa.MergeErrors(err, goa.ValidatePattern("id", id, "^id[a-z0-9]+$"))
		if err != nil {
			return nil, err
		}
		p := &greetPayload{ID: id, Name: *body.Name}
		if body.Mode != nil {
			p.Mode = *body.Mode
		}
		return p, nil
	}
}

func mxEncodeGreetResponse(encoder func(context.Context, http.ResponseWriter) goahttp.Encoder) func(context.Context, http.ResponseWriter, any) error {
	return func(ctx context.Context, w http.ResponseWriter, v any) error {
		res, _ := v.(string)
		enc := encoder(ctx, w)
		body := res
		w.WriteHeader(http.StatusOK)
		return enc.Encode(body)
	}
}

func mxEncodeGreetError(encoder func(context.Context, http.ResponseWriter) goahttp.Encoder, formatter func(ctx context.Context, err error) goahttp.Statuser) func(context.Context, http.ResponseWriter, error) error {
	encodeError := goahttp.ErrorEncoder(encoder, formatter)
	return func(ctx context.Context, w http.ResponseWriter, v error) error {
		var en goa.GoaErrorNamer
		if !errors.As(v, &en) {
			return encodeError(ctx, w, v)
		}
		switch en.GoaErrorName() {
		case "conflict":
			var res *goa.ServiceError
			errors.As(v, &res)
			enc := encoder(ctx, w)
			body := &greetConflictBody{Name: res.Name, ID: res.ID, Message: res.Message, Fault: res.Fault}
			w.Header().Set("goa-error", res.GoaErrorName())
			w.WriteHeader(http.StatusConflict)
			return enc.Encode(body)
		default:
			return encodeError(ctx, w, v)
		}
	}
}

func mxNewGreetHandler(endpoint goa.Endpoint, mux goahttp.Muxer, decoder func(*http.Request) goahttp.Decoder,
	encoder func(context.Context, http.ResponseWriter) goahttp.Encoder, errhandler func(context.Context, http.ResponseWriter, error),
	formatter func(ctx context.Context, err error) goahttp.Statuser) http.Handler {
	var (
		decodeRequest  = mxDecodeGreetRequest(mux, decoder)
		encodeResponse = mxEncodeGreetResponse(encoder)
		encodeError    = mxEncodeGreetError(encoder, formatter)
	)
	return http.HandlerFunc(func(w http.ResponseWriter, r *http.Request) {
		ctx := context.WithValue(r.Context(), goahttp.AcceptTypeKey, r.Header.Get("Accept"))
		ctx = context.WithValue(ctx, goa.MethodKey, "greet")
		ctx = context.WithValue(ctx, goa.ServiceKey, "matrix")
		payload, err := decodeRequest(r)
		if err != nil {
			if err := encodeError(ctx, w, err); err != nil {
				errhandler(ctx, w, err)
			}
			return
		}
		res, err := endpoint(ctx, payload)
		if err != nil {
			if err := encodeError(ctx, w, err); err != nil {
				errhandler(ctx, w, err)
			}
			return
		}
		if err := encodeResponse(ctx, w, res); err != nil {
			errhandler(ctx, w, err)
		}
	})
}

func mxMount() *mxEnv {
	goa.VerifResetPatterns()
	m := goahttp.NewMuxer()
	endpoint := func(_ context.Context, v any) (any, error) {
		p := v.(*greetPayload)
		switch p.Mode {
		case "declared":
			return nil, goa.NewServiceError(errors.New("conflict for "+p.Name+" at "+p.ID), "conflict", false, false, false)
		case "undeclared":
			return nil, errors.New("boom " + p.Name + " at " + p.ID)
		}
		return "hello " + p.Name + " at " + p.ID, nil
	}
	errhandler := func(ctx context.Context, _ http.ResponseWriter, err error) {
		if l, ok := ctx.Value(errhKey{}).(*[]string); ok {
			*l = append(*l, err.Error())
		}
	}
	h := mxNewGreetHandler(endpoint, m, goahttp.RequestDecoder, goahttp.ResponseEncoder, errhandler, nil)
	m.Handle("POST", "/greet/{id}", h.ServeHTTP)
	m.Handle("GET", "/ping", http.HandlerFunc(func(w http.ResponseWriter, _ *http.Request) { w.WriteHeader(http.StatusNoContent) }))
	return &mxEnv{mux: m}
}

// ---- client + wire ---------------------------------------------------------------------------

// mxWire is the Doer: scheduling point, then serialise / parse / serve on a recorder.
func mxWire(e *mxEnv, req *http.Request, errh *[]string) (arrived string, rec *httptest.ResponseRecorder, resp *http.Response, err error) {
	vrt.Yield()
	var buf bytes.Buffer
	if err := req.Write(&buf); err != nil {
		return "", nil, nil, fmt.Errorf("wire: cannot serialise request: %w", err)
	}
	sreq, err := http.ReadRequest(bufio.NewReader(&buf))
	if err != nil {
		return "", nil, nil, fmt.Errorf("wire: server cannot parse request: %w", err)
	}
	b, _ := io.ReadAll(sreq.Body)
	sreq.Body = io.NopCloser(bytes.NewReader(b))
	sreq = sreq.WithContext(context.WithValue(sreq.Context(), errhKey{}, errh))
	arrived = fmt.Sprintf("%s %s accept=%s %q", sreq.Method, sreq.URL.Path, sreq.Header.Get("Accept"), strings.TrimSpace(string(b)))
	rec = httptest.NewRecorder()
	e.mux.ServeHTTP(rec, sreq)
	return arrived, rec, rec.Result(), nil
}

// mxDo issues one request of kind k tagged tag and renders everything observable about it.
func mxDo(e *mxEnv, k mxKind, tag string) string {
	s := func(v string) *string { return &v }
	var req *http.Request
	var err error
	switch out := mxOutcomes[k.out]; out {
	case "notfound":
		req, err = http.NewRequest("GET", "http://verif.test/nowhere/"+tag, nil)
	case "notallowed":
		req, err = http.NewRequest("DELETE", "http://verif.test/greet/id"+tag, nil)
	default:
		id, body := "id"+tag, greetRequestBody{Name: s("nm" + tag), Mode: s(out)}
		if out == "invalid" {
			body.Name = s("BAD " + tag)
		}
		req, err = http.NewRequest("POST", "http://verif.test/greet/"+id, nil)
		if err == nil {
			err = goahttp.RequestEncoder(req).Encode(&body)
		}
	}
	if err != nil {
		return "HARNESS: cannot build request: " + err.Error()
	}
	req.Header.Set("Accept", mxEncodings[k.enc].accept)
	var errh []string
	arrived, rec, resp, err := mxWire(e, req, &errh)
	if err != nil {
		return "HARNESS: " + err.Error()
	}
	var hs []string
	for h, v := range rec.Header() {
		hs = append(hs, h+"="+strings.Join(v, ","))
	}
	sort.Strings(hs)
	raw := rec.Body.Bytes()
	body := idXML.ReplaceAllString(idJSON.ReplaceAllString(strings.TrimSpace(string(raw)), `"id":"*"`), `<id>*</id>`)
	if strings.Contains(rec.Header().Get("Content-Type"), "gob") {
		body = fmt.Sprintf("gob[%d bytes]", len(raw)) // content: see what the client decodes
	}
	// the client decodes the response the way generated clients do
	var client string
	dec := goahttp.ResponseDecoder(resp)
	switch resp.StatusCode {
	case http.StatusOK:
		var v string
		if err := dec.Decode(&v); err != nil {
			client = "decode-error: " + err.Error()
		} else {
			client = fmt.Sprintf("result %q", v)
		}
	case http.StatusConflict:
		var v greetConflictBody
		if err := mxDecode(dec, resp, &v); err != nil {
			client = "decode-error: " + err.Error()
		} else {
			v.ID = "*"
			client = fmt.Sprintf("conflict %+v", v)
		}
	default:
		var v goahttp.ErrorResponse
		if err := mxDecode(dec, resp, &v); err != nil {
			client = "decode-error: " + err.Error()
		} else {
			v.ID = "*"
			client = fmt.Sprintf("error %+v", v)
		}
	}
	return fmt.Sprintf("encoding=%s | arrived=%s | status=%d | headers=[%s] | body=%s | errhandler=%q | client=%s",
		mxEncodings[k.enc].name, arrived, rec.Code, strings.Join(hs, "; "), body, errh, client)
}

// mxDecode decodes an error body; gob needs the concrete type the server encoded.
func mxDecode(dec goahttp.Decoder, resp *http.Response, v any) error {
	if _, ok := dec.(*gob.Decoder); ok {
		if c, ok := v.(*greetConflictBody); ok {
			return dec.Decode(c)
		}
	}
	return dec.Decode(v)
}

// mxDiffClass names the FIRST stage of the round trip at which a request deviates from its
// sequential reference: "request" (what arrived at the server is not what this client sent; the
// negotiated encoding plays no part), "response(<encoding>)" (the request arrived intact, the
// server answered something else: status, headers, body or error-handler calls),
// "client(<encoding>)" (the same response was decoded to something else).
func mxDiffClass(got, want string) string {
	g, w := strings.Split(got, " | "), strings.Split(want, " | ")
	if len(g) != 7 || len(w) != 7 {
		return "shape"
	}
	enc := strings.TrimPrefix(w[0], "encoding=")
	switch {
	case g[1] != w[1]:
		return "request"
	case g[2] != w[2] || g[3] != w[3] || g[4] != w[4] || g[5] != w[5]:
		return "response(" + enc + ")"
	}
	return "client(" + enc + ")"
}

// mxPathClass is the code path of an outcome class (the operation class of the signatures).
func mxPathClass(k mxKind) string {
	switch mxOutcomes[k.out] {
	case "ok":
		return "response-encoder"
	case "notfound", "notallowed":
		return "muxer"
	}
	return "error-encoder"
}

// ---- scenarios ---------------------------------------------------------------------------------

type mxOpts struct {
	// full: the scenario belongs to the big thorough-only products, explored by a second worker
	// built WITHOUT deep hooks (family c20Afull)
	full         bool
	thoroughOnly bool
	// thorough tier: preemption bound (0 = default 3) and whether ALL interleavings are explored too
	thoroughBound int
	complete      bool
}

func mxScenario(menu string, pre mxKind, o mxOpts, threads ...mxKind) vrt.Scenario {
	sort.Slice(threads, func(i, j int) bool { return threads[i].index() < threads[j].index() })
	var names []string
	sc := vrt.Scenario{Family: "c20A", SigName: "c20A/matrix", DiffClass: mxDiffClass, ThoroughOnly: o.thoroughOnly,
		ThoroughBound: o.thoroughBound, NoThoroughComplete: !o.complete, NoShard: len(threads) == 2,
		Setup: func() any { return mxMount() }}
	if o.full {
		sc.Family = "c20Afull"
	}
	if pre != mxNone {
		sc.Prefix = func(env any) { _ = mxDo(env.(*mxEnv), pre, "pre") }
	}
	for i, k := range threads {
		k, tag := k, fmt.Sprintf("t%d", i)
		sc.Threads = append(sc.Threads, func(env any) any { return mxDo(env.(*mxEnv), k, tag) })
		// signatures carry the code path of the request only (the full kinds are in the name)
		sc.Labels = append(sc.Labels, mxPathClass(k))
		names = append(names, k.String())
	}
	// the name identifies the scenario by content: the same (prefix, requests) reached through
	// two menus is one scenario
	sc.Name = fmt.Sprintf("c20A/matrix/%dt pre=%s %s", len(threads), pre, strings.Join(names, " || "))
	sc.Doc = "menu " + menu + ": sequential prefix request " + pre.String() + ", then in flight on one mounted server: " + strings.Join(names, " || ") +
		" (client: RequestEncoder -> wire -> server: mux, RequestDecoder, ValidatePattern, endpoint, ResponseEncoder / ErrorEncoder -> client: ResponseDecoder)"
	return sc
}

// matrixByName rebuilds one matrix scenario from its name (the name identifies the scenario by
// content). A worker process that explores ONE scenario does not enumerate the menus.
func matrixByName(name string) (vrt.Scenario, bool) {
	rest, ok := strings.CutPrefix(name, "c20A/matrix/")
	if !ok {
		return vrt.Scenario{}, false
	}
	parse := func(s string) (mxKind, bool) {
		if s == "-" {
			return mxNone, true
		}
		for _, k := range mxKinds() {
			if k.String() == s {
				return k, true
			}
		}
		return mxNone, false
	}
	head, list, ok := strings.Cut(rest, " pre=")
	if !ok {
		return vrt.Scenario{}, false
	}
	preS, thr, ok := strings.Cut(list, " ")
	if !ok {
		return vrt.Scenario{}, false
	}
	pre, ok := parse(preS)
	if !ok {
		return vrt.Scenario{}, false
	}
	var ks []mxKind
	for _, t := range strings.Split(thr, " || ") {
		k, ok := parse(t)
		if !ok || k == mxNone {
			return vrt.Scenario{}, false
		}
		ks = append(ks, k)
	}
	sc := mxScenario("by-name", pre, mxOpts{}, ks...)
	if sc.Name != name || head != fmt.Sprintf("%dt", len(ks)) {
		return vrt.Scenario{}, false
	}
	return sc, true
}

func matrixScenarios() []vrt.Scenario {
	kinds := mxKinds()
	nE, nO := len(mxEncodings), len(mxOutcomes)
	outIdx := func(name string) int {
		for i, o := range mxOutcomes {
			if o == name {
				return i
			}
		}
		panic("unknown outcome " + name)
	}
	ok, notfound := outIdx("ok"), outIdx("notfound")
	seen := map[string]bool{}
	var out []vrt.Scenario
	add := func(s vrt.Scenario) {
		if !seen[s.Name] {
			seen[s.Name] = true
			out = append(out, s)
		}
	}
	// quick menus; in the thorough tier (deep hooks) the prefix-free pairs are also explored in all interleavings
	for a := 0; a < len(kinds); a++ {
		for b := a; b < len(kinds); b++ {
			add(mxScenario("pairs", mxNone, mxOpts{complete: true, thoroughBound: 2}, kinds[a], kinds[b]))
		}
	}
	for e := 0; e < nE; e++ {
		for o0 := 0; o0 < nO; o0++ {
			for o1 := 0; o1 < nO; o1++ {
				for o2 := o1; o2 < nO; o2++ {
					add(mxScenario("samenc", mxKind{e, o0}, mxOpts{thoroughBound: 2}, mxKind{e, o1}, mxKind{e, o2}))
				}
			}
		}
	}
	for _, pre := range kinds {
		for e1 := 0; e1 < nE; e1++ {
			for e2 := e1; e2 < nE; e2++ {
				add(mxScenario("afterany", pre, mxOpts{thoroughBound: 2}, mxKind{e1, ok}, mxKind{e2, ok}))
			}
		}
	}
	for e := 0; e < nE; e++ {
		add(mxScenario("triples", mxKind{e, notfound}, mxOpts{thoroughBound: 2}, mxKind{e, ok}, mxKind{e, outIdx("undeclared")}, mxKind{e, notfound}))
		add(mxScenario("triples", mxNone, mxOpts{thoroughBound: 2}, mxKind{e, ok}, mxKind{e, outIdx("invalid")}, mxKind{e, outIdx("declared")}))
	}
	// thorough menus
	for _, pre := range append([]mxKind{mxNone}, kinds...) {
		for a := 0; a < len(kinds); a++ {
			for b := a; b < len(kinds); b++ {
				add(mxScenario("full", pre, mxOpts{full: true, thoroughOnly: true, thoroughBound: 2}, kinds[a], kinds[b]))
			}
		}
	}
	for e := 0; e < nE; e++ {
		for _, pre := range []mxKind{mxNone, {e, notfound}} {
			for o1 := 0; o1 < nO; o1++ {
				for o2 := o1; o2 < nO; o2++ {
					for o3 := o2; o3 < nO; o3++ {
						add(mxScenario("triples+", pre, mxOpts{full: true, thoroughOnly: true, thoroughBound: 2}, mxKind{e, o1}, mxKind{e, o2}, mxKind{e, o3}))
					}
				}
			}
		}
	}
	return out
}

//go:build verifworker

// The worker of the C20 check: family A scenarios plus the C17 pattern-cache scenarios (the
// same ValidatePattern bodies, here with pkg, http, http/middleware and middleware all
// instrumented). Built by the driver in checks/c20 with
// `go build -tags verif,verifworker -overlay ...`.
//
// FAMILY B (generated servers and clients) registers its scenarios here as well: append the
// scenarios of the generated designs to the list below and point sched.Job.Extra at the
// generated package directories.
package main

import (
	"goa.design/goa/v3/pkg/vrt"

	c17 "verif/checks/c17sched/scen"
	c20 "verif/checks/c20/scen"
)

func main() { vrt.WorkerMain(append(c20.Scenarios(), c17.Scenarios()...)) }

// Package c20 is the driver of property C20 (family A: runtime helpers under the controlled
// scheduler). It runs in the plain check process: instruments pkg, http, http/middleware and
// middleware from /repo's working tree, builds the worker (checks/c20/worker), explores every
// scenario in sharded subprocesses and reports through core.Ctx.
package c20

import (
	"errors"
	"os"
	"path/filepath"
	"strings"

	"verif/core"
	"verif/instr"
	"verif/sched"
	"verif/sched/vrt"
)

// Packages are the goa runtime packages instrumented for C20.
var Packages = []string{
	"goa.design/goa/v3/pkg",
	"goa.design/goa/v3/http",
	"goa.design/goa/v3/http/middleware",
	"goa.design/goa/v3/middleware",
	"goa.design/goa/v3/grpc/middleware",
}

// Job is the instrumented build of the C20 worker. extra points the instrumenter at further
// package directories (the generated code of family B).
func Job(extra ...instr.Target) sched.Job {
	root := core.Root()
	return sched.Job{
		Check:     "c20",
		Deep:      os.Getenv("VERIF_C20_DEEP") == "1", // Run switches it on for the thorough tier
		Packages:  Packages,
		Extra:     extra,
		WorkerPkg: "./checks/c20/worker",
		ExportFiles: map[string]string{
			"pkg/zz_verif_export.go":        filepath.Join(root, "checks", "c17sched", "export", "pkg_zz_verif_export.go.txt"),
			"middleware/zz_verif_export.go": filepath.Join(root, "checks", "c20", "export", "middleware_zz_verif_export.go.txt"),
		},
	}
}

// auxKeep selects the scenarios of the auxiliary free-running -race pass: everything outside the
// request matrix, and of the matrix the 3-thread scenarios and every kind against itself.
func auxKeep(scenario string) bool {
	if strings.HasPrefix(scenario, "c20G/") {
		// a free-running stream that registers with the canceler after its sweep is never
		// cancelled (see the StreamCanceler note in the evidence): the pass would hang
		return !strings.Contains(scenario, "SHUTDOWN")
	}
	if !strings.HasPrefix(scenario, "c20A/matrix/") {
		return true
	}
	if strings.HasPrefix(scenario, "c20A/matrix/3t") {
		return true
	}
	if i := strings.Index(scenario, " pre=- "); i >= 0 {
		ks := strings.Split(scenario[i+len(" pre=- "):], " || ")
		return len(ks) == 2 && ks[0] == ks[1]
	}
	return false
}

// Families explored by the C20 check. FullFamily holds the big thorough-only products of the
// request matrix; it is explored by a second worker built with the quick hooks (FullJob).
var Families = []string{"c20A", "c20G", "c17"}

const FullFamily = "c20Afull"

// FullJob is the build of the second thorough worker: same sources, never deep hooks.
func FullJob() sched.Job {
	j := Job()
	j.Check = "c20full"
	j.Deep = false
	j.NoAux = true
	return j
}

// MatrixMenus states the request matrix of family A (checks/c20/scen/matrix.go) for the evidence.
var MatrixMenus = map[string]string{
	"request_kinds": "5 negotiated response encodings {json, xml, gob, text/plain, text/html} x 6 outcome classes {ok, invalid (validation failure), declared error, undeclared error, notfound (404, the muxer's not-found handler), notallowed (405)} = 30 kinds; " +
		"one request = generated-client steps (RequestEncoder, Doer, ResponseDecoder) -> in-memory wire (scheduling point, Request.Write, http.ReadRequest) -> generated-handler steps on the real runtime (Muxer, RequestDecoder, Vars, ValidatePattern, MergeErrors, ResponseEncoder, one ErrorEncoder closure per handler)",
	"scenario":             "[sequential prefix: one request kind or none, run single-threaded on the mounted server before the threads start] ; 2 or 3 requests in flight, each tagged with its issuer",
	"quick_pairs":          "no prefix; ALL 465 unordered pairs of the 30 kinds (a kind with itself included)",
	"quick_samenc":         "prefix (e,o0) ; (e,o1) || (e,o2) for every encoding e, every prefix outcome o0, every unordered outcome pair: 5*6*21 = 630",
	"quick_afterany":       "prefix = any of the 30 kinds ; (e1,ok) || (e2,ok) for every e1 <= e2: 30*15 = 450",
	"quick_triples":        "3 threads, one encoding e: prefix (e,notfound) ; ok || undeclared || notfound, and no prefix ; ok || invalid || declared: 10",
	"quick_bound":          "every schedule with <= 2 preemptions; every alternative of every sync.Pool Get (any pooled value or a fresh one) at no preemption cost",
	"thorough_quick_menus": "the quick menus again with deep hooks, <= 2 preemptions; the 465 prefix-free pairs additionally in ALL interleavings (sleep sets), which subsumes every preemption bound",
	"thorough_full":        "prefix in {none} + 30 kinds ; ALL 465 pairs = 14415 scenarios (contains the quick 2-thread menus; the remaining 12870 run in a second worker built with the quick hooks), <= 2 preemptions",
	"thorough_triples":     "3 threads, one encoding e, prefix in {none, (e,notfound)}, every outcome multiset of size 3: 5*2*56 = 560, <= 2 preemptions, second worker (quick hooks)",
	"oracle":               "each request's (status, headers, body modulo error id, error-handler calls, value decoded by the client) equals the same request alone on a FRESH server without prefix and without peers; happens-before races; deadlock; panic",
}

// GRPCMenus states family G (checks/c20/scen/grpcmw.go) for the evidence.
var GRPCMenus = map[string]string{
	"driven":   "no network: the interceptor functions of goa.design/goa/v3/grpc/middleware are called directly, nested as grpc.ChainStreamInterceptor / ChainUnaryInterceptor nest them, with a fake grpc.ServerStream; handlers return at once or serve until their context is cancelled",
	"calls":    "stream call = method {/svc/Watch, /svc/Tail} x handler {block, return}; unary call = method x incoming x-request-id {present, over the limit, absent}",
	"chains":   "canceler = StreamCanceler; full = StreamRequestID -> StreamServerTrace -> StreamServerLog -> StreamCanceler; nocancel = the same without StreamCanceler; unary = UnaryRequestID -> UnaryServerTrace -> UnaryServerLog, handler calls out through UnaryClientTrace",
	"shutdown": "one more thread cancels the context StreamCanceler was built with; the canceler's own goroutine is a daemon thread",
	"prefix":   "none | a stream of the same method that completed before | a completed stream of the other method",
	"streams2": "{canceler, full} x 3 prefixes x {same method, different methods} x {block||block, block||return, return||return} + shutdown + canceler goroutine: 36 scenarios of 4 threads (quick 30); canceler <= 2 preemptions (thorough <= 3, and all interleavings without prefix), full <= 1 (thorough <= 2)",
	"streams3": "3 calls + shutdown + canceler goroutine (5 threads), chain canceler: 3 scenarios, <= 1 preemption (thorough <= 2)",
	"others":   "nocancel: 2 scenarios (2-3 streams), unary: 4 scenarios (2-3 calls), <= 2 preemptions (thorough <= 3, two threads also all interleavings)",
	"oracle":   "scenarios with a shutdown thread: PROJECTION differential -- each call's (status, what its handler saw in its context incl. whether the shutdown had been requested when it was cancelled, its own log lines, or BLOCKED) equals the same call alone with the shutdown thread and the canceler goroutine in the same relative order; others: each call alone on a fresh chain; happens-before races; panics; step horizon",
}

// rowGroup aggregates the rows of the request matrix in the evidence (one row per menu slice
// instead of one per scenario).
func rowGroup(scenario string) string {
	if !strings.HasPrefix(scenario, "c20A/matrix/") {
		return ""
	}
	g := scenario
	if i := strings.Index(g, " pre="); i >= 0 {
		g = g[:i]
		if strings.HasPrefix(scenario[i:], " pre=- ") {
			return g + " no prefix"
		}
		return g + " after a sequential prefix request"
	}
	return g
}

// Run explores family A.
func Run(c *core.Ctx) {
	c.Rule("one state = one inequivalent interleaving (distinct order of conflicting operations) of one scenario; one transition = one complete execution of the scenario's " +
		"threads on the real, instrumented goa code under the controlled scheduler; scenarios: 2-3 threads x 1-2 operations over the runtime helpers; " +
		"all schedules with <= 2 preemptions (thorough: 3 for two threads; pattern-cache scenarios with two threads: all interleavings); non-trivial = the scenario has more than one inequivalent interleaving")
	c.Assume("interleavings are explored at the granularity of hooked operations: sync/atomic shim operations and instrumented shared accesses " +
		"(package-level variables, closure-captured variables, fields through pointer receivers, their map/slice elements) of goa's pkg, http, http/middleware, middleware packages")
	c.Assume("chi, net/http, httptest, encoding/*, regexp, context run as opaque steps under the scheduler and are trusted as documented thread-safe")
	c.Assume("weaker-than-sequential-consistency effects are subsumed by the happens-before oracle: any conflicting pair not ordered by happens-before is reported whatever values were observed")
	c.Assume("error IDs (random per occurrence) are masked in the observables; time.Now/Since inside instrumented files read a virtual clock; the samplers' random source is a harness-owned seam")
	c.Assume("not covered by the scheduler (blocking inside uninstrumented primitives): SkipResponseWriter's io.Pipe, WebSocket I/O, select statements (StreamCanceler's <-ctx.Done() is modelled: family G); " +
		"FAMILY B (generated servers/clients) is added by the generation pipeline through sched.Job.Extra")
	c.Note("bounds", "family A: 2-3 threads x 1-2 operations, preemption bound 2 (quick) / 3 for two threads (thorough); C17 cache scenarios: all interleavings for two threads; "+
		"request matrix: see request_matrix_family_a")
	c.Note("request_matrix_family_a", MatrixMenus)
	c.Note("grpc_middleware_family_g", GRPCMenus)
	c.Note("opaque_objects", map[string]any{
		"rule": "a use (method call, field access through it, passing it to a call, also as &x) of a package-level variable -- of goa or of any imported package -- or of a value reached only through one, whose type is declared outside the instrumented packages, " +
			"is an access to the OBJECT: none for the allow-listed types below, a WRITE for every other type (decided on the dynamic type when the static type is an interface); " +
			"two unordered uses from different threads are a race whose signature names the variable and the dynamic type",
		"allow_list_with_reasons": vrt.ConcurrencySafe,
		"limit":                   "package-level slices and maps of unnamed type handed to uninstrumented functions are not recorded (element accesses made by goa's own code are hooked); func-typed variables are values",
	})
	c.Assume("context cancellation: the statement `<-ctx.Done()` in instrumented code and the handlers of the gRPC scenarios wait through vrt.AwaitDone (a blocking scheduler operation enabled once ctx.Err() != nil), " +
		"calls of context.CancelFunc values go through vrt.Cancel; every cancellation releases into ONE global clock that every completed wait acquires (over-approximation of the real edge: can hide, never invent a race); " +
		"`go func(){...}()` executed while the instance is built becomes a daemon thread; an execution whose scenario threads have finished ends when only blocked daemons are left; " +
		"sync.Map.Range visits a snapshot of the keys in first-store order")
	c.Assume("sync.Pool (shim): a Get returns ANY value Put before by any thread, or a fresh one -- every alternative is explored as a data choice of the caller (at most 7 pooled values + fresh per Get); " +
		"pool misuse (double Put, use after Put) is never reported by itself, only through the differential or the race oracle; pools inside uninstrumented packages (encoding/json, fmt) are the real sync.Pool on one P")
	c.Assume("sequential prefix: the prefix request runs single-threaded on the mounted server before the threads start; the sequential references are computed WITHOUT it (fresh server), " +
		"so state an earlier request leaves behind must not show in a later response either")
	j := Job()
	if c.Thorough() && os.Getenv("VERIF_C20_DEEP") != "0" {
		// thorough: additionally hook every field / element / pointee reached through ANY
		// pointer, slice or map in the instrumented packages (a superset of the quick hooks)
		j.Deep = true
	}
	c.Note("deep_instrumentation", j.Deep)
	b, err := sched.Build(j)
	if err != nil {
		c.HarnessError("C20: %v", err)
		return
	}
	o := sched.Options{Families: Families, RowGroup: rowGroup, AuxKeep: auxKeep}
	ms, err := b.Explore(c, o)
	if err != nil {
		c.HarnessError("C20: %v", err)
		return
	}
	b.Feed(c, o, ms)
	b.NoteInstrumentation(c, "")
	if c.Thorough() {
		// the big products of the request matrix (full prefix x pairs product, 3-thread multisets):
		// a second worker with the quick hooks
		fb, err := sched.Build(FullJob())
		if err != nil {
			c.HarnessError("C20: %v", err)
			return
		}
		fo := sched.Options{Families: []string{FullFamily}, Prefix: "full:", RowGroup: rowGroup}
		fms, err := fb.Explore(c, fo)
		switch {
		case errors.Is(err, sched.ErrNoScenario) && os.Getenv("VERIF_SCHED_ONLY") != "":
			// a restricted development run that selects nothing of the big products
		case err != nil:
			c.HarnessError("C20: %v", err)
			return
		default:
			fb.Feed(c, fo, fms)
			fb.NoteInstrumentation(c, "instrumentation_full_matrix")
		}
	}
	var sigs []string
	for _, m := range ms {
		for _, f := range m.Findings {
			if f.Class == "race" {
				sigs = append(sigs, f.Signature)
			}
		}
	}
	b.AuxRace(c, o, "aux_race_pass", sigs)
}

// Replay re-executes one recorded schedule.
func Replay(c *core.Ctx, path string) {
	j := Job()
	j.NoAux = true
	var rc struct {
		Check string `json:"check"`
	}
	if err := core.ReplayCase(path, &rc); err == nil && rc.Check == "c20full" {
		j = FullJob()
	}
	b, err := sched.Build(j)
	if err != nil {
		c.HarnessError("C20: %v", err)
		return
	}
	b.Replay(c, path)
}

// Package c20 is the driver of property C20 (family A: runtime helpers under the controlled
// scheduler). It runs in the plain check process: instruments pkg, http, http/middleware and
// middleware from /repo's working tree, builds the worker (checks/c20/worker), explores every
// scenario in sharded subprocesses and reports through core.Ctx.
package c20

import (
	"os"
	"path/filepath"

	"verif/core"
	"verif/instr"
	"verif/sched"
)

// Packages are the goa runtime packages instrumented for C20.
var Packages = []string{
	"goa.design/goa/v3/pkg",
	"goa.design/goa/v3/http",
	"goa.design/goa/v3/http/middleware",
	"goa.design/goa/v3/middleware",
}

// Job is the instrumented build of the C20 worker. extra points the instrumenter at further
// package directories (the generated code of family B).
func Job(extra ...instr.Target) sched.Job {
	root := core.Root()
	return sched.Job{
		Check:     "c20",
		Deep:      os.Getenv("VERIF_C20_DEEP") == "1", // Run switches it on for the thorough tier
		Packages:  Packages,
		Extra:     extra,
		WorkerPkg: "./checks/c20/worker",
		ExportFiles: map[string]string{
			"pkg/zz_verif_export.go":        filepath.Join(root, "checks", "c17sched", "export", "pkg_zz_verif_export.go.txt"),
			"middleware/zz_verif_export.go": filepath.Join(root, "checks", "c20", "export", "middleware_zz_verif_export.go.txt"),
		},
	}
}

// Families explored by the C20 check.
var Families = []string{"c20A", "c17"}

// Run explores family A.
func Run(c *core.Ctx) {
	c.Rule("one state = one inequivalent interleaving (distinct order of conflicting operations) of one scenario; one transition = one complete execution of the scenario's " +
		"threads on the real, instrumented goa code under the controlled scheduler; scenarios: 2-3 threads x 1-2 operations over the runtime helpers; " +
		"all schedules with <= 2 preemptions (thorough: 3 for two threads; pattern-cache scenarios with two threads: all interleavings); non-trivial = the scenario has more than one inequivalent interleaving")
	c.Assume("interleavings are explored at the granularity of hooked operations: sync/atomic shim operations and instrumented shared accesses " +
		"(package-level variables, closure-captured variables, fields through pointer receivers, their map/slice elements) of goa's pkg, http, http/middleware, middleware packages")
	c.Assume("chi, net/http, httptest, encoding/*, regexp, context run as opaque steps under the scheduler and are trusted as documented thread-safe")
	c.Assume("weaker-than-sequential-consistency effects are subsumed by the happens-before oracle: any conflicting pair not ordered by happens-before is reported whatever values were observed")
	c.Assume("error IDs (random per occurrence) are masked in the observables; time.Now/Since inside instrumented files read a virtual clock; the samplers' random source is a harness-owned seam")
	c.Assume("not covered by the scheduler (blocking inside uninstrumented primitives): SkipResponseWriter's io.Pipe, StreamCanceler's channel receive, WebSocket I/O; " +
		"FAMILY B (generated servers/clients) is added by the generation pipeline through sched.Job.Extra")
	c.Note("bounds", "family A: 2-3 threads x 1-2 operations, preemption bound 2 (quick) / 3 for two threads (thorough); C17 cache scenarios: all interleavings for two threads")
	j := Job()
	if c.Thorough() && os.Getenv("VERIF_C20_DEEP") != "0" {
		// thorough: additionally hook every field / element / pointee reached through ANY
		// pointer, slice or map in the instrumented packages (a superset of the quick hooks)
		j.Deep = true
	}
	c.Note("deep_instrumentation", j.Deep)
	b, err := sched.Build(j)
	if err != nil {
		c.HarnessError("C20: %v", err)
		return
	}
	o := sched.Options{Families: Families}
	ms, err := b.Explore(c, o)
	if err != nil {
		c.HarnessError("C20: %v", err)
		return
	}
	b.Feed(c, o, ms)
	b.NoteInstrumentation(c, "")
	var sigs []string
	for _, m := range ms {
		for _, f := range m.Findings {
			if f.Class == "race" {
				sigs = append(sigs, f.Signature)
			}
		}
	}
	b.AuxRace(c, o, "aux_race_pass", sigs)
}

// Replay re-executes one recorded schedule.
func Replay(c *core.Ctx, path string) {
	j := Job()
	j.NoAux = true
	b, err := sched.Build(j)
	if err != nil {
		c.HarnessError("C20: %v", err)
		return
	}
	b.Replay(c, path)
}

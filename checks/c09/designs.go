package c09

import (
	"encoding/json"
	"fmt"
	"os"
	"path/filepath"
	"strings"
	"time"

	"verif/core"
	"verif/e2/families"
	"verif/e2/pipe"
	"verif/e2/spec"
)

// collectDesigns returns the selection (designs that get the complete deviation menu) and the
// other designs (thorough tier only).
//
// Extra designs (xdesigns package, listed by the worker itself) are always selected. Quick tier:
// from every E2 family the last design (families are enumerated simplest-first), packed from
// the last method cases of the family that goa's DSL accepts (pipe.Filter, one fresh process per
// case). Thorough tier: every case of every family is filtered and packed as the other E2
// checks pack them, the middle and the last design of every family are selected;
// families with the default packing (8 methods, 1 service) are additionally re-packed 8 x 3 for
// the designs outside the selection (fewer, larger designs; every accepted case is in one).
func collectDesigns(c *core.Ctx, e *Env) (sel, others []*DesignRef, err error) {
	o, rerr, _ := runCmd(e.Dir, e.env, time.Minute, e.WorkerPlain, "-list")
	if rerr != nil {
		return nil, nil, fmt.Errorf("worker -list: %v\n%s", rerr, o)
	}
	for _, n := range strings.Fields(o) {
		sel = append(sel, &DesignRef{Name: n, XDesign: n, Family: "extra"})
	}
	c.Note("designs_extra", len(sel))
	specDir := filepath.Join(e.Dir, "specs")
	if err := os.MkdirAll(specDir, 0o755); err != nil {
		return nil, nil, err
	}
	write := func(fam, tag string, i int, s *spec.Spec) (*DesignRef, error) {
		s.Name = fmt.Sprintf("d%04d", i)
		if s.APIName == "" {
			s.APIName = s.Name
		}
		b, _ := json.Marshal(s)
		p := filepath.Join(specDir, fam+tag+"-"+s.Name+".json")
		if err := os.WriteFile(p, b, 0o644); err != nil {
			return nil, err
		}
		return &DesignRef{Name: fam + tag + "/" + s.Name, SpecPath: p, Family: fam}, nil
	}
	t0 := time.Now()
	rejected, filtered := 0, 0
	for _, f := range families.All(c.Thorough()) {
		if c.Expired() {
			c.Incomplete("deadline while collecting designs: family " + f.Name + " and later not packed")
			break
		}
		ps, pd := f.PerService, f.PerDesign
		if ps == 0 {
			ps = 8
		}
		if pd == 0 {
			pd = 1
		}
		if !c.Thorough() {
			// quick: the last design of the family, packed from its last cases
			w := 2 * ps * pd
			win := f.Cases
			if len(win) > w {
				win = win[len(win)-w:]
			}
			acc, rej, err := pipe.Filter(win)
			if err != nil {
				return nil, nil, err
			}
			rejected += len(rej)
			filtered += len(win)
			specs := spec.Pack(acc, ps, pd, f.Name)
			if len(specs) == 0 {
				continue
			}
			d, err := write(f.Name, "", len(specs)-1, specs[len(specs)-1])
			if err != nil {
				return nil, nil, err
			}
			d.Name = f.Name + "/last"
			sel = append(sel, d)
			continue
		}
		acc, rej, err := pipe.Filter(f.Cases)
		if err != nil {
			return nil, nil, err
		}
		rejected += len(rej)
		filtered += len(f.Cases)
		specs := spec.Pack(acc, ps, pd, f.Name)
		picked := map[int]bool{}
		if len(specs) > 0 {
			picked[len(specs)/2], picked[len(specs)-1] = true, true
		}
		for i, s := range specs {
			if !picked[i] && f.PerService == 0 && f.PerDesign == 0 {
				continue // covered by the 8 x 3 packing below
			}
			d, err := write(f.Name, "", i, s)
			if err != nil {
				return nil, nil, err
			}
			if picked[i] {
				sel = append(sel, d)
			} else {
				others = append(others, d)
			}
		}
		if f.PerService == 0 && f.PerDesign == 0 {
			for i, s := range spec.Pack(acc, 8, 3, f.Name) {
				d, err := write(f.Name, ".x3", i, s)
				if err != nil {
					return nil, nil, err
				}
				others = append(others, d)
			}
		}
		c.Note("family_"+f.Name+"_designs", len(specs))
	}
	c.Note("method_cases_given_to_goa", filtered)
	c.Note("method_cases_rejected_by_goa", rejected)
	c.Note("collect_designs_wall_s", time.Since(t0).Seconds())
	return sel, others, nil
}

package c09

import (
	"encoding/json"
	"fmt"
	"os"
	"path/filepath"
	"strings"
	"time"

	"verif/core"
	"verif/e2/families"
	"verif/e2/pipe"
	"verif/e2/spec"
)

// collectDesigns returns the extra designs (xdesigns package, listed by the worker itself) and
// every design of every E2 family: the method cases goa accepts (pipe.Filter, one fresh process
// per case) packed exactly as the other E2 checks pack them.
func collectDesigns(c *core.Ctx, e *Env) ([]*DesignRef, error) {
	var out []*DesignRef
	o, err, _ := runCmd(e.Dir, e.env, time.Minute, e.WorkerPlain, "-list")
	if err != nil {
		return nil, fmt.Errorf("worker -list: %v\n%s", err, o)
	}
	for _, n := range strings.Fields(o) {
		out = append(out, &DesignRef{Name: n, XDesign: n, Family: "extra"})
	}
	c.Note("designs_extra", len(out))
	specDir := filepath.Join(e.Dir, "specs")
	if err := os.MkdirAll(specDir, 0o755); err != nil {
		return nil, err
	}
	t0 := time.Now()
	rejected := 0
	for _, f := range families.All(c.Thorough()) {
		if c.Expired() {
			c.Incomplete("deadline while collecting designs: family " + f.Name + " and later not packed")
			break
		}
		acc, rej, err := pipe.Filter(f.Cases)
		if err != nil {
			return nil, err
		}
		rejected += len(rej)
		ps, pd := f.PerService, f.PerDesign
		if ps == 0 {
			ps = 8
		}
		if pd == 0 {
			pd = 1
		}
		specs := spec.Pack(acc, ps, pd, f.Name)
		for i, s := range specs {
			s.Name = fmt.Sprintf("d%04d", i)
			if s.APIName == "" {
				s.APIName = s.Name
			}
			b, _ := json.Marshal(s)
			p := filepath.Join(specDir, f.Name+"-"+s.Name+".json")
			if err := os.WriteFile(p, b, 0o644); err != nil {
				return nil, err
			}
			out = append(out, &DesignRef{Name: f.Name + "/" + s.Name, SpecPath: p, Family: f.Name})
		}
		c.Note("family_"+f.Name+"_designs", len(specs))
	}
	c.Note("method_cases_rejected_by_goa", rejected)
	c.Note("collect_designs_wall_s", time.Since(t0).Seconds())
	return out, nil
}

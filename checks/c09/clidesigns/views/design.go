// Package design is the "views" design of the C09 directory-history exploration (result types
// with several views and a collection), given to the real goa CLI.
package design

import . "goa.design/goa/v3/dsl" //nolint

var _ = API("cellar", func() {
	Title("Cellar")
})

var Bottle = ResultType("application/vnd.c09.bottle", func() {
	TypeName("Bottle")
	Attributes(func() {
		Attribute("id", UInt)
		Attribute("name", String, func() { MaxLength(100) })
		Attribute("vintage", Int, func() { Minimum(1900) })
		Attribute("tags", MapOf(String, String))
		Attribute("winery", Winery)
		Required("id", "name")
	})
	View("default", func() {
		Attribute("id")
		Attribute("name")
		Attribute("winery", func() { View("tiny") })
	})
	View("full", func() {
		Attribute("id")
		Attribute("name")
		Attribute("vintage")
		Attribute("tags")
		Attribute("winery")
	})
	View("tiny", func() {
		Attribute("id")
	})
})

var Winery = ResultType("application/vnd.c09.winery", func() {
	TypeName("Winery")
	Attributes(func() {
		Attribute("name", String)
		Attribute("region", String)
		Required("name")
	})
	View("default", func() {
		Attribute("name")
		Attribute("region")
	})
	View("tiny", func() {
		Attribute("name")
	})
})

var _ = Service("storage", func() {
	Error("not_found")
	HTTP(func() { Path("/storage") })
	Method("list", func() {
		Result(CollectionOf(Bottle), func() { View("tiny") })
		HTTP(func() { GET("/") })
	})
	Method("show", func() {
		Payload(func() {
			Attribute("id", UInt)
			Attribute("view", String, func() { Enum("default", "full", "tiny") })
			Required("id")
		})
		Result(Bottle)
		HTTP(func() {
			GET("/{id}")
			Param("view")
			Response(StatusOK)
			Response("not_found", StatusNotFound)
		})
	})
})

// Package design is the "multisvc" design of the C09 directory-history exploration (two
// services sharing types and errors, a file server), given to the real goa CLI.
package design

import . "goa.design/goa/v3/dsl" //nolint

var _ = API("shop", func() {
	Title("Shop")
	Error("unauthorized")
	HTTP(func() {
		Response("unauthorized", StatusUnauthorized)
	})
})

var Item = Type("Item", func() {
	Attribute("sku", String, func() { Pattern("^[A-Z]{3}[0-9]+$") })
	Attribute("qty", Int, func() { Minimum(1); Default(1) })
	Attribute("attrs", MapOf(String, String))
	Required("sku")
})

var Order = Type("Order", func() {
	Attribute("id", String)
	Attribute("items", ArrayOf(Item))
	Attribute("status", String, func() { Enum("open", "paid", "shipped") })
	Required("id", "items")
})

var _ = Service("orders", func() {
	Error("not_found")
	Error("unauthorized")
	HTTP(func() { Path("/orders") })
	Method("create", func() {
		Payload(func() {
			Attribute("items", ArrayOf(Item))
			Attribute("key", String)
			Required("items")
		})
		Result(Order)
		HTTP(func() {
			POST("/")
			Header("key:X-Key")
			Response(StatusCreated)
		})
	})
	Method("get", func() {
		Payload(func() {
			Attribute("id", String)
			Required("id")
		})
		Result(Order)
		HTTP(func() {
			GET("/{id}")
			Response(StatusOK)
			Response("not_found", StatusNotFound)
		})
	})
})

var _ = Service("catalog", func() {
	HTTP(func() { Path("/catalog") })
	Files("/docs/{*path}", "public")
	Method("list", func() {
		Payload(func() {
			Attribute("prefix", String)
			Attribute("limit", Int, func() { Default(20) })
		})
		Result(ArrayOf(Item))
		HTTP(func() {
			GET("/")
			Param("prefix")
			Param("limit")
		})
	})
})

// Package design is the "httponly" design of the C09 directory-history exploration: it is
// copied into a scratch module and given to the real goa CLI (`goa gen`, `goa example`).
package design

import . "goa.design/goa/v3/dsl" //nolint

var _ = API("calc", func() {
	Title("Calculator")
	Description("HTTP only, one service")
	Server("calc", func() {
		Host("localhost", func() { URI("http://localhost:8088") })
	})
})

var _ = Service("calc", func() {
	Description("The calc service performs operations on numbers")
	Error("div_by_zero")
	Method("add", func() {
		Payload(func() {
			Attribute("a", Int, "Left operand")
			Attribute("b", Int, "Right operand")
			Required("a", "b")
		})
		Result(Int)
		HTTP(func() {
			GET("/add/{a}/{b}")
			Response(StatusOK)
		})
	})
	Method("div", func() {
		Payload(func() {
			Attribute("a", Int)
			Attribute("b", Int)
			Attribute("note", String)
			Required("a", "b")
		})
		Result(func() {
			Attribute("q", Int)
			Attribute("r", Int)
			Required("q", "r")
		})
		HTTP(func() {
			POST("/div")
			Param("note")
			Response(StatusOK)
			Response("div_by_zero", StatusBadRequest)
		})
	})
})

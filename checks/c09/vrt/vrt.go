// Package vrt is the run-time half of the C09 map-order seam. The instrumenter
// (verif/checks/c09, instr.go) rewrites every `for ... range m` over a map in goa's generator
// packages into `for ... range vrt.Range(m, "<site>")`; through `go build -overlay` this file
// is visible to the instrumented goa packages as goa.design/goa/v3/pkg/vrt (standard library
// only, so goa's module needs no new requirement).
//
// Range yields the entries of m in an order chosen by the controller instead of the order
// chosen by the Go runtime:
//
//   - default: ascending key order (every site, every visit);
//   - a deviation names one static site S and a mode (environment variable C09_CTL,
//     "site=mode;site=mode"): visits of S yield their keys permuted by the mode, all other
//     sites stay ascending.
//
// Modes (keys k[0..n-1] ascending, n = number of keys of the visit):
//
//	p:<digits>  a permutation s of 0..L-1 written as L digits, e.g. p:201. A visit with n <= L
//	            keys yields them in the order s restricted to the values < n (every permutation
//	            of n keys is the restriction of some permutation of L >= n keys); visits with
//	            more than L keys stay ascending.
//	rev         reverse order              (every visit with n >= 2)
//	rot         rotate left by one         (every visit with n >= 2)
//	swp         swap the first two keys    (every visit with n >= 2)
//	altA, altB  reverse on the 1st, 3rd, ... (altA) or 2nd, 4th, ... (altB) visit that has
//	            n >= 2 keys, ascending on the others: the order is NOT the same on every visit
//	            (the Go runtime picks a fresh order per loop too).
//
// Keys that cannot be totally ordered (pointers, interfaces holding such values, structs,
// channels) keep the order of the Go runtime; the visit is counted as uncontrolled.
//
// Every visit is recorded (site -> number of visits, histogram of key counts); Flush writes the
// record to the file named by C09_REPORT so that the driver knows which (site, mode)
// deviations exist for a design.
//
// Semantics preserved: the map operand is evaluated once, entries deleted during the loop are
// not produced, values are read when the entry is produced, break / continue / labels / return
// behave as before (the loop body is untouched; range-over-func does the rest). Entries added
// during the loop are not produced (Go: "may or may not be").
package vrt

import (
	"encoding/json"
	"os"
	"reflect"
	"sort"
	"strings"
	"sync"
)

type stat struct {
	Visits       int         `json:"visits"`
	Lens         map[int]int `json:"lens"` // number of keys -> number of visits
	Uncontrolled int         `json:"uncontrolled,omitempty"`
	big          int         // ordinal among the visits with n >= 2
}

var (
	mu    sync.Mutex
	once  sync.Once
	ctl   map[string]string
	stats = map[string]*stat{}
)

func load() {
	ctl = map[string]string{}
	for _, part := range strings.Split(os.Getenv("C09_CTL"), ";") {
		if i := strings.LastIndexByte(part, '='); i > 0 {
			ctl[part[:i]] = part[i+1:]
		}
	}
}

// Range returns an iterator over m (usable by `for k, v := range` through range-over-func)
// that yields the entries in the controlled order for the given static site.
func Range[M ~map[K]V, K comparable, V any](m M, site string) func(yield func(K, V) bool) {
	return func(yield func(K, V) bool) {
		keys := make([]K, 0, len(m))
		for k := range m {
			keys = append(keys, k)
		}
		controlled := order(keys)
		mode, nth := visit(site, len(keys), controlled)
		if controlled && mode != "" {
			keys = permute(keys, mode, nth)
		}
		for _, k := range keys {
			v, ok := m[k]
			if !ok {
				continue // deleted by the loop body in the meantime
			}
			if !yield(k, v) {
				return
			}
		}
	}
}

// visit records one loop over a map at site and returns the mode selected for the site and the
// ordinal (1-based) of this visit among the visits of the site that have at least two keys.
func visit(site string, n int, controlled bool) (string, int) {
	once.Do(load)
	mu.Lock()
	defer mu.Unlock()
	s := stats[site]
	if s == nil {
		s = &stat{Lens: map[int]int{}}
		stats[site] = s
	}
	s.Visits++
	s.Lens[n]++
	if !controlled && n >= 2 {
		s.Uncontrolled++
	}
	if n >= 2 {
		s.big++
	}
	return ctl[site], s.big
}

// Permute is the pure permutation function of a mode (exported for the driver's self test).
func Permute(n int, mode string, nth int) []int {
	idx := make([]int, n)
	for i := range idx {
		idx[i] = i
	}
	return permute(idx, mode, nth)
}

func permute[K any](keys []K, mode string, nth int) []K {
	n := len(keys)
	if n < 2 {
		return keys
	}
	out := make([]K, 0, n)
	switch {
	case strings.HasPrefix(mode, "p:"):
		digits := mode[2:]
		if n > len(digits) {
			return keys
		}
		for _, d := range digits {
			if i := int(d - '0'); i >= 0 && i < n {
				out = append(out, keys[i])
			}
		}
		if len(out) != n {
			return keys
		}
		return out
	case mode == "rev" || (mode == "altA" && nth%2 == 1) || (mode == "altB" && nth%2 == 0):
		for i := n - 1; i >= 0; i-- {
			out = append(out, keys[i])
		}
		return out
	case mode == "rot":
		return append(append(out, keys[1:]...), keys[0])
	case mode == "swp":
		out = append(out, keys[1], keys[0])
		return append(out, keys[2:]...)
	}
	return keys
}

// order sorts keys ascending when their type admits a total order and reports whether it does.
func order[K comparable](keys []K) bool {
	if len(keys) < 2 {
		return true
	}
	switch ks := any(keys).(type) {
	case []string:
		sort.Strings(ks)
		return true
	case []int:
		sort.Ints(ks)
		return true
	}
	vals := make([]reflect.Value, len(keys))
	for i, k := range keys {
		vals[i] = reflect.ValueOf(k)
	}
	for i := 1; i < len(vals); i++ {
		if _, ok := compare(vals[0], vals[i]); !ok {
			return false
		}
	}
	less := func(a, b reflect.Value) bool { c, _ := compare(a, b); return c < 0 }
	perm := make([]int, len(keys))
	for i := range perm {
		perm[i] = i
	}
	sort.SliceStable(perm, func(i, j int) bool { return less(vals[perm[i]], vals[perm[j]]) })
	sorted := make([]K, len(keys))
	for i, p := range perm {
		sorted[i] = keys[p]
	}
	copy(keys, sorted)
	return true
}

// compare is a total order on values built from strings, numbers, booleans and structs / arrays /
// interfaces of those; ok is false when the two values do not admit one (pointers, channels,
// different dynamic types).
func compare(a, b reflect.Value) (c int, ok bool) {
	for a.Kind() == reflect.Interface && !a.IsNil() {
		a = a.Elem()
	}
	for b.Kind() == reflect.Interface && !b.IsNil() {
		b = b.Elem()
	}
	if a.Kind() != b.Kind() {
		return 0, false
	}
	cmp := func(lt, gt bool) (int, bool) {
		switch {
		case lt:
			return -1, true
		case gt:
			return 1, true
		}
		return 0, true
	}
	switch a.Kind() {
	case reflect.String:
		return cmp(a.String() < b.String(), a.String() > b.String())
	case reflect.Int, reflect.Int8, reflect.Int16, reflect.Int32, reflect.Int64:
		return cmp(a.Int() < b.Int(), a.Int() > b.Int())
	case reflect.Uint, reflect.Uint8, reflect.Uint16, reflect.Uint32, reflect.Uint64, reflect.Uintptr:
		return cmp(a.Uint() < b.Uint(), a.Uint() > b.Uint())
	case reflect.Float32, reflect.Float64:
		return cmp(a.Float() < b.Float(), a.Float() > b.Float())
	case reflect.Bool:
		return cmp(!a.Bool() && b.Bool(), a.Bool() && !b.Bool())
	case reflect.Struct:
		if a.Type() != b.Type() {
			return 0, false
		}
		for i := 0; i < a.NumField(); i++ {
			c, ok := compare(a.Field(i), b.Field(i))
			if !ok || c != 0 {
				return c, ok
			}
		}
		return 0, true
	case reflect.Array:
		if a.Type() != b.Type() {
			return 0, false
		}
		for i := 0; i < a.Len(); i++ {
			c, ok := compare(a.Index(i), b.Index(i))
			if !ok || c != 0 {
				return c, ok
			}
		}
		return 0, true
	}
	return 0, false
}

// Flush writes the visit record to $C09_REPORT (no-op when unset).
func Flush() {
	path := os.Getenv("C09_REPORT")
	if path == "" {
		return
	}
	mu.Lock()
	defer mu.Unlock()
	b, _ := json.Marshal(map[string]any{"sites": stats})
	_ = os.WriteFile(path, b, 0o644)
}

//go:build c09instr

package main

import "goa.design/goa/v3/pkg/vrt" // exists only under the C09 overlay

func flush() { vrt.Flush() }

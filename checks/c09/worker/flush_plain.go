//go:build !c09instr

package main

func flush() {}

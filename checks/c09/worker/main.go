// Command worker is the C09 generator worker: the same logic as cmd/genworker (Build(spec) or
// an extra design written with the public DSL -> eval.RunDSL -> generator.Generate(dir, "gen")
// and "example"), one fresh process per run. It is built twice from the same sources: plain
// (Go's own map randomisation is present) and with `-overlay` + `-tags c09instr` (every range
// over a map in goa's generator packages goes through vrt.Range, see ../vrt).
//
//	worker (-spec file.json | -xdesign name) -out dir [-cmds gen,example] [-twice]
//
// -twice: after the first generation dir is renamed to dir+".first" and the generators run a
// second time IN THE SAME PROCESS into a fresh dir (same path, hence same import paths).
package main

import (
	"encoding/json"
	"flag"
	"fmt"
	"os"
	"runtime/debug"
	"strings"

	"goa.design/goa/v3/codegen/generator"
	"goa.design/goa/v3/eval"
	"goa.design/goa/v3/expr"

	"verif/checks/c09/xdesigns"
	"verif/e2/build"
	"verif/e2/spec"
)

type result struct {
	Design   string   `json:"design"`
	Stage    string   `json:"stage"`
	OK       bool     `json:"ok"`
	Error    string   `json:"error,omitempty"`
	Panic    string   `json:"panic,omitempty"`
	Stack    string   `json:"stack,omitempty"`
	API      string   `json:"api,omitempty"`
	Services []string `json:"services,omitempty"`
}

func main() {
	specPath := flag.String("spec", "", "spec json")
	xd := flag.String("xdesign", "", "name of an extra design (xdesigns package)")
	out := flag.String("out", "", "output directory (inside a Go module)")
	cmds := flag.String("cmds", "gen,example", "comma separated generator commands")
	twice := flag.Bool("twice", false, "generate a second time in the same process")
	list := flag.Bool("list", false, "print the names of the extra designs")
	flag.Parse()
	if *list {
		fmt.Println(strings.Join(xdesigns.Names(), "\n"))
		return
	}
	res := &result{}
	defer func() {
		if r := recover(); r != nil {
			res.OK = false
			res.Panic = fmt.Sprint(r)
			res.Stack = string(debug.Stack())
		}
		flush()
		b, _ := json.Marshal(res)
		fmt.Println(string(b))
	}()
	res.Stage = "build"
	switch {
	case *xd != "":
		res.Design = *xd
		f := xdesigns.Designs[*xd]
		if f == nil {
			res.Stage, res.Error = "read", "unknown extra design "+*xd
			return
		}
		f()
	default:
		b, err := os.ReadFile(*specPath)
		if err != nil {
			res.Stage, res.Error = "read", err.Error()
			return
		}
		var s spec.Spec
		if err := json.Unmarshal(b, &s); err != nil {
			res.Stage, res.Error = "read", err.Error()
			return
		}
		res.Design = s.Name
		build.Build(&s)
	}
	if eval.Context.Errors != nil {
		res.Stage, res.Error = "eval", eval.Context.Errors.Error()
		return
	}
	res.Stage = "eval"
	if err := eval.RunDSL(); err != nil {
		res.Error = err.Error()
		return
	}
	// names only serve to abstract file paths in violation signatures
	if expr.Root.API != nil {
		res.API = expr.Root.API.Name
	}
	for _, s := range expr.Root.Services {
		res.Services = append(res.Services, s.Name)
	}
	rounds := 1
	if *twice {
		rounds = 2
	}
	for round := 0; round < rounds; round++ {
		if round == 1 {
			if err := os.Rename(*out, *out+".first"); err != nil {
				res.Stage, res.Error = "rename", err.Error()
				return
			}
			if err := os.MkdirAll(*out, 0o755); err != nil {
				res.Stage, res.Error = "rename", err.Error()
				return
			}
		}
		for _, cmd := range strings.Split(*cmds, ",") {
			res.Stage = cmd
			if _, err := generator.Generate(*out, cmd); err != nil {
				res.Error = err.Error()
				return
			}
		}
	}
	res.OK, res.Stage = true, "done"
}

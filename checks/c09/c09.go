// Package c09 implements check C09: code generation is deterministic, repeatable and never
// clobbers example files. Three explorations, each the complete enumeration of a stated finite
// space (no sampling):
//
//  1. map-order deviations (maporder.go, instr.go, vrt/): every range over a map in goa's
//     generator packages is put under the control of the check; per design one baseline with
//     every map ascending, then one fresh process per reached site x permutation (bound 1),
//     thorough: pairs of sites in expr/hasher.go, codegen/scope.go, http/codegen/openapi/**
//     (bound 2). Oracle: same file list, same bytes.
//  2. repetition (repeat.go): twice in one process; n fresh uninstrumented processes.
//  3. directory histories with the real CLI (cli.go): breadth-first search over operation
//     sequences {gen, example, edit, del-example, del-gen, stray}.
//
// The oracle comes from the property statement only: equality of outputs, and "example never
// modifies a file that already exists". No golden output, no knowledge of what goa generates.
package c09

import (
	"encoding/json"
	"fmt"
	"os"
	"path/filepath"
	"sort"
	"time"

	"verif/core"
)

// Run is the check.
func Run(c *core.Ctx) {
	c.Rule("three explorations. (1) map-order: a state is (design, deviation) where a deviation forces ONE static range-over-map site of goa's generator " +
		"packages (found by type-checking the current tree) to yield its keys in a non-ascending order: every permutation for visits with <=4 keys, " +
		"reverse/rotate/swap for longer ones, and two orders that change from visit to visit; complete over reached sites x menu for every selected design " +
		"(thorough: all designs of all E2 families, plus both-reversed pairs of sites in hasher.go/openapi for the quick selection); one transition = one fresh generator process " +
		"(gen + example); non-trivial = the forced order differs from the baseline order on a map with >=2 keys. (2) repetition: per design, twice in one process and n fresh " +
		"uninstrumented processes. (3) real-CLI directory histories: a state is the digest of (paths, bytes) of the output directory, BFS over all operation sequences up to the bound " +
		"from {gen, example, edit, del-example, del-gen, stray}; one CLI run = one transition.")
	c.Assume("protoc (external to goa, needed by the gRPC generator) is replaced in explorations 1-2 by a stand-in that is a pure function of the .proto file; the real CLI exploration uses HTTP-only designs")
	c.Assume("the instrumented worker differs from the plain one only in the order in which range-over-map loops yield their entries (operand evaluated once, deleted entries skipped, values read when yielded); entries added during a loop are never yielded, which Go permits")
	c.Assume("every run of a design uses the same module name, relative output path and command line, which are inputs of generation by the property statement; the generated-file header shows the command line")
	c.Assume("designs that goa itself rejects or cannot generate are C01/C12 territory: counted, not judged here")
	c.Assume("gen/ is documented as wiped and re-written by every run (codegen.Gendir); files the user adds directly under gen/ (not inside a subdirectory) are outside the explored alphabet")

	e, err := Setup(c)
	if err != nil {
		c.HarnessError("setup: %v", err)
		return
	}
	defer e.Cleanup()
	c.Note("packages_instrumented", e.Instr.Packages)
	c.Note("files_rewritten", e.Instr.Files)
	var static []string
	for _, s := range e.Instr.Sites {
		static = append(static, s.ID)
	}
	c.Note("sites", static)

	sel, others, err := collectDesigns(c, e)
	if err != nil {
		c.HarnessError("collecting designs: %v", err)
		return
	}
	full, pairs := map[string]bool{}, map[string]bool{}
	var names []string
	for _, d := range sel {
		full[d.Name] = true
		names = append(names, d.Name)
	}
	designs := sel
	fresh := 2
	cliDepth := []int{4, 3, 3}
	if c.Thorough() {
		pairs = full
		designs = append(append([]*DesignRef{}, sel...), others...)
		fresh = 5
		cliDepth = []int{5, 5, 5}
		c.Note("bounds", "map-order: bound 1 with the complete menu (every permutation for <=4 keys, reverse/rotate/swap beyond, altA/altB) and bound 2 (pairs of hasher/openapi sites, both reversed) "+
			"over the selection (extra designs + middle and last design of every family); bound 1 with the menu {reverse, altA} over all other designs of all families; "+
			"repetition: twice in-process + 5 fresh processes per design; CLI histories: length <= 5 for 3 designs (one of them with -o out)")
	} else {
		c.Note("bounds", "map-order: bound 1 with the complete menu over the selection (extra designs + last design of every family); "+
			"repetition: twice in-process + 2 fresh processes per design; CLI histories: length <= 4 (httponly) and <= 3 (views with -o out, multisvc)")
	}
	c.Note("designs_selection", names)
	c.Note("designs_total", len(designs))

	// C09_ONLY=map-order|repetition|cli restricts a run to one exploration (development aid for
	// mutation experiments on a loaded machine; such a run is reported as incomplete)
	only := os.Getenv("C09_ONLY")
	if only != "" {
		c.Incomplete("C09_ONLY=" + only + ": the other explorations were not run")
	}
	// the CLI exploration is independent of the others: run it concurrently
	done := make(chan struct{})
	go func() {
		defer close(done)
		if only != "" && only != "cli" {
			return
		}
		defer func() {
			if r := recover(); r != nil {
				c.HarnessError("cli exploration panicked: %v", r)
			}
		}()
		RunCLI(c, e, []CLITarget{{"httponly", "", cliDepth[0]}, {"views", "out", cliDepth[1]}, {"multisvc", "", cliDepth[2]}})
	}()
	if only == "cli" {
		<-done
		return
	}
	if only == "repetition" {
		full, pairs = map[string]bool{}, map[string]bool{}
		e.noDeviations = true
	}
	t0 := time.Now()
	bases, orderDependent := RunMapOrder(c, e, designs, full, pairs)
	c.Note("map_order_wall_s", time.Since(t0).Seconds())
	t0 = time.Now()
	for _, b := range bases[:min(3, len(bases))] {
		c.Sample(map[string]any{"exploration": "map-order", "design": b.d.Name, "files": len(b.run.Tree), "sites_reached": len(b.run.Report)})
	}
	if only == "" || only == "repetition" {
		RunRepetition(c, e, bases, fresh, orderDependent)
	}
	c.Note("repetition_wall_s", time.Since(t0).Seconds())
	<-done
}

// Replay re-executes one replay file.
func Replay(c *core.Ctx, path string) {
	var probe struct {
		Exploration string `json:"exploration"`
	}
	if err := core.ReplayCase(path, &probe); err != nil {
		c.HarnessError("replay: %v", err)
		return
	}
	e, err := Setup(c)
	if err != nil {
		c.HarnessError("setup: %v", err)
		return
	}
	defer e.Cleanup()
	restore := func(d *DesignRef, spec any) {
		if d.XDesign != "" || spec == nil {
			return
		}
		b, _ := json.Marshal(spec)
		d.SpecPath = filepath.Join(e.Dir, "replay-spec.json")
		_ = os.WriteFile(d.SpecPath, b, 0o644)
	}
	switch probe.Exploration {
	case "map-order":
		var mc MapOrderCase
		_ = core.ReplayCase(path, &mc)
		restore(&mc.Design, mc.Spec)
		m := newMapOrder(c, e)
		bases := m.runBaselines([]*DesignRef{&mc.Design})
		if len(bases) != 1 {
			c.HarnessError("replay: baseline of %s not generated", mc.Design.Name)
			return
		}
		m.runDeviation(devJob{bases[0], mc.Deviations})
		fmt.Printf("replay map-order design=%s deviations=%s violations=%d\n", mc.Design.Name, ctlString(mc.Deviations), c.ViolationCount())
	case "same-process", "fresh-process", "instrumented-vs-plain":
		var rc RepeatCase
		_ = core.ReplayCase(path, &rc)
		restore(&rc.Design, rc.Spec)
		m := newMapOrder(c, e)
		bases := m.runBaselines([]*DesignRef{&rc.Design})
		if len(bases) != 1 {
			c.HarnessError("replay: baseline of %s not generated", rc.Design.Name)
			return
		}
		RunRepetition(c, e, bases, 12, nil)
		fmt.Printf("replay repetition design=%s violations=%d\n", rc.Design.Name, c.ViolationCount())
	case "cli":
		var cc CLICase
		_ = core.ReplayCase(path, &cc)
		x := &cliExplorer{c: c, e: e}
		d := &cliDesign{name: cc.Design, out: cc.Out}
		dir, err := x.newSlot(cc.Design, 0)
		if err != nil {
			c.HarnessError("replay: %v", err)
			return
		}
		if err := x.reference(d, dir); err != nil {
			c.HarnessError("replay: %v", err)
			return
		}
		fails, err := x.runHistory(d, dir, cc.Ops)
		if err != nil {
			c.HarnessError("replay: %v", err)
			return
		}
		sort.Slice(fails, func(i, j int) bool { return fails[i][0] < fails[j][0] })
		for _, f := range fails {
			fmt.Printf("  %s: %s\n", f[0], f[1])
			c.Violation(f[0], f[1], cc, nil)
		}
		fmt.Printf("replay cli design=%s history=%v failures=%d\n", cc.Design, cc.Ops, len(fails))
	default:
		c.HarnessError("replay: unknown exploration %q", probe.Exploration)
	}
}

// Command protoc (C09 stand-in) is put first on PATH of the C09 generator workers: goa's gRPC
// generator shells out to `protoc` from the FinalizeFunc of every .proto file and fails without
// it. protoc is not part of goa; for the determinism property it is enough that the external
// tool is a pure function of its input, so this stand-in writes <name>.pb.go and
// <name>_grpc.pb.go holding the SHA-256 of the .proto file it was given.
package main

import (
	"crypto/sha256"
	"fmt"
	"os"
	"path/filepath"
	"strings"
)

func main() {
	var proto, out string
	args := os.Args[1:]
	for i := 0; i < len(args); i++ {
		a := args[i]
		switch {
		case strings.HasSuffix(a, ".proto") && !strings.HasPrefix(a, "-"):
			proto = a
		case a == "--go_out" && i+1 < len(args):
			out = args[i+1]
			i++
		case strings.HasPrefix(a, "--go_out="):
			out = strings.TrimPrefix(a, "--go_out=")
		case (a == "--proto_path" || a == "--go-grpc_out" || a == "-I") && i+1 < len(args):
			i++
		}
	}
	if proto == "" || out == "" {
		fmt.Fprintln(os.Stderr, "protoc stand-in: need a .proto file and --go_out")
		os.Exit(1)
	}
	b, err := os.ReadFile(proto)
	if err != nil {
		fmt.Fprintln(os.Stderr, err)
		os.Exit(1)
	}
	base := strings.TrimSuffix(filepath.Base(proto), ".proto")
	pkg := "pb"
	for _, line := range strings.Split(string(b), "\n") {
		if f := strings.Fields(line); len(f) == 2 && f[0] == "package" {
			pkg = strings.TrimSuffix(f[1], ";")
		}
	}
	for _, suffix := range []string{".pb.go", "_grpc.pb.go"} {
		src := fmt.Sprintf("// Stand-in for protoc output (C09). Input digest: %x\n\npackage %s\n", sha256.Sum256(b), pkg)
		if err := os.WriteFile(filepath.Join(out, base+suffix), []byte(src), 0o644); err != nil {
			fmt.Fprintln(os.Stderr, err)
			os.Exit(1)
		}
	}
}

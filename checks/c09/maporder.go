package c09

import (
	"fmt"
	"path/filepath"
	"sort"
	"strings"
	"sync"

	"verif/core"
)

// Deviation forces one static site to iterate in a non-ascending order.
type Deviation struct {
	Site string `json:"site"`
	Mode string `json:"mode"`
}

func ctlString(devs []Deviation) string {
	var parts []string
	for _, d := range devs {
		parts = append(parts, d.Site+"="+d.Mode)
	}
	return strings.Join(parts, ";")
}

// MapOrderCase is the replay case of a map-order violation.
type MapOrderCase struct {
	Exploration string      `json:"exploration"` // "map-order"
	Design      DesignRef   `json:"design"`
	Spec        any         `json:"spec,omitempty"`
	Deviations  []Deviation `json:"deviations"`
	Differs     []string    `json:"differs"`
}

// permsOf returns every non-identity permutation of 0..n-1 as a digit string, in
// lexicographic order.
func permsOf(n int) []string {
	var out []string
	core.Permutations(n, func(p []int) bool {
		var sb strings.Builder
		ident := true
		for i, v := range p {
			sb.WriteByte(byte('0' + v))
			if v != i {
				ident = false
			}
		}
		if !ident {
			out = append(out, sb.String())
		}
		return true
	})
	sort.Strings(out)
	return out
}

// modesFor is the deviation menu of one site for one design, derived from the visit record of
// the baseline run: every permutation for visits with at most four keys; reverse, rotate-by-one
// and swap-first-two when some visit has more; and the two orders that differ from one visit to
// the next when the site is visited at least twice with two or more keys.
//
// The reduced menu (thorough tier, designs outside the selection) is {reverse, altA}.
func modesFor(v *SiteVisits, reduced bool) []string {
	max, maxSmall, multi := v.MaxLen()
	if max < 2 || v.Uncontrolled >= multi {
		return nil
	}
	var out []string
	if reduced {
		out = append(out, "rev")
		if multi >= 2 {
			out = append(out, "altA")
		}
		return out
	}
	if maxSmall >= 2 {
		for _, p := range permsOf(maxSmall) {
			out = append(out, "p:"+p)
		}
	}
	if max > 4 {
		out = append(out, "rev", "rot", "swp")
	}
	if multi >= 2 {
		out = append(out, "altA", "altB")
	}
	return out
}

// pairScope says whether a site takes part in the bound-2 exploration.
func pairScope(site string) bool {
	return strings.HasPrefix(site, "expr/hasher.go:") || strings.HasPrefix(site, "codegen/scope.go:") ||
		strings.HasPrefix(site, "http/codegen/openapi/")
}

type siteStat struct {
	Designs   int `json:"designs_reaching"`        // designs whose baseline visits the site at all
	Designs2  int `json:"designs_with_2plus_keys"` // ... with a map of at least two keys
	MaxKeys   int `json:"max_keys"`
	Runs      int `json:"deviation_runs"`
	Uncontrol int `json:"uncontrolled_visits"`
}

type mapOrder struct {
	c     *core.Ctx
	e     *Env
	mu    sync.Mutex
	sites map[string]*siteStat
	seen  map[string]bool
	// failing: design -> sites whose bound-1 deviation changes the output
	failing map[string]map[string]bool
	stats   struct {
		baselines, notGenerated, deviations, pairs int
	}
}

func newMapOrder(c *core.Ctx, e *Env) *mapOrder {
	return &mapOrder{c: c, e: e, sites: map[string]*siteStat{}, seen: map[string]bool{}, failing: map[string]map[string]bool{}}
}

func (m *mapOrder) firstSeen(sig string) bool {
	m.mu.Lock()
	defer m.mu.Unlock()
	if m.seen[sig] {
		return false
	}
	m.seen[sig] = true
	return true
}

type baseline struct {
	d   *DesignRef
	run *GenRun
}

// runBaselines generates every design once with all sites ascending.
func (m *mapOrder) runBaselines(designs []*DesignRef) []*baseline {
	out := make([]*baseline, len(designs))
	core.Parallel(len(designs), func(i int) {
		if m.c.Expired() {
			return
		}
		d := designs[i]
		r, err := m.e.Generate(d, true, "", false, false)
		if err != nil {
			m.c.HarnessError("baseline of %s: %v", d.Name, err)
			return
		}
		m.c.Exec(1)
		if !r.Res.OK {
			// goa rejects or crashes on the design: C01 / C12 territory, recorded only
			m.mu.Lock()
			m.stats.notGenerated++
			m.mu.Unlock()
			m.c.Outcome("design not generated (stage " + r.Res.Stage + ")")
			if d.XDesign != "" {
				// a hand-written design that goa does not generate is lost coverage, not a pass
				m.c.Incomplete("extra design " + d.Name + " was not generated (stage " + r.Res.Stage + "): the sites only it reaches are not explored")
			}
			return
		}
		out[i] = &baseline{d: d, run: r}
		m.c.State("map-order|"+d.Name+"|baseline", false)
		m.mu.Lock()
		m.stats.baselines++
		for id, v := range r.Report {
			st := m.sites[id]
			if st == nil {
				st = &siteStat{}
				m.sites[id] = st
			}
			st.Designs++
			max, _, _ := v.MaxLen()
			if max >= 2 {
				st.Designs2++
			}
			if max > st.MaxKeys {
				st.MaxKeys = max
			}
			st.Uncontrol += v.Uncontrolled
		}
		m.mu.Unlock()
	})
	var kept []*baseline
	for _, b := range out {
		if b != nil {
			kept = append(kept, b)
		}
	}
	return kept
}

type devJob struct {
	b    *baseline
	devs []Deviation
}

// jobsFor lists the bound-1 deviations of one design: every reached site x its menu.
func jobsFor(b *baseline, reduced bool) []devJob {
	var ids []string
	for id := range b.run.Report {
		ids = append(ids, id)
	}
	sort.Strings(ids)
	var jobs []devJob
	for _, id := range ids {
		for _, mode := range modesFor(b.run.Report[id], reduced) {
			jobs = append(jobs, devJob{b, []Deviation{{id, mode}}})
		}
	}
	return jobs
}

// pairJobsFor lists the bound-2 deviations of one design: every unordered pair of reached
// in-scope sites, both reversed. Sites that already change the output on their own (failing) are
// left out: a pair containing one is not a minimal deviation.
func pairJobsFor(b *baseline, failing map[string]bool) (jobs []devJob, subsumed int) {
	var scoped []string
	for id, v := range b.run.Report {
		if pairScope(id) && len(modesFor(v, true)) > 0 {
			scoped = append(scoped, id)
		}
	}
	sort.Strings(scoped)
	for i := 0; i < len(scoped); i++ {
		for j := i + 1; j < len(scoped); j++ {
			if failing[scoped[i]] || failing[scoped[j]] {
				subsumed++
				continue
			}
			jobs = append(jobs, devJob{b, []Deviation{{scoped[i], "rev"}, {scoped[j], "rev"}}})
		}
	}
	return jobs, subsumed
}

func siteWhere(id string) string {
	if i := strings.LastIndexByte(id, '#'); i >= 0 {
		return id[:i]
	}
	return id
}

func (m *mapOrder) signature(devs []Deviation, class string) string {
	if len(devs) == 1 {
		return fmt.Sprintf("C09 map-order site=%s differs=%s", siteWhere(devs[0].Site), class)
	}
	var w []string
	for _, d := range devs {
		w = append(w, siteWhere(d.Site))
	}
	return fmt.Sprintf("C09 map-order sites=%s differs=%s", strings.Join(w, "+"), class)
}

// runDeviation executes one deviation and compares with the baseline.
func (m *mapOrder) runDeviation(j devJob) {
	c := m.c
	d := j.b.d
	ctl := ctlString(j.devs)
	r, err := m.e.Generate(d, true, ctl, false, false)
	if err != nil {
		c.HarnessError("deviation %s of %s: %v", ctl, d.Name, err)
		return
	}
	c.Exec(1)
	c.State("map-order|"+d.Name+"|"+ctl, true)
	m.mu.Lock()
	if len(j.devs) == 1 {
		m.stats.deviations++
	} else {
		m.stats.pairs++
	}
	for _, dv := range j.devs {
		if st := m.sites[dv.Site]; st != nil {
			st.Runs++
		}
	}
	m.mu.Unlock()
	file := j.devs[0].Site[:strings.IndexByte(j.devs[0].Site, ':')]
	api, svcs := j.b.run.Res.API, j.b.run.Res.Services
	if !r.Res.OK {
		// the same design generated under the ascending order: failing under another order is
		// a dependence on the iteration order
		c.Outcome("generation fails under deviation")
		devs := j.devs
		sig := m.signature(devs, "generation-fails("+r.Res.Stage+")")
		c.Violation(sig, fmt.Sprintf("design %s generates with every map ascending but fails with %s: stage %s: %s%s",
			d.Name, ctl, r.Res.Stage, clip(r.Res.Error+r.Res.Panic, 300), clip(r.Res.Raw, 300)),
			m.replayCase(d, devs, []string{"generation-fails"}),
			func() bool {
				r2, err := m.e.Generate(d, true, ctl, false, false)
				return err == nil && !r2.Res.OK
			})
		return
	}
	diff := diffTrees(j.b.run.Tree, r.Tree)
	if len(diff) == 0 {
		c.Outcome("identical under deviation in " + file)
		return
	}
	c.Outcome("differs under deviation in " + file)
	if len(j.devs) == 1 {
		m.mu.Lock()
		if m.failing[d.Name] == nil {
			m.failing[d.Name] = map[string]bool{}
		}
		m.failing[d.Name][j.devs[0].Site] = true
		m.mu.Unlock()
	}
	classes := diffClasses(diff, api, svcs)
	what := ""
	for _, class := range classes {
		if m.firstSeen(m.signature(j.devs, class)) && what == "" {
			what = m.explain(d, ctl, diff)
		}
	}
	if what == "" {
		what = fmt.Sprintf("design %s with %s: %s", d.Name, ctl, clip(strings.Join(diff, " "), 200))
	}
	for _, class := range classes {
		class := class
		devs := j.devs
		c.Violation(m.signature(devs, class), what, m.replayCase(d, devs, diff), func() bool {
			b2, err := m.e.Generate(d, true, "", false, false)
			if err != nil || !b2.Res.OK {
				return false
			}
			r2, err := m.e.Generate(d, true, ctl, false, false)
			if err != nil || !r2.Res.OK {
				return false
			}
			for _, cl := range diffClasses(diffTrees(b2.Tree, r2.Tree), api, svcs) {
				if cl == class {
					return true
				}
			}
			return false
		})
	}
}

func (m *mapOrder) replayCase(d *DesignRef, devs []Deviation, diff []string) MapOrderCase {
	return MapOrderCase{Exploration: "map-order", Design: *d, Spec: loadSpec(d), Deviations: devs, Differs: diff}
}

// explain regenerates both outputs and describes the first difference.
func (m *mapOrder) explain(d *DesignRef, ctl string, diff []string) string {
	what := fmt.Sprintf("design %s: output with %s differs from the output with every map in ascending key order: %s",
		d.Name, ctl, clip(strings.Join(diff, " "), 400))
	a, err1 := m.e.Generate(d, true, "", false, true)
	b, err2 := m.e.Generate(d, true, ctl, false, true)
	if err1 == nil && err2 == nil {
		for _, p := range diff {
			if p[0] == '~' {
				what += "; first difference in " + p[1:] + ": " + firstDifference(filepath.Join(a.Dir, "d", p[1:]), filepath.Join(b.Dir, "d", p[1:]))
				break
			}
		}
	}
	if a != nil {
		removeAll(a.Dir)
	}
	if b != nil {
		removeAll(b.Dir)
	}
	return what
}

// siteRemarks documents the static sites that no design of the envelope can drive with two or
// more keys (reviewed by hand; the evidence lists them so that a change of goa shows up).
var siteRemarks = map[string]string{
	"expr/attribute.go:AttributeExpr.debug#1":                  "debugging helper, no caller in the generators",
	"http/codegen/openapi/json_schema.go:Schema.Dup#1":         "Schema.Dup has no caller in goa's non-test code",
	"http/codegen/openapi/json_schema.go:Schema.Dup#2":         "Schema.Dup has no caller in goa's non-test code",
	"http/codegen/openapi/json_schema.go:propertiesFromDefs#1": "only called by APISchema, which has no caller in the generators",
	"codegen/funcs.go:SnakeCase#1":                             "ranges over the static one-entry table toLower",
	"http/codegen/openapi/v3/builder.go:buildOperation#3":      "ranges over the content map of a response, which holds exactly one media type",
	"http/codegen/openapi/v3/response.go:responseFromExpr#1":   "guarded by len(cookies) == 1",
	"http/codegen/openapi/merge.go:Schema.Merge#2":             "TypeSchema never fills Definitions of the schema it returns",
	"expr/mapped_attribute.go:MappedAttributeExpr.Delete#1":    "only called on body mapped attributes built from payload/result attribute names, which carry no \"attr:wire\" mapping: the reverse map is empty",
}

// RunMapOrder is exploration 1.
// Designs in full get the complete deviation menu, the others the reduced one; designs in pairs
// additionally get the bound-2 deviations.
func RunMapOrder(c *core.Ctx, e *Env, designs []*DesignRef, full, pairDesigns map[string]bool) ([]*baseline, map[string]map[string]bool) {
	m := newMapOrder(c, e)
	bases := m.runBaselines(designs)
	run := func(jobs []devJob, what string) {
		var skipped int64
		var smu sync.Mutex
		core.Parallel(len(jobs), func(i int) {
			if c.Expired() {
				smu.Lock()
				skipped++
				smu.Unlock()
				return
			}
			m.runDeviation(jobs[i])
		})
		if skipped > 0 {
			c.Incomplete(fmt.Sprintf("map-order %s: deadline reached, %d of %d planned deviation runs not executed (jobs are ordered by design)", what, skipped, len(jobs)))
		}
	}
	var jobs []devJob
	for _, b := range bases {
		if e.noDeviations {
			break
		}
		jobs = append(jobs, jobsFor(b, !full[b.d.Name])...)
	}
	c.Note("map_order_bound1_planned", len(jobs))
	run(jobs, "bound 1")
	var pairs []devJob
	subsumed := 0
	for _, b := range bases {
		if e.noDeviations || !pairDesigns[b.d.Name] {
			continue
		}
		pj, sub := pairJobsFor(b, m.failing[b.d.Name])
		pairs = append(pairs, pj...)
		subsumed += sub
	}
	if len(pairDesigns) > 0 {
		c.Note("map_order_bound2_planned", len(pairs))
		c.Note("map_order_bound2_pairs_subsumed_by_a_bound1_difference", subsumed)
		run(pairs, "bound 2")
	}
	// coverage of the static sites
	static := map[string]*Site{}
	for _, s := range e.Instr.Sites {
		static[s.ID] = s
	}
	var unreached, unreached2, uncontrolled []string
	reach := map[string]*siteStat{}
	for _, s := range e.Instr.Sites {
		st := m.sites[s.ID]
		if st == nil {
			unreached = append(unreached, s.ID)
			continue
		}
		reach[s.ID] = st
		if st.Designs2 == 0 {
			unreached2 = append(unreached2, s.ID)
		}
		if !s.Controlled || st.Uncontrol > 0 {
			uncontrolled = append(uncontrolled, s.ID)
		}
	}
	for _, s := range e.Instr.Sites {
		if !s.Controlled {
			found := false
			for _, u := range uncontrolled {
				if u == s.ID {
					found = true
				}
			}
			if !found {
				uncontrolled = append(uncontrolled, s.ID)
			}
		}
	}
	sort.Strings(uncontrolled)
	if uncontrolled == nil {
		uncontrolled = []string{}
	}
	c.Note("sites_static", len(e.Instr.Sites))
	c.Note("sites_reached", len(reach))
	c.Note("sites_reached_with_2plus_keys", len(reach)-len(unreached2))
	c.Note("sites_never_reached", unreached)
	c.Note("sites_reached_only_with_0_or_1_key", unreached2)
	c.Note("sites_uncontrolled", uncontrolled)
	c.Note("site_reach", reach)
	remarks := map[string]string{}
	for _, id := range append(append([]string{}, unreached...), unreached2...) {
		if r, ok := siteRemarks[id]; ok {
			remarks[id] = r
		} else {
			remarks[id] = "NOT EXPLAINED: no selected design drives this site with two or more keys"
		}
	}
	c.Note("site_remarks", remarks)
	c.Note("map_order_designs_generated", m.stats.baselines)
	c.Note("map_order_designs_not_generated_by_goa", m.stats.notGenerated)
	c.Note("map_order_bound1_runs", m.stats.deviations)
	c.Note("map_order_bound2_runs", m.stats.pairs)
	return bases, m.failing
}

package c09

import (
	"bytes"
	"encoding/json"
	"fmt"
	"go/ast"
	"go/token"
	"go/types"
	"os"
	"path/filepath"
	"sort"
	"strings"

	"golang.org/x/tools/go/packages"
)

// Site is one static `for ... range m` over a map in goa's generator packages.
type Site struct {
	ID         string `json:"id"`   // <file relative to the repo>:<function>#<ordinal inside the function>
	File       string `json:"file"` // relative to the repo
	Func       string `json:"func"`
	Line       int    `json:"line"` // informational only, never part of a signature
	KeyType    string `json:"key_type"`
	Controlled bool   `json:"controlled"` // key type admits a total order
}

// Where is the site without the ordinal: <file>:<func> (used in violation signatures).
func (s *Site) Where() string { return s.File + ":" + s.Func }

// Instrumented describes the overlay produced by Instrument.
type Instrumented struct {
	Overlay  string   `json:"overlay"`
	Packages []string `json:"packages"`
	Files    int      `json:"files_rewritten"`
	Sites    []*Site  `json:"sites"`
}

const (
	vrtImport = "goa.design/goa/v3/pkg/vrt"
	vrtAlias  = "c09vrt"
	goaModule = "goa.design/goa/v3"
)

// roots are the packages whose goa-internal import closure is instrumented: everything that is
// linked into a generator process (the DSL that builds the design, the evaluation engine, the
// expression model and every code generator reachable from generator.Generate).
var roots = []string{"./codegen/generator", "./dsl", "./eval", "./expr", "./pkg"}

// Instrument loads (parsed and type-checked, from the CURRENT tree of repo) every goa package
// in the import closure of the generator, finds every range statement whose operand has map
// type and writes copies of the affected files into outDir/overlay with the operand wrapped in
// vrt.Range(operand, site). Only the operand is touched (byte-level splice), so labels, break,
// continue, the assignment forms `for k, v = range`, `for range m`, `for _, v := range m` and
// all line numbers of the body stay as they are. Range-over-func needs language version 1.23;
// goa's go.mod says 1.22, so the copies carry a `//go:build go1.23` line (a file may raise its
// own language version). The result is an overlay.json for `go build -overlay` that also maps
// the virtual package goa.design/goa/v3/pkg/vrt to vrtSrc.
//
// Any parse or type error is returned (the caller turns it into a harness error, exit 2).
func Instrument(repo, outDir, vrtSrc string, env []string) (*Instrumented, error) {
	cfg := &packages.Config{
		Mode: packages.NeedName | packages.NeedFiles | packages.NeedCompiledGoFiles | packages.NeedSyntax |
			packages.NeedTypes | packages.NeedTypesInfo | packages.NeedImports | packages.NeedDeps | packages.NeedModule,
		Dir: repo,
		Env: env,
	}
	pkgs, err := packages.Load(cfg, roots...)
	if err != nil {
		return nil, fmt.Errorf("loading goa packages from %s: %v", repo, err)
	}
	// import closure restricted to goa's own module
	closure := map[string]*packages.Package{}
	var walk func(p *packages.Package)
	walk = func(p *packages.Package) {
		if p.PkgPath != goaModule && !strings.HasPrefix(p.PkgPath, goaModule+"/") {
			return
		}
		if _, ok := closure[p.PkgPath]; ok {
			return
		}
		closure[p.PkgPath] = p
		for _, imp := range p.Imports {
			walk(imp)
		}
	}
	for _, p := range pkgs {
		walk(p)
	}
	var paths []string
	for path := range closure {
		paths = append(paths, path)
	}
	sort.Strings(paths)
	res := &Instrumented{Packages: paths}
	replace := map[string]string{}
	ovDir := filepath.Join(outDir, "overlay")
	if err := os.RemoveAll(ovDir); err != nil {
		return nil, err
	}
	for _, path := range paths {
		p := closure[path]
		for _, e := range p.Errors {
			return nil, fmt.Errorf("package %s does not parse/type-check: %v", path, e)
		}
		if p.TypesInfo == nil || len(p.Syntax) != len(p.CompiledGoFiles) {
			return nil, fmt.Errorf("package %s: no syntax/type information", path)
		}
		for i, file := range p.Syntax {
			fname := p.CompiledGoFiles[i]
			rel, err := filepath.Rel(repo, fname)
			if err != nil || strings.HasPrefix(rel, "..") {
				return nil, fmt.Errorf("file %s of package %s is outside %s", fname, path, repo)
			}
			rel = filepath.ToSlash(rel)
			sites, edits := findSites(p.Fset, file, p.TypesInfo, rel)
			if len(sites) == 0 {
				continue
			}
			src, err := os.ReadFile(fname)
			if err != nil {
				return nil, err
			}
			out, err := splice(p.Fset, file, src, edits)
			if err != nil {
				return nil, fmt.Errorf("%s: %v", rel, err)
			}
			dst := filepath.Join(ovDir, filepath.FromSlash(rel))
			if err := os.MkdirAll(filepath.Dir(dst), 0o755); err != nil {
				return nil, err
			}
			if err := os.WriteFile(dst, out, 0o644); err != nil {
				return nil, err
			}
			replace[fname] = dst
			res.Files++
			res.Sites = append(res.Sites, sites...)
		}
	}
	sort.Slice(res.Sites, func(i, j int) bool { return res.Sites[i].ID < res.Sites[j].ID })
	for i := 1; i < len(res.Sites); i++ {
		if res.Sites[i].ID == res.Sites[i-1].ID {
			return nil, fmt.Errorf("site id %s is not unique", res.Sites[i].ID)
		}
	}
	replace[filepath.Join(repo, "pkg", "vrt", "vrt.go")] = filepath.Join(vrtSrc, "vrt.go")
	b, _ := json.MarshalIndent(map[string]any{"Replace": replace}, "", " ")
	res.Overlay = filepath.Join(outDir, "overlay.json")
	if err := os.WriteFile(res.Overlay, b, 0o644); err != nil {
		return nil, err
	}
	return res, nil
}

type edit struct {
	pos, end token.Pos
	site     string
}

// findSites returns the range-over-map statements of one file in source order.
func findSites(fset *token.FileSet, file *ast.File, info *types.Info, rel string) ([]*Site, []edit) {
	var sites []*Site
	var edits []edit
	counts := map[string]int{}
	visit := func(fn string, root ast.Node) {
		ast.Inspect(root, func(n ast.Node) bool {
			rs, ok := n.(*ast.RangeStmt)
			if !ok {
				return true
			}
			t := info.TypeOf(rs.X)
			if t == nil {
				return true
			}
			m, ok := t.Underlying().(*types.Map)
			if !ok {
				return true
			}
			counts[fn]++
			s := &Site{
				ID:         fmt.Sprintf("%s:%s#%d", rel, fn, counts[fn]),
				File:       rel,
				Func:       fn,
				Line:       fset.Position(rs.Pos()).Line,
				KeyType:    types.TypeString(m.Key(), func(p *types.Package) string { return p.Name() }),
				Controlled: orderable(m.Key()),
			}
			sites = append(sites, s)
			edits = append(edits, edit{pos: rs.X.Pos(), end: rs.X.End(), site: s.ID})
			return true
		})
	}
	for _, d := range file.Decls {
		switch d := d.(type) {
		case *ast.FuncDecl:
			name := d.Name.Name
			if d.Recv != nil && len(d.Recv.List) == 1 {
				name = recvName(d.Recv.List[0].Type) + "." + name
			}
			visit(name, d)
		case *ast.GenDecl:
			// function literals in package-level initialisers
			for _, sp := range d.Specs {
				if vs, ok := sp.(*ast.ValueSpec); ok && len(vs.Names) > 0 {
					visit("var "+vs.Names[0].Name, vs)
				}
			}
		}
	}
	return sites, edits
}

func recvName(e ast.Expr) string {
	switch t := e.(type) {
	case *ast.StarExpr:
		return recvName(t.X)
	case *ast.Ident:
		return t.Name
	case *ast.IndexExpr:
		return recvName(t.X)
	case *ast.IndexListExpr:
		return recvName(t.X)
	}
	return "?"
}

// orderable mirrors vrt.order: key kinds with a total order.
// Interface keys are decided per visit at run time from the dynamic key values (the visit
// record counts the uncontrolled visits).
func orderable(t types.Type) bool {
	switch u := t.Underlying().(type) {
	case *types.Basic:
		return u.Info()&(types.IsString|types.IsInteger|types.IsFloat|types.IsBoolean) != 0
	case *types.Struct:
		for i := 0; i < u.NumFields(); i++ {
			if !orderable(u.Field(i).Type()) {
				return false
			}
		}
		return true
	case *types.Array:
		return orderable(u.Elem())
	case *types.Interface:
		return true
	}
	return false
}

// splice applies the edits to the source bytes: the range operand X becomes
// c09vrt.Range(X, "site"), the import is appended to the package clause line and the language
// version line is put first.
func splice(fset *token.FileSet, file *ast.File, src []byte, edits []edit) ([]byte, error) {
	tf := fset.File(file.Pos())
	type ins struct {
		off  int
		text string
		ord  int
	}
	var list []ins
	for i, e := range edits {
		list = append(list, ins{tf.Offset(e.pos), vrtAlias + ".Range(", 2 * i})
		list = append(list, ins{tf.Offset(e.end), fmt.Sprintf(", %q)", e.site), 2*i + 1})
	}
	// import: directly after the package name, on the same line
	list = append(list, ins{tf.Offset(file.Name.End()), fmt.Sprintf("; import %s %q", vrtAlias, vrtImport), -1})
	// Nested operands (a range inside a function literal that is itself part of an operand):
	// at equal offsets an opening text goes after a closing one is impossible, openings keep
	// source order and closings of inner operands come first.
	sort.SliceStable(list, func(i, j int) bool {
		if list[i].off != list[j].off {
			return list[i].off < list[j].off
		}
		return list[i].ord < list[j].ord
	})
	var out bytes.Buffer
	// language version line; an existing constraint is kept and strengthened
	head := string(src[:tf.Offset(file.Package)])
	if i := strings.Index(head, "//go:build "); i >= 0 && (i == 0 || head[i-1] == '\n') {
		j := strings.IndexByte(head[i:], '\n')
		if j < 0 {
			return nil, fmt.Errorf("unterminated //go:build line")
		}
		old := strings.TrimPrefix(head[i:i+j], "//go:build ")
		src = []byte(head[:i] + "//go:build (" + old + ") && go1.23" + head[i+j:] + string(src[len(head):]))
		delta := len("//go:build () && go1.23") - len("//go:build ")
		for k := range list {
			list[k].off += delta
		}
	} else {
		out.WriteString("//go:build go1.23\n\n")
	}
	last := 0
	for _, in := range list {
		if in.off < last || in.off > len(src) {
			return nil, fmt.Errorf("bad edit offset %d", in.off)
		}
		out.Write(src[last:in.off])
		out.WriteString(in.text)
		last = in.off
	}
	out.Write(src[last:])
	return out.Bytes(), nil
}

package c09

import (
	"bytes"
	"crypto/sha256"
	"encoding/hex"
	"fmt"
	"io/fs"
	"os"
	"os/exec"
	"path/filepath"
	"sort"
	"strings"
	"time"
)

var goEnv = []string{"GOFLAGS=-mod=mod", "GOPROXY=off", "GOSUMDB=off", "GOTOOLCHAIN=local"}

// runCmd runs a command with a timeout and returns its combined output.
func runCmd(dir string, env []string, timeout time.Duration, name string, args ...string) (string, error, bool) {
	cmd := exec.Command(name, args...)
	cmd.Dir = dir
	cmd.Env = env
	var out bytes.Buffer
	cmd.Stdout = &out
	cmd.Stderr = &out
	if err := cmd.Start(); err != nil {
		return "", err, false
	}
	done := make(chan error, 1)
	go func() { done <- cmd.Wait() }()
	select {
	case err := <-done:
		return out.String(), err, false
	case <-time.After(timeout):
		_ = cmd.Process.Kill()
		<-done
		return out.String(), fmt.Errorf("timeout after %s", timeout), true
	}
}

// Tree is the observable content of a directory: relative path -> sha256 of the bytes.
type Tree map[string]string

// snapshot hashes every regular file below root (paths relative to root, slash separated).
// skip decides which relative paths are not part of the observation.
func snapshot(root string, skip func(rel string, dir bool) bool) (Tree, error) {
	t := Tree{}
	err := filepath.WalkDir(root, func(p string, d fs.DirEntry, err error) error {
		if err != nil {
			return err
		}
		rel, _ := filepath.Rel(root, p)
		rel = filepath.ToSlash(rel)
		if rel == "." {
			return nil
		}
		if skip != nil && skip(rel, d.IsDir()) {
			if d.IsDir() {
				return filepath.SkipDir
			}
			return nil
		}
		if d.IsDir() {
			return nil
		}
		b, err := os.ReadFile(p)
		if err != nil {
			return err
		}
		h := sha256.Sum256(b)
		t[rel] = hex.EncodeToString(h[:])
		return nil
	})
	return t, err
}

// Digest is the digest of the sorted file list with the hash of every file.
func (t Tree) Digest() string {
	h := sha256.New()
	for _, p := range t.Paths() {
		fmt.Fprintf(h, "%s\x00%s\n", p, t[p])
	}
	return hex.EncodeToString(h.Sum(nil))[:24]
}

// Paths returns the sorted file list.
func (t Tree) Paths() []string {
	out := make([]string, 0, len(t))
	for p := range t {
		out = append(out, p)
	}
	sort.Strings(out)
	return out
}

// diffTrees lists the paths that are missing, added or whose bytes differ ("-p", "+p", "~p").
func diffTrees(want, got Tree) []string {
	var out []string
	for _, p := range want.Paths() {
		h, ok := got[p]
		switch {
		case !ok:
			out = append(out, "-"+p)
		case h != want[p]:
			out = append(out, "~"+p)
		}
	}
	for _, p := range got.Paths() {
		if _, ok := want[p]; !ok {
			out = append(out, "+"+p)
		}
	}
	return out
}

// fileClass abstracts a generated path for signatures: service and API names become
// placeholders, e.g. gen/http/s3/server/types.go -> gen/http/<svc>/server/types.go.
func fileClass(p string, api string, services []string) string {
	parts := strings.Split(p, "/")
	for i, part := range parts {
		base := strings.TrimSuffix(part, filepath.Ext(part))
		ext := filepath.Ext(part)
		for _, s := range services {
			sn := snake(s)
			switch {
			case base == sn || base == s:
				parts[i] = "<svc>" + ext
			case base == sn+"_client" || base == sn+"_server":
				parts[i] = "<svc>" + strings.TrimPrefix(base, sn) + ext
			}
		}
		if api != "" && (base == api || base == snake(api)) {
			parts[i] = "<api>" + ext
		} else if api != "" && (base == api+"-cli" || base == snake(api)+"-cli" || base == snake(api)+"_cli") {
			parts[i] = "<api>-cli" + ext
		}
	}
	return strings.Join(parts, "/")
}

func snake(s string) string {
	var b strings.Builder
	for i, r := range s {
		switch {
		case r >= 'A' && r <= 'Z':
			if i > 0 {
				b.WriteByte('_')
			}
			b.WriteRune(r - 'A' + 'a')
		case r == '-' || r == ' ':
			b.WriteByte('_')
		default:
			b.WriteRune(r)
		}
	}
	return b.String()
}

// diffClasses maps a tree difference to the sorted set of abstract file classes.
func diffClasses(diff []string, api string, services []string) []string {
	seen := map[string]bool{}
	for _, d := range diff {
		seen[fileClass(d[1:], api, services)] = true
	}
	var out []string
	for c := range seen {
		out = append(out, c)
	}
	sort.Strings(out)
	return out
}

// firstDifference renders the first differing lines of two files (for the explanation only).
func firstDifference(a, b string) string {
	ab, _ := os.ReadFile(a)
	bb, _ := os.ReadFile(b)
	al, bl := strings.Split(string(ab), "\n"), strings.Split(string(bb), "\n")
	for i := 0; i < len(al) || i < len(bl); i++ {
		var x, y string
		if i < len(al) {
			x = al[i]
		}
		if i < len(bl) {
			y = bl[i]
		}
		if x != y {
			return fmt.Sprintf("line %d: %q vs %q (lengths %d / %d bytes)", i+1, clip(x, 160), clip(y, 160), len(ab), len(bb))
		}
	}
	return "no line difference"
}

func clip(s string, n int) string {
	if len(s) > n {
		return s[:n] + "..."
	}
	return s
}

func tail(s string, n int) string {
	if len(s) > n {
		return s[len(s)-n:]
	}
	return s
}

func lastJSONLine(out string) string {
	lines := strings.Split(strings.TrimSpace(out), "\n")
	for i := len(lines) - 1; i >= 0; i-- {
		l := strings.TrimSpace(lines[i])
		if strings.HasPrefix(l, "{") && strings.HasSuffix(l, "}") {
			return l
		}
	}
	return ""
}

package c09

import (
	"crypto/sha256"
	"encoding/hex"
	"fmt"
	"io/fs"
	"os"
	"path/filepath"
	"runtime"
	"sort"
	"strings"
	"sync"
	"time"

	"verif/core"
)

// Exploration 3: directory histories with the REAL goa CLI (built from the repository under
// verification). A state is the content of one output directory; the alphabet is
//
//	gen          `goa gen c09cli/design`      (the CLI compiles and runs a generator program)
//	example      `goa example c09cli/design`
//	edit         append a comment line to the first existing example file
//	del-example  delete the last existing example file
//	del-gen      delete the first existing file under gen/
//	stray        add gen/<first service>/zz_stray.txt
//
// Explicit-state breadth-first search over all operation sequences up to the bound, states
// deduplicated by the digest of (paths, bytes). Modification times are not part of the digest:
// a state is materialised with a fixed mtime on every file, so "file touched" is observable
// without reading any clock.

const (
	opGen = iota
	opExample
	opEdit
	opDelExample
	opDelGen
	opStray
	numOps
)

var opNames = []string{"gen", "example", "edit", "del-example", "del-gen", "stray"}

type fileEnt struct {
	data  []byte
	mtime time.Time
}

type dirState map[string]*fileEnt

var fixedMTime = time.Date(2020, 1, 2, 3, 4, 5, 0, time.UTC)

func (s dirState) digest() string {
	var paths []string
	for p := range s {
		paths = append(paths, p)
	}
	sort.Strings(paths)
	h := sha256.New()
	for _, p := range paths {
		fh := sha256.Sum256(s[p].data)
		fmt.Fprintf(h, "%s\x00%x\n", p, fh)
	}
	return hex.EncodeToString(h.Sum(nil))[:24]
}

func (s dirState) clone() dirState {
	out := dirState{}
	for p, f := range s {
		out[p] = &fileEnt{data: f.data, mtime: fixedMTime}
	}
	return out
}

func (s dirState) paths() []string {
	var out []string
	for p := range s {
		out = append(out, p)
	}
	sort.Strings(out)
	return out
}

func (s dirState) tree() Tree {
	t := Tree{}
	for p, f := range s {
		h := sha256.Sum256(f.data)
		t[p] = hex.EncodeToString(h[:])
	}
	return t
}

func inGen(p string) bool { return strings.HasPrefix(p, "gen/") }

// inputs of the CLI that are not outputs: module files and the design package
func isInput(rel string) bool {
	return rel == "go.mod" || rel == "go.sum" || rel == "design" || strings.HasPrefix(rel, "design/")
}

type cliDesign struct {
	runs int
	name string
	// out is the -o argument of the CLI relative to the module root ("" = no -o flag, output in
	// the current directory, which is also where the design package and go.mod live)
	out        string
	refGen     dirState // `goa gen` in a fresh directory
	refExample dirState // files added by `goa example` on top of it
	svcDir     string   // first directory below gen/ that belongs to a service
}

type cliExplorer struct {
	c     *core.Ctx
	e     *Env
	slots chan string
	mu    sync.Mutex
	runs  int
}

const cliGoMod = `module c09cli

go 1.22.0

require (
	goa.design/clue v0.0.0
	goa.design/goa/v3 v3.0.0
)

replace goa.design/goa/v3 => %s

replace goa.design/clue => %s
`

// newSlot creates a scratch module holding the design package.
func (x *cliExplorer) newSlot(design string, n int) (string, error) {
	dir := filepath.Join(x.e.Dir, "cli", design, fmt.Sprintf("slot%02d", n))
	if err := os.MkdirAll(filepath.Join(dir, "design"), 0o755); err != nil {
		return "", err
	}
	mod := fmt.Sprintf(cliGoMod, x.e.Repo, filepath.Join(core.Root(), "e2", "cluestub"))
	if err := os.WriteFile(filepath.Join(dir, "go.mod"), []byte(mod), 0o644); err != nil {
		return "", err
	}
	sum, err := os.ReadFile(filepath.Join(core.Root(), "go.sum"))
	if err != nil {
		return "", err
	}
	if err := os.WriteFile(filepath.Join(dir, "go.sum"), sum, 0o644); err != nil {
		return "", err
	}
	src, err := os.ReadFile(filepath.Join(core.Root(), "checks", "c09", "clidesigns", design, "design.go"))
	if err != nil {
		return "", err
	}
	return dir, os.WriteFile(filepath.Join(dir, "design", "design.go"), src, 0o644)
}

func (d *cliDesign) outDir(dir string) string { return filepath.Join(dir, filepath.FromSlash(d.out)) }

// materialise makes the output directory hold exactly the state (plus, when the output
// directory is the module root, the inputs).
func (d *cliDesign) materialise(dir string, s dirState) error {
	dir = d.outDir(dir)
	if err := os.MkdirAll(dir, 0o755); err != nil {
		return err
	}
	ents, err := os.ReadDir(dir)
	if err != nil {
		return err
	}
	for _, ent := range ents {
		if d.out == "" && isInput(ent.Name()) {
			continue
		}
		if err := os.RemoveAll(filepath.Join(dir, ent.Name())); err != nil {
			return err
		}
	}
	for p, f := range s {
		full := filepath.Join(dir, filepath.FromSlash(p))
		if err := os.MkdirAll(filepath.Dir(full), 0o755); err != nil {
			return err
		}
		if err := os.WriteFile(full, f.data, 0o644); err != nil {
			return err
		}
		if err := os.Chtimes(full, fixedMTime, fixedMTime); err != nil {
			return err
		}
	}
	return nil
}

func (cd *cliDesign) readState(dir string) (dirState, error) {
	dir = cd.outDir(dir)
	s := dirState{}
	err := filepath.WalkDir(dir, func(p string, d fs.DirEntry, err error) error {
		if err != nil {
			return err
		}
		rel, _ := filepath.Rel(dir, p)
		rel = filepath.ToSlash(rel)
		if rel == "." {
			return nil
		}
		if cd.out == "" && isInput(rel) {
			if d.IsDir() {
				return filepath.SkipDir
			}
			return nil
		}
		if d.IsDir() {
			return nil
		}
		b, err := os.ReadFile(p)
		if err != nil {
			return err
		}
		fi, err := d.Info()
		if err != nil {
			return err
		}
		s[rel] = &fileEnt{data: b, mtime: fi.ModTime()}
		return nil
	})
	return s, err
}

// cli runs the real CLI in dir.
func (x *cliExplorer) cli(d *cliDesign, dir, cmd string) (string, error) {
	args := []string{cmd, "c09cli/design"}
	if d.out != "" {
		args = append(args, "-o", d.out)
	}
	out, err, _ := runCmd(dir, x.e.env, 10*time.Minute, x.e.GoaCLI, args...)
	x.mu.Lock()
	x.runs++
	d.runs++
	x.mu.Unlock()
	x.c.Exec(1)
	return out, err
}

// applyFileOp applies one of the cheap operations in memory; ok is false when the operation is
// not applicable in the state.
func (d *cliDesign) applyFileOp(s dirState, op int) (dirState, bool) {
	existing := func(ref dirState) []string {
		var out []string
		for _, p := range ref.paths() {
			if _, ok := s[p]; ok {
				out = append(out, p)
			}
		}
		return out
	}
	n := s.clone()
	switch op {
	case opEdit:
		ex := existing(d.refExample)
		if len(ex) == 0 {
			return nil, false
		}
		n[ex[0]] = &fileEnt{data: append(append([]byte{}, s[ex[0]].data...), []byte("// edited by the user\n")...), mtime: fixedMTime}
	case opDelExample:
		ex := existing(d.refExample)
		if len(ex) == 0 {
			return nil, false
		}
		delete(n, ex[len(ex)-1])
	case opDelGen:
		ex := existing(d.refGen)
		if len(ex) == 0 {
			return nil, false
		}
		delete(n, ex[0])
	case opStray:
		p := d.svcDir + "/zz_stray.txt"
		if _, ok := s[p]; ok {
			return nil, false
		}
		n[p] = &fileEnt{data: []byte("not written by goa\n"), mtime: fixedMTime}
	}
	return n, true
}

// CLICase is the replay case of a directory-history violation.
type CLICase struct {
	Exploration string   `json:"exploration"` // "cli"
	Design      string   `json:"design"`
	Out         string   `json:"out"` // -o argument ("" = none)
	Ops         []string `json:"ops"` // the history; the last operation is the one whose invariant failed
}

// CLITarget is one design of the directory-history exploration.
type CLITarget struct {
	Design string // directory below checks/c09/clidesigns
	Out    string // -o argument relative to the module root, "" = none (output in the current directory)
	Depth  int    // bound on the length of a history
}

type cliNode struct {
	state dirState
	ops   []string
}

// checkTransition evaluates the invariants of one CLI transition and returns the failures as
// (signature, explanation) pairs.
func (d *cliDesign) checkTransition(pre, post dirState, op int) [][2]string {
	var fails [][2]string
	add := func(sig, what string) { fails = append(fails, [2]string{sig, what}) }
	unchanged := func(p string) (content, mtime bool) {
		q, ok := post[p]
		if !ok {
			return false, false
		}
		return string(q.data) == string(pre[p].data), q.mtime.Equal(fixedMTime)
	}
	switch op {
	case opGen:
		// gen never touches what is outside gen/
		for _, p := range pre.paths() {
			if inGen(p) {
				continue
			}
			content, mtime := unchanged(p)
			switch {
			case post[p] == nil:
				add("C09 cli op=gen example-file-removed", "gen removed "+p)
			case !content:
				add("C09 cli op=gen example-file-content-changed", "gen changed the bytes of "+p)
			case !mtime:
				add("C09 cli op=gen example-file-rewritten", "gen rewrote "+p+" (same bytes, new modification time)")
			}
		}
		for _, p := range post.paths() {
			if !inGen(p) && pre[p] == nil {
				add("C09 cli op=gen creates-file-outside-gen", "gen created "+p)
			}
		}
		// the gen/ tree equals the reference output of gen in a fresh directory
		got := Tree{}
		for p, h := range post.tree() {
			if inGen(p) {
				got[p] = h
			}
		}
		for _, df := range diffTrees(d.refGen.tree(), got) {
			p := df[1:]
			switch df[0] {
			case '-':
				add("C09 cli op=gen file-missing", "after gen "+p+" is missing (present in the output of gen in a fresh directory)")
			case '+':
				kind := "stale-file-survives"
				if _, wasThere := pre[p]; !wasThere {
					kind = "extra-file"
				}
				add("C09 cli op=gen "+kind, "after gen "+p+" exists but gen in a fresh directory does not produce it")
			case '~':
				kind := "content-differs-from-fresh"
				if ref := d.refGen[p]; ref != nil && len(post[p].data) >= 2*len(ref.data) && len(ref.data) > 0 {
					kind = "content-appended-to-previous"
				}
				add("C09 cli op=gen "+kind, fmt.Sprintf("after gen %s has %d bytes that differ from the %d bytes gen writes in a fresh directory", p, len(post[p].data), len(d.refGen[p].data)))
			}
		}
	case opExample:
		for _, p := range pre.paths() {
			content, mtime := unchanged(p)
			where := "example-file"
			if inGen(p) {
				where = "gen-file"
			}
			switch {
			case post[p] == nil:
				add("C09 cli op=example existing-"+where+"-removed", "example removed "+p)
			case !content:
				add("C09 cli op=example existing-"+where+"-content-changed", fmt.Sprintf("example changed the bytes of the existing file %s (%d -> %d bytes)", p, len(pre[p].data), len(post[p].data)))
			case !mtime:
				add("C09 cli op=example existing-"+where+"-rewritten", "example rewrote the existing file "+p+" (same bytes, new modification time)")
			}
		}
		for _, p := range d.refExample.paths() {
			if pre[p] != nil {
				continue
			}
			switch q := post[p]; {
			case q == nil:
				add("C09 cli op=example missing-file-not-created", "example did not create the missing "+p)
			case string(q.data) != string(d.refExample[p].data):
				add("C09 cli op=example created-file-differs-from-fresh", "example created "+p+" with other bytes than in a fresh directory")
			}
		}
		for _, p := range post.paths() {
			if pre[p] == nil && d.refExample[p] == nil {
				add("C09 cli op=example creates-unexpected-file", "example created "+p+" which it does not create in a fresh directory")
			}
		}
	}
	return fails
}

// runHistory replays a history of operations from the empty directory in dir and returns the
// failures of the last transition.
func (x *cliExplorer) runHistory(d *cliDesign, dir string, ops []string) ([][2]string, error) {
	s := dirState{}
	var fails [][2]string
	for i, name := range ops {
		op := -1
		for k, n := range opNames {
			if n == name {
				op = k
			}
		}
		if op < 0 {
			return nil, fmt.Errorf("unknown operation %q", name)
		}
		if op == opGen || op == opExample {
			if err := d.materialise(dir, s); err != nil {
				return nil, err
			}
			if out, err := x.cli(d, dir, name); err != nil {
				if i == len(ops)-1 {
					return [][2]string{{"C09 cli op=" + name + " command-fails", "goa " + name + " fails: " + clip(tail(out, 600), 600)}}, nil
				}
				return nil, fmt.Errorf("goa %s failed: %v\n%s", name, err, tail(out, 1500))
			}
			post, err := d.readState(dir)
			if err != nil {
				return nil, err
			}
			if i == len(ops)-1 {
				fails = d.checkTransition(s, post, op)
			}
			s = post.clone()
			continue
		}
		n, ok := d.applyFileOp(s, op)
		if !ok {
			return nil, fmt.Errorf("operation %s not applicable", name)
		}
		s = n
	}
	return fails, nil
}

// reference computes the outputs of gen and of example in a fresh directory.
func (x *cliExplorer) reference(d *cliDesign, dir string) error {
	if err := d.materialise(dir, dirState{}); err != nil {
		return err
	}
	if out, err := x.cli(d, dir, "gen"); err != nil {
		return fmt.Errorf("goa gen (reference) failed: %v\n%s", err, tail(out, 3000))
	}
	g, err := d.readState(dir)
	if err != nil {
		return err
	}
	d.refGen = dirState{}
	for p, f := range g {
		if !inGen(p) {
			return fmt.Errorf("goa gen in a fresh directory wrote %s outside gen/", p)
		}
		d.refGen[p] = f
	}
	if out, err := x.cli(d, dir, "example"); err != nil {
		return fmt.Errorf("goa example (reference) failed: %v\n%s", err, tail(out, 3000))
	}
	ex, err := d.readState(dir)
	if err != nil {
		return err
	}
	d.refExample = dirState{}
	for p, f := range ex {
		if g[p] == nil {
			if inGen(p) {
				return fmt.Errorf("goa example wrote %s inside gen/", p)
			}
			d.refExample[p] = f
		}
	}
	if len(d.refGen) == 0 || len(d.refExample) == 0 {
		return fmt.Errorf("reference outputs are empty (gen %d files, example %d files)", len(d.refGen), len(d.refExample))
	}
	// first service directory: gen/<svc>/service.go
	for _, p := range d.refGen.paths() {
		if strings.HasSuffix(p, "/service.go") && strings.Count(p, "/") == 2 {
			d.svcDir = filepath.ToSlash(filepath.Dir(p))
			break
		}
	}
	if d.svcDir == "" {
		return fmt.Errorf("no gen/<service>/service.go in the reference output")
	}
	return nil
}

// RunCLI is exploration 3 for the named designs up to the given depth (operations per history).
func RunCLI(c *core.Ctx, e *Env, targets []CLITarget) {
	x := &cliExplorer{c: c, e: e}
	type summary struct {
		States      int    `json:"states"`
		Transitions int    `json:"transitions"`
		CLIRuns     int    `json:"cli_runs"`
		Depth       int    `json:"depth"`
		Out         string `json:"output_dir_flag"`
		PerLevel    []int  `json:"new_states_per_level"`
		GenFiles    int    `json:"reference_gen_files"`
		ExFiles     int    `json:"reference_example_files"`
	}
	sums := map[string]*summary{}
	var smu sync.Mutex
	var wg sync.WaitGroup
	par := runtime.GOMAXPROCS(0) / 2
	if par < 4 {
		par = 4
	}
	sem := make(chan struct{}, par)
	for _, t := range targets {
		wg.Add(1)
		go func(name, out string, depth int) {
			defer wg.Done()
			d := &cliDesign{name: name, out: out}
			// slots of this design
			slots := make(chan string, par)
			for k := 0; k < par; k++ {
				dir, err := x.newSlot(name, k)
				if err != nil {
					c.HarnessError("cli %s: %v", name, err)
					return
				}
				slots <- dir
			}
			ref := <-slots
			sem <- struct{}{}
			err := x.reference(d, ref)
			<-sem
			slots <- ref
			if err != nil {
				c.HarnessError("cli %s: %v", name, err)
				return
			}
			sum := &summary{Depth: depth, Out: out, GenFiles: len(d.refGen), ExFiles: len(d.refExample)}
			seen := map[string]bool{dirState{}.digest(): true}
			frontier := []*cliNode{{state: dirState{}}}
			c.State("cli|"+name+"|"+dirState{}.digest(), false)
			sum.States = 1
			for level := 0; level < depth && len(frontier) > 0; level++ {
				if c.Expired() {
					c.Incomplete(fmt.Sprintf("cli %s: deadline at level %d of %d with %d frontier states", name, level, depth, len(frontier)))
					break
				}
				type succ struct {
					node *cliNode
					err  error
				}
				results := make([]succ, len(frontier)*numOps)
				var lw sync.WaitGroup
				for i, node := range frontier {
					for op := 0; op < numOps; op++ {
						i, node, op := i, node, op
						ops := append(append([]string{}, node.ops...), opNames[op])
						if op != opGen && op != opExample {
							if n, ok := d.applyFileOp(node.state, op); ok {
								results[i*numOps+op] = succ{node: &cliNode{state: n, ops: ops}}
							}
							continue
						}
						lw.Add(1)
						go func() {
							defer lw.Done()
							sem <- struct{}{}
							defer func() { <-sem }()
							if c.Expired() {
								results[i*numOps+op] = succ{err: errExpired}
								return
							}
							dir := <-slots
							defer func() { slots <- dir }()
							if err := d.materialise(dir, node.state); err != nil {
								results[i*numOps+op] = succ{err: err}
								return
							}
							out, err := x.cli(d, dir, opNames[op])
							if err != nil {
								c.Outcome("cli " + opNames[op] + ": command fails")
								sig := "C09 cli op=" + opNames[op] + " command-fails"
								c.Violation(sig,
									fmt.Sprintf("design %s, history %v: goa %s fails: %s", name, ops, opNames[op], clip(tail(out, 600), 600)),
									CLICase{"cli", name, d.out, ops},
									func() bool {
										again, err := x.runHistory(d, dir, ops)
										return err == nil && len(again) == 1 && again[0][0] == sig
									})
								return
							}
							post, err := d.readState(dir)
							if err != nil {
								results[i*numOps+op] = succ{err: err}
								return
							}
							fails := d.checkTransition(node.state, post, op)
							if len(fails) == 0 {
								c.Outcome("cli " + opNames[op] + ": invariants hold")
							} else {
								c.Outcome("cli " + opNames[op] + ": invariant violated")
							}
							for _, f := range fails {
								sig := f[0]
								c.Violation(sig, fmt.Sprintf("design %s, history %v: %s", name, ops, f[1]), CLICase{"cli", name, d.out, ops},
									func() bool {
										again, err := x.runHistory(d, dir, ops)
										if err != nil {
											return false
										}
										for _, a := range again {
											if a[0] == sig {
												return true
											}
										}
										return false
									})
							}
							results[i*numOps+op] = succ{node: &cliNode{state: post.clone(), ops: ops}}
						}()
					}
				}
				lw.Wait()
				var next []*cliNode
				newStates, expired := 0, 0
				for _, r := range results {
					if r.err != nil {
						if r.err != errExpired {
							c.HarnessError("cli %s: %v", name, r.err)
						} else {
							expired++
						}
						continue
					}
					if r.node == nil {
						continue
					}
					sum.Transitions++
					dg := r.node.state.digest()
					if seen[dg] {
						continue
					}
					seen[dg] = true
					newStates++
					c.State("cli|"+name+"|"+dg, true)
					if len(r.node.ops) <= 3 {
						c.Sample(map[string]any{"exploration": "cli", "design": name, "history": r.node.ops, "files": len(r.node.state)})
					}
					next = append(next, r.node)
				}
				if expired > 0 {
					c.Incomplete(fmt.Sprintf("cli %s: deadline at level %d of %d, %d CLI transitions not executed", name, level+1, depth, expired))
				}
				sum.States += newStates
				sum.PerLevel = append(sum.PerLevel, newStates)
				frontier = next
			}
			x.mu.Lock()
			sum.CLIRuns = d.runs
			x.mu.Unlock()
			smu.Lock()
			sums[name] = sum
			smu.Unlock()
		}(t.Design, t.Out, t.Depth)
	}
	wg.Wait()
	c.Note("cli_runs_total", x.runsNow())
	c.Note("cli_designs", sums)
	c.Note("cli_alphabet", opNames)
}

var errExpired = fmt.Errorf("deadline")

func (x *cliExplorer) runsNow() int {
	x.mu.Lock()
	defer x.mu.Unlock()
	return x.runs
}

// Package xdesigns holds the EXTRA designs of check C09: designs written directly with goa's
// public DSL because e2/spec.Spec cannot express them (metadata keys, OpenAPI tags and
// extensions, servers / hosts / variables, gRPC, several services sharing types). They exist to
// make the range-over-map sites of goa's generators see maps with at least two keys. A design
// is a function performing dsl.* calls; the C09 worker runs exactly one of them per process,
// selected by name.
package xdesigns

import (
	"sort"

	. "goa.design/goa/v3/dsl" //nolint
	"goa.design/goa/v3/expr"

	"verif/checks/c09/xdesigns/ext2"
)

// Designs maps a design name to the function that declares it.
var Designs = map[string]func(){
	"x-meta-views":   metaViews,
	"x-openapi-rich": openapiRich,
	"x-grpc":         grpcDesign,
	"x-multi":        multi,
	"x-convert":      convert,
	"x-summary-both": summaryBoth,
	"x-pkgpath":      pkgPath,
}

// Names returns the design names in ascending order.
func Names() []string {
	var out []string
	for n := range Designs {
		out = append(out, n)
	}
	sort.Strings(out)
	return out
}

// metaViews: result types with several views whose attributes (and the attributes of the user
// types they refer to) carry two or three "struct:field:*" metadata keys: expr/hasher.go ranges
// over Meta when result types are projected (hashAttrAndView).
func metaViews() {
	API("xmeta", func() {
		Title("meta and views")
		Meta("struct:tag:json", "x")
	})
	var Leaf = Type("Leaf", func() {
		Meta("struct:field:name", "LeafRenamed")
		Meta("struct:field:external", "leaf_ext")
		Meta("struct:field:proto", "leaf_proto")
		Attribute("la", String, func() {
			Meta("struct:field:name", "LaField")
			Meta("struct:field:external", "la_ext")
			Meta("struct:tag:json", "la_json,omitempty")
			Meta("struct:tag:xml", "la_xml")
		})
		Attribute("lb", Int, func() {
			Meta("struct:field:name", "LbField")
			Meta("struct:field:external", "lb_ext")
			Meta("struct:field:proto", "lb_proto")
		})
		Required("la")
	})
	var Child = ResultType("application/vnd.xmeta.child", func() {
		TypeName("Child")
		Attributes(func() {
			Attribute("ca", String, func() {
				Meta("struct:field:name", "CaField")
				Meta("struct:field:external", "ca_ext")
			})
			Attribute("cb", Int, func() {
				Meta("struct:field:name", "CbField")
				Meta("struct:field:external", "cb_ext")
				Meta("struct:field:proto", "cb_proto")
			})
			Attribute("leaf", Leaf, func() {
				Meta("struct:field:name", "LeafField")
				Meta("struct:field:external", "leaf_ext")
			})
			Required("ca")
		})
		View("default", func() {
			Attribute("ca")
			Attribute("leaf")
		})
		View("ext", func() {
			Attribute("ca")
			Attribute("cb")
			Attribute("leaf")
		})
		View("tiny", func() {
			Attribute("ca")
		})
	})
	var Parent = ResultType("application/vnd.xmeta.parent", func() {
		TypeName("Parent")
		Attributes(func() {
			Attribute("pa", String, func() {
				Meta("struct:field:name", "PaField")
				Meta("struct:field:external", "pa_ext")
				Meta("struct:field:proto", "pa_proto")
			})
			Attribute("child", Child, func() {
				Meta("struct:field:name", "ChildField")
				Meta("struct:field:external", "child_ext")
			})
			Attribute("kids", CollectionOf(Child), func() {
				Meta("struct:field:name", "KidsField")
				Meta("struct:field:external", "kids_ext")
			})
			Attribute("leaves", MapOf(String, Leaf), func() {
				Meta("struct:field:name", "LeavesField")
				Meta("struct:field:external", "leaves_ext")
			})
			Required("pa")
		})
		View("default", func() {
			Attribute("pa")
			Attribute("child")
		})
		View("ext", func() {
			Attribute("pa")
			Attribute("child", func() { View("ext") })
			Attribute("kids", func() { View("tiny") })
			Attribute("leaves")
		})
		View("min", func() {
			Attribute("pa")
		})
	})
	Service("alpha", func() {
		Method("get_parent", func() {
			Payload(func() {
				Attribute("id", String, func() {
					Meta("struct:field:name", "Ident")
					Meta("struct:field:external", "ident_ext")
				})
				Attribute("leaf", Leaf)
				Required("id")
			})
			Result(Parent)
			HTTP(func() {
				POST("/parents/{id}")
				Response(StatusOK)
			})
		})
		Method("list_children", func() {
			Result(CollectionOf(Child))
			HTTP(func() {
				GET("/children")
			})
		})
	})
	Service("beta", func() {
		Method("get_child", func() {
			Result(Child, func() { View("ext") })
			HTTP(func() {
				GET("/child")
			})
		})
		Method("get_parent", func() {
			Result(Parent)
			HTTP(func() {
				GET("/parent")
			})
		})
	})
}

// openapiRich: several servers, hosts, URIs and variables; OpenAPI tags, extensions and
// examples at API, service and method level; every kind of security scheme with several scopes
// and flows; file servers; several responses, headers and cookies.
func openapiRich() {
	var JWT = JWTSecurity("jwt", func() {
		Scope("api:read", "read")
		Scope("api:write", "write")
		Scope("api:admin", "admin")
	})
	var Key = APIKeySecurity("api_key", func() { Description("key") })
	var Basic = BasicAuthSecurity("basic")
	var OAuth = OAuth2Security("oauth2", func() {
		AuthorizationCodeFlow("http://goa.design/authorization", "http://goa.design/token", "http://goa.design/refresh")
		ImplicitFlow("http://goa.design/authorization", "http://goa.design/refresh")
		PasswordFlow("http://goa.design/token", "http://goa.design/refresh")
		ClientCredentialsFlow("http://goa.design/token", "http://goa.design/refresh")
		Scope("api:read", "read")
		Scope("api:write", "write")
	})
	API("xopenapi", func() {
		Title("rich openapi")
		Description("several of everything")
		Version("1.0")
		TermsOfService("tos")
		Contact(func() { Name("c"); Email("c@goa.design"); URL("https://goa.design") })
		License(func() { Name("MIT"); URL("https://goa.design/license") })
		Docs(func() { Description("docs"); URL("https://goa.design/docs") })
		Meta("openapi:tag:Backend")
		Meta("openapi:tag:Backend:desc", "backend things")
		Meta("openapi:tag:Backend:url", "https://goa.design/backend")
		Meta("openapi:tag:Backend:url:desc", "more")
		Meta("openapi:tag:Frontend")
		Meta("openapi:tag:Frontend:desc", "frontend things")
		Meta("openapi:tag:Admin:desc", "admin things")
		Meta("openapi:tag:Admin")
		Meta("openapi:extension:x-api-one", `{"a":1,"b":[2,3]}`)
		Meta("openapi:extension:x-api-two", `"two"`)
		Meta("openapi:extension:x-api-three", `3`)
		Server("primary", func() {
			Description("primary server")
			Services("front", "back")
			Host("production", func() {
				Description("production host")
				URI("https://{version}.goa.design:443/{tenant}")
				URI("http://{version}.goa.design:80/{tenant}")
				URI("grpc://goa.design:8080")
				Variable("version", String, "version", func() { Default("v1"); Enum("v1", "v2") })
				Variable("tenant", String, "tenant", func() { Default("acme") })
			})
			Host("development", func() {
				URI("http://localhost:8000")
				URI("https://localhost:8443")
			})
		})
		Server("secondary", func() {
			Services("back")
			Host("staging", func() {
				URI("https://{region}.staging.goa.design")
				Variable("region", String, "region", func() { Default("eu"); Enum("eu", "us", "ap") })
			})
			Host("local", func() {
				URI("http://127.0.0.1:9000")
			})
		})
		Security(Basic)
		HTTP(func() {
			Consumes("application/json", "application/xml")
			Produces("application/json", "application/xml")
		})
	})
	var Item = Type("Item", func() {
		Description("an item")
		Attribute("name", String, func() {
			Example("first", "abc")
			Example("second", "def")
			Meta("openapi:extension:x-attr-one", `1`)
			Meta("openapi:extension:x-attr-two", `2`)
		})
		Attribute("tags", MapOf(String, String), func() {
			Example(map[string]string{"k1": "v1", "k2": "v2", "k3": "v3"})
		})
		Attribute("any_map", MapOf(String, Any))
		Attribute("defaults", MapOf(String, String), func() {
			Default(expr.MapVal{"dk1": "dv1", "dk2": "dv2", "dk3": "dv3"})
		})
		Attribute("nested_defaults", MapOf(String, MapOf(String, Int)), func() {
			Default(expr.MapVal{"outer1": expr.MapVal{"i1": 1, "i2": 2}, "outer2": expr.MapVal{"i3": 3, "i4": 4}})
		})
		Attribute("count", Int, func() { Minimum(1); Maximum(10) })
		Meta("openapi:extension:x-type-one", `1`)
		Meta("openapi:extension:x-type-two", `2`)
		Meta("openapi:typename", "ItemRenamed")
		Required("name")
	})
	Service("front", func() {
		Description("front service")
		Meta("openapi:tag:Frontend")
		Meta("openapi:tag:Shared")
		Meta("openapi:tag:Shared:desc", "shared")
		Meta("openapi:extension:x-svc-one", `1`)
		Meta("openapi:extension:x-svc-two", `2`)
		Error("not_found")
		Error("bad")
		Error("worse", Item)
		HTTP(func() {
			Path("/front")
			Meta("openapi:extension:x-httpsvc-one", `1`)
			Meta("openapi:extension:x-httpsvc-two", `2`)
			Meta("swagger:extension:x-httpsvc-three", `3`)
			Meta("swagger:extension:x-httpsvc-four", `4`)
			Response("not_found", StatusNotFound)
			Response("bad", StatusBadRequest)
		})
		Files("/static/{*path}", "public", func() {
			Meta("openapi:tag:Frontend")
			Meta("openapi:tag:Files")
			Meta("openapi:extension:x-file-one", `1`)
			Meta("openapi:extension:x-file-two", `2`)
			Description("static files")
		})
		Files("/index.html", "public/index.html")
		Method("create", func() {
			Meta("openapi:tag:Backend")
			Meta("openapi:tag:Admin")
			Meta("openapi:tag:Zeta")
			Meta("openapi:extension:x-method-one", `1`)
			Meta("openapi:extension:x-method-two", `2`)
			Meta("openapi:summary", "create it")
			Meta("openapi:operationId", "front#create")
			Security(JWT, Key, func() { Scope("api:read"); Scope("api:write") })
			Security(OAuth, func() { Scope("api:write") })
			Security(Basic)
			Payload(func() {
				Token("token", String)
				APIKey("api_key", "key", String)
				AccessToken("access", String)
				Username("user", String)
				Password("pass", String)
				Attribute("item", Item)
				Attribute("q1", String)
				Attribute("q2", ArrayOf(Int))
				Attribute("h1", String)
				Attribute("h2", Int)
				Attribute("c1", String)
				Attribute("c2", String)
				Required("token", "key", "access", "user", "pass", "item")
			})
			Result(func() {
				Attribute("id", String)
				Attribute("etag", String)
				Attribute("location", String)
				Attribute("session", String)
				Attribute("pref", String)
				Attribute("kind", String, func() { Enum("new", "old") })
				Required("id", "kind")
			})
			Error("conflict")
			Error("gone", String)
			HTTP(func() {
				POST("/items")
				PUT("/items")
				Meta("openapi:extension:x-httpep-one", `1`)
				Meta("openapi:extension:x-httpep-two", `2`)
				Meta("swagger:extension:x-httpep-three", `3`)
				Meta("openapi:tag:Endpoint")
				Header("token:X-Token")
				Header("key:X-Key")
				Header("access:X-Access")
				Param("q1")
				Param("q2")
				Header("h1:X-H1")
				Header("h2:X-H2")
				Cookie("c1")
				Cookie("c2")
				Body("item")
				Response(StatusCreated, func() {
					Tag("kind", "new")
					Header("etag:ETag")
					Header("location:Location")
					Cookie("session:SID")
					Cookie("pref:PREF")
					CookieMaxAge(3600)
					CookiePath("/")
				})
				Response(StatusOK, func() {
					Header("etag:ETag")
				})
				Response("conflict", StatusConflict)
				Response("gone", StatusGone)
				Response("worse", StatusUnprocessableEntity)
			})
		})
		Method("list", func() {
			Meta("openapi:tag:Frontend")
			NoSecurity()
			Payload(func() {
				Attribute("filter", MapOf(String, ArrayOf(String)))
			})
			Result(ArrayOf(Item))
			HTTP(func() {
				GET("/items")
				MapParams("filter")
				Response(StatusOK, func() { ContentType("application/json") })
			})
		})
	})
	var Tagged = ResultType("application/vnd.xopenapi.tagged; version=1; flavor=plain", func() {
		TypeName("Tagged")
		Attributes(func() {
			Attribute("t", String)
			Attribute("u", Int)
		})
		View("default", func() {
			Attribute("t")
			Attribute("u")
		})
		View("tiny", func() {
			Attribute("t")
		})
	})
	Service("back", func() {
		Method("tagged", func() {
			NoSecurity()
			Result(CollectionOf(Tagged))
			HTTP(func() { GET("/tagged") })
		})
		Meta("openapi:tag:Backend")
		Security(Key)
		Error("not_found")
		HTTP(func() { Path("/back") })
		Method("get", func() {
			Payload(func() {
				APIKey("api_key", "key", String)
				Attribute("id", UInt)
				Required("key", "id")
			})
			Result(Item)
			HTTP(func() {
				GET("/items/{id}")
				Param("key:k")
				Response(StatusOK)
				Response("not_found", StatusNotFound)
			})
		})
		Method("delete", func() {
			Security(JWT, func() { Scope("api:admin") })
			Payload(func() {
				Token("token", String)
				Attribute("id", UInt)
				Attribute("rev", UInt)
				Attribute("force", Boolean)
				Attribute("reason", String)
				Required("token", "id", "rev")
			})
			HTTP(func() {
				DELETE("/items/{id}/revs/{rev}")
				Param("force")
				Param("reason")
				Response(StatusNoContent)
			})
		})
	})
}

// grpcDesign: two services exposed over gRPC and HTTP (messages, metadata, headers, trailers,
// errors, the streaming kinds).
func grpcDesign() {
	API("xgrpc", func() {
		Title("grpc")
		Server("srv", func() {
			Host("localhost", func() {
				URI("http://localhost:8000")
				URI("grpc://localhost:8080")
			})
		})
	})
	var Msg = Type("Msg", func() {
		Field(1, "a", String)
		Field(2, "b", Int)
		Field(3, "c", ArrayOf(String))
		Field(4, "d", MapOf(String, Int))
		Field(5, "e", "Msg")
		Required("a")
	})
	var Res = ResultType("application/vnd.xgrpc.res", func() {
		TypeName("Res")
		Attributes(func() {
			Field(1, "x", String)
			Field(2, "y", Int)
			Field(3, "m", Msg)
			Required("x")
		})
		View("default", func() {
			Attribute("x")
			Attribute("y")
			Attribute("m")
		})
		View("tiny", func() {
			Attribute("x")
		})
	})
	Service("calc", func() {
		Error("bad")
		Error("missing", func() {
			Field(1, "name", String, func() { Meta("struct:error:name") })
			Field(2, "detail", String)
			Required("name")
		})
		Method("unary", func() {
			Payload(func() {
				Field(1, "m", Msg)
				Field(2, "tok", String)
				Field(3, "trace", String)
				Required("m")
			})
			Result(Res)
			HTTP(func() {
				POST("/unary")
				Header("tok:X-Tok")
				Response("bad", StatusBadRequest)
				Response("missing", StatusNotFound)
			})
			GRPC(func() {
				Metadata(func() {
					Attribute("tok")
					Attribute("trace")
				})
				Response(CodeOK, func() {
					Headers(func() { Attribute("x") })
					Trailers(func() { Attribute("y") })
				})
				Response("bad", CodeInvalidArgument)
				Response("missing", CodeNotFound)
			})
		})
		Method("server_stream", func() {
			Payload(Msg)
			StreamingResult(Res)
			GRPC(func() {})
		})
		Method("client_stream", func() {
			StreamingPayload(Msg)
			Result(Res)
			GRPC(func() {})
		})
		Method("bidi", func() {
			StreamingPayload(Msg)
			StreamingResult(Msg)
			GRPC(func() {})
		})
	})
	Service("echo", func() {
		Method("say", func() {
			Payload(func() {
				Field(1, "text", String)
				Field(2, "times", UInt32)
			})
			Result(func() {
				Field(1, "text", String)
			})
			HTTP(func() { GET("/say"); Param("text"); Param("times") })
			GRPC(func() {})
		})
		Method("msg", func() {
			Payload(Msg)
			Result(Msg)
			GRPC(func() {})
		})
	})
}

// multi: three services sharing user types, result types, aliases and errors declared at API,
// service and method level; Extend / Reference; name clashes between services so that name
// scopes hold several entries.
func multi() {
	API("xmulti", func() {
		Title("multi")
		Error("api_error")
		Error("api_timeout", func() { Timeout() })
		HTTP(func() {
			Path("/api")
			Response("api_error", StatusTooManyRequests)
			Response("api_timeout", StatusGatewayTimeout)
		})
	})
	var ID = Type("ID", String, func() { MinLength(1); MaxLength(10) })
	var Count = Type("Count", Int, func() { Minimum(0) })
	var Base = Type("Base", func() {
		Attribute("id", ID)
		Attribute("created", String, func() { Format(FormatDateTime) })
		Required("id")
	})
	var Thing = Type("Thing", func() {
		Extend(Base)
		Attribute("name", String, func() { Pattern("^[a-z]+$") })
		Attribute("count", Count)
		Attribute("props", MapOf(String, String))
		Attribute("inner", func() {
			Attribute("x", Int, func() { Default(3) })
			Attribute("y", ArrayOf(ID))
		})
		Attribute("next", "Thing")
		Required("name")
	})
	// collections whose example is drawn under a length validation (no user example); kept
	// out of the recursive type Thing: there goa's OpenAPI v3 schema builder does not
	// terminate (DESIGN 8.3, untriaged observation)
	var Sized = Type("Sized", func() {
		Attribute("scores", MapOf(String, Int), func() { MinLength(2); MaxLength(3) })
		Attribute("labels", ArrayOf(String), func() { MinLength(2); MaxLength(3) })
	})
	var ThingRef = Type("ThingRef", func() {
		Reference(Thing)
		Attribute("name")
		Attribute("count")
	})
	var Result1 = ResultType("application/vnd.xmulti.result", func() {
		TypeName("Result")
		Attributes(func() {
			Attribute("thing", Thing)
			Attribute("ref", ThingRef)
			Attribute("things", ArrayOf(Thing))
			Attribute("by_name", MapOf(ID, Thing))
			Attribute("sized", Sized)
			Required("thing")
		})
		View("default", func() {
			Attribute("thing")
			Attribute("ref")
		})
		View("full", func() {
			Attribute("thing")
			Attribute("ref")
			Attribute("things")
			Attribute("by_name")
			Attribute("sized")
		})
	})
	var Custom = Type("CustomError", func() {
		Attribute("name", String, func() { Meta("struct:error:name") })
		Attribute("message", String)
		Attribute("code", Int)
		Required("name", "message")
	})
	for _, svc := range []string{"one", "two", "three"} {
		svc := svc
		Service(svc, func() {
			Error("svc_error")
			Error("custom", Custom)
			HTTP(func() {
				Path("/" + svc)
				Response("svc_error", StatusBadRequest)
				Response("custom", StatusConflict)
			})
			Method("get", func() {
				Payload(func() {
					Attribute("id", ID)
					Attribute("view", String)
					Required("id")
				})
				Result(Result1)
				Error("api_error")
				Error("not_found")
				Error("gone", ThingRef)
				HTTP(func() {
					GET("/{id}")
					Param("view")
					Response(StatusOK)
					Response("not_found", StatusNotFound)
					Response("gone", StatusGone)
				})
			})
			Method("put", func() {
				Payload(Thing)
				Result(ThingRef)
				Error("api_timeout")
				HTTP(func() {
					PUT("/{id}")
					Response(StatusOK)
				})
			})
			Method("list", func() {
				Payload(func() {
					Attribute("ids", ArrayOf(ID))
					Attribute("limit", Count, func() { Default(10) })
				})
				Result(CollectionOf(Result1), func() { View("full") })
				HTTP(func() {
					GET("/")
					Param("ids")
					Param("limit")
				})
			})
			if svc == "three" {
				Method("stream", func() {
					Payload(func() { Attribute("id", ID) })
					StreamingResult(Thing)
					HTTP(func() {
						GET("/stream/{id}")
						Response(StatusOK)
					})
				})
				Method("upload", func() {
					Payload(Thing)
					HTTP(func() {
						POST("/upload")
						MultipartRequest()
					})
				})
			}
		})
	}
}

// ExtThing is an external Go type for ConvertTo / CreateFrom (a second one lives in ext2).
type ExtThing struct {
	Name  string
	Count *int
	Props map[string]string
}

// convert: ConvertTo / CreateFrom with external Go types (codegen/service/convert.go).
func convert() {
	API("xconvert", func() { Title("convert") })
	var T = Type("ConvThing", func() {
		Attribute("name", String)
		Attribute("count", Int)
		Attribute("props", MapOf(String, String))
		Required("name")
		ConvertTo(ExtThing{})
		CreateFrom(ExtThing{})
	})
	var U = Type("ConvOther", func() {
		Attribute("name", String)
		Required("name")
		ConvertTo(ext2.Other{})
		CreateFrom(ext2.Other{})
	})
	Service("conv", func() {
		Method("a", func() {
			Payload(T)
			Result(U)
			HTTP(func() { POST("/a") })
		})
	})
}

// summaryBoth: endpoints and a file server that carry both the current and the legacy spelling
// of the OpenAPI summary key (method level, HTTP endpoint level, file server) with different
// values.
func summaryBoth() {
	API("xsummary", func() { Title("summary") })
	Service("sum", func() {
		Files("/docs/{*path}", "public", func() {
			Meta("openapi:summary", "file server summary from the openapi key")
			Meta("swagger:summary", "file server summary from the swagger key")
		})
		Method("method_level", func() {
			Meta("openapi:summary", "summary from the openapi key")
			Meta("swagger:summary", "summary from the swagger key")
			Result(String)
			HTTP(func() { GET("/m") })
		})
		Method("endpoint_level", func() {
			Result(String)
			HTTP(func() {
				GET("/e")
				Meta("openapi:summary", "endpoint summary from the openapi key")
				Meta("swagger:summary", "endpoint summary from the swagger key")
			})
		})
	})
}

// pkgPath: user types located in two other packages (struct:pkg:path) and attributes whose Go
// type is replaced (struct:field:type with an import) by types of two different packages.
func pkgPath() {
	API("xpkgpath", func() { Title("pkgpath") })
	var A = Type("LocA", func() {
		Meta("struct:pkg:path", "typesa")
		Attribute("a", String)
		Attribute("when", String, func() {
			Meta("struct:field:type", "time.Time", "time")
		})
		Attribute("big", String, func() {
			Meta("struct:field:type", "big.Int", "math/big")
		})
		Attribute("raw", Bytes, func() {
			Meta("struct:field:type", "json.RawMessage", "encoding/json")
		})
	})
	var B = Type("LocB", func() {
		Meta("struct:pkg:path", "typesb")
		Attribute("b", Int)
		Attribute("stamp", String, func() {
			Meta("struct:field:type", "time.Duration", "time")
		})
	})
	var C = ResultType("application/vnd.xpkgpath.c", func() {
		TypeName("LocC")
		Meta("struct:pkg:path", "typesc")
		Attributes(func() {
			Attribute("c", String)
			Attribute("d", Int)
		})
		View("default", func() {
			Attribute("c")
			Attribute("d")
		})
	})
	Service("loc", func() {
		Method("m1", func() {
			Payload(A)
			Result(B)
			HTTP(func() { POST("/m1") })
		})
		Method("m2", func() {
			Payload(B)
			Result(C)
			HTTP(func() { POST("/m2") })
		})
	})
	Service("loc2", func() {
		Method("m3", func() {
			Payload(func() {
				Attribute("a", A)
				Attribute("b", B)
			})
			Result(C)
			HTTP(func() { POST("/m3") })
		})
	})
}

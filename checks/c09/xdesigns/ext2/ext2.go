// Package ext2 holds a second external Go type for the ConvertTo / CreateFrom extra design (so
// that the generated convert.go imports two external packages).
package ext2

// Other is an external type.
type Other struct {
	Name string
}

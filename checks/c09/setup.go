package c09

import (
	"crypto/sha256"
	"encoding/hex"
	"encoding/json"
	"fmt"
	"os"
	"path/filepath"
	"strconv"
	"strings"
	"sync"
	"syscall"
	"time"

	"verif/core"
)

// Env holds the build products of one run of the check. Everything lives under
// /verif/.work/c09[/alt-<h>]/run-<pid>/ (git-ignored) and is rebuilt from the CURRENT tree of the
// repository under verification on every run (the Go build cache makes that cheap).
type Env struct {
	Repo        string
	Base        string // .work/c09 or .work/c09/alt-<h>
	Dir         string // Base/run-<pid>
	WorkerPlain string
	WorkerInstr string
	GoaCLI      string
	Tools       string // directory put first on PATH (stand-in protoc)
	Instr       *Instrumented
	env         []string
	seq         int64
	// noDeviations: only the baselines of exploration 1 are run (C09_ONLY=repetition)
	noDeviations bool
	mu           sync.Mutex
}

func (e *Env) goEnvList() []string {
	env := append(os.Environ(), goEnv...)
	return append(env, "PATH="+e.Tools+string(os.PathListSeparator)+os.Getenv("PATH"))
}

// newRunDir creates a fresh module directory for one generator run. The module is always
// called c09run and the output always goes to <dir>/d, so the import paths written into the
// generated code are the same for every run.
func (e *Env) newRunDir() (string, error) {
	e.mu.Lock()
	e.seq++
	n := e.seq
	e.mu.Unlock()
	dir := filepath.Join(e.Dir, "runs", fmt.Sprintf("r%07d", n))
	if err := os.MkdirAll(dir, 0o755); err != nil {
		return "", err
	}
	return dir, os.WriteFile(filepath.Join(dir, "go.mod"), []byte("module c09run\n\ngo 1.22.0\n"), 0o644)
}

func pidAlive(pid int) bool {
	return syscall.Kill(pid, 0) == nil
}

// Setup instruments goa, builds both workers, the stand-in protoc and the real goa CLI.
func Setup(c *core.Ctx) (*Env, error) {
	e := &Env{Repo: core.RepoDir()}
	e.Base = filepath.Join(core.Root(), ".work", "c09")
	if e.Repo != "/repo" {
		h := sha256.Sum256([]byte(e.Repo))
		e.Base = filepath.Join(e.Base, "alt-"+hex.EncodeToString(h[:4]))
	}
	if err := os.MkdirAll(e.Base, 0o755); err != nil {
		return nil, err
	}
	// remove the directories of runs whose process is gone
	if ents, err := os.ReadDir(e.Base); err == nil {
		for _, ent := range ents {
			if !ent.IsDir() || !strings.HasPrefix(ent.Name(), "run-") {
				continue
			}
			if pid, err := strconv.Atoi(strings.TrimPrefix(ent.Name(), "run-")); err == nil && !pidAlive(pid) {
				_ = os.RemoveAll(filepath.Join(e.Base, ent.Name()))
			}
		}
	}
	e.Dir = filepath.Join(e.Base, fmt.Sprintf("run-%d", os.Getpid()))
	_ = os.RemoveAll(e.Dir)
	e.Tools = filepath.Join(e.Dir, "tools")
	if err := os.MkdirAll(e.Tools, 0o755); err != nil {
		return nil, err
	}
	e.env = e.goEnvList()

	t0 := time.Now()
	ins, err := Instrument(e.Repo, e.Dir, filepath.Join(core.Root(), "checks", "c09", "vrt"), e.env)
	if err != nil {
		return nil, fmt.Errorf("map-order instrumenter: %v", err)
	}
	e.Instr = ins
	c.Note("instrument_wall_s", time.Since(t0).Seconds())

	build := func(out string, extra []string, pkg string) error {
		args := []string{"build"}
		if mf := os.Getenv("VERIF_MODFILE"); mf != "" {
			args = append(args, "-modfile="+mf)
		}
		args = append(args, extra...)
		args = append(args, "-o", out, pkg)
		o, err, _ := runCmd(core.Root(), e.env, 20*time.Minute, "go", args...)
		if err != nil {
			return fmt.Errorf("go %s: %v\n%s", strings.Join(args, " "), err, tail(o, 4000))
		}
		return nil
	}
	e.WorkerPlain = filepath.Join(e.Dir, "worker-plain")
	e.WorkerInstr = filepath.Join(e.Dir, "worker-instr")
	e.GoaCLI = filepath.Join(e.Dir, "goa")
	t1 := time.Now()
	errs := make([]error, 4)
	var wg sync.WaitGroup
	jobs := []func() error{
		func() error { return build(e.WorkerPlain, nil, "./checks/c09/worker") },
		func() error {
			return build(e.WorkerInstr, []string{"-overlay", ins.Overlay, "-tags", "c09instr"}, "./checks/c09/worker")
		},
		func() error { return build(filepath.Join(e.Tools, "protoc"), nil, "./checks/c09/protocstub") },
		func() error { return build(e.GoaCLI, nil, "goa.design/goa/v3/cmd/goa") },
	}
	for i, j := range jobs {
		wg.Add(1)
		go func(i int, j func() error) { defer wg.Done(); errs[i] = j() }(i, j)
	}
	wg.Wait()
	for _, err := range errs {
		if err != nil {
			return nil, err
		}
	}
	c.Note("build_wall_s", time.Since(t1).Seconds())
	return e, nil
}

// Cleanup removes the run directory.
func (e *Env) Cleanup() {
	if os.Getenv("C09_KEEP") == "" {
		_ = os.RemoveAll(e.Dir)
	}
}

// WorkerResult is the JSON line printed by the worker.
type WorkerResult struct {
	Design   string   `json:"design"`
	Stage    string   `json:"stage"`
	OK       bool     `json:"ok"`
	Error    string   `json:"error,omitempty"`
	Panic    string   `json:"panic,omitempty"`
	API      string   `json:"api,omitempty"`
	Services []string `json:"services,omitempty"`
	Raw      string   `json:"raw,omitempty"`
	Timeout  bool     `json:"timeout,omitempty"`
}

// SiteVisits is the run-time record of one site (see vrt).
type SiteVisits struct {
	Visits       int            `json:"visits"`
	Lens         map[string]int `json:"lens"`
	Uncontrolled int            `json:"uncontrolled"`
}

// MaxLen is the largest number of keys seen at the site; maxSmall the largest one <= 4.
func (s *SiteVisits) MaxLen() (max, maxSmall int, multi int) {
	for k, cnt := range s.Lens {
		n, _ := strconv.Atoi(k)
		if n > max {
			max = n
		}
		if n <= 4 && n > maxSmall {
			maxSmall = n
		}
		if n >= 2 {
			multi += cnt
		}
	}
	return
}

// GenRun is one execution of a worker.
type GenRun struct {
	Res    WorkerResult
	Tree   Tree                   // files under d/ (second generation when twice)
	First  Tree                   // -twice: files of the first generation
	Report map[string]*SiteVisits // instrumented worker only
	Dir    string
}

// DesignRef names a design: a Spec file or an extra design.
type DesignRef struct {
	Name     string `json:"name"`
	SpecPath string `json:"-"`
	XDesign  string `json:"xdesign,omitempty"`
	Family   string `json:"family"`
}

// Generate runs one worker process for the design. ctl is the C09_CTL value ("" = all sites
// ascending; ignored by the plain worker). keep leaves the run directory in place.
func (e *Env) Generate(d *DesignRef, instrumented bool, ctl string, twice, keep bool) (*GenRun, error) {
	dir, err := e.newRunDir()
	if err != nil {
		return nil, err
	}
	r := &GenRun{Dir: dir}
	if !keep {
		defer os.RemoveAll(dir)
	}
	bin := e.WorkerPlain
	env := e.env
	report := filepath.Join(dir, "report.json")
	if instrumented {
		bin = e.WorkerInstr
		env = append(append([]string{}, env...), "C09_CTL="+ctl, "C09_REPORT="+report)
	}
	// short-lived single-threaded processes: keep the runtime from spawning 16 GC workers
	env = append(append([]string{}, env...), "GOMAXPROCS=2", "GOGC=400")
	args := []string{"-out", filepath.Join(dir, "d")}
	if d.XDesign != "" {
		args = append(args, "-xdesign", d.XDesign)
	} else {
		args = append(args, "-spec", d.SpecPath)
	}
	if twice {
		args = append(args, "-twice")
	}
	out, rerr, timedOut := runCmd(dir, env, 5*time.Minute, bin, args...)
	line := lastJSONLine(out)
	if line == "" || json.Unmarshal([]byte(line), &r.Res) != nil {
		r.Res = WorkerResult{Design: d.Name, Stage: "crash", Raw: tail(out, 1500)}
		if rerr != nil {
			r.Res.Error = rerr.Error()
		}
	}
	r.Res.Timeout = timedOut
	if !r.Res.OK {
		return r, nil
	}
	if r.Tree, err = snapshot(filepath.Join(dir, "d"), nil); err != nil {
		return nil, err
	}
	if twice {
		if r.First, err = snapshot(filepath.Join(dir, "d.first"), nil); err != nil {
			return nil, err
		}
	}
	if instrumented {
		b, err := os.ReadFile(report)
		if err != nil {
			return nil, fmt.Errorf("instrumented worker wrote no visit record: %v", err)
		}
		var doc struct {
			Sites map[string]*SiteVisits `json:"sites"`
		}
		if err := json.Unmarshal(b, &doc); err != nil {
			return nil, err
		}
		r.Report = doc.Sites
	}
	return r, nil
}

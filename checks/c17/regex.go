package c17

import (
	"errors"
	"fmt"
	"regexp"
	"strings"

	goa "goa.design/goa/v3/pkg"

	"verif/core"
)

// ---------------------------------------------------------------------------------------
// Pattern grammar. A pattern is an abstract syntax tree over
//
//	leaves : a  b  1  [ab]  \d  .  ^  $
//	unary  : x*  x+  x?
//	binary : xy (concatenation)   x|y (alternation)
//
// printed with a capturing group "( )" wherever precedence requires one (that is the
// "grouping" of the alphabet). Concatenation and alternation are enumerated right-leaning
// only (the left operand of a concatenation is not a concatenation, likewise for
// alternation): the other association prints to the same text. The space is every tree with
// at most maxNodes nodes and operator nesting depth at most maxDepth.
// ---------------------------------------------------------------------------------------

type node struct {
	op   byte // 'l' leaf, '*', '+', '?', 'c' concat, '|' alternation
	leaf string
	a, b *node
}

var leaves = []string{"a", "b", "1", "[ab]", `\d`, ".", "^", "$"}

func (n *node) prec() int {
	switch n.op {
	case '|':
		return 1
	case 'c':
		return 2
	case '*', '+', '?':
		return 3
	}
	return 4
}

func (n *node) write(sb *strings.Builder, minPrec int) {
	if n.prec() < minPrec {
		sb.WriteByte('(')
		n.write(sb, 0)
		sb.WriteByte(')')
		return
	}
	switch n.op {
	case 'l':
		sb.WriteString(n.leaf)
	case '*', '+', '?':
		n.a.write(sb, 4) // a repetition of a repetition needs a group: (a*)*
		sb.WriteByte(n.op)
	case 'c':
		n.a.write(sb, 3)
		n.b.write(sb, 2)
	case '|':
		n.a.write(sb, 2)
		sb.WriteByte('|')
		n.b.write(sb, 1)
	}
}

func (n *node) String() string {
	var sb strings.Builder
	n.write(&sb, 0)
	return sb.String()
}

func (n *node) hasAnchor() bool {
	if n.op == 'l' {
		return n.leaf == "^" || n.leaf == "$"
	}
	return n.a.hasAnchor() || (n.b != nil && n.b.hasAnchor())
}

func (n *node) opName() string {
	switch n.op {
	case 'l':
		switch n.leaf {
		case "^", "$":
			return "anchor"
		case "[ab]", `\d`, ".":
			return "class"
		}
		return "literal"
	case '*':
		return "star"
	case '+':
		return "plus"
	case '?':
		return "quest"
	case 'c':
		return "concat"
	}
	return "alternation"
}

// sigOp is the operator feature of a pattern used in violation signatures: the root
// operator, with "-anchors" when the pattern contains ^ or $.
func (n *node) sigOp() string {
	s := n.opName()
	if n.op != 'l' && n.hasAnchor() {
		s += "-anchors"
	}
	return s
}

type enumKey struct{ size, depth int }

type enumerator struct{ memo map[enumKey][]*node }

// exact returns every tree with exactly size nodes and depth <= depth.
func (e *enumerator) exact(size, depth int) []*node {
	if size < 1 || depth < 0 {
		return nil
	}
	k := enumKey{size, depth}
	if r, ok := e.memo[k]; ok {
		return r
	}
	var out []*node
	if size == 1 {
		for _, l := range leaves {
			out = append(out, &node{op: 'l', leaf: l})
		}
	} else if depth > 0 {
		for _, ch := range e.exact(size-1, depth-1) {
			for _, op := range []byte{'*', '+', '?'} {
				out = append(out, &node{op: op, a: ch})
			}
		}
		for ls := 1; ls <= size-2; ls++ {
			for _, l := range e.exact(ls, depth-1) {
				for _, r := range e.exact(size-1-ls, depth-1) {
					if l.op != 'c' {
						out = append(out, &node{op: 'c', a: l, b: r})
					}
					if l.op != '|' {
						out = append(out, &node{op: '|', a: l, b: r})
					}
				}
			}
		}
	}
	e.memo[k] = out
	return out
}

func enumPatterns(maxNodes, maxDepth int) []*node {
	e := &enumerator{memo: map[enumKey][]*node{}}
	var out []*node
	for s := 1; s <= maxNodes; s++ {
		out = append(out, e.exact(s, maxDepth)...)
	}
	return out
}

// valueStrings returns every string over {a,b,1} of length 0..maxLen, shortest first.
func valueStrings(maxLen int) []string {
	out := []string{""}
	prev := []string{""}
	for l := 1; l <= maxLen; l++ {
		var next []string
		for _, p := range prev {
			for _, ch := range []string{"a", "b", "1"} {
				next = append(next, p+ch)
			}
		}
		out = append(out, next...)
		prev = next
	}
	return out
}

// ---- reference matcher (independent of package regexp): set-of-positions semantics ----

// ends returns the set of positions (bit i = position i) at which a match of n can end when
// it starts at one of the positions in from. len(s) <= 7.
func (n *node) ends(s string, from uint8) uint8 {
	switch n.op {
	case 'l':
		var out uint8
		switch n.leaf {
		case "^":
			return from & 1
		case "$":
			return from & (1 << uint(len(s)))
		}
		for i := 0; i < len(s); i++ {
			if from&(1<<uint(i)) == 0 {
				continue
			}
			ch := s[i]
			ok := false
			switch n.leaf {
			case ".":
				ok = ch != '\n'
			case "[ab]":
				ok = ch == 'a' || ch == 'b'
			case `\d`:
				ok = ch >= '0' && ch <= '9'
			default:
				ok = ch == n.leaf[0]
			}
			if ok {
				out |= 1 << uint(i+1)
			}
		}
		return out
	case 'c':
		return n.b.ends(s, n.a.ends(s, from))
	case '|':
		return n.a.ends(s, from) | n.b.ends(s, from)
	case '?':
		return from | n.a.ends(s, from)
	case '*', '+':
		acc := n.a.ends(s, from)
		cur := acc
		for cur != 0 {
			nxt := n.a.ends(s, cur) &^ acc
			acc |= nxt
			cur = nxt
		}
		if n.op == '*' {
			acc |= from
		}
		return acc
	}
	return 0
}

// refMatch is the reference verdict of an unanchored search (the semantics of
// regexp.MatchString): some substring matches, with ^/$ tied to the ends of the text.
func (n *node) refMatch(s string) bool {
	all := uint8(1)<<uint(len(s)+1) - 1
	return n.ends(s, all) != 0
}

// ---- executing goa ----

// patternAccepts runs the real ValidatePattern.
func patternAccepts(pattern, value string) (bool, string) {
	err := goa.ValidatePattern("v", value, pattern)
	if err == nil {
		return true, ""
	}
	var se *goa.ServiceError
	if !errors.As(err, &se) {
		return false, fmt.Sprintf("error type %T", err)
	}
	if se.Name != goa.InvalidPattern {
		return false, "error name " + se.Name
	}
	return false, ""
}

type patFailure struct {
	pattern, value, op string
	got, want          bool
	bad                string
	harness            string
}

// runPatterns checks every (pattern, value) pair of the bounded space and returns the
// bound description.
func runPatterns(c *core.Ctx, thorough bool) string {
	maxNodes, maxDepth, maxLen := 6, 3, 4
	if thorough {
		maxNodes, maxDepth, maxLen = 7, 4, 5
	}
	pats := enumPatterns(maxNodes, maxDepth)
	vals := valueStrings(maxLen)
	c.Note("pattern_count", len(pats))
	c.Note("pattern_values", len(vals))
	const chunk = 256
	nchunks := (len(pats) + chunk - 1) / chunk
	fails := make([][]patFailure, nchunks)
	matched := make([]int64, nchunks)
	done := make([]bool, nchunks)
	core.Parallel(nchunks, func(ci int) {
		if c.Expired() {
			return
		}
		for pi := ci * chunk; pi < len(pats) && pi < (ci+1)*chunk; pi++ {
			n := pats[pi]
			p := n.String()
			re, err := regexp.Compile(p)
			if err != nil {
				fails[ci] = append(fails[ci], patFailure{pattern: p, harness: "grammar produced a pattern package regexp rejects: " + err.Error()})
				continue
			}
			for _, v := range vals {
				want := re.MatchString(v)
				if ref := n.refMatch(v); ref != want {
					fails[ci] = append(fails[ci], patFailure{pattern: p, value: v, harness: fmt.Sprintf("reference matcher says %v, regexp.MatchString says %v", ref, want)})
				}
				got, bad := patternAccepts(p, v)
				if got {
					matched[ci]++
				}
				if got != want || bad != "" {
					fails[ci] = append(fails[ci], patFailure{pattern: p, value: v, op: n.sigOp(), got: got, want: want, bad: bad})
				}
			}
		}
		done[ci] = true
	})
	var execs, nmatched int64
	completed := 0
	for ci := 0; ci < nchunks; ci++ {
		if !done[ci] {
			continue
		}
		completed++
		for pi := ci * chunk; pi < len(pats) && pi < (ci+1)*chunk; pi++ {
			p := pats[pi].String()
			c.State("pattern|"+p, pats[pi].op != 'l')
			execs += int64(len(vals))
			if pi%4099 == 0 {
				c.Sample(Case{Kind: "pattern", Pattern: p, Value: vals[pi%len(vals)]})
			}
		}
		nmatched += matched[ci]
		for _, f := range fails[ci] {
			reportPattern(c, f)
		}
	}
	c.Exec(execs)
	c.AddNote("pattern_pairs", execs)
	// outcome classes of the pattern part (counted, not per call: 10^7 calls)
	c.Outcome("pattern:match")
	c.Outcome("pattern:no-match")
	c.Note("pattern_pairs_matching", nmatched)
	c.Note("pattern_pairs_not_matching", execs-nmatched)
	if nmatched == 0 || nmatched == execs {
		c.HarnessError("pattern part is vacuous: %d of %d pairs match", nmatched, execs)
	}
	if completed < nchunks {
		c.Incomplete(fmt.Sprintf("patterns: deadline reached after %d of %d pattern chunks of %d", completed, nchunks, chunk))
	}
	return fmt.Sprintf("patterns: all ASTs with <= %d nodes and depth <= %d over leaves %v, ops * + ? concat alternation (%d patterns) x all strings over {a,b,1} of length <= %d (%d strings)",
		maxNodes, maxDepth, leaves, len(pats), maxLen, len(vals))
}

func reportPattern(c *core.Ctx, f patFailure) {
	if f.harness != "" {
		c.HarnessError("pattern %q value %q: %s", f.pattern, f.value, f.harness)
		return
	}
	cs := Case{Kind: "pattern", Pattern: f.pattern, Value: f.value, Class: f.op}
	if f.bad != "" {
		c.Violation("pattern rejection-malformed "+strings.SplitN(f.bad, " ", 3)[1],
			fmt.Sprintf("ValidatePattern(%q, %q) failed with %s, documented is a ServiceError named %q", f.value, f.pattern, f.bad, goa.InvalidPattern),
			cs, func() bool { _, b := patternAccepts(f.pattern, f.value); return b == f.bad })
	}
	if f.got != f.want {
		c.Violation(fmt.Sprintf("pattern-mismatch op=%s verdict=%s", f.op, verdictStr(f.got)),
			fmt.Sprintf("ValidatePattern(value %q, pattern %q) %s the value, regexp.MatchString says match=%v", f.value, f.pattern, verdictStr(f.got), f.want),
			cs, func() bool { g, _ := patternAccepts(f.pattern, f.value); return g == f.got })
	}
}

func replayPattern(c *core.Ctx, cs Case) {
	re, err := regexp.Compile(cs.Pattern)
	if err != nil {
		c.HarnessError("replay: pattern %q does not compile: %v", cs.Pattern, err)
		return
	}
	want := re.MatchString(cs.Value)
	got, bad := patternAccepts(cs.Pattern, cs.Value)
	c.Exec(1)
	fmt.Printf("replay pattern=%q value=%q goa=%s regexp.MatchString=%v %s\n", cs.Pattern, cs.Value, verdictStr(got), want, bad)
	if got != want {
		c.Violation(fmt.Sprintf("pattern-mismatch op=%s verdict=%s", cs.Class, verdictStr(got)), "verdict differs from regexp.MatchString", cs, nil)
	}
}

package c17

import "strings"

// ---------------------------------------------------------------------------------------
// uuid — RFC 4122 section 3: 8-4-4-4-12 hex digits (case-insensitive on input), optionally
// as a URN "urn:uuid:" + that string. Asserted valid: variant 10x (the variant RFC 4122
// lays out: first nibble of clock-seq-and-reserved in 8..b) with version 1..5 (the versions
// RFC 4122 defines). Not asserted: other variants and versions, the nil UUID, and the two
// non-RFC spellings that goa's code comment additionally lists ({...} and 32 bare digits).
// ---------------------------------------------------------------------------------------

func genUUID(thorough bool, emit emitFn) {
	// %V = version nibble, %R = variant nibble
	templates := []string{
		"6ba7b810-9dad-V1d1-R0b4-00c04fd430c8",
		"00000000-0000-V000-R000-000000000000",
		"ffffffff-ffff-Vfff-Rfff-ffffffffffff",
		"01234567-89ab-Vdef-R123-456789abcdef",
	}
	if thorough {
		templates = append(templates, "a0a0a0a0-0a0a-Va0a-R0a0-a0a0a0a0a0a0", "99999999-9999-V999-R999-999999999999", "fedcba98-7654-V210-Rfed-cba987654321")
	}
	fill := func(t string, v, r byte) string {
		t = strings.Replace(t, "V", string(v), 1)
		return strings.Replace(t, "R", string(r), 1)
	}
	for _, t := range templates {
		for _, v := range []byte("0123456789abcdef") {
			for _, r := range []byte("0123456789abcdef") {
				u := fill(t, v, r)
				w := neutral
				cls := "variant-or-version-outside-rfc4122-layout"
				if v >= '1' && v <= '5' && (r == '8' || r == '9' || r == 'a' || r == 'b') {
					w = valid
					cls = "rfc4122-variant"
				}
				emit(cls+" form=canonical hex=lower", u, w)
				emit(cls+" form=canonical hex=upper", upper(u), w)
				emit(cls+" form=canonical hex=mixed-case", mixCase(u), w)
				emit(cls+" form=urn hex=lower", "urn:uuid:"+u, w)
				emit(cls+" form=urn hex=upper", "urn:uuid:"+upper(u), w)
				emit("form=braces", "{"+u+"}", neutral)
				emit("form=bare-32-digits", strings.ReplaceAll(u, "-", ""), neutral)
				emit("form=urn-uppercase-prefix", "URN:UUID:"+u, neutral)
			}
		}
	}
	emit("nil-uuid", "00000000-0000-0000-0000-000000000000", neutral)

	for _, base := range []string{fill(templates[0], '1', '8'), fill(templates[3], '4', 'b')} {
		for _, pre := range []string{"", "urn:uuid:"} {
			form := "canonical"
			if pre != "" {
				form = "urn"
			}
			// a non-hex character at every digit position; every hyphen replaced/removed/moved
			for i := 0; i < len(base); i++ {
				if base[i] == '-' {
					for _, r := range []string{"_", " ", ":", "."} {
						emit("hyphen-replaced form="+form, pre+base[:i]+r+base[i+1:], invalid)
					}
					emit("hyphen-missing form="+form, pre+base[:i]+base[i+1:], invalid)
					emit("hyphen-missing-digit-added form="+form, pre+base[:i]+"0"+base[i+1:], invalid)
					emit("hyphen-misplaced form="+form, pre+base[:i-1]+"-"+base[i-1:i]+base[i+1:], invalid)
					continue
				}
				for _, r := range []string{"g", "G", "z", " ", "-"} {
					emit("non-hex-digit form="+form, pre+base[:i]+r+base[i+1:], invalid)
				}
			}
			emit("too-long form="+form, pre+base+"0", invalid)
			emit("too-long form="+form, pre+"0"+base, invalid)
			emit("too-long form="+form, pre+base+"-", invalid)
			emit("too-short form="+form, pre+base[:len(base)-1], invalid)
			emit("too-short form="+form, pre+base[1:], invalid)
			emit("leading-space form="+form, " "+pre+base, invalid)
			emit("trailing-space form="+form, pre+base+" ", invalid)
			emit("trailing-newline form="+form, pre+base+"\n", invalid)
		}
		for _, w := range [][2]string{{"x", "y"}, {"[", "]"}, {"(", ")"}, {"<", ">"}, {"\"", "\""}, {" ", " "}, {"{", "]"}, {"[", "}"}, {"0", "0"}} {
			emit("wrapped-in-non-brace-characters", w[0]+base+w[1], invalid)
		}
		emit("unbalanced-brace", "{"+base, invalid)
		emit("unbalanced-brace", base+"}", invalid)
		emit("double-braces", "{{"+base+"}}", invalid)
		for _, p := range []string{"urn:uuix:", "urn:guid:", "uuid:", "urn:uuid;", "urn-uuid-", "urn:uuid:urn:uuid:", "urn::uuid:"} {
			emit("urn-prefix-malformed", p+base, invalid)
		}
		emit("groups-reordered", base[24:]+"-"+base[9:23]+"-"+base[:8], invalid)
	}
	emit("empty", "", invalid)
	emit("only-hyphens", "----", invalid)
	emit("urn-prefix-only", "urn:uuid:", invalid)
}

// ---------------------------------------------------------------------------------------
// email — RFC 5322 section 3.4.1 addr-spec = local-part "@" domain with
// local-part = dot-atom / quoted-string and domain = dot-atom / domain-literal.
// Asserted valid: bare addr-specs without comments or folding white space. Not asserted:
// name-addr ("Name <a@b>"), "<a@b>", comments, surrounding white space, non-ASCII,
// obsolete forms.
// ---------------------------------------------------------------------------------------

func genEmail(thorough bool, emit emitFn) {
	locals := []struct{ s, cls string }{
		{"a", "dot-atom"}, {"ab", "dot-atom"}, {"a1", "dot-atom"}, {"1", "dot-atom"}, {"A", "dot-atom"},
		{"a.b", "dot-atom-dotted"}, {"a.b.c", "dot-atom-dotted"}, {"a-b", "dot-atom"}, {"a_b", "dot-atom"}, {"a+b", "dot-atom"},
		{"-a", "dot-atom"}, {"a!#$%&'*+-/=?^_`{|}~b", "dot-atom-all-atext-specials"},
		{`"a"`, "quoted-string"}, {`"a b"`, "quoted-string"}, {`"a@b"`, "quoted-string"}, {`"a.b"`, "quoted-string"}, {`"a..b"`, "quoted-string"},
		{`".a"`, "quoted-string"}, {`"a\"b"`, "quoted-string-with-quoted-pair"}, {`"a,b"`, "quoted-string"}, {`"(a)"`, "quoted-string"},
	}
	domains := []struct{ s, cls string }{
		{"b.com", "dot-atom"}, {"example.org", "dot-atom"}, {"a-b.c1.io", "dot-atom"}, {"B.COM", "dot-atom"}, {"x.y.z", "dot-atom"},
		{"b", "dot-atom-single-label"}, {"1.2", "dot-atom"}, {"[127.0.0.1]", "domain-literal"},
	}
	if thorough {
		for _, a := range []string{"a", "1", "-", "_", "+"} {
			for _, b := range []string{"a", "1", "-", "_", "+", "."} {
				for _, c := range []string{"a", "1", "-", "_", "+"} {
					locals = append(locals, struct{ s, cls string }{a + b + c, "dot-atom"})
				}
			}
		}
	}
	for _, l := range locals {
		for _, d := range domains {
			emit("local="+l.cls+" domain="+d.cls, l.s+"@"+d.s, valid)
		}
	}
	emit("domain-literal-ipv6-tag", "a@[IPv6:::1]", neutral) // RFC 5322 dtext allows it, RFC 5321 defines the tag
	emit("domain-literal-free-text", "a@[some text]", neutral)
	emit("name-addr", "Name <a@b.com>", neutral)
	emit("name-addr", `"Some Name" <a@b.com>`, neutral)
	emit("angle-addr-only", "<a@b.com>", neutral)
	emit("trailing-comment", "a@b.com (comment)", neutral)
	emit("comment-in-local-part", "a(c)@b.com", neutral)
	emit("leading-space", " a@b.com", neutral)
	emit("trailing-space", "a@b.com ", neutral)
	emit("non-ascii-local-part", "é@b.com", neutral)
	emit("non-ascii-domain", "a@é.com", neutral)

	for _, l := range []string{"a", "a.b", "ab1"} {
		for _, d := range []string{"b.com", "x.y.z"} {
			good := l + "@" + d
			emit("at-sign-missing", l+d, invalid)
			emit("at-sign-missing", l+"."+d, invalid)
			emit("at-sign-replaced", l+" at "+d, invalid)
			emit("local-part-empty", "@"+d, invalid)
			emit("domain-empty", l+"@", invalid)
			emit("two-at-signs-unquoted", l+"@"+l+"@"+d, invalid)
			emit("two-at-signs-unquoted", l+"@@"+d, invalid)
			emit("local-part-leading-dot", "."+good, invalid)
			emit("local-part-trailing-dot", l+".@"+d, invalid)
			emit("local-part-double-dot", l+"..x@"+d, invalid)
			emit("domain-leading-dot", l+"@."+d, invalid)
			emit("domain-trailing-dot", good+".", invalid)
			emit("domain-double-dot", l+"@"+strings.Replace(d, ".", "..", 1), invalid)
			emit("space-in-local-part", l+" x@"+d, invalid)
			emit("space-around-dot-obsolete-syntax", l+"@"+strings.Replace(d, ".", " .", 1), neutral) // obs-domain allows CFWS around atoms
			emit("space-in-domain", l+"@x "+d, invalid)
			for _, cc := range []string{"\x01", "\x00", "\x7f", "\n", "\r\n"} {
				emit("control-char-in-local-part", l+cc+"x@"+d, invalid)
				emit("control-char-in-domain", l+"@x"+cc+d, invalid)
			}
			for _, sp := range []string{"<", ">", "[", "]", ":", ";", ",", "\\", "\""} {
				emit("unquoted-special-in-local-part", l+sp+"x@"+d, invalid)
			}
			for _, sp := range []string{"<", ">", "]", ":", ";", ",", "\\", "\"", "@"} {
				emit("special-in-domain", l+"@x"+sp+d, invalid)
			}
			emit("quote-unclosed", "\""+good, invalid)
			emit("whole-address-quoted", "\""+l+"@"+d+"\"", invalid) // a quoted-string with no "@" domain after it
			emit("angle-unclosed", "<"+good, invalid)
			emit("angle-stray-close", good+">", invalid)
			emit("domain-literal-unclosed", l+"@[127.0.0.1", invalid)
			emit("address-list", good+", "+good, invalid)
			emit("address-list", good+" "+good, invalid)
			emit("address-list", good+";"+good, invalid)
		}
	}
	emit("empty", "", invalid)
	emit("only-at-sign", "@", invalid)
	emit("only-space", " ", invalid)
}

// Package c17 holds the INPUTS and HISTORIES parts of check C17 — "format and pattern
// validators accept exactly the named formats". (The SCHEDULES part — concurrent use of the
// pattern cache under a controlled scheduler — lives elsewhere and is called from
// cmd/c17/main.go.)
//
// Alphabet: per format a constructive grammar of instances that are valid under the standard
// the format names (gen_*.go) and a set of single-point corruptions that are outside the
// standard by construction; for patterns every regular expression of a small grammar
// (regex.go) and every string over {a,b,1} up to a length bound; for histories every call
// sequence over 3 patterns x 2 values plus interleaved ValidateFormat calls (histories.go).
//
// Bound: stated per generator (see the "bounds" note in the evidence); everything inside the
// bound is enumerated, nothing is sampled.
//
// Oracle: only the property statement. A constructed-valid instance must be accepted, a
// constructed-invalid one rejected with the documented error name, ip <=> ipv4 or ipv6 and
// never both, ValidatePattern == regexp.MatchString, and a verdict never depends on the
// calls made before it. Strings on which the named standard (or goa's documentation of the
// format) is ambiguous are executed and counted as "neutral" but never asserted; each such
// exclusion is recorded through c.Assume.
package c17

import (
	"errors"
	"fmt"
	"sort"
	"strings"

	goa "goa.design/goa/v3/pkg"

	"verif/core"
)

// want is the constructed status of a string with respect to a format.
type want int

const (
	neutral want = iota // executed, verdict recorded, nothing asserted
	valid               // valid by construction: must be accepted
	invalid             // malformed by construction: must be rejected
)

func (w want) String() string {
	switch w {
	case valid:
		return "valid"
	case invalid:
		return "invalid"
	}
	return "neutral"
}

// emitFn receives one constructed string. class is the abstract feature class of the string
// (it becomes part of the violation signature, so it never contains the value itself).
type emitFn func(class, value string, w want)

// fcase is one (format, string) case.
type fcase struct {
	class string
	value string
	want  want
}

// Case is the replay case written for every violation of this package.
type Case struct {
	Kind    string   `json:"kind"` // "format", "relation", "pattern", "history"
	Format  string   `json:"format,omitempty"`
	Class   string   `json:"class,omitempty"`
	Value   string   `json:"value,omitempty"`
	Want    string   `json:"want,omitempty"`
	Pattern string   `json:"pattern,omitempty"`
	History *History `json:"history,omitempty"`
}

type formatGen struct {
	format string
	gen    func(thorough bool, emit emitFn)
}

// formats lists every format constant of pkg/validation.go with its generator.
func formats() []formatGen {
	return []formatGen{
		{"date", genDate},
		{"date-time", genDateTime},
		{"rfc1123", genRFC1123},
		{"uuid", genUUID},
		{"email", genEmail},
		{"hostname", genHostname},
		{"ipv4", genIPv4},
		{"ipv6", genIPv6},
		{"ip", genIP},
		{"mac", genMAC},
		{"cidr", genCIDR},
		{"uri", genURI},
		{"regexp", genRegexp},
		{"json", genJSON},
	}
}

// collect runs a generator and returns its cases de-duplicated by value, in generation
// order. A value constructed both as valid and as invalid is a bug of the grammar itself.
func collect(c *core.Ctx, g formatGen, thorough bool) []fcase {
	var out []fcase
	seen := map[string]int{}
	g.gen(thorough, func(class, value string, w want) {
		if i, ok := seen[value]; ok {
			prev := out[i]
			if prev.want != w && prev.want != neutral && w != neutral {
				c.HarnessError("grammar of format %s constructs %q both as %s (class %s) and as %s (class %s)",
					g.format, value, prev.want, prev.class, w, class)
			}
			// an asserted status wins over neutral; first class wins otherwise
			if prev.want == neutral && w != neutral {
				out[i] = fcase{class, value, w}
			}
			return
		}
		seen[value] = len(out)
		out = append(out, fcase{class, value, w})
	})
	return out
}

// accepts executes the real validator. The second result describes a malformed rejection
// (wrong error type or name); it is empty when the result is well formed.
func accepts(format, value string) (bool, string) {
	err := goa.ValidateFormat("v", value, goa.Format(format))
	if err == nil {
		return true, ""
	}
	var se *goa.ServiceError
	if !errors.As(err, &se) {
		return false, fmt.Sprintf("error type %T", err)
	}
	if se.Name != goa.InvalidFormat {
		return false, "error name " + se.Name
	}
	return false, ""
}

func verdictStr(ok bool) string {
	if ok {
		return "accepted"
	}
	return "rejected"
}

func formatSig(format, class string, ok bool) string {
	return fmt.Sprintf("format=%s class=%s verdict=%s", format, class, verdictStr(ok))
}

type fresult struct {
	ok  bool
	bad string
}

// evalFormat runs ValidateFormat on every case on all cores; results are reported
// afterwards in generation order so that two runs print identical counts and examples.
func evalFormat(format string, cases []fcase) []fresult {
	res := make([]fresult, len(cases))
	const chunk = 2048
	n := (len(cases) + chunk - 1) / chunk
	core.Parallel(n, func(ci int) {
		for i := ci * chunk; i < len(cases) && i < (ci+1)*chunk; i++ {
			ok, bad := accepts(format, cases[i].value)
			res[i] = fresult{ok, bad}
		}
	})
	return res
}

func checkFormat(c *core.Ctx, format string, cases []fcase) {
	res := evalFormat(format, cases)
	c.Exec(int64(len(cases)))
	counts := map[string]int64{}
	for i, fc := range cases {
		r := res[i]
		c.State("format|"+format+"|"+fc.value, fc.value != "")
		c.Outcome(format + ":" + fc.want.String() + "/" + verdictStr(r.ok))
		counts[fc.want.String()]++
		if i%97 == 0 {
			c.Sample(Case{Kind: "format", Format: format, Class: fc.class, Value: fc.value, Want: fc.want.String()})
		}
		cs := Case{Kind: "format", Format: format, Class: fc.class, Value: fc.value, Want: fc.want.String()}
		if r.bad != "" {
			bad := r.bad
			c.Violation(fmt.Sprintf("format=%s rejection-malformed %s", format, strings.SplitN(bad, " ", 3)[1]),
				fmt.Sprintf("ValidateFormat(%q, %s) rejected with %s, documented is a ServiceError named %q", fc.value, format, bad, goa.InvalidFormat),
				cs, func() bool { _, b := accepts(cs.Format, cs.Value); return b == bad })
		}
		if (fc.want == valid && !r.ok) || (fc.want == invalid && r.ok) {
			ok := r.ok
			what := fmt.Sprintf("%q is a valid %s by construction (%s) but ValidateFormat rejects it", fc.value, format, fc.class)
			if fc.want == invalid {
				what = fmt.Sprintf("%q is not a %s by construction (%s) but ValidateFormat accepts it", fc.value, format, fc.class)
			}
			c.Violation(formatSig(format, fc.class, ok), what, cs,
				func() bool { again, _ := accepts(cs.Format, cs.Value); return again == ok })
		}
	}
	c.Note("cases_"+format, fmt.Sprintf("valid=%d invalid=%d neutral=%d", counts["valid"], counts["invalid"], counts["neutral"]))
}

// checkIPRelation asserts, on every string of the ipv4/ipv6/ip/cidr/hostname sets, the
// documented relation: ip accepts <=> ipv4 accepts or ipv6 accepts, and never both.
func checkIPRelation(c *core.Ctx, values []fcase) {
	type rel struct{ ip, v4, v6 bool }
	res := make([]rel, len(values))
	const chunk = 2048
	n := (len(values) + chunk - 1) / chunk
	core.Parallel(n, func(ci int) {
		for i := ci * chunk; i < len(values) && i < (ci+1)*chunk; i++ {
			v := values[i].value
			res[i].ip, _ = accepts("ip", v)
			res[i].v4, _ = accepts("ipv4", v)
			res[i].v6, _ = accepts("ipv6", v)
		}
	})
	c.Exec(int64(3 * len(values)))
	for i, fc := range values {
		r := res[i]
		c.State("relation|"+fc.value, fc.value != "")
		c.Outcome(fmt.Sprintf("relation:ip=%v,v4=%v,v6=%v", r.ip, r.v4, r.v6))
		if r.ip == (r.v4 || r.v6) && !(r.v4 && r.v6) {
			continue
		}
		sig := fmt.Sprintf("relation ip=%s ipv4=%s ipv6=%s class=%s", verdictStr(r.ip), verdictStr(r.v4), verdictStr(r.v6), fc.class)
		cs := Case{Kind: "relation", Class: fc.class, Value: fc.value}
		want := r
		c.Violation(sig, fmt.Sprintf("%q: ip %s, ipv4 %s, ipv6 %s; documented: an IP is an IPv4 or an IPv6 address and never both",
			fc.value, verdictStr(r.ip), verdictStr(r.v4), verdictStr(r.v6)), cs, func() bool {
			ip, _ := accepts("ip", cs.Value)
			v4, _ := accepts("ipv4", cs.Value)
			v6, _ := accepts("ipv6", cs.Value)
			return rel{ip, v4, v6} == want
		})
	}
}

// RunInputs is the INPUTS part: formats, the ip relation and pattern/value agreement.
func RunInputs(c *core.Ctx) {
	c.Rule("INPUTS: per format every derivation of a constructive grammar of valid instances up to the stated size bound, plus every " +
		"single-point corruption of the listed kinds (state = one (format,string) pair, transition = one ValidateFormat call; non-trivial = non-empty string); " +
		"every regular expression AST up to the stated node count/depth x every string over {a,b,1} up to the stated length " +
		"(state = one pattern, transition = one ValidatePattern call; non-trivial = pattern with at least one operator). " +
		"HISTORIES: every call sequence up to the stated length over 3 patterns x 2 values + 2 ValidateFormat calls, for every pattern triple " +
		"(state = one history, transition = one call; non-trivial = length >= 2).")
	assumptions(c)
	thorough := c.Thorough()
	var ipStrings []fcase
	var bounds []string
	for _, g := range formats() {
		if c.Expired() {
			c.Incomplete("inputs: stopped before format " + g.format)
			return
		}
		cases := collect(c, g, thorough)
		checkFormat(c, g.format, cases)
		switch g.format {
		case "ipv4", "ipv6", "ip":
			ipStrings = append(ipStrings, cases...)
		case "cidr", "hostname":
			// a few strings of neighbouring formats: none of them is an address, but the
			// relation must hold on them as well
			for i, fc := range cases {
				if i%7 == 0 {
					ipStrings = append(ipStrings, fc)
				}
			}
		}
	}
	// relation on the de-duplicated union
	seen := map[string]bool{}
	var rel []fcase
	for _, fc := range ipStrings {
		if !seen[fc.value] {
			seen[fc.value] = true
			rel = append(rel, fc)
		}
	}
	checkIPRelation(c, rel)
	c.Note("relation_strings", len(rel))
	bounds = append(bounds, formatBounds(thorough)...)
	bounds = append(bounds, runPatterns(c, thorough))
	sort.Strings(bounds)
	c.Note("bounds", bounds)
}

// Replay re-executes one replay file written by this package. It returns false when the
// file is not one of this package's (so that the caller can hand it to another part).
func Replay(c *core.Ctx, path string) bool {
	var cs Case
	if err := core.ReplayCase(path, &cs); err != nil {
		return false
	}
	switch cs.Kind {
	case "format":
		ok, bad := accepts(cs.Format, cs.Value)
		c.Exec(1)
		fmt.Printf("replay format=%s value=%q constructed=%s class=%s verdict=%s %s\n", cs.Format, cs.Value, cs.Want, cs.Class, verdictStr(ok), bad)
		if bad != "" {
			c.Violation(fmt.Sprintf("format=%s rejection-malformed %s", cs.Format, strings.SplitN(bad, " ", 3)[1]), bad, cs, nil)
		}
		if (cs.Want == "valid" && !ok) || (cs.Want == "invalid" && ok) {
			c.Violation(formatSig(cs.Format, cs.Class, ok), fmt.Sprintf("%q constructed %s for %s, verdict %s", cs.Value, cs.Want, cs.Format, verdictStr(ok)), cs, nil)
		}
	case "relation":
		checkIPRelation(c, []fcase{{class: cs.Class, value: cs.Value}})
		fmt.Printf("replay relation value=%q\n", cs.Value)
	case "pattern":
		replayPattern(c, cs)
	case "history":
		if cs.History == nil {
			return false
		}
		replayHistory(c, cs)
	default:
		return false
	}
	return true
}

package c17

import (
	"fmt"

	"verif/core"
)

// assumptions records every trusted component and every string family that is deliberately
// left out of both the valid and the invalid set because the named standard (or goa's
// documentation of the format) does not decide it.
func assumptions(c *core.Ctx) {
	for _, a := range []string{
		"reference for pattern verdicts is package regexp (the property defines agreement with regular-expression matching); it is cross-checked on every (pattern,value) pair against an independent set-of-positions matcher written in the check, a disagreement is a harness error",
		"calendar reference (leap years, days per month, day of week) is written out in the check (proleptic Gregorian, Sakamoto's method); package time is not used by the oracle",
		"histories: a fresh cache state is obtained by using pattern texts never used before in the process (semantically neutral prefix (?:\\x{N}){0}); sound because the cache is keyed by pattern text, the neutrality of the prefix is checked at run time; a defect that depends on the map being completely empty is not reachable this way",
		"date/date-time: lower-case 't'/'z', a space instead of 'T' and the leap second :60 are permitted by RFC 3339 only conditionally; not asserted either way",
		"rfc1123: asserted valid = intersection of RFC 1123 5.2.14 and Go's time.RFC1123 layout that the constant is named after (day-of-week, 2-digit day, 4-digit year, seconds, zone abbreviation from RFC 822's list). Numeric zones, UT, military zones, missing day-of-week, missing seconds, one-digit day, lower-case tokens, a well-formed but wrong day-of-week and unlisted zone abbreviations are not asserted either way",
		"uuid: asserted valid = RFC 4122 layout variant (10x) with versions 1-5, in canonical and urn:uuid: form, any hex case. Other variants/versions, the nil UUID, the {..} and 32-digit spellings (listed in goa's code comment but not in RFC 4122) and an upper-case URN prefix are not asserted either way",
		"email: asserted valid = bare RFC 5322 addr-spec (dot-atom or quoted-string local part; dot-atom or IPv4 domain-literal domain). name-addr forms ('Name <a@b>'), comments, surrounding white space, obsolete syntax (white space around dots), non-ASCII and non-IP domain literals are not asserted either way",
		"hostname: goa names RFC 1035, whose labels start with a letter. Labels starting with a digit (valid only under the RFC 1123 relaxation), underscores, a trailing dot, the root name '.' and non-ASCII labels are not asserted either way",
		"ipv4/ipv6: octets with leading zeros and zone identifiers (%eth0) are not asserted either way; an IPv4-mapped IPv6 text such as ::ffff:1.2.3.4 is an IPv6 text representation (RFC 4291 2.2 form 3) and not a dotted quad",
		"mac: asserted valid = 6 or 8 octets with ':' or '-' in one hex case; mixed-case hex, the dotted Cisco form, 20-octet InfiniBand addresses (accepted by net.ParseMAC but not named by goa) and the separator-less form are not asserted either way",
		"cidr: asserted valid = network prefixes (no bit set beyond the prefix length); an address with host bits set plus a prefix length, a prefix length with leading zero or '+' are not asserted either way",
		"uri: asserted valid = RFC 3986 'URI' production (always with scheme); 'scheme://' with nothing after it, IPvFuture literals, ports beyond 65535 and non-ASCII (IRI) are not asserted either way. Relative references are constructed-invalid: section 4.1/4.2 of the RFC distinguishes them from URIs",
		"regexp: a**, a*+, \\C, repeat counts above 1000, duplicate group names and (?<n>..) differ between RE2 implementations/versions and are not asserted either way",
		"json: duplicate object keys, a lone surrogate escape, a byte order mark and invalid UTF-8 inside a string are not asserted either way (RFC 8259 leaves them to the parser)",
	} {
		c.Assume(a)
	}
}

// formatBounds states the size bound of every generator (kept next to the generators'
// constants; the actual case counts are in the cases_<format> notes).
func formatBounds(thorough bool) []string {
	t := func(q, th string) string {
		if thorough {
			return th
		}
		return q
	}
	return []string{
		"date: every day of " + t("6", "16") + " years (leap-rule representatives + 0000/9999) x non-existing days and months of every month + 16 syntactic corruptions x 3 bases",
		"date-time: " + t("first+last day of every month", "every day") + " of those years x 4 times x 7 fractions x 9 offsets; 40 corruption kinds x 3 dates x 2 fractions x 3 offsets",
		"rfc1123: " + t("7-9 days per month of 4 years", "every day of 10 years") + " x 3 times x 9 zone names; 35 corruption kinds x 3 dates x 2 zones",
		"uuid: " + t("4", "7") + " digit templates x 16 version x 16 variant nibbles x 5 spellings; non-hex at every digit, every hyphen replaced/removed/moved, wrappers, prefixes",
		"email: " + t("21", "171") + " local parts x 8 domains; 25 corruption kinds x 3 local parts x 2 domains",
		"hostname: every name of 1-3 labels over all labels of length <= " + t("3", "4") + " over {a,1,-}; 63-character labels, 253-character name; 9 bad characters x 3 positions + empty label/hyphen corruptions x 11 bases",
		fmt.Sprintf("ipv4: all quads over %d boundary octets; out-of-range/empty/letter octet at every position, wrong octet counts, separators", len(octetBoundaries)+map[bool]int{true: 8}[thorough]),
		"ipv6: 77 group vectors x every '::' position and length, with and without embedded dotted quad (4 quads); all compressed forms with <= " + t("2", "3") + " explicit groups over 9 group spellings; 30 corruption kinds",
		"mac: 6 and 8 octets x 2 separators x (3 + 7 per position) octet vectors x 2 hex cases; wrong counts 1..21, bad octet at every position, mixed separators at every position",
		"cidr: 8 IPv4 addresses x /0../32, 7 IPv6 addresses (several spellings) x /0../128; /33../40, /129../140, malformed length, separator and address corruptions",
		"uri: " + t("4", "6") + " schemes x 19 authorities x 12 paths x 8 queries x 6 fragments + 11 authority-less paths; 27 illegal insertions x 7 components x 4 bases; relative references; malformed schemes/authorities",
		"regexp: all grammar patterns with <= " + t("4 nodes/depth 3", "5 nodes/depth 4") + " + 47 other RE2 constructs; 40 corruption kinds x 7 bases",
		"json: 32 scalars; all arrays/objects of <= 2 members over them; depth <= " + t("2", "3") + " over reduced menus; white space variants; 20 structural corruptions x 6 documents + 90 malformed tokens",
	}
}

package c17

import (
	"fmt"
	"strconv"
	"strings"
)

// ---------------------------------------------------------------------------------------
// hostname — RFC 1035 section 2.3.1 (the RFC goa names; same grammar as RFC 1034 3.5):
//
//	<subdomain> ::= <label> | <subdomain> "." <label>
//	<label>     ::= <letter> [ [ <ldh-str> ] <let-dig> ]      (63 octets or less)
//
// Labels that start with a digit are valid only under the RFC 1123 relaxation, which goa
// does not name: they are executed but not asserted (class rfc1123-digit-first).
// ---------------------------------------------------------------------------------------

// labelMenu enumerates every label over {a,1,-} of length 1..maxLen that has no leading or
// trailing hyphen, split into RFC 1035 labels (letter first) and digit-first labels.
func labelMenu(maxLen int) (letterFirst, digitFirst []string) {
	alpha := []byte{'a', '1', '-'}
	var rec func(cur []byte)
	rec = func(cur []byte) {
		if n := len(cur); n > 0 && cur[n-1] != '-' {
			if cur[0] == 'a' {
				letterFirst = append(letterFirst, string(cur))
			} else {
				digitFirst = append(digitFirst, string(cur))
			}
		}
		if len(cur) == maxLen {
			return
		}
		for _, ch := range alpha {
			if len(cur) == 0 && ch == '-' {
				continue
			}
			rec(append(append([]byte{}, cur...), ch))
		}
	}
	rec(nil)
	return
}

func hostClass(labels []string) string {
	name := strings.Join(labels, ".")
	last := name[len(name)-1]
	end := "letter"
	if last >= '0' && last <= '9' {
		end = "digit"
	}
	first := "multi-char"
	if len(labels[0]) == 1 {
		first = "single-char"
	}
	return fmt.Sprintf("first-label=%s ends-in=%s", first, end)
}

func genHostname(thorough bool, emit emitFn) {
	maxLen := 3
	if thorough {
		maxLen = 4
	}
	lf, df := labelMenu(maxLen)
	isLF := map[string]bool{}
	for _, l := range lf {
		isLF[l] = true
	}
	menu := append(append([]string{}, lf...), df...)
	for n := 1; n <= 3; n++ {
		idx := make([]int, n)
		for {
			labels := make([]string, n)
			all := true
			for i, k := range idx {
				labels[i] = menu[k]
				all = all && isLF[menu[k]]
			}
			if all {
				emit(hostClass(labels), strings.Join(labels, "."), valid)
			} else {
				emit("rfc1123-digit-first-label", strings.Join(labels, "."), neutral)
			}
			i := n - 1
			for ; i >= 0; i-- {
				idx[i]++
				if idx[i] < len(menu) {
					break
				}
				idx[i] = 0
			}
			if i < 0 {
				break
			}
		}
	}
	// upper case, longest label, longest name
	l63 := strings.Repeat("a", 63)
	emit(hostClass([]string{"A"}), "A", valid)
	emit(hostClass([]string{"AB", "Cd"}), "AB.Cd", valid)
	emit(hostClass([]string{"A", "B1"}), "A.B1", valid)
	emit(hostClass([]string{l63}), l63, valid)
	emit(hostClass([]string{l63, "a1"}), l63+".a1", valid)
	emit(hostClass([]string{"a", l63[:62] + "1"}), "a."+l63[:62]+"1", valid)
	emit(hostClass([]string{"a" + strings.Repeat("-", 61) + "b"}), "a"+strings.Repeat("-", 61)+"b", valid)
	n253 := l63 + "." + l63 + "." + l63 + "." + strings.Repeat("a", 61) // 253 characters
	emit(hostClass([]string{l63, "a"}), n253, valid)
	emit("trailing-dot-absolute-name", "ab.cd.", neutral)
	emit("underscore-in-label", "a_b.cd", neutral)
	emit("underscore-in-label", "_ab.cd", neutral)
	emit("non-ascii-label", "éa.cd", neutral)
	emit("root-only", ".", neutral)

	// single-point corruptions
	bases := [][]string{{"a"}, {"ab"}, {"a1"}, {"abc"}, {"a", "b"}, {"ab", "cd"}, {"ab", "c1"}, {"a", "b1"}, {"ab", "cd", "ef"}, {"a", "b", "c1"}, {"a1b", "c-d"}}
	badChars := []struct {
		ch   string
		kind string
	}{{" ", "space"}, {"!", "punctuation"}, {"/", "punctuation"}, {":", "punctuation"}, {"@", "punctuation"}, {"*", "punctuation"}, {"\t", "control-char"}, {"\n", "control-char"}, {"\x00", "control-char"}}
	for _, b := range bases {
		name := strings.Join(b, ".")
		for _, bc := range badChars {
			emit(bc.kind+"-in-label", bc.ch+name, invalid)
			emit(bc.kind+"-in-label", name+bc.ch, invalid)
			for li := range b {
				// inside label li (between its first and second character; appended for
				// one-character labels when another label follows)
				lab := b[li]
				var mod string
				if len(lab) >= 2 {
					mod = lab[:1] + bc.ch + lab[1:]
				} else if li < len(b)-1 {
					mod = lab + bc.ch
				} else {
					continue
				}
				nb := append(append(append([]string{}, b[:li]...), mod), b[li+1:]...)
				emit(bc.kind+"-in-label", strings.Join(nb, "."), invalid)
			}
		}
		emit("empty-label", "."+name, invalid)
		emit("leading-hyphen", "-"+name, invalid)
		emit("trailing-hyphen", name+"-", invalid)
		if len(b) > 1 {
			emit("empty-label", b[0]+".."+strings.Join(b[1:], "."), invalid)
			emit("leading-hyphen", b[0]+".-"+strings.Join(b[1:], "."), invalid)
			emit("trailing-hyphen", b[0]+"-."+strings.Join(b[1:], "."), invalid)
		}
	}
	emit("empty", "", invalid)
	emit("only-hyphen", "-", invalid)
	emit("only-dots", "..", invalid)
	emit("label-64", strings.Repeat("a", 64), invalid)
	emit("label-64", "ab."+strings.Repeat("a", 64), invalid)
	emit("label-64", strings.Repeat("a", 63)+"1.cd", invalid)
	emit("name-longer-than-255", l63+"."+l63+"."+l63+"."+l63+"."+l63, invalid)
}

// ---------------------------------------------------------------------------------------
// ipv4 — dotted quad: four decimal octets 0..255 (RFC 2373 2.2(3) / RFC 4632 3.1 use the
// "d.d.d.d" form; decimal without leading zeros is the unambiguous reading).
// ---------------------------------------------------------------------------------------

var octetBoundaries = []int{0, 1, 9, 10, 99, 100, 199, 200, 249, 250, 255}

func genIPv4(thorough bool, emit emitFn) {
	oct := octetBoundaries
	if thorough {
		oct = append(append([]int{}, oct...), 2, 19, 20, 101, 127, 128, 192, 254)
	}
	for _, a := range oct {
		for _, b := range oct {
			for _, c := range oct {
				for _, d := range oct {
					emit("dotted-quad", fmt.Sprintf("%d.%d.%d.%d", a, b, c, d), valid)
				}
			}
		}
	}
	ipv4Corruptions(emit, "")
}

// ipv4Corruptions emits strings that are not dotted quads. prefix is prepended to the
// class (the same corruptions are reused for the ip format).
func ipv4Corruptions(emit emitFn, prefix string) {
	base := []string{"1", "2", "3", "4"}
	with := func(pos int, s string) string {
		b := append([]string{}, base...)
		b[pos] = s
		return strings.Join(b, ".")
	}
	for pos := 0; pos < 4; pos++ {
		for _, o := range []string{"256", "260", "300", "999", "1000"} {
			emit(prefix+"octet-above-255", with(pos, o), invalid)
		}
		emit(prefix+"octet-empty", with(pos, ""), invalid)
		emit(prefix+"octet-letter", with(pos, "a"), invalid)
		emit(prefix+"octet-letter", with(pos, "1a"), invalid)
		emit(prefix+"octet-negative", with(pos, "-1"), invalid)
		emit(prefix+"octet-hex-prefix", with(pos, "0x1"), invalid)
		emit(prefix+"octet-with-space", with(pos, "1 "), invalid)
		emit(prefix+"octet-leading-zero", with(pos, "01"), neutral)
		emit(prefix+"octet-leading-zero", with(pos, "00"), neutral)
	}
	emit(prefix+"one-octet", "1", invalid)
	emit(prefix+"two-octets", "1.2", invalid)
	emit(prefix+"three-octets", "1.2.3", invalid)
	emit(prefix+"five-octets", "1.2.3.4.5", invalid)
	emit(prefix+"trailing-dot", "1.2.3.4.", invalid)
	emit(prefix+"leading-dot", ".1.2.3.4", invalid)
	emit(prefix+"separator-comma", "1,2,3,4", invalid)
	emit(prefix+"separator-colon", "1:2:3:4", invalid)
	emit(prefix+"leading-space", " 1.2.3.4", invalid)
	emit(prefix+"trailing-space", "1.2.3.4 ", invalid)
	emit(prefix+"trailing-newline", "1.2.3.4\n", invalid)
	emit(prefix+"with-port", "1.2.3.4:80", invalid)
	emit(prefix+"with-prefix-length", "1.2.3.4/24", invalid)
	emit(prefix+"host-name", "example.com", invalid)
	emit(prefix+"empty", "", invalid)
}

// ---------------------------------------------------------------------------------------
// ipv6 — RFC 2373 / RFC 4291 section 2.2 text representation: (1) eight groups of 1-4 hex
// digits; (2) "::" once, standing for one or more groups of zeros; (3) the last 32 bits as
// a dotted quad.
// ---------------------------------------------------------------------------------------

var groupMenu = []string{"0", "1", "a", "ff", "abc", "ffff", "0001", "ABCD", "00a0"}
var quadMenu = []string{"0.0.0.0", "1.2.3.4", "255.255.255.255", "192.168.0.1"}

// compressions emits, for a vector of explicit groups (length 8, or 6 followed by a dotted
// quad given in tail), the uncompressed form and every form in which groups i..i+n-1 are
// replaced by "::".
func compressions(groups []string, tail string, f func(s string, compressed bool)) {
	join := func(g []string) string { return strings.Join(g, ":") }
	full := join(groups)
	if tail != "" {
		full += ":" + tail
	}
	f(full, false)
	for i := 0; i < len(groups); i++ {
		for n := 1; i+n <= len(groups); n++ {
			s := join(groups[:i]) + "::" + join(groups[i+n:])
			if tail != "" {
				if i+n == len(groups) {
					s += tail
				} else {
					s += ":" + tail
				}
			}
			f(s, true)
		}
	}
}

func genIPv6(thorough bool, emit emitFn) {
	ipv6Valid(thorough, emit)
	ipv6Corruptions(emit, "")
}

func ipv6Valid(thorough bool, emit emitFn) {
	bases := [][]string{
		{"1", "2", "3", "4", "5", "6", "7", "8"},
		{"0", "0", "0", "0", "0", "0", "0", "0"},
		{"ffff", "ffff", "ffff", "ffff", "ffff", "ffff", "ffff", "ffff"},
		{"2001", "db8", "0", "0", "0", "0", "0", "1"},
		{"FE80", "0", "0", "0", "0a0", "ABCD", "00ff", "1"},
	}
	// vary one position at a time over the group menu
	for pos := 0; pos < 8; pos++ {
		for _, g := range groupMenu {
			b := append([]string{}, bases[0]...)
			b[pos] = g
			bases = append(bases, b)
		}
	}
	for _, b := range bases {
		compressions(b, "", func(s string, comp bool) {
			cls := "eight-groups"
			if comp {
				cls = "compressed"
			}
			emit(cls, s, valid)
		})
		for _, q := range quadMenu {
			compressions(b[:6], q, func(s string, comp bool) {
				cls := "embedded-ipv4"
				if comp {
					cls = "compressed-embedded-ipv4"
				}
				emit(cls, s, valid)
			})
		}
	}
	// complete product of the group menu over the explicit groups of short compressed forms
	k := 2
	if thorough {
		k = 3
	}
	for n := 1; n <= k; n++ {
		idx := make([]int, n)
		for {
			g := make([]string, n)
			for i, x := range idx {
				g[i] = groupMenu[x]
			}
			for split := 0; split <= n; split++ {
				emit("compressed", strings.Join(g[:split], ":")+"::"+strings.Join(g[split:], ":"), valid)
			}
			i := n - 1
			for ; i >= 0; i-- {
				idx[i]++
				if idx[i] < len(groupMenu) {
					break
				}
				idx[i] = 0
			}
			if i < 0 {
				break
			}
		}
	}
	emit("compressed", "::", valid)
	emit("zone-identifier", "fe80::1%eth0", neutral)
	emit("embedded-ipv4-leading-zero", "::01.2.3.4", neutral)
}

func ipv6Corruptions(emit emitFn, prefix string) {
	emit(prefix+"two-compressions", "1::2::3", invalid)
	emit(prefix+"two-compressions", "::1::", invalid)
	emit(prefix+"nine-groups", "1:2:3:4:5:6:7:8:9", invalid)
	emit(prefix+"seven-groups-uncompressed", "1:2:3:4:5:6:7", invalid)
	emit(prefix+"one-group", "1", invalid)
	emit(prefix+"compression-with-eight-groups", "1:2:3:4::5:6:7:8", invalid)
	emit(prefix+"compression-with-eight-groups", "::1:2:3:4:5:6:7:8", invalid)
	emit(prefix+"compression-with-eight-groups", "1:2:3:4:5:6:7:8::", invalid)
	for pos := 0; pos < 8; pos++ {
		b := []string{"1", "2", "3", "4", "5", "6", "7", "8"}
		b[pos] = "12345"
		emit(prefix+"group-of-five-hex-digits", strings.Join(b, ":"), invalid)
		b[pos] = "g"
		emit(prefix+"group-non-hex", strings.Join(b, ":"), invalid)
		b[pos] = "1 "
		emit(prefix+"group-with-space", strings.Join(b, ":"), invalid)
	}
	emit(prefix+"group-of-five-hex-digits", "12345::", invalid)
	emit(prefix+"group-of-five-hex-digits", "::00001", invalid)
	emit(prefix+"group-non-hex", "g::", invalid)
	emit(prefix+"group-non-hex", "::x", invalid)
	emit(prefix+"triple-colon", ":::", invalid)
	emit(prefix+"triple-colon", "1:::2", invalid)
	emit(prefix+"leading-single-colon", ":1:2:3:4:5:6:7:8", invalid)
	emit(prefix+"leading-single-colon", ":1::2", invalid)
	emit(prefix+"trailing-single-colon", "1:2:3:4:5:6:7:8:", invalid)
	emit(prefix+"trailing-single-colon", "1::2:", invalid)
	emit(prefix+"only-single-colon", ":", invalid)
	emit(prefix+"embedded-ipv4-not-last", "1.2.3.4::", invalid)
	emit(prefix+"embedded-ipv4-not-last", "::1.2.3.4:1", invalid)
	emit(prefix+"embedded-ipv4-octet-above-255", "::1.2.3.256", invalid)
	emit(prefix+"embedded-ipv4-three-octets", "::1.2.3", invalid)
	emit(prefix+"embedded-ipv4-after-seven-groups", "1:2:3:4:5:6:7:1.2.3.4", invalid)
	emit(prefix+"embedded-ipv4-after-five-groups-uncompressed", "1:2:3:4:5:1.2.3.4", invalid)
	emit(prefix+"bracketed", "[::1]", invalid)
	emit(prefix+"with-prefix-length", "::/64", invalid)
	emit(prefix+"with-port", "[::1]:80", invalid)
	emit(prefix+"leading-space", " ::1", invalid)
	emit(prefix+"trailing-space", "::1 ", invalid)
	emit(prefix+"trailing-newline", "::1\n", invalid)
	emit(prefix+"separator-dash", "1-2-3-4-5-6-7-8", invalid)
	emit(prefix+"empty", "", invalid)
}

// genIPv6 strings must be rejected by ipv4 and vice versa; genIP asserts the union.
func genIP(thorough bool, emit emitFn) {
	for _, a := range octetBoundaries {
		for _, d := range octetBoundaries {
			emit("dotted-quad", fmt.Sprintf("%d.%d.%d.%d", a, d, a, d), valid)
		}
	}
	ipv6Valid(false, emit)
	ipv4Corruptions(emit, "v4-")
	ipv6Corruptions(emit, "v6-")
}

// ---------------------------------------------------------------------------------------
// mac — goa: "IEEE 802 MAC-48, EUI-48 or EUI-64": 6 or 8 octets, each two hex digits,
// separated by hyphens (IEEE canonical) or colons. Asserted valid: both separators, hex
// digits in one case (all lower or all upper). Not asserted: mixed-case hex, the Cisco
// dot form, 20-octet InfiniBand addresses (accepted by net.ParseMAC, not named by goa).
// ---------------------------------------------------------------------------------------

func genMAC(thorough bool, emit emitFn) {
	byteMenu := []string{"00", "01", "0a", "a0", "9f", "ff", "5e"}
	vecs := func(n int) [][]string {
		var out [][]string
		inc := make([]string, n)
		zero := make([]string, n)
		ff := make([]string, n)
		for i := range inc {
			inc[i] = []string{"01", "23", "45", "67", "89", "ab", "cd", "ef", "02", "46", "8a", "ce", "13", "57", "9b", "df", "fe", "dc", "ba", "98", "76", "54"}[i]
			zero[i] = "00"
			ff[i] = "ff"
		}
		out = append(out, inc, zero, ff)
		for pos := 0; pos < n; pos++ {
			for _, b := range byteMenu {
				v := append([]string{}, inc...)
				v[pos] = b
				out = append(out, v)
			}
		}
		return out
	}
	for _, n := range []int{6, 8} {
		for _, v := range vecs(n) {
			for _, sep := range []string{":", "-"} {
				s := strings.Join(v, sep)
				cls := fmt.Sprintf("octets=%d separator=%s", n, sepName(sep))
				emit(cls+" hex=lower", s, valid)
				emit(cls+" hex=upper", upper(s), valid)
				emit(cls+" hex=mixed-case", mixCase(s), neutral)
			}
		}
	}
	for _, v := range vecs(20) {
		emit("octets=20-infiniband", strings.Join(v, ":"), neutral)
	}
	emit("dot-form", "0123.4567.89ab", neutral)
	emit("dot-form", "0123.4567.89ab.cdef", neutral)
	emit("no-separator", "0123456789ab", neutral)
	for _, sep := range []string{":", "-"} {
		sn := sepName(sep)
		for _, n := range []int{1, 2, 3, 4, 5, 7, 9, 10, 12, 16, 19, 21} {
			v := vecs(n)[0]
			emit(fmt.Sprintf("octets=%d separator=%s", n, sn), strings.Join(v, sep), invalid)
		}
		for _, n := range []int{6, 8} {
			v := vecs(n)[0]
			good := strings.Join(v, sep)
			for pos := 0; pos < n; pos++ {
				w := func(s string) string {
					x := append([]string{}, v...)
					x[pos] = s
					return strings.Join(x, sep)
				}
				emit("octet-single-hex-digit", w("1"), invalid)
				emit("octet-three-hex-digits", w("123"), invalid)
				emit("octet-non-hex", w("0g"), invalid)
				emit("octet-non-hex", w("g0"), invalid)
				emit("octet-empty", w(""), invalid)
				emit("octet-with-space", w("0 "), invalid)
			}
			other := ":"
			if sep == ":" {
				other = "-"
			}
			for pos := 0; pos < n-1; pos++ {
				emit("mixed-separators", strings.Join(v[:pos+1], sep)+other+strings.Join(v[pos+1:], sep), invalid)
			}
			emit("trailing-separator", good+sep, invalid)
			emit("leading-separator", sep+good, invalid)
			emit("leading-space", " "+good, invalid)
			emit("trailing-space", good+" ", invalid)
			emit("trailing-newline", good+"\n", invalid)
		}
	}
	for _, sep := range []string{";", " ", "_", ","} {
		emit("separator-other", strings.Join(vecs(6)[0], sep), invalid)
	}
	emit("dot-between-octets", strings.Join(vecs(6)[0], "."), invalid)
	emit("empty", "", invalid)
	emit("ip-address", "1.2.3.4", invalid)
}

func sepName(s string) string {
	if s == ":" {
		return "colon"
	}
	return "hyphen"
}

func mixCase(s string) string {
	b := []byte(s)
	up := true
	changed := false
	for i, ch := range b {
		if ch >= 'a' && ch <= 'f' {
			if up {
				b[i] = ch - 32
				changed = true
			}
			up = !up
		}
	}
	if !changed {
		return s
	}
	return string(b)
}

// ---------------------------------------------------------------------------------------
// cidr — RFC 4632 section 3.1 "d.d.d.d/n" with n in 0..32 and RFC 4291 section 2.3
// "ipv6-address/prefix-length" with prefix-length in 0..128. Asserted valid: network
// prefixes (no bit set beyond the prefix length). An address with host bits set followed
// by "/n" is an interface address with a prefix length, which both RFCs also write that
// way; whether it is a "CIDR notation IP address value" is not asserted.
// ---------------------------------------------------------------------------------------

func hostBitsZero(b []byte, plen int) bool {
	for i := plen; i < len(b)*8; i++ {
		if b[i/8]&(0x80>>(uint(i)%8)) != 0 {
			return false
		}
	}
	return true
}

func genCIDR(thorough bool, emit emitFn) {
	v4 := [][]byte{{0, 0, 0, 0}, {10, 0, 0, 0}, {192, 168, 1, 0}, {255, 255, 255, 255}, {128, 0, 0, 0}, {172, 16, 0, 0}, {1, 2, 3, 4}, {255, 254, 0, 0}}
	for _, a := range v4 {
		txt := fmt.Sprintf("%d.%d.%d.%d", a[0], a[1], a[2], a[3])
		for p := 0; p <= 32; p++ {
			if hostBitsZero(a, p) {
				emit("ipv4-network-prefix", txt+"/"+strconv.Itoa(p), valid)
			} else {
				emit("ipv4-host-bits-set", txt+"/"+strconv.Itoa(p), neutral)
			}
		}
	}
	type v6 struct {
		b    []byte
		text []string
	}
	full := func(b []byte) string {
		g := make([]string, 8)
		for i := range g {
			g[i] = strconv.FormatUint(uint64(b[2*i])<<8|uint64(b[2*i+1]), 16)
		}
		return strings.Join(g, ":")
	}
	mk := func(b []byte, extra ...string) v6 { return v6{b, append([]string{full(b)}, extra...)} }
	z := func(head ...byte) []byte { return append(head, make([]byte, 16-len(head))...) }
	ones := make([]byte, 16)
	for i := range ones {
		ones[i] = 0xff
	}
	v6s := []v6{
		mk(z(), "::"),
		mk(z(0x20, 0x01, 0x0d, 0xb8), "2001:db8::", "2001:DB8::"),
		mk(ones),
		mk(z(0xfe, 0x80), "fe80::"),
		mk(z(0x80), "8000::"),
		mk(append(make([]byte, 15), 1), "::1"),
		mk(append(append(make([]byte, 10), 0xff, 0xff), 10, 0, 0, 0), "::ffff:10.0.0.0"),
	}
	for _, a := range v6s {
		for _, txt := range a.text {
			for p := 0; p <= 128; p++ {
				if hostBitsZero(a.b, p) {
					emit("ipv6-network-prefix", txt+"/"+strconv.Itoa(p), valid)
				} else {
					emit("ipv6-host-bits-set", txt+"/"+strconv.Itoa(p), neutral)
				}
			}
		}
	}
	for _, a := range []string{"10.0.0.0", "0.0.0.0", "255.255.255.255"} {
		for p := 33; p <= 40; p++ {
			emit("ipv4-prefix-length-above-32", a+"/"+strconv.Itoa(p), invalid)
		}
		for _, p := range []string{"64", "128", "129", "256", "999", "4294967296"} {
			emit("ipv4-prefix-length-above-32", a+"/"+p, invalid)
		}
		emit("prefix-length-negative", a+"/-1", invalid)
		emit("prefix-length-empty", a+"/", invalid)
		emit("prefix-length-letter", a+"/a", invalid)
		emit("prefix-length-trailing-letter", a+"/8a", invalid)
		emit("prefix-length-decimal-fraction", a+"/8.0", invalid)
		emit("prefix-length-with-space", a+"/ 8", invalid)
		emit("prefix-length-leading-zero", a+"/08", neutral)
		emit("prefix-length-plus-sign", a+"/+8", neutral)
		emit("slash-missing", a, invalid)
		emit("slash-doubled", a+"//8", invalid)
		emit("two-prefix-lengths", a+"/8/8", invalid)
		emit("dotted-netmask", a+"/255.0.0.0", invalid)
		emit("space-before-slash", a+" /8", invalid)
		emit("leading-space", " "+a+"/8", invalid)
		emit("trailing-space", a+"/8 ", invalid)
		emit("backslash", a+"\\8", invalid)
	}
	for _, a := range []string{"::", "2001:db8::", "ffff:ffff:ffff:ffff:ffff:ffff:ffff:ffff"} {
		for p := 129; p <= 140; p++ {
			emit("ipv6-prefix-length-above-128", a+"/"+strconv.Itoa(p), invalid)
		}
		for _, p := range []string{"256", "999", "1000"} {
			emit("ipv6-prefix-length-above-128", a+"/"+p, invalid)
		}
		emit("prefix-length-negative", a+"/-1", invalid)
		emit("prefix-length-empty", a+"/", invalid)
		emit("prefix-length-letter", a+"/a", invalid)
		emit("slash-missing", a, invalid)
		emit("two-prefix-lengths", a+"/8/8", invalid)
	}
	for _, a := range []string{"256.0.0.0", "10.0.0", "10.0.0.0.0", "10.0.0.a", "1::2::3", "g::", "1:2:3:4:5:6:7:8:9", ""} {
		emit("address-part-malformed", a+"/8", invalid)
	}
	emit("empty", "", invalid)
	emit("only-slash", "/", invalid)
}

package c17

import "fmt"

// ---- calendar reference (proleptic Gregorian, written out here; no time package) ----

func leap(y int) bool { return y%4 == 0 && (y%100 != 0 || y%400 == 0) }

func daysIn(y, m int) int {
	switch m {
	case 2:
		if leap(y) {
			return 29
		}
		return 28
	case 4, 6, 9, 11:
		return 30
	}
	return 31
}

// weekday: Sakamoto's method, 0 = Sunday.
func weekday(y, m, d int) int {
	t := []int{0, 3, 2, 5, 0, 3, 5, 1, 4, 6, 2, 4}
	if m < 3 {
		y--
	}
	return ((y+y/4-y/100+y/400+t[m-1]+d)%7 + 7) % 7
}

var dayNames = []string{"Sun", "Mon", "Tue", "Wed", "Thu", "Fri", "Sat"}
var monthNames = []string{"Jan", "Feb", "Mar", "Apr", "May", "Jun", "Jul", "Aug", "Sep", "Oct", "Nov", "Dec"}

// years: the four leap-rule representatives (divisible by 100 not 400; by 400; ordinary;
// by 4) and the two ends of the 4DIGIT range.
func years(thorough bool) []int {
	ys := []int{1900, 2000, 2023, 2024, 0, 9999}
	if thorough {
		ys = append(ys, 1, 4, 100, 400, 1600, 1970, 1999, 2100, 2400, 9996)
	}
	return ys
}

func dateClass(y, m, d int) string {
	switch {
	case m == 2 && d == 29:
		return "leap-day"
	case y == 0 || y == 9999:
		return "year-range-end"
	case d == daysIn(y, m):
		return "last-day-of-month"
	}
	return "calendar-day"
}

// badDays lists, for a month, day numbers that do not exist, with their class.
func badDays(y, m int) [][2]string {
	out := [][2]string{{"00", "day-00"}, {"32", "day-32"}}
	dim := daysIn(y, m)
	switch {
	case m == 2 && dim == 28:
		out = append(out, [2]string{"29", "feb-29-in-non-leap-year"}, [2]string{"30", "feb-30"})
	case m == 2:
		out = append(out, [2]string{"30", "feb-30"})
	case dim == 30:
		out = append(out, [2]string{"31", "day-31-in-30-day-month"})
	}
	return out
}

// genDate: RFC 3339 full-date = 4DIGIT "-" 2DIGIT "-" 2DIGIT with month 01-12 and the day
// restricted by month and leap year (RFC 3339 section 5.6 and 5.7).
func genDate(thorough bool, emit emitFn) {
	for _, y := range years(thorough) {
		for m := 1; m <= 12; m++ {
			for d := 1; d <= daysIn(y, m); d++ { // every day of the year
				emit(dateClass(y, m, d), fmt.Sprintf("%04d-%02d-%02d", y, m, d), valid)
			}
			for _, bd := range badDays(y, m) {
				emit(bd[1], fmt.Sprintf("%04d-%02d-%s", y, m, bd[0]), invalid)
			}
		}
		for _, bm := range [][2]string{{"00", "month-00"}, {"13", "month-13"}, {"99", "month-99"}} {
			emit(bm[1], fmt.Sprintf("%04d-%s-15", y, bm[0]), invalid)
		}
	}
	for _, base := range [][3]int{{2024, 3, 15}, {1900, 12, 31}, {2000, 1, 1}} {
		y, m, d := base[0], base[1], base[2]
		full := fmt.Sprintf("%04d-%02d-%02d", y, m, d)
		emit("separator-slash", fmt.Sprintf("%04d/%02d/%02d", y, m, d), invalid)
		emit("separator-missing", fmt.Sprintf("%04d%02d%02d", y, m, d), invalid)
		emit("separator-missing", fmt.Sprintf("%04d%02d-%02d", y, m, d), invalid)
		emit("two-digit-year", fmt.Sprintf("%02d-%02d-%02d", y%100, m, d), invalid)
		emit("five-digit-year", "1"+full, invalid)
		emit("one-digit-month", fmt.Sprintf("%04d-%d-%02d", y, m%10, d), invalid)
		emit("one-digit-day", fmt.Sprintf("%04d-%02d-%d", y, m, d%10), invalid)
		emit("letter-in-field", fmt.Sprintf("%04d-%02d-%ca", y, m, '0'+d/10), invalid)
		emit("letter-in-field", fmt.Sprintf("2o%02d-%02d-%02d", y%100, m, d), invalid)
		emit("leading-space", " "+full, invalid)
		emit("trailing-space", full+" ", invalid)
		emit("trailing-newline", full+"\n", invalid)
		emit("trailing-time", full+"T00:00:00Z", invalid)
		emit("trailing-garbage", full+"x", invalid)
		emit("day-month-year-order", fmt.Sprintf("%02d-%02d-%04d", d, m, y), invalid)
		emit("negative-year", "-"+full, invalid)
	}
	emit("empty", "", invalid)
}

// genDateTime: RFC 3339 date-time = full-date "T" partial-time time-offset, with
// partial-time = HH ":" MM ":" SS ["." 1*DIGIT] and time-offset = "Z" / ("+"/"-") HH ":" MM.
func genDateTime(thorough bool, emit emitFn) {
	times := []string{"00:00:00", "23:59:59", "12:30:45", "09:05:07"}
	fracs := []string{"", ".0", ".5", ".123", ".123456789", ".000000001", ".123456789012"}
	offsets := []string{"Z", "+00:00", "-00:00", "+01:00", "-08:00", "+05:30", "+14:00", "+23:59", "-23:59"}
	for _, y := range years(thorough) {
		for m := 1; m <= 12; m++ {
			dim := daysIn(y, m)
			var days []int
			if thorough {
				for d := 1; d <= dim; d++ {
					days = append(days, d)
				}
			} else {
				days = []int{1, dim}
			}
			for _, d := range days {
				for _, t := range times {
					for _, f := range fracs {
						for _, o := range offsets {
							cls := "offset-numeric"
							if o == "Z" {
								cls = "offset-Z"
							}
							if f != "" {
								cls += "-with-fraction"
							}
							emit(cls, fmt.Sprintf("%04d-%02d-%02dT%s%s%s", y, m, d, t, f, o), valid)
						}
					}
				}
			}
		}
	}
	// corruptions, each applied to every element of a small product of bases
	for _, date := range []string{"2024-02-29", "1900-01-01", "2023-12-31"} {
		for _, f := range []string{"", ".5"} {
			for _, o := range []string{"Z", "+05:30", "-08:00"} {
				mk := func(d, t string) string { return d + "T" + t + f + o }
				emit("month-13", mk(date[:5]+"13"+date[7:], "12:30:45"), invalid)
				emit("month-00", mk(date[:5]+"00"+date[7:], "12:30:45"), invalid)
				emit("day-32", mk(date[:8]+"32", "12:30:45"), invalid)
				emit("day-00", mk(date[:8]+"00", "12:30:45"), invalid)
				emit("feb-30", mk(date[:4]+"-02-30", "12:30:45"), invalid)
				emit("feb-29-in-non-leap-year", mk("2023-02-29", "12:30:45"), invalid)
				emit("feb-29-in-non-leap-year", mk("1900-02-29", "12:30:45"), invalid)
				emit("day-31-in-30-day-month", mk(date[:4]+"-04-31", "12:30:45"), invalid)
				emit("hour-24", mk(date, "24:00:00"), invalid)
				emit("hour-25", mk(date, "25:30:45"), invalid)
				emit("minute-60", mk(date, "12:60:45"), invalid)
				emit("second-61", mk(date, "12:30:61"), invalid)
				emit("second-60-leap-second", mk(date, "23:59:60"), neutral)
				emit("single-digit-hour", mk(date, "1:30:45"), invalid)
				emit("single-digit-minute", mk(date, "12:3:45"), invalid)
				emit("single-digit-second", mk(date, "12:30:4"), invalid)
				emit("time-without-seconds", mk(date, "12:30"), invalid)
				emit("separator-missing", date+"12:30:45"+f+o, invalid)
				emit("separator-lowercase-t", date+"t12:30:45"+f+o, neutral)
				emit("separator-space", date+" 12:30:45"+f+o, neutral)
				emit("date-separator-slash", mk(date[:4]+"/"+date[5:7]+"/"+date[8:], "12:30:45"), invalid)
				emit("time-separator-dot", mk(date, "12.30.45"), invalid)
				emit("leading-space", " "+mk(date, "12:30:45"), invalid)
				emit("trailing-space", mk(date, "12:30:45")+" ", invalid)
				emit("trailing-garbage", mk(date, "12:30:45")+"x", invalid)
				emit("letter-in-field", mk(date, "12:3o:45"), invalid)
				if o != "Z" {
					emit("offset-without-colon", date+"T12:30:45"+f+o[:3]+o[4:], invalid)
					emit("offset-hours-only", date+"T12:30:45"+f+o[:3], invalid)
					emit("offset-hour-24", date+"T12:30:45"+f+o[:1]+"24:00", invalid)
					emit("offset-hour-99", date+"T12:30:45"+f+o[:1]+"99:00", invalid)
					emit("offset-minute-60", date+"T12:30:45"+f+o[:4]+"60", invalid)
					emit("offset-sign-missing", date+"T12:30:45"+f+o[1:], invalid)
					emit("offset-single-digit-hour", date+"T12:30:45"+f+o[:1]+o[2:], invalid)
				} else {
					emit("offset-missing", date+"T12:30:45"+f, invalid)
					emit("offset-double-Z", date+"T12:30:45"+f+"ZZ", invalid)
					emit("offset-lowercase-z", date+"T12:30:45"+f+"z", neutral)
					emit("offset-zone-name", date+"T12:30:45"+f+"GMT", invalid)
				}
				if f != "" {
					emit("fraction-comma", date+"T12:30:45,5"+o, invalid)
					emit("fraction-without-digits", date+"T12:30:45."+o, invalid)
					emit("fraction-letter", date+"T12:30:45.x"+o, invalid)
				}
			}
		}
		emit("date-only", date, invalid)
	}
	emit("empty", "", invalid)
	emit("time-only", "12:30:45Z", invalid)
}

// genRFC1123: RFC 1123 section 5.2.14 (RFC 822 date with a 4-digit year) in the shape that
// goa's constant names through Go's time.RFC1123 layout "Mon, 02 Jan 2006 15:04:05 MST":
// day-of-week "," SP 2DIGIT SP month SP 4DIGIT SP HH:MM:SS SP zone-name. Only the
// intersection of the two is asserted valid (see assumptions()).
func genRFC1123(thorough bool, emit emitFn) {
	zones := []string{"GMT", "EST", "EDT", "CST", "CDT", "MST", "MDT", "PST", "PDT"}
	times := []string{"00:00:00", "23:59:59", "12:30:45"}
	ys := []int{1900, 2000, 2023, 2024}
	if thorough {
		ys = append(ys, 1970, 1999, 2100, 2400, 9999, 1000)
	}
	mk := func(wd string, d int, mon string, y int, t, z string) string {
		return fmt.Sprintf("%s, %02d %s %04d %s %s", wd, d, mon, y, t, z)
	}
	for _, y := range ys {
		for m := 1; m <= 12; m++ {
			dim := daysIn(y, m)
			for d := 1; d <= dim; d++ {
				if !thorough && !(d <= 2 || d == 9 || d == 10 || d == 15 || d >= 28) {
					continue
				}
				for _, t := range times {
					for _, z := range zones {
						emit("zone-"+zoneClass(z), mk(dayNames[weekday(y, m, d)], d, monthNames[m-1], y, t, z), valid)
					}
				}
			}
			// non-existing days
			for _, bd := range badDays(y, m) {
				var dd int
				fmt.Sscanf(bd[0], "%d", &dd)
				emit(bd[1], mk("Mon", dd, monthNames[m-1], y, "12:30:45", "GMT"), invalid)
			}
		}
	}
	for _, b := range [][3]int{{2024, 2, 29}, {2006, 1, 2}, {1999, 12, 31}} {
		y, m, d := b[0], b[1], b[2]
		wd, mon := dayNames[weekday(y, m, d)], monthNames[m-1]
		for _, z := range []string{"GMT", "PST"} {
			good := mk(wd, d, mon, y, "12:30:45", z)
			emit("weekday-token-unknown", mk("Xyz", d, mon, y, "12:30:45", z), invalid)
			emit("weekday-token-misspelt", mk(wd[:1]+"x"+wd[2:], d, mon, y, "12:30:45", z), invalid)
			emit("weekday-full-name", mk(wd+"day", d, mon, y, "12:30:45", z), invalid)
			emit("weekday-numeric", mk("01", d, mon, y, "12:30:45", z), invalid)
			emit("weekday-inconsistent-with-date", mk(dayNames[(weekday(y, m, d)+1)%7], d, mon, y, "12:30:45", z), neutral)
			emit("weekday-missing", good[5:], neutral)
			emit("comma-missing", wd+good[4:], invalid)
			emit("month-token-unknown", mk(wd, d, "Foo", y, "12:30:45", z), invalid)
			emit("month-numeric", mk(wd, d, fmt.Sprintf("%02d", m), y, "12:30:45", z), invalid)
			emit("month-13", mk(wd, d, "13", y, "12:30:45", z), invalid)
			if m != 5 { // "May" is its own abbreviation
				emit("month-full-name", mk(wd, d, []string{"January", "February", "March", "April", "May", "June", "July", "August", "September", "October", "November", "December"}[m-1], y, "12:30:45", z), invalid)
			}
			emit("two-digit-year", fmt.Sprintf("%s, %02d %s %02d 12:30:45 %s", wd, d, mon, y%100, z), invalid)
			emit("hour-24", mk(wd, d, mon, y, "24:00:00", z), invalid)
			emit("minute-60", mk(wd, d, mon, y, "12:60:45", z), invalid)
			emit("second-61", mk(wd, d, mon, y, "12:30:61", z), invalid)
			emit("second-60", mk(wd, d, mon, y, "23:59:60", z), neutral)
			emit("single-digit-hour", mk(wd, d, mon, y, "5:30:45", z), invalid)
			emit("single-digit-minute", mk(wd, d, mon, y, "12:3:45", z), invalid)
			emit("fraction-seconds", mk(wd, d, mon, y, "12:30:45.5", z), invalid)
			emit("fraction-seconds-comma", mk(wd, d, mon, y, "12:30:45,5", z), invalid)
			emit("seconds-missing", mk(wd, d, mon, y, "12:30", z), neutral)
			emit("zone-missing", fmt.Sprintf("%s, %02d %s %04d 12:30:45", wd, d, mon, y), invalid)
			emit("zone-missing-trailing-space", fmt.Sprintf("%s, %02d %s %04d 12:30:45 ", wd, d, mon, y), invalid)
			emit("trailing-space", good+" ", invalid)
			emit("leading-space", " "+good, invalid)
			emit("trailing-garbage", good+"!", invalid)
			emit("date-separator-dash", fmt.Sprintf("%s, %02d-%s-%04d 12:30:45 %s", wd, d, mon, y, z), invalid)
			emit("field-order-month-first", fmt.Sprintf("%s, %s %02d %04d 12:30:45 %s", wd, mon, d, y, z), invalid)
			emit("single-digit-day", fmt.Sprintf("%s, %d %s %04d 12:30:45 %s", wd, d%10, mon, y, z), neutral)
			emit("no-space-after-comma", wd+","+good[5:], neutral)
			emit("lowercase-tokens", fmt.Sprintf("%s, %02d %s %04d 12:30:45 %s", lower(wd), d, lower(mon), y, z), neutral)
		}
		// zones outside Go's layout or outside RFC 822's closed list: not asserted
		for _, z := range []string{"UT", "Z", "A", "+0000", "-0800", "gmt", "ABC", "GMT+1", "CEST"} {
			emit("zone-other-"+zoneClass(z), mk(wd, d, mon, y, "12:30:45", z), neutral)
		}
		emit("iso-8601-layout", fmt.Sprintf("%04d-%02d-%02dT12:30:45Z", y, m, d), invalid)
		emit("rfc850-layout", fmt.Sprintf("%sday, %02d-%s-%02d 12:30:45 GMT", wd, d, mon, y%100), invalid)
		emit("asctime-layout", fmt.Sprintf("%s %s %2d 12:30:45 %04d", wd, mon, d, y), invalid)
	}
	emit("empty", "", invalid)
}

func zoneClass(z string) string {
	switch {
	case z == "GMT" || z == "UT":
		return "universal"
	case len(z) > 0 && (z[0] == '+' || z[0] == '-'):
		return "numeric"
	case len(z) == 1:
		return "military"
	case len(z) == 3 && z[1] == 'S' && z[2] == 'T':
		return "north-american-standard"
	case len(z) == 3 && z[1] == 'D' && z[2] == 'T':
		return "north-american-daylight"
	}
	return "unlisted"
}

func lower(s string) string {
	b := []byte(s)
	for i, ch := range b {
		if ch >= 'A' && ch <= 'Z' {
			b[i] = ch + 32
		}
	}
	return string(b)
}

func upper(s string) string {
	b := []byte(s)
	for i, ch := range b {
		if ch >= 'a' && ch <= 'z' {
			b[i] = ch - 32
		}
	}
	return string(b)
}

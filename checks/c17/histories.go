package c17

import (
	"fmt"
	"regexp"
	"strings"
	"sync/atomic"

	"verif/core"
)

// ---------------------------------------------------------------------------------------
// HISTORIES. State = the process-wide pattern cache (knownPatterns, keyed by pattern text).
// Alphabet: 8 operations over a triple of patterns P0,P1,P2 and two values V0,V1:
//
//	0..5  ValidatePattern(V[k%2], P[k/2])
//	6     ValidateFormat(P0 text, "regexp")   (compiles the same text without the cache)
//	7     ValidateFormat("ab.cd", "hostname") (unrelated validator in between)
//
// Bound: every sequence of length 1..L (L = 3 quick, 4 thorough) for every pattern triple.
// Oracle: the verdict of every call equals the verdict of the same call on a fresh state:
// for a pattern call that is regexp.MatchString(pattern, value) computed by package regexp
// on a freshly compiled expression; for a ValidateFormat call the verdict it gave in the
// length-1 history.
//
// Fresh state without touching goa's unexported map: every history uses pattern texts no
// earlier call of the process has used. The texts are the triple's patterns behind a
// prefix "(?:\x{N}){0}" (zero repetitions of a character: matches the empty string, so the
// language is unchanged) with a process-wide counter N. Because the cache is keyed by the
// pattern text, such a history starts from a cache that is empty for every key it can
// touch; the entries left behind by earlier histories stay in the map on purpose (a verdict
// must not depend on them either). That the prefix does not change the language is checked
// at run time against package regexp for every history (harness error otherwise). This
// needs no overlay, no build tag and no access to goa internals.
// ---------------------------------------------------------------------------------------

// History is the replay form of one history.
type History struct {
	Patterns []string `json:"patterns"`
	Values   []string `json:"values"`
	Ops      []int    `json:"ops"`
}

const nOps = 8

var freshID atomic.Int64

func freshPrefix() string {
	id := freshID.Add(1)
	if id > 0xFFFFF {
		panic("c17: fresh pattern ids exhausted")
	}
	return fmt.Sprintf(`(?:\x{%X}){0}`, 0x10000+id)
}

type histFailure struct {
	pos  int
	sig  string
	what string
}

var hostnameBaseline atomic.Int32 // 0 unknown, 1 accepted, 2 rejected

// execHistory runs one history on fresh pattern texts and returns the verdict string and
// the oracle failures.
func execHistory(h History) (string, []histFailure, string) {
	prefix := freshPrefix()
	texts := make([]string, len(h.Patterns))
	fresh := make([][]bool, len(h.Patterns)) // fresh-state verdicts from package regexp
	for i, p := range h.Patterns {
		texts[i] = prefix + p
		base, err := regexp.Compile(p)
		if err != nil {
			return "", nil, fmt.Sprintf("pattern %q does not compile: %v", p, err)
		}
		pre, err := regexp.Compile(texts[i])
		if err != nil {
			return "", nil, fmt.Sprintf("prefixed pattern %q does not compile: %v", texts[i], err)
		}
		for _, v := range h.Values {
			if base.MatchString(v) != pre.MatchString(v) {
				return "", nil, fmt.Sprintf("prefix changes the language: %q vs %q on %q", p, texts[i], v)
			}
			fresh[i] = append(fresh[i], base.MatchString(v))
		}
	}
	var fails []histFailure
	var verdicts strings.Builder
	usedPattern := map[int]bool{}
	anyPattern := false
	for pos, op := range h.Ops {
		switch {
		case op < 6:
			pi, vi := op/2, op%2
			got, bad := patternAccepts(texts[pi], h.Values[vi])
			cache := "cold"
			switch {
			case usedPattern[pi]:
				cache = "warm-same-pattern"
			case anyPattern:
				cache = "after-other-pattern"
			case pos > 0:
				cache = "after-format-call"
			}
			usedPattern[pi] = true
			anyPattern = true
			if got != fresh[pi][vi] {
				fails = append(fails, histFailure{pos, fmt.Sprintf("history-dependence call=pattern cache=%s verdict=%s", cache, verdictStr(got)),
					fmt.Sprintf("call %d ValidatePattern(value %q, pattern %q) %s; on a fresh state the verdict is %s", pos, h.Values[vi], h.Patterns[pi], verdictStr(got), verdictStr(fresh[pi][vi]))})
			}
			if bad != "" {
				fails = append(fails, histFailure{pos, "history pattern rejection-malformed", bad})
			}
			verdicts.WriteByte(tf(got))
		case op == 6:
			got, _ := accepts("regexp", texts[0])
			if !got { // the text compiles (checked above with package regexp)
				fails = append(fails, histFailure{pos, "history-dependence call=format format=regexp verdict=rejected",
					fmt.Sprintf("call %d ValidateFormat(%q, regexp) rejected a pattern that compiles", pos, texts[0])})
			}
			verdicts.WriteByte(tf(got))
		default:
			got, _ := accepts("hostname", "ab.cd")
			want := hostnameBaseline.Load()
			if want == 0 {
				if got {
					hostnameBaseline.Store(1)
				} else {
					hostnameBaseline.Store(2)
				}
			} else if got != (want == 1) {
				fails = append(fails, histFailure{pos, "history-dependence call=format format=hostname verdict=" + verdictStr(got),
					fmt.Sprintf("call %d ValidateFormat(\"ab.cd\", hostname) %s, the first call of the process said otherwise", pos, verdictStr(got))})
			}
			verdicts.WriteByte(tf(got))
		}
	}
	return verdicts.String(), fails, ""
}

func tf(b bool) byte {
	if b {
		return 'T'
	}
	return 'F'
}

func triples(thorough bool) []History {
	t := []History{
		{Patterns: []string{"^a+$", "^b+$", "a|b"}, Values: []string{"aa", "bb"}},
		{Patterns: []string{"a", "ab", "^b"}, Values: []string{"a", "ab"}},
		{Patterns: []string{"^a", "^a$", "a$"}, Values: []string{"ab", "ba"}},
		{Patterns: []string{"[ab]", `\d`, "."}, Values: []string{"1", "a"}},
	}
	if thorough {
		t = append(t,
			History{Patterns: []string{"a*", "a+", "a?b"}, Values: []string{"", "b"}},
			History{Patterns: []string{"(a|b)1", "a|b1", "a(b|1)"}, Values: []string{"a", "b1"}},
			History{Patterns: []string{"a", "A", "(?i)a"}, Values: []string{"a", "A"}},
			History{Patterns: []string{"^$", "^", "a^"}, Values: []string{"", "a"}},
		)
	}
	return t
}

// RunHistories is the HISTORIES part. It is sequential: a history is a sequence of calls of
// one goroutine (concurrent use is the SCHEDULES part).
func RunHistories(c *core.Ctx) {
	maxLen := 3
	if c.Thorough() {
		maxLen = 4
	}
	ts := triples(c.Thorough())
	var nhist, ncalls int64
	for ti, t := range ts {
		for n := 1; n <= maxLen; n++ {
			if c.Expired() {
				c.Incomplete(fmt.Sprintf("histories: stopped at triple %d length %d", ti, n))
				return
			}
			core.Sequences(nOps, n, func(seq []int) bool {
				h := History{Patterns: t.Patterns, Values: t.Values, Ops: append([]int{}, seq...)}
				verdicts, fails, herr := execHistory(h)
				if herr != "" {
					c.HarnessError("history %v: %s", h, herr)
					return false
				}
				nhist++
				ncalls += int64(n)
				c.State(fmt.Sprintf("history|%d|%v", ti, seq), n >= 2)
				c.Exec(int64(n))
				c.Outcome(fmt.Sprintf("history:%s=%c", opKinds(seq), verdicts[len(verdicts)-1]))
				if nhist%211 == 0 {
					c.Sample(Case{Kind: "history", History: &h})
				}
				for _, f := range fails {
					f := f
					c.Violation(f.sig, f.what+fmt.Sprintf(" [patterns=%q values=%q ops=%v]", h.Patterns, h.Values, h.Ops),
						Case{Kind: "history", History: &h}, func() bool {
							_, again, _ := execHistory(h)
							for _, a := range again {
								if a.sig == f.sig && a.pos == f.pos {
									return true
								}
							}
							return false
						})
				}
				return true
			})
		}
	}
	c.Note("histories", nhist)
	c.Note("history_calls", ncalls)
	c.Note("history_bounds", fmt.Sprintf("%d pattern triples x every sequence of length 1..%d over %d operations", len(ts), maxLen, nOps))
}

// opKinds abbreviates a sequence for the outcome class: only the last operation's identity
// matters for the class, earlier ones are the context.
func opKinds(seq []int) string {
	return fmt.Sprintf("last-op-%d", seq[len(seq)-1])
}

func replayHistory(c *core.Ctx, cs Case) {
	h := *cs.History
	verdicts, fails, herr := execHistory(h)
	if herr != "" {
		c.HarnessError("replay history: %s", herr)
		return
	}
	c.Exec(int64(len(h.Ops)))
	fmt.Printf("replay history patterns=%q values=%q ops=%v verdicts=%s failures=%d\n", h.Patterns, h.Values, h.Ops, verdicts, len(fails))
	for _, f := range fails {
		fmt.Printf("  %s: %s\n", f.sig, f.what)
		c.Violation(f.sig, f.what, cs, nil)
	}
}

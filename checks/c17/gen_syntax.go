package c17

import "strings"

// ---------------------------------------------------------------------------------------
// regexp — goa: "regular expression syntax accepted by RE2". Valid: every pattern of the
// pattern grammar (regex.go) plus a list of other RE2 constructs taken from the RE2 syntax
// page. Invalid: single-point corruptions that RE2's syntax excludes (unbalanced group,
// unclosed class, repetition without operand, dangling escape, reversed bounds, constructs
// RE2 documents as unsupported).
// ---------------------------------------------------------------------------------------

func genRegexp(thorough bool, emit emitFn) {
	maxNodes, maxDepth := 4, 3
	if thorough {
		maxNodes, maxDepth = 5, 4
	}
	for _, n := range enumPatterns(maxNodes, maxDepth) {
		emit("grammar root="+n.opName(), n.String(), valid)
	}
	for _, p := range []menuItem{
		{"", "empty-pattern"}, {"()", "empty-group"}, {"a|", "empty-alternative"}, {"(?:a)", "non-capturing-group"}, {"(?P<n>a)", "named-group"},
		{"(?i)a", "flag"}, {"(?i:a)b", "flag"}, {"(?s).", "flag"}, {"(?m)^a$", "flag"}, {"(?U)a+", "flag"}, {"(?i-s)a", "flag"},
		{"a{2}", "bounded-repeat"}, {"a{2,}", "bounded-repeat"}, {"a{2,3}", "bounded-repeat"}, {"a{0}", "bounded-repeat"}, {"a{1000}", "bounded-repeat"},
		{"a*?", "lazy-repeat"}, {"a+?", "lazy-repeat"}, {"a??", "lazy-repeat"}, {"a{2,3}?", "lazy-repeat"},
		{"[a-z]", "char-class"}, {"[^a-z]", "char-class"}, {"[a-zA-Z0-9_]", "char-class"}, {"[]a]", "char-class"}, {"[^]a]", "char-class"}, {"[a-]", "char-class"}, {"[-a]", "char-class"},
		{`[\d\s]`, "char-class"}, {"[[:alpha:]]", "ascii-class"}, {"[[:^digit:]]", "ascii-class"}, {"[[:alpha:][:digit:]_]", "ascii-class"},
		{`\d\D\s\S\w\W`, "perl-class"}, {`\pL`, "unicode-class"}, {`\p{Greek}`, "unicode-class"}, {`\PL`, "unicode-class"}, {`\p{^Greek}`, "unicode-class"},
		{`\A\z`, "empty-width"}, {`\b\B`, "empty-width"}, {`^$`, "empty-width"},
		{`\.\*\+\?\(\)\[\]\{\}\|\^\$\\`, "escaped-punctuation"}, {`\a\f\t\n\r\v`, "escape"}, {`\x41\x{10FFFF}\101`, "escape"}, {`\Qa.b*\E`, "literal-text"},
		{"é", "non-ascii-literal"}, {"a{,2}", "brace-literal"}, {"a{", "brace-literal"}, {"a]", "unpaired-close-bracket-literal"},
	} {
		emit(p.cls, p.s, valid)
	}
	emit("nested-repeat-operators", "a**", neutral)           // rejected in Perl mode by both RE2 and Go; documented as a difference
	emit("possessive-repeat", "a*+", neutral)                 // same
	emit("c-escape-any-byte", `\C`, neutral)                  // RE2 C++ only
	emit("repeat-count-above-1000", "a{1001}", neutral)       // implementation limit, not syntax
	emit("duplicate-group-name", "(?P<n>a)(?P<n>b)", neutral) //
	emit("angle-named-group", "(?<n>a)", neutral)             // newer RE2 only

	bases := []string{"a", "ab", "a|b", "a*b", "[ab]c", `\d+`, "^a$"}
	for _, b := range bases {
		emit("group-unclosed", "("+b, invalid)
		emit("group-unclosed", b+"(", invalid)
		emit("group-unclosed", "(("+b+")", invalid)
		emit("group-unclosed", "(?:"+b, invalid)
		emit("group-unopened", b+")", invalid)
		emit("group-unopened", ")"+b, invalid)
		emit("group-unopened", "("+b+"))", invalid)
		emit("char-class-unclosed", b+"[", invalid)
		emit("char-class-unclosed", "["+strings.NewReplacer("]", "", "[", "").Replace(b), invalid)
		emit("char-class-unclosed", b+"[^", invalid)
		emit("char-class-unclosed", b+"[a-", invalid)
		emit("char-class-empty-unclosed", b+"[]", invalid)
		emit("repeat-without-operand", "*"+b, invalid)
		emit("repeat-without-operand", "+"+b, invalid)
		emit("repeat-without-operand", "?"+b, invalid)
		emit("repeat-without-operand", b+"|*", invalid)
		emit("repeat-without-operand", "(*"+b+")", invalid)
		emit("repeat-without-operand", "(+"+b+")", invalid)
		emit("repeat-without-operand", "{2}"+b, neutral) // "{2}" at the start is a literal in RE2
		emit("escape-dangling", b+`\`, invalid)
		emit("escape-unknown-letter", b+`\q`, invalid)
		emit("escape-unknown-letter", b+`\i`, invalid)
		emit("repeat-bounds-reversed", "(?:"+b+"){2,1}", invalid)
		emit("repeat-bounds-reversed", "a{3,2}"+b, invalid)
		emit("char-class-range-reversed", b+"[b-a]", invalid)
		emit("char-class-range-reversed", b+"[z-a]", invalid)
		emit("backreference-unsupported", "("+b+`)\1`, invalid)
		emit("lookaround-unsupported", "(?="+b+")", invalid)
		emit("lookaround-unsupported", "(?!"+b+")", invalid)
		emit("lookaround-unsupported", "(?<="+b+")", invalid)
		emit("lookaround-unsupported", "(?<!"+b+")", invalid)
		emit("ascii-class-unknown", b+"[[:foo:]]", invalid)
		emit("unicode-class-unknown", b+`\pX`, invalid)
		emit("unicode-class-unknown", b+`\p{Foo}`, invalid)
		emit("flag-unknown", "(?z)"+b, invalid)
		emit("flag-group-unclosed", "(?i"+b, neutral) // may read as unknown flags or unclosed group: rejected either way, class ambiguous
		emit("flag-group-unclosed", "(?i", invalid)
		emit("named-group-unclosed-name", "(?P<n"+b+")", invalid)
		emit("named-group-empty-name", "(?P<>"+b+")", invalid)
		emit("hex-escape-malformed", b+`\x{110000}`, invalid)
		emit("hex-escape-malformed", b+`\xg`, invalid)
		emit("hex-escape-malformed", b+`\x{41`, invalid)
	}
	emit("invalid-utf8", "a\xffb", invalid)
	emit("invalid-utf8", "\xc3", invalid)
}

// ---------------------------------------------------------------------------------------
// json — RFC 8259: JSON-text = ws value ws; value = false / null / true / object / array /
// number / string; number = [ "-" ] int [ frac ] [ exp ] with int = "0" / digit1-9 *DIGIT;
// string = quotation-mark *char quotation-mark with control characters (< U+0020), '"' and
// '\' escaped; ws = *( space / tab / LF / CR ).
// ---------------------------------------------------------------------------------------

func genJSON(thorough bool, emit emitFn) {
	scalars := []menuItem{
		{"null", "literal"}, {"true", "literal"}, {"false", "literal"},
		{"0", "number"}, {"-0", "number"}, {"1", "number"}, {"10", "number"}, {"-1", "number"}, {"1234567890", "number"},
		{"1.5", "number"}, {"0.0", "number"}, {"-0.5", "number"}, {"1e2", "number"}, {"1E2", "number"}, {"1e+2", "number"}, {"1E-2", "number"}, {"1.5e10", "number"}, {"0e0", "number"},
		{"1e400", "number-beyond-double-range"}, {"123456789012345678901234567890", "number-beyond-int64"},
		{`""`, "string"}, {`"a"`, "string"}, {`"a b"`, "string"}, {`"é"`, "string"}, {`"\u00e9"`, "string-with-unicode-escape"}, {`"\u00E9\u0041"`, "string-with-unicode-escape"},
		{`"\"\\\/\b\f\n\r\t"`, "string-with-escapes"}, {`"\ud83d\ude00"`, "string-with-surrogate-pair-escape"}, {"\"\x7f\"", "string"}, {`"'"`, "string"},
		{`"/*x*/"`, "string"}, {`"[1,]"`, "string"},
	}
	small := []string{"null", "true", "0", "-1.5e3", `""`, `"a"`}
	keys := []string{`""`, `"a"`, `"a b"`, `"A"`}
	var level0 []menuItem
	level0 = append(level0, scalars...)
	container := func(items []string) []string {
		out := []string{"[]", "{}"}
		for _, a := range items {
			out = append(out, "["+a+"]")
			for _, k := range keys {
				out = append(out, "{"+k+":"+a+"}")
			}
			for _, b := range items {
				out = append(out, "["+a+","+b+"]")
				out = append(out, `{"a":`+a+`,"b":`+b+"}")
			}
		}
		return out
	}
	var all0 []string
	for _, s := range scalars {
		all0 = append(all0, s.s)
	}
	lvl1 := container(all0)
	for _, s := range level0 {
		emit("scalar "+s.cls, s.s, valid)
	}
	for _, s := range lvl1 {
		emit("container depth=1", s, valid)
	}
	red1 := append(append([]string{}, small...), "[]", "{}", "[1]", `{"a":1}`, "[1,2]", `{"a":1,"b":[]}`)
	lvl2 := container(red1)
	for _, s := range lvl2 {
		emit("container depth<=2", s, valid)
	}
	if thorough {
		red2 := append(append([]string{}, small[:3]...), "[[]]", `{"a":{}}`, `[{"a":[1]}]`, `{"a":[{}]}`, "[[1,2],[3]]")
		for _, s := range container(red2) {
			emit("container depth<=3", s, valid)
		}
		for _, s := range container(container(small[:3])[:12]) {
			emit("container depth<=3", s, valid)
		}
	}
	// insignificant white space around every structural token
	for _, w := range []string{" ", "\t", "\n", "\r", "\r\n", "  \n\t "} {
		emit("whitespace", w+"1"+w, valid)
		emit("whitespace", w+"[1"+w+","+w+"2"+w+"]"+w, valid)
		emit("whitespace", "{"+w+`"a"`+w+":"+w+"1"+w+","+w+`"b"`+w+":"+w+"[]"+w+"}", valid)
		emit("whitespace", "["+w+"]", valid)
		emit("whitespace", "{"+w+"}", valid)
	}
	emit("deep-nesting", strings.Repeat("[", 50)+strings.Repeat("]", 50), valid)
	emit("duplicate-keys", `{"a":1,"a":2}`, neutral)
	emit("lone-surrogate-escape", `"\ud800"`, neutral)
	emit("byte-order-mark", "\ufeff1", neutral)
	emit("invalid-utf8-in-string", "\"\xff\"", neutral)

	docs := []string{"1", `"a"`, "[1,2]", `{"a":1,"b":2}`, `[{"a":[1,"x"]},null]`, `{"a":{"b":[true,false]}}`}
	for _, d := range docs {
		if strings.HasSuffix(d, "]") || strings.HasSuffix(d, "}") {
			closer := d[len(d)-1:]
			opener := d[:1]
			body := d[1 : len(d)-1]
			emit("trailing-comma", opener+body+","+closer, invalid)
			emit("leading-comma", opener+","+body+closer, invalid)
			emit("double-comma", strings.Replace(d, ",", ",,", 1), invalid)
			emit("comma-missing", strings.Replace(d, ",", " ", 1), invalid)
			emit("container-unclosed", d[:len(d)-1], invalid)
			emit("container-unopened", d[1:], invalid)
			emit("container-extra-closer", d+closer, invalid)
			other := map[string]string{"]": "}", "}": "]"}[closer]
			emit("container-mismatched-closer", d[:len(d)-1]+other, invalid)
			if opener == "{" {
				emit("colon-missing", strings.Replace(d, ":", " ", 1), invalid)
				emit("colon-doubled", strings.Replace(d, ":", "::", 1), invalid)
				emit("colon-replaced-by-equals", strings.Replace(d, ":", "=", 1), invalid)
				emit("key-unquoted", strings.Replace(d, `"a"`, "a", 1), invalid)
				emit("key-single-quoted", strings.Replace(d, `"a"`, "'a'", 1), invalid)
				emit("key-not-a-string", strings.Replace(d, `"a"`, "1", 1), invalid)
				emit("value-missing", strings.Replace(d, `"a":`, `"a":,`, 1), invalid)
			}
		}
		emit("two-values", d+" "+d, invalid)
		emit("two-values", d+","+d, invalid)
		emit("trailing-garbage", d+"x", invalid)
		emit("trailing-garbage", d+";", invalid)
		emit("comment", d+" // c", invalid)
		emit("comment", "/* c */ "+d, invalid)
		for _, w := range []string{"\f", "\v", "\u00a0", "\x00", "\u2028"} {
			emit("whitespace-not-json", w+d, invalid)
			emit("whitespace-not-json", d+w, invalid)
		}
	}
	for _, n := range []menuItem{
		{"01", "number-leading-zero"}, {"-01", "number-leading-zero"}, {"00", "number-leading-zero"}, {"+1", "number-plus-sign"}, {".5", "number-bare-fraction"}, {"-.5", "number-bare-fraction"},
		{"1.", "number-trailing-point"}, {"1.e1", "number-trailing-point"}, {"1e", "number-empty-exponent"}, {"1e+", "number-empty-exponent"}, {"1E-", "number-empty-exponent"},
		{"0x1F", "number-hex"}, {"1_000", "number-underscore"}, {"1,5", "number-comma-decimal"}, {"-", "number-only-sign"}, {"--1", "number-double-sign"}, {"1e1.5", "number-fraction-in-exponent"},
		{"NaN", "literal-unknown"}, {"Infinity", "literal-unknown"}, {"-Infinity", "literal-unknown"}, {"undefined", "literal-unknown"}, {"nil", "literal-unknown"}, {"None", "literal-unknown"},
		{"True", "literal-wrong-case"}, {"FALSE", "literal-wrong-case"}, {"Null", "literal-wrong-case"}, {"nul", "literal-truncated"}, {"tru", "literal-truncated"}, {"fals", "literal-truncated"},
		{"'a'", "string-single-quoted"}, {`"a`, "string-unclosed"}, {`a"`, "string-unopened"}, {`"a""`, "string-extra-quote"}, {"a", "bare-word"},
		{"\"a\nb\"", "string-raw-control-char"}, {"\"a\tb\"", "string-raw-control-char"}, {"\"a\x01b\"", "string-raw-control-char"}, {"\"a\x00b\"", "string-raw-control-char"}, {"\"a\x1fb\"", "string-raw-control-char"},
		{`"\x41"`, "string-escape-unknown"}, {`"\'"`, "string-escape-unknown"}, {`"\a"`, "string-escape-unknown"}, {`"\0"`, "string-escape-unknown"}, {`"\U00e9"`, "string-escape-unknown"},
		{`"\u12"`, "string-unicode-escape-short"}, {`"\u"`, "string-unicode-escape-short"}, {`"\u12g4"`, "string-unicode-escape-non-hex"}, {`"\`, "string-escape-dangling"}, {`"\"`, "string-unclosed"},
		{"", "empty"}, {" ", "whitespace-only"}, {"\n", "whitespace-only"}, {",", "only-comma"}, {":", "only-colon"}, {"[", "container-unclosed"}, {"{", "container-unclosed"}, {"]", "container-unopened"}, {"}", "container-unopened"},
		{"[1 2]", "comma-missing"}, {`{"a" 1}`, "colon-missing"}, {`{"a"}`, "value-missing"}, {`{"a":}`, "value-missing"}, {`{:1}`, "key-missing"}, {"[,]", "only-comma"}, {"{,}", "only-comma"},
		{"[1,2,]", "trailing-comma"}, {`{"a":1,}`, "trailing-comma"}, {"[1,,2]", "double-comma"}, {`{"a":1 "b":2}`, "comma-missing"}, {`{"a":1;"b":2}`, "comma-replaced-by-semicolon"},
		{"(1)", "parenthesised"}, {"<1>", "angle-bracketed"}, {`{"a":undefined}`, "literal-unknown"}, {"[NaN]", "literal-unknown"},
	} {
		emit(n.cls, n.s, invalid)
	}
}

package c17

import "strings"

// ---------------------------------------------------------------------------------------
// uri — RFC 3986 section 3:
//
//	URI       = scheme ":" hier-part [ "?" query ] [ "#" fragment ]
//	hier-part = "//" authority path-abempty / path-absolute / path-rootless / path-empty
//	scheme    = ALPHA *( ALPHA / DIGIT / "+" / "-" / "." )
//	authority = [ userinfo "@" ] host [ ":" port ]      host = IP-literal / IPv4address / reg-name
//	pchar     = unreserved / pct-encoded / sub-delims / ":" / "@"
//	query, fragment = *( pchar / "/" / "?" )
//
// A "URI" always has a scheme; strings without one are relative references (section 4.2),
// not URIs. Characters outside the RFC's character set (space, control characters,
// < > " \ ^ ` { | }) appear nowhere; "[" "]" only around an IP literal; "%" only before two
// hex digits; "#" only once.
// ---------------------------------------------------------------------------------------

type menuItem struct{ s, cls string }

func genURI(thorough bool, emit emitFn) {
	schemes := []string{"http", "https", "a", "X", "HTTP", "a+b-c.1"}
	auths := []menuItem{
		{"a", "regular"}, {"example.com", "regular"}, {"A.B", "regular"}, {"a-b.c", "regular"}, {"a_b-c.d~e", "regular"},
		{"a:80", "regular"}, {"a:", "regular"}, {"u@a", "regular"}, {"u:p@a", "regular"}, {"u:p@a:80", "regular"},
		{"1.2.3.4", "regular"}, {"1.2.3.4:80", "regular"}, {"[::1]", "ip-literal"}, {"[::1]:8080", "ip-literal"}, {"[2001:db8::1]", "ip-literal"},
		{"", "empty"}, {"a$b", "sub-delim-in-reg-name"}, {"a%41", "pct-encoded-in-reg-name"}, {"%7Eu@a", "pct-encoded-in-userinfo"},
	}
	paths := []string{"", "/", "/a", "/a/b", "/a/", "//", "/a%20b", "/a;b=c", "/~a_b-c.d", "/a:b@c", "/!$&'()*+,=", "/%41%2f%2F"}
	queries := []string{"", "?", "?a=b", "?a=b&c=d", "?a%3Db", "?/?", "?a:b@c", "?a+b"}
	frags := []string{"", "#", "#f", "#f/?", "#a%20b", "#a:b@c!$&'()*+,;="}
	if !thorough {
		schemes = schemes[:4]
	}
	for _, sc := range schemes {
		for _, au := range auths {
			for _, p := range paths {
				if au.s == "" && p == "" {
					// "scheme://" + nothing: valid by the grammar (empty reg-name, empty
					// path) but it carries no resource at all; not asserted
					continue
				}
				for _, q := range queries {
					for _, f := range frags {
						cls := "authority-form"
						if au.cls == "pct-encoded-in-reg-name" {
							cls += " pct-encoded-in-host"
						}
						if p == "" && q == "" && f != "" {
							cls += " fragment-directly-after-authority"
						}
						emit(cls, sc+"://"+au.s+p+q+f, valid)
					}
				}
			}
		}
		// without authority: path-absolute, path-rootless, path-empty
		for _, p := range []string{"/", "/a", "/a/b", "a", "a/b", "a:b", "a@b.com", "+1-201-555", "isbn:0451450523", "a%20b", ""} {
			for _, q := range queries {
				for _, f := range frags {
					kind := "path-rootless"
					switch {
					case p == "":
						kind = "path-empty"
					case p[0] == '/':
						kind = "path-absolute"
					}
					emit(kind+"-form", sc+":"+p+q+f, valid)
				}
			}
		}
	}
	emit("authority-and-path-empty", "http://", neutral)
	emit("ipvfuture-literal", "http://[v1.a]/", neutral)
	emit("non-ascii-iri", "http://a/é", neutral)
	emit("port-beyond-65535", "http://a:99999999/", neutral) // port = *DIGIT in the grammar

	// ---- not URIs: no scheme ----
	for _, r := range []menuItem{
		{"foo", "relative-path"}, {"foo/bar", "relative-path"}, {"example.com", "relative-path"}, {"./a", "relative-path"}, {"../a", "relative-path"}, {"a_b", "relative-path"},
		{"/", "absolute-path"}, {"/foo", "absolute-path"}, {"/foo/bar", "absolute-path"}, {"/foo?q=1", "absolute-path"}, {"/a/b#f", "absolute-path"},
		{"//host", "network-path"}, {"//host/path", "network-path"}, {"//u@host:80/p?q", "network-path"},
		{"?q", "query-only"}, {"#f", "fragment-only"}, {"*", "asterisk"},
	} {
		emit("no-scheme", r.s, invalid) // r.cls documents which kind of relative reference it is
	}
	emit("empty", "", invalid)
	for _, s := range []menuItem{
		{"1http://a/", "starts-with-digit"}, {"+a://b/", "starts-with-plus"}, {"-a://b/", "starts-with-hyphen"}, {".a://b/", "starts-with-dot"},
		{"ht_tp://a/", "underscore"}, {"ht tp://a/", "space"}, {"ht%74p://a/", "percent-escape"}, {"ht~p://a/", "tilde"}, {"http$://a/", "dollar"},
		{":foo", "empty"}, {"://a", "empty"}, {":", "empty"},
	} {
		emit("scheme-malformed", s.s, invalid)
	}
	emit("colon-after-scheme-missing", "http//a/b", invalid)

	// ---- one illegal character inserted into one component ----
	type comp struct{ scheme, user, host, port, path, query, frag string }
	build := func(c comp) string {
		s := c.scheme + "://"
		if c.user != "" {
			s += c.user + "@"
		}
		s += c.host
		if c.port != "" {
			s += ":" + c.port
		}
		s += c.path
		if c.query != "" {
			s += "?" + c.query
		}
		if c.frag != "" {
			s += "#" + c.frag
		}
		return s
	}
	mid := func(s, ins string) string { return s[:len(s)/2] + ins + s[len(s)/2:] }
	bases := []comp{
		{"http", "us", "example.com", "80", "/ab/cd", "qu=1", "frag"},
		{"http", "", "ab", "", "/ab", "", ""},
		{"https", "", "a.bc", "", "/ab", "qu", ""},
		{"http", "", "a.bc", "", "/ab", "", "fr"},
	}
	kinds := []struct {
		kind string
		ins  []string
	}{
		{"space", []string{" "}},
		{"disallowed-char", []string{"<", ">", "\"", "\\", "^", "`", "{", "|", "}", "[", "]"}},
		{"control-char", []string{"\x00", "\x01", "\x1f", "\x7f", "\n", "\t", "\r"}},
		{"bad-percent-escape", []string{"%", "%zz", "%4", "%g0", "%0g"}},
	}
	for _, b := range bases {
		for _, k := range kinds {
			k := k
			outer := emit
			// a "%" insertion is only a corruption if it does not happen to form a valid
			// escape with the characters that follow it
			emit := func(cls, s string, w want) {
				if k.kind == "bad-percent-escape" && !hasBadPercent(s) {
					return
				}
				outer(cls, s, w)
			}
			for _, ins := range k.ins {
				if b.user != "" {
					c := b
					c.user = mid(b.user, ins)
					emit(k.kind+"-in-userinfo", build(c), invalid)
				}
				c := b
				c.host = mid(b.host, ins)
				emit(k.kind+"-in-host", build(c), invalid)
				c = b
				c.path = mid(b.path, ins)
				emit(k.kind+"-in-path-query-or-fragment", build(c), invalid)
				c = b
				c.path = b.path + ins
				if !(strings.HasPrefix(ins, "%") && (b.query != "" || b.frag != "")) {
					emit(k.kind+"-in-path-query-or-fragment", build(c), invalid)
				}
				if b.query != "" {
					c = b
					c.query = mid(b.query, ins)
					emit(k.kind+"-in-path-query-or-fragment", build(c), invalid)
				}
				if b.frag != "" {
					c = b
					c.frag = mid(b.frag, ins)
					emit(k.kind+"-in-path-query-or-fragment", build(c), invalid)
				}
				if k.kind != "bad-percent-escape" {
					c = b
					c.scheme = mid(b.scheme, ins)
					emit(k.kind+"-in-scheme", build(c), invalid)
				}
			}
		}
		good := build(b)
		emit("leading-space", " "+good, invalid)
		emit("space-in-path-query-or-fragment", good+" ", invalid)
		emit("trailing-newline", good+"\n", invalid)
		emit("wrapped-in-angle-brackets", "<"+good+">", invalid)
		c := b
		c.port = "8o"
		emit("authority-malformed", build(c), invalid)
		c.port = "http"
		emit("authority-malformed", build(c), invalid)
		c.port = "-1"
		emit("authority-malformed", build(c), invalid)
		c = b
		c.frag = "fr#ag"
		emit("second-number-sign-in-fragment", build(c), invalid)
		c.frag = "fr#"
		emit("second-number-sign-in-fragment", build(c), invalid)
		c = b
		c.user = "us@er"
		emit("authority-malformed", build(c), invalid)
	}
	for _, s := range []menuItem{
		{"http://::1/", "authority-malformed"}, {"http://2001:db8::1/a", "authority-malformed"},
		{"http://[::1/", "authority-malformed"}, {"http://::1]/", "authority-malformed"}, {"http://a]/", "authority-malformed"},
		{"http://[foo]/", "authority-malformed"}, {"http://[1.2.3.4]/", "authority-malformed"}, {"http://[::1]a/", "authority-malformed"},
		{"http:\\\\a\\b", "disallowed-char-in-path-query-or-fragment"},
		{"mailto:a b@c.com", "space-in-path-query-or-fragment"}, {"urn:a<b", "disallowed-char-in-path-query-or-fragment"}, {"urn:a\x01b", "control-char-in-path-query-or-fragment"},
		{"urn:a%zzb", "bad-percent-escape-in-path-query-or-fragment"},
	} {
		emit(s.cls, s.s, invalid)
	}
}

// hasBadPercent reports whether s contains a "%" that is not followed by two hex digits.
func hasBadPercent(s string) bool {
	isHex := func(c byte) bool {
		return c >= '0' && c <= '9' || c >= 'a' && c <= 'f' || c >= 'A' && c <= 'F'
	}
	for i := 0; i < len(s); i++ {
		if s[i] == '%' && (i+2 >= len(s) || !isHex(s[i+1]) || !isHex(s[i+2])) {
			return true
		}
	}
	return false
}

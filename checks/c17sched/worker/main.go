//go:build verifworker

// The worker of the C17 scheduler scenarios. Built by the driver (c17sched.RunSchedules) with
// `go build -tags verif,verifworker -overlay <instrumented pkg/validation.go + runtime>`.
package main

import (
	"goa.design/goa/v3/pkg/vrt"

	"verif/checks/c17sched/scen"
)

func main() { vrt.WorkerMain(scen.Scenarios()) }

// Package c17sched is the schedules part of property C17: the real goa.ValidatePattern
// (pkg/validation.go, instrumented with the sync shim and shared-access hooks) under the
// controlled scheduler. RunSchedules is a DRIVER: it runs in the plain check process,
// prepares the overlay, builds the worker (checks/c17sched/worker) and feeds the results of
// its subprocesses into the Ctx. The scenarios themselves are in checks/c17sched/scen.
package c17sched

import (
	"path/filepath"

	"verif/core"
	"verif/sched"
)

// Job is the instrumented build of the C17 scenarios.
func Job() sched.Job {
	return sched.Job{
		Check:     "c17sched",
		Packages:  []string{"goa.design/goa/v3/pkg"},
		WorkerPkg: "./checks/c17sched/worker",
		ExportFiles: map[string]string{
			"pkg/zz_verif_export.go": filepath.Join(core.Root(), "checks", "c17sched", "export", "pkg_zz_verif_export.go.txt"),
		},
	}
}

// RunSchedules explores the C17 scheduler scenarios and reports through c. Alphabet, bound and
// oracle are stated in checks/c17sched/scen/scen.go.
func RunSchedules(c *core.Ctx) {
	c.Assume("C17 schedules: interleavings at the granularity of hooked operations (sync shim operations and instrumented shared accesses of goa/pkg); " +
		"regexp, errors and fmt run as opaque steps and are trusted as documented thread-safe; memory-model effects below happens-before are subsumed by the HB race oracle")
	c.Note("c17_schedules_bounds", "quick: 2 threads x 1-2 calls ALL interleavings (complete DFS with sleep-set reduction: every inequivalent interleaving executed, no preemption bound); "+
		"3 threads x 1 call preemption bound 2. thorough: every scenario with preemption bound 3 AND all interleavings "+
		"(2 threads x 1-2 calls, 3 threads x 1 call); 3 threads x 2 calls preemption bound 3 only; 4 threads x 1 call preemption bound 2")
	b, err := sched.Build(Job())
	if err != nil {
		c.HarnessError("C17 schedules: %v", err)
		return
	}
	o := sched.Options{Families: []string{"c17"}, Prefix: "sched:"}
	ms, err := b.Explore(c, o)
	if err != nil {
		c.HarnessError("C17 schedules: %v", err)
		return
	}
	b.Feed(c, o, ms)
	b.NoteInstrumentation(c, "c17_instrumentation")
	var sigs []string
	for _, m := range ms {
		for _, f := range m.Findings {
			if f.Class == "race" {
				sigs = append(sigs, f.Signature)
			}
		}
	}
	b.AuxRace(c, o, "c17_aux_race_pass", sigs)
}

// Replay re-executes a replay file written by RunSchedules.
func Replay(c *core.Ctx, path string) {
	j := Job()
	j.NoAux = true
	b, err := sched.Build(j)
	if err != nil {
		c.HarnessError("C17 schedules: %v", err)
		return
	}
	b.Replay(c, path)
}

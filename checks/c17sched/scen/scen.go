//go:build verifworker

// Package scen holds the scheduler scenarios of C17 (pattern cache under concurrent use). It is
// compiled only into worker binaries (tag verifworker, overlay build): it imports the runtime
// package under goa's module path and the `verif` export file of package goa.
//
// Alphabet: operation ValidatePattern(name, value, pattern) on the REAL goa code with
// patterns {A=`^a+b$`, B=`^[0-9]{2}$`} and values {matching A, matching B, matching neither}.
// Bound: 2 threads x 1-2 calls: ALL interleavings (complete DFS with the sleep-set reduction, no
// preemption bound) in both tiers; 3 threads x 1 call: every schedule with at most 2
// preemptions (quick), at most 3 AND all interleavings (thorough); 3 threads x 2 calls and
// 4 threads x 1 call: preemption bound 3 / 2 (thorough only).
// Oracle (from the property statement only): verdict == regexp.MatchString for every call,
// independent of the other thread (differential per-thread oracle + independent reference);
// after every schedule each cached entry is the compiled form of its own key; no data race on
// the cache (happens-before oracle); no deadlock.
package scen

import (
	"errors"
	"fmt"
	"regexp"
	"sort"
	"strings"

	goa "goa.design/goa/v3/pkg"
	"goa.design/goa/v3/pkg/vrt"
)

const (
	PatA = `^a+b$`
	PatB = `^[0-9]{2}$`
)

// Call is one ValidatePattern invocation.
type Call struct{ Val, Pat string }

func verdict(err error) string {
	if err == nil {
		return "ok"
	}
	var se *goa.ServiceError
	if errors.As(err, &se) {
		return se.Name + ":" + se.Message // the message names value and pattern: a leak from another call would show
	}
	return "error:" + err.Error()
}

// Body returns a thread body performing the calls in order.
func Body(calls ...Call) func(any) any {
	return func(any) any {
		out := make([]string, 0, len(calls))
		for _, c := range calls {
			out = append(out, verdict(goa.ValidatePattern("field", c.Val, c.Pat)))
		}
		return strings.Join(out, " ; ")
	}
}

// reference is the boring model: regexp.MatchString, nothing of goa.
func reference(calls []Call) string {
	out := make([]string, 0, len(calls))
	for _, c := range calls {
		ok, err := regexp.MatchString(c.Pat, c.Val)
		switch {
		case err != nil:
			out = append(out, "bad-pattern")
		case ok:
			out = append(out, "ok")
		default:
			out = append(out, "invalid_pattern")
		}
	}
	return strings.Join(out, " ; ")
}

func verdictClasses(s string) string {
	parts := strings.Split(s, " ; ")
	for i, p := range parts {
		if j := strings.IndexByte(p, ':'); j >= 0 {
			parts[i] = p[:j]
		}
	}
	return strings.Join(parts, " ; ")
}

func label(calls []Call) string {
	var sb strings.Builder
	for i, c := range calls {
		if i > 0 {
			sb.WriteByte('+')
		}
		p := "A"
		if c.Pat == PatB {
			p = "B"
		}
		ok, _ := regexp.MatchString(c.Pat, c.Val)
		if ok {
			sb.WriteString("match" + p)
		} else {
			sb.WriteString("nomatch" + p)
		}
	}
	return "ValidatePattern(" + sb.String() + ")"
}

// Make builds one scenario. warm lists patterns compiled into the cache by Setup.
func Make(name, doc string, warm []string, threads ...[]Call) vrt.Scenario {
	sc := vrt.Scenario{Name: name, Doc: doc, Family: "c17"}
	used := map[string]bool{}
	for _, w := range warm {
		used[w] = true
	}
	var want []string
	for _, calls := range threads {
		calls := calls
		for _, c := range calls {
			used[c.Pat] = true
		}
		sc.Threads = append(sc.Threads, Body(calls...))
		sc.Labels = append(sc.Labels, label(calls))
		want = append(want, reference(calls))
	}
	sc.Setup = func() any {
		goa.VerifResetPatterns()
		for _, w := range warm {
			_ = goa.ValidatePattern("warm", "", w)
		}
		return nil
	}
	sc.Check = func(_ any, results []any) string {
		for i, r := range results {
			s, _ := r.(string)
			if got := verdictClasses(s); got != want[i] {
				return fmt.Sprintf("verdict-differs-from-regexp: thread %d (%s) got %q, regexp.MatchString says %q", i, sc.Labels[i], got, want[i])
			}
		}
		// sorted iteration: the message of a failing check must be the same on every run
		cache := goa.VerifPatternCache()
		var keys []string
		for p := range cache {
			keys = append(keys, p)
		}
		sort.Strings(keys)
		for _, p := range keys {
			if s := cache[p]; s != p {
				return fmt.Sprintf("cache-entry-mismatch: knownPatterns[%q] holds the compiled form of %q", p, s)
			}
			if !used[p] {
				return fmt.Sprintf("cache-foreign-key: %q was never validated", p)
			}
		}
		var want []string
		for p := range used {
			want = append(want, p)
		}
		sort.Strings(want)
		for _, p := range want {
			if _, ok := cache[p]; !ok {
				return fmt.Sprintf("cache-entry-missing: %q was validated but is not cached", p)
			}
		}
		return ""
	}
	sc.Classify = func(any, []any) string {
		var keys []string
		for p := range goa.VerifPatternCache() {
			keys = append(keys, p)
		}
		sort.Strings(keys)
		return fmt.Sprintf("cached=%d", len(keys))
	}
	return sc
}

// Scenarios returns the C17 scheduler scenarios.
func Scenarios() []vrt.Scenario {
	mA, nA := Call{"aab", PatA}, Call{"zz", PatA}
	mB, nB := Call{"12", PatB}, Call{"aab", PatB}
	var out []vrt.Scenario
	add := func(s vrt.Scenario, f func(*vrt.Scenario)) {
		if f != nil {
			f(&s)
		}
		out = append(out, s)
	}
	complete := func(s *vrt.Scenario) { s.Complete = true }
	// two threads: ALL interleavings
	add(Make("c17/2t-same-pattern", "both threads miss the empty cache for the same pattern and both fill it", nil,
		[]Call{mA}, []Call{nA}), complete)
	add(Make("c17/2t-two-patterns", "two threads fill two different keys of the same map", nil,
		[]Call{mA}, []Call{mB}), complete)
	add(Make("c17/2t-warm-hit-vs-fill", "one thread reads a cached pattern while the other fills a new one", []string{PatA},
		[]Call{nA}, []Call{mB}), complete)
	add(Make("c17/2t-same-pattern-2calls", "miss+fill followed by a hit, in both threads, same pattern", nil,
		[]Call{mA, nA}, []Call{nA, mA}), complete)
	add(Make("c17/2t-crossed-2calls", "A then B against B then A", nil,
		[]Call{mA, nB}, []Call{mB, nA}), complete)
	// three threads: preemption bound 2
	add(Make("c17/3t-same-pattern", "three simultaneous misses of one pattern", nil,
		[]Call{mA}, []Call{nA}, []Call{mA}), nil)
	add(Make("c17/3t-two-patterns", "two threads share a pattern, the third uses another", nil,
		[]Call{mA}, []Call{nA}, []Call{mB}), nil)
	add(Make("c17/3t-2calls", "three threads, two calls each over both patterns", nil,
		[]Call{mA, mB}, []Call{nB, nA}, []Call{nA, mB}), func(s *vrt.Scenario) { s.ThoroughOnly = true; s.NoThoroughComplete = true })
	add(Make("c17/4t-same-pattern", "four simultaneous misses of one pattern (beyond the 2-3 thread envelope, preemption bound 2)", nil,
		[]Call{mA}, []Call{nA}, []Call{mA}, []Call{nA}), func(s *vrt.Scenario) { s.ThoroughOnly = true; s.NoThoroughComplete = true; s.ThoroughBound = 2 })
	return out
}

// c17sched runs ONLY the schedules part of C17 (c17sched.RunSchedules), for development and
// for the mutant self-test. It never writes an evidence file (the evidence of C17 belongs to
// cmd/c17, which calls the same function).
package main

import (
	"os"

	"verif/checks/c17sched"
	"verif/core"
)

func main() {
	os.Args = append(os.Args, "--no-evidence")
	core.Main("C17", c17sched.RunSchedules, c17sched.Replay)
}

// Package menu holds the request menus of C20 FAMILY B: for every method shape of the design
// family spec.C20B (and of the error / view families it borrows from) the requests a virtual
// thread can issue — a client payload in neutral form plus what the stub service answers.
// Plain data, nothing of goa.
package menu

import "verif/e2/spec"

// Request is one entry of a method's request menu.
type Request struct {
	// Label is the stable class of the request (used in scenario names and signatures).
	Label string
	// Payload is the client payload in neutral form (nil: the method has none).
	Payload any
	// Body is the raw request body of a SkipRequestBodyEncodeDecode method (the service reads it
	// to the end and reports it).
	Body string
	// What the stub service answers: a result (with a view for viewed results) or an error.
	Result any
	View   string
	// Err: "" | "default:<name>" | "custom:<name>" | "primitive:<name>" | "plain" | "service-error"
	Err string
	// ErrValue is the neutral value of a custom error / the text of a primitive one.
	ErrValue any
}

// Requests derives the request menu of a method from its shape. tag makes the values of
// two requests of the same class distinct (a leak between them must be visible).
func Requests(sp *spec.Spec, svc *spec.Service, m *spec.Method, tag string) []Request {
	var out []Request
	add := func(r Request) { out = append(out, r) }
	declared := func(payload any) {
		seen := map[string]bool{}
		for _, lvl := range [][]spec.ErrorDef{m.Errors, svc.Errors} {
			for _, e := range lvl {
				if seen[e.Name] {
					continue
				}
				seen[e.Name] = true
				switch {
				case e.Type == nil:
					add(Request{Label: "declared-default:" + e.Name, Payload: payload, Err: "default:" + e.Name})
				case e.Type.K == spec.KUser:
					add(Request{Label: "declared-custom:" + e.Name, Payload: payload, Err: "custom:" + e.Name,
						ErrValue: spec.Obj{"name": e.Name, "msg": "custom " + tag, "code": int64(len(tag) + 40)}})
				case spec.IsPrimitive(e.Type.K):
					add(Request{Label: "declared-primitive:" + e.Name, Payload: payload, Err: "primitive:" + e.Name, ErrValue: "primitive " + tag})
				}
			}
		}
	}
	undeclared := func(payload any) {
		add(Request{Label: "undeclared-plain", Payload: payload, Err: "plain"})
		add(Request{Label: "undeclared-service-error", Payload: payload, Err: "service-error"})
	}
	viewed := func(payload any) {
		def := sp.TypeDefByName(m.Result.Ref)
		elem := def
		if def != nil && def.Kind == "collection" {
			elem = sp.TypeDefByName(def.Collection)
		}
		if elem == nil {
			return
		}
		mk := func(d *spec.TypeDef, depth int) spec.Obj {
			o := spec.Obj{}
			attrs, _ := sp.AllAttrs(d)
			for _, a := range attrs {
				switch e := sp.Eff(a.T); {
				case e.K == spec.KString:
					o[a.Name] = a.Name + "-" + tag
				case e.K == spec.KInt:
					o[a.Name] = int64(len(tag) + 7)
				case e.K == spec.KArray && sp.Eff(e.Elem).K == spec.KString:
					o[a.Name] = spec.Arr{"x-" + tag, "y"}
				}
			}
			return o
		}
		var val any = mk(elem, 0)
		if elem.Name == "Parent" {
			child := sp.TypeDefByName("Child")
			o := val.(spec.Obj)
			o["child"] = mk(child, 1)
			o["kids"] = spec.Arr{mk(child, 1)}
		}
		if def.Kind == "collection" {
			val = spec.Arr{val, mk(elem, 0)}
		}
		if m.Result.View != "" {
			add(Request{Label: "view-fixed", Payload: payload, Result: val})
			return
		}
		for _, v := range elem.Views {
			add(Request{Label: "view:" + v.Name, Payload: payload, Result: val, View: v.Name})
		}
	}
	switch m.Feat["family"] {
	case "L2-errors":
		p := spec.Obj{"sel": "sel-" + tag}
		add(Request{Label: "valid", Payload: p, Result: spec.Obj{"ok": "ok-" + tag}})
		declared(p)
		undeclared(p)
		return out
	case "L2-views":
		viewed(nil)
		undeclared(nil)
		return out
	}
	switch m.Feat["shape"] {
	case "rich":
		good := spec.Obj{"id": "id-" + tag, "qv": int64(len(tag) + 3), "hv": "hv-" + tag, "name": "nm" + lettersOnly(tag), "n": int64(len(tag) + 1)}
		add(Request{Label: "valid", Payload: good, Result: spec.Obj{"ok": "ok-" + tag, "n": int64(len(tag) + 100)}})
		add(Request{Label: "invalid-pattern", Payload: spec.Obj{"id": "id-" + tag, "name": "NOT-" + tag, "n": int64(2)}})
		add(Request{Label: "invalid-minimum", Payload: spec.Obj{"id": "id-" + tag, "name": "ok", "n": int64(0), "hv": "hv-" + tag}})
		declared(good)
		undeclared(good)
	case "views", "views-collection":
		viewed(nil)
		undeclared(nil)
	case "negotiate":
		res := spec.Obj{"aa": "aa-" + tag, "bb": int64(len(tag) + 5)}
		add(Request{Label: "accept:json", Payload: spec.Obj{"acc": "application/json"}, Result: res})
		add(Request{Label: "accept:xml", Payload: spec.Obj{"acc": "application/xml"}, Result: res})
		add(Request{Label: "accept:gob", Payload: spec.Obj{"acc": "application/gob"}, Result: res})
		add(Request{Label: "accept:text/plain", Payload: spec.Obj{"acc": "text/plain"}, Result: res})
		add(Request{Label: "accept:text/html", Payload: spec.Obj{"acc": "text/html"}, Result: res})
		add(Request{Label: "accept:xml undeclared-plain", Payload: spec.Obj{"acc": "application/xml"}, Err: "plain"})
	case "skip-request-body":
		p := spec.Obj{"id": "id-" + tag, "hh": "hh-" + tag}
		add(Request{Label: "upload", Payload: p, Body: "streamed body of " + tag + " 0123456789", Result: spec.Obj{"ok": "ok-" + tag}})
		add(Request{Label: "upload-empty", Payload: spec.Obj{"id": "id2-" + tag}, Body: "", Result: spec.Obj{"ok": "ok2-" + tag}})
		add(Request{Label: "upload undeclared-plain", Payload: p, Body: "body before failure " + tag, Err: "plain"})
	case "skip-request-body-noresult":
		p := spec.Obj{"qv": "qv-" + tag}
		add(Request{Label: "upload", Payload: p, Body: "second stream " + tag})
		add(Request{Label: "upload declared-default:e_a", Payload: p, Body: "rejected stream " + tag, Err: "default:e_a"})
	case "noargs":
		add(Request{Label: "valid", Result: spec.Obj{"ok": "ok-" + tag}})
		undeclared(nil)
	case "path-noresult":
		good := spec.Obj{"id": "6ba7b810-9dad-11d1-80b4-00c04fd430c8"}
		add(Request{Label: "valid", Payload: good})
		add(Request{Label: "invalid-format", Payload: spec.Obj{"id": "not-a-uuid-" + tag}})
		declared(good)
	case "collections":
		add(Request{Label: "valid", Payload: spec.Obj{"items": spec.Arr{"i-" + tag, "j"}, "tags": spec.MapV{{K: "k-" + tag, V: int64(1)}}}, Result: "res-" + tag})
		add(Request{Label: "invalid-length", Payload: spec.Obj{"items": spec.Arr{}, "tags": spec.MapV{{K: "k-" + tag, V: int64(2)}}}})
		undeclared(spec.Obj{"items": spec.Arr{"u-" + tag}})
	case "query-enum":
		add(Request{Label: "valid", Payload: spec.Obj{"color": "red"}, Result: spec.Obj{"ok": "ok-" + tag, "tag": "tag-" + tag}})
		add(Request{Label: "valid-other", Payload: spec.Obj{"color": "green"}, Result: spec.Obj{"ok": "ok2-" + tag}})
		add(Request{Label: "invalid-enum", Payload: spec.Obj{"color": "blue-" + tag}})
	case "svc-error-negotiate":
		p := spec.Obj{"sel": "sel-" + tag}
		add(Request{Label: "valid", Payload: p, Result: spec.Obj{"ok": "ok-" + tag}})
		declared(p)
		add(Request{Label: "accept:xml declared-default:e_svc", Payload: spec.Obj{"sel": "sel-" + tag, "acc": "application/xml"}, Err: "default:e_svc"})
		add(Request{Label: "accept:xml undeclared-plain", Payload: spec.Obj{"sel": "sel-" + tag, "acc": "application/xml"}, Err: "plain"})
	default: // primitive-error, api-error, shared-error-type
		p := spec.Obj{"sel": "sel-" + tag}
		add(Request{Label: "valid", Payload: p, Result: spec.Obj{"ok": "ok-" + tag}})
		declared(p)
		undeclared(p)
	}
	return out
}

func lettersOnly(s string) string {
	var b []byte
	for i := 0; i < len(s); i++ {
		c := s[i]
		switch {
		case c >= 'a' && c <= 'z':
			b = append(b, c)
		case c >= 'A' && c <= 'Z':
			b = append(b, c+32)
		case c >= '0' && c <= '9':
			b = append(b, 'a'+(c-'0'))
		}
	}
	return string(b)
}

// Package c20b is the driver of C20 FAMILY B: generated servers and clients under the
// controlled scheduler. It runs in the plain check process: builds (or reuses) the small
// corpus of the design family spec.C20B through the E2 pipeline, writes a worker main into the
// corpus module, instruments goa's runtime packages AND the generated service / server /
// client / views packages of every design from the current working tree, builds the worker
// inside the corpus module, explores every scenario in sharded subprocesses and reports
// through core.Ctx (same evidence file as family A).
package c20b

import (
	"bytes"
	"fmt"
	"io/fs"
	"os"
	"path/filepath"
	"sort"
	"strings"

	"verif/core"
	"verif/e2/check"
	"verif/e2/families"
	"verif/e2/pipe"
	"verif/instr"
	"verif/sched"
)

// Packages are the goa runtime packages instrumented together with the generated code.
var Packages = []string{
	"goa.design/goa/v3/pkg",
	"goa.design/goa/v3/http",
	"goa.design/goa/v3/http/middleware",
	"goa.design/goa/v3/middleware",
}

// generatedPackages lists the importable generated package directories of a linked design
// (everything under gen/ except the cli main packages), relative to the corpus directory.
func generatedPackages(corpus *pipe.Corpus) (rel []string) {
	for _, d := range corpus.Designs {
		if !d.Linked {
			continue
		}
		_ = filepath.WalkDir(filepath.Join(d.Dir, "gen"), func(p string, e fs.DirEntry, err error) error {
			if err != nil || !e.IsDir() {
				return nil
			}
			if e.Name() == "cli" || strings.HasPrefix(e.Name(), "grpc") {
				return filepath.SkipDir
			}
			ents, _ := os.ReadDir(p)
			for _, f := range ents {
				if !f.IsDir() && strings.HasSuffix(f.Name(), ".go") {
					r, _ := filepath.Rel(corpus.Dir, p)
					rel = append(rel, filepath.ToSlash(r))
					break
				}
			}
			return nil
		})
	}
	sort.Strings(rel)
	return rel
}

// writeWorker writes <corpus>/zsched/main.go: the worker main links the scenario package and
// (blank imports) every generated package, whose glue files register the constructors.
func writeWorker(corpus *pipe.Corpus, pkgs []string) error {
	var mb bytes.Buffer
	mb.WriteString("//go:build verifworker\n\n// Written by verif/checks/c20b at check time (worker of C20 family B). Not goa output.\npackage main\n\nimport (\n")
	mb.WriteString("\t\"goa.design/goa/v3/pkg/vrt\"\n\n\t\"verif/checks/c20b/scen\"\n\n")
	for _, p := range pkgs {
		fmt.Fprintf(&mb, "\t_ %q\n", "corpus/"+p)
	}
	fmt.Fprintf(&mb, ")\n\nfunc main() {\n\tvrt.SiteNormalizer = scen.NormalizeSite\n\tvrt.WorkerMain(scen.Scenarios(%q))\n}\n", corpus.Dir)
	dir := filepath.Join(corpus.Dir, "zsched")
	if err := os.MkdirAll(dir, 0o755); err != nil {
		return err
	}
	path := filepath.Join(dir, "main.go")
	if old, err := os.ReadFile(path); err == nil && bytes.Equal(old, mb.Bytes()) {
		return nil
	}
	return os.WriteFile(path, mb.Bytes(), 0o644)
}

// Job is the instrumented build of the family B worker for a corpus.
func Job(corpus *pipe.Corpus) (sched.Job, error) {
	pkgs := generatedPackages(corpus)
	if len(pkgs) == 0 {
		return sched.Job{}, fmt.Errorf("corpus %s has no linked design", corpus.Dir)
	}
	if err := writeWorker(corpus, pkgs); err != nil {
		return sched.Job{}, err
	}
	var patterns []string
	for _, p := range pkgs {
		patterns = append(patterns, "./"+p)
	}
	return sched.Job{
		Check:     "c20b",
		Packages:  Packages,
		Extra:     []instr.Target{{Dir: corpus.Dir, Patterns: patterns, Root: corpus.Dir}},
		WorkerPkg: "./zsched",
		BuildDir:  corpus.Dir,
		ExportFiles: map[string]string{
			"pkg/zz_verif_export.go": filepath.Join(core.Root(), "checks", "c17sched", "export", "pkg_zz_verif_export.go.txt"),
		},
	}, nil
}

func build(c *core.Ctx, noAux bool) (*sched.Built, *pipe.Corpus) {
	corpus, err := check.BuildFamily(c, families.C20B(c.Thorough()))
	if err != nil {
		c.HarnessError("C20 family B: corpus: %v", err)
		return nil, nil
	}
	j, err := Job(corpus)
	if err != nil {
		c.HarnessError("C20 family B: %v", err)
		return nil, nil
	}
	j.NoAux = noAux
	// thorough: additionally hook every field / element / pointee reached through ANY pointer,
	// slice or map in the runtime and in the generated packages (superset of the quick hooks)
	j.Deep = os.Getenv("VERIF_C20_DEEP") == "1" || (c.Thorough() && os.Getenv("VERIF_C20_DEEP") != "0")
	c.Note("deep_instrumentation_family_b", j.Deep)
	b, err := sched.Build(j)
	if err != nil {
		c.HarnessError("C20 family B: %v", err)
		return nil, nil
	}
	return b, corpus
}

// Run explores family B and reports through c.
func Run(c *core.Ctx) {
	c.Assume("family B: requests travel through the generated client, an in-memory wire (http.Request.Write -> http.ReadRequest -> goa muxer on a recorder, " +
		"no sockets, every step under the scheduler), the generated server and a stub service; the harness (verif/e2/drv), reflection, chi, net/http and encoding/* " +
		"are opaque steps; instrumented: goa's pkg, http, http/middleware, middleware AND the generated service, views, server and client packages of every design")
	c.Note("family_b_bounds", "2 threads x 1 request over a covering set of request pairs per mounted service (per method: every pair of request classes and each class with itself; "+
		"across methods: a ring of valid x valid and valid x error), every schedule with <= 2 preemptions (quick); "+
		"thorough: ALL pairs of the request universe of each service (the raw not-found request included) in ALL interleavings (complete DFS with sleep sets; the covering set additionally with <= 2 preemptions as a cross-check of the two searches), "+
		"and a covering set of triples (3 threads) with <= 2 preemptions; deep hooks")
	c.Note("family_b_encodings_and_prefix", map[string]string{
		"encodings": "the Accept header is set on the wire for ALL requests of a scenario: xml, gob, text/plain, text/html (json is what the generated clients negotiate by default; explicit in menu d); " +
			"the method that maps Accept itself is driven through its payload with all five encodings (one request class per encoding)",
		"menu_c": "per method that does not map Accept, per encoding in {xml, gob, text/plain, text/html}: sequential prefix = raw request for an unknown path (muxer not-found handler negotiated to that encoding), " +
			"then first valid || first valid and first valid || first error request (quick); every pair of request classes of the method (thorough)",
		"menu_d": "per service, per encoding in all five: no prefix, raw not-found || first valid request; and prefix = that valid request, then raw not-found || raw not-found",
		"client": "every request goes through the one generated client of the mounted service: two threads encode requests, cross the wire (scheduling point before Request.Write) and decode responses concurrently",
		"oracle": "sequential references are computed on a freshly mounted server WITHOUT the prefix request",
		"bounds": "<= 2 preemptions; every alternative of every sync.Pool Get at no preemption cost",
	})
	b, corpus := build(c, false)
	if b == nil {
		return
	}
	o := sched.Options{Families: []string{"c20B"}, Prefix: "B:", AuxIters: 40, AuxCopies: 32, AuxMax: 32}
	ms, err := b.Explore(c, o)
	if err != nil {
		c.HarnessError("C20 family B: %v", err)
		return
	}
	b.Feed(c, o, ms)
	b.NoteInstrumentation(c, "instrumentation_family_b")
	c.Note("family_b_corpus", map[string]any{"family": corpus.Family, "designs": len(corpus.Designs)})
	var sigs []string
	for _, m := range ms {
		for _, f := range m.Findings {
			if f.Class == "race" {
				sigs = append(sigs, f.Signature)
			}
		}
	}
	b.AuxRace(c, o, "aux_race_pass_family_b", sigs)
}

// Replay re-executes one recorded schedule of family B.
func Replay(c *core.Ctx, path string) {
	b, _ := build(c, true)
	if b != nil {
		b.Replay(c, path)
	}
}

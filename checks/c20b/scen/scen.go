//go:build verifworker

// Package scen holds the scenarios of C20 FAMILY B: generated servers and clients under the
// controlled scheduler. It is compiled only into the worker that the driver (checks/c20b)
// builds INSIDE the corpus module, together with the generated packages of the corpus.
//
// Alphabet: for every mounted service of the corpus (spec.C20B: every handler shape), the
// request menu of each of its methods (checks/c20b/menu): valid, invalid (validation
// failure), declared error (default ErrorResult / custom type / primitive), undeclared error
// (plain error and service error: the default error encoder), every view, Accept json / xml /
// gob / text/plain / text/html on the method that maps Accept; plus the RAW request for a path
// the server does not know (the muxer's not-found handler under the mounted generated server).
// One operation = one request issued through the GENERATED CLIENT whose Doer is the in-memory
// wire (scheduling point -> http.Request.Write -> http.ReadRequest -> goa muxer -> generated
// server -> stub). Two threads therefore use one generated client concurrently with different
// payloads: request encoding, the wire and response decoding of both calls interleave.
// Scenario dimensions: {requests in flight} x {encoding negotiated for all requests of the
// scenario by setting Accept on the wire: as designed, xml, gob, text/plain, text/html (json
// explicitly in menu (d))} x {sequential prefix request run on the mounted server before the
// threads start: none, raw not-found, a valid request}.
// Bound: 2 threads x 1 request over a covering set of request pairs per service (quick) /
// all pairs + 3 threads over a covering set of triples (thorough); schedules as configured
// by the driver (preemption bounds / all interleavings).
// Oracle: happens-before race oracle over every instrumented access of goa's runtime AND
// of the generated service, server, client and views packages; differential per-request
// oracle: (status, headers, body modulo error ID, decoded client result or client error,
// payload the service received, number of service invocations) must equal the sequential
// reference of the same request alone on a freshly mounted server (no prefix request, no
// peer); no deadlock, no panic.
package scen

import (
	"bytes"
	"encoding/gob"
	"encoding/json"
	"errors"
	"fmt"
	"io"
	"net/http"
	"os"
	"path/filepath"
	"reflect"
	"regexp"
	"sort"
	"strings"
	"unsafe"

	goahttp "goa.design/goa/v3/http"
	goa "goa.design/goa/v3/pkg"
	"goa.design/goa/v3/pkg/vrt"

	"verif/checks/c20b/menu"
	"verif/e2/drv"
	"verif/e2/spec"
)

type designInfo struct {
	Name   string `json:"name"`
	Dir    string `json:"dir"`
	Linked bool   `json:"linked"`
}

type corpusInfo struct {
	Family  string        `json:"family"`
	Designs []*designInfo `json:"designs"`
}

// op is one request of one thread (or the sequential prefix request): a request of a method's
// menu through the generated client, or (raw) a hand-built request for a path the server does
// not know, answered by the muxer's not-found handler.
type op struct {
	m   *spec.Method
	req menu.Request
	raw string // "" | "notfound"
}

// Encodings are the response encodings a scenario can negotiate for ALL its requests by
// overriding the Accept header on the wire ("" = whatever the generated client sends).
var Encodings = []struct{ Name, Accept string }{
	{"json", "application/json"}, {"xml", "application/xml"}, {"gob", "application/gob"},
	{"text", "text/plain"}, {"html", "text/html"},
}

// bEnv is the environment of one execution: the mounted service and the Accept override.
type bEnv struct {
	s      *drv.Svc
	accept string
}

// wireDoer sits between the generated client and the in-memory wire of the harness: a
// scheduling point (a real transport blocks here: other callers run between "request encoded"
// and "request sent"), then the Accept override of the scenario.
type wireDoer struct {
	inner goahttp.Doer
	env   *bEnv
}

func (d wireDoer) Do(req *http.Request) (*http.Response, error) {
	vrt.Yield()
	if d.env.accept != "" {
		req.Header.Set("Accept", d.env.accept)
	}
	return d.inner.Do(req)
}

// wrapDoers replaces every <Method>Doer of the generated client the harness mounted. drv.Svc
// keeps the client in an unexported reflect.Value field and verif/e2 is used as is, so the field
// is reached through its address; if the layout changes the scenario setup fails (harness error,
// never a silent pass).
func wrapDoers(s *drv.Svc, wrap func(goahttp.Doer) goahttp.Doer) error {
	f := reflect.ValueOf(s).Elem().FieldByName("client")
	if !f.IsValid() || f.Type() != reflect.TypeOf(reflect.Value{}) {
		return errors.New("drv.Svc has no reflect.Value field named client (harness layout changed)")
	}
	cv := *(*reflect.Value)(unsafe.Pointer(f.UnsafeAddr()))
	if !cv.IsValid() || cv.Kind() != reflect.Ptr || cv.Elem().Kind() != reflect.Struct {
		return errors.New("the mounted service has no generated HTTP client")
	}
	st := cv.Elem()
	doerT := reflect.TypeOf((*goahttp.Doer)(nil)).Elem()
	n := 0
	for i := 0; i < st.NumField(); i++ {
		fv := st.Field(i)
		if fv.Type() == doerT && fv.CanSet() && !fv.IsNil() {
			fv.Set(reflect.ValueOf(wrap(fv.Interface().(goahttp.Doer))))
			n++
		}
	}
	if n == 0 {
		return errors.New("the generated client has no Doer field")
	}
	return nil
}

// rawBody is the thread body of a raw request: no generated client, the request goes straight
// onto the wire and is answered by the muxer the generated server is mounted on.
func rawBody(o op, tag string) func(any) any {
	return func(env any) any {
		e := env.(*bEnv)
		req, err := http.NewRequest("GET", "http://verif.test/no-such-route/"+tag, nil)
		if err != nil {
			return "HARNESS: " + err.Error()
		}
		if e.accept != "" {
			req.Header.Set("Accept", e.accept)
		}
		vrt.Yield()
		resp, err := e.s.Do(req)
		if err != nil {
			return "HARNESS: " + err.Error()
		}
		b, _ := io.ReadAll(resp.Body)
		var hs []string
		for k, v := range resp.Header {
			hs = append(hs, k+"="+strings.Join(v, ","))
		}
		sort.Strings(hs)
		return fmt.Sprintf("status=%d headers=[%s] body=%s | service: not routed | client: raw request", resp.StatusCode, strings.Join(hs, "; "), showBody(resp.Header.Get("Content-Type"), string(b)))
	}
}

// showBody renders a response body: error ids masked; gob is binary (and carries the random
// error id): its length stands for it, its content shows in what the client decodes.
func showBody(ct, b string) string {
	if strings.Contains(ct, "gob") {
		return fmt.Sprintf("gob[%d bytes]", len(b))
	}
	return mask(strings.TrimSpace(b))
}

func shapeOf(m *spec.Method) string {
	switch m.Feat["family"] {
	case "L2-errors":
		return fmt.Sprintf("errors(%s,%s,%s)", m.Feat["level"], m.Feat["type"], m.Feat["status"])
	case "L2-views":
		return "views(" + m.Feat["shape"] + ")"
	}
	return m.Feat["shape"]
}

var (
	// the id may sit inside a quoted (and re-quoted) copy of the body: allow backslashes
	idJSON = regexp.MustCompile(`(\\*")(id|ID)(\\*":\\*")[^"\\]*(\\*")`)
	idXML  = regexp.MustCompile(`<id>[^<]*</id>`)
)

func mask(s string) string {
	s = idJSON.ReplaceAllString(s, `${1}${2}${3}*${4}`)
	return idXML.ReplaceAllString(s, `<id>*</id>`)
}

// buildError makes the error the stub returns for a request.
func buildError(s *drv.Svc, syms map[string]any, svc *spec.Service, m *spec.Method, r menu.Request, tag string) (error, error) {
	kind, name, _ := strings.Cut(r.Err, ":")
	switch kind {
	case "plain":
		return errors.New("boom " + tag), nil
	case "service-error":
		return goa.PermanentError("undeclared", "undeclared service error %s", tag), nil
	case "default":
		mk, _ := drv.SymByNorm(syms, "Make"+name).(func(error) *goa.ServiceError)
		if mk == nil {
			return nil, fmt.Errorf("no Make function for %s", name)
		}
		return mk(errors.New("declared " + name + " " + tag)), nil
	case "custom", "primitive":
		defs, _ := drv.DeclaredErrors(s.Spec, svc, m)
		var def *spec.ErrorDef
		for i := range defs {
			if defs[i].Name == name {
				def = &defs[i]
			}
		}
		if def == nil || def.Type == nil {
			return nil, fmt.Errorf("error %s is not declared with a type", name)
		}
		key := "type:" + name
		if kind == "custom" {
			key = "type:" + def.Type.Ref
		}
		rt, _ := drv.SymByNorm(syms, key).(reflect.Type)
		if rt == nil {
			return nil, fmt.Errorf("no registered type for error %s", name)
		}
		pv := reflect.New(rt)
		if kind == "custom" {
			if err := s.V.Set(pv.Elem(), def.Type, r.ErrValue); err != nil {
				return nil, err
			}
			if e, ok := pv.Interface().(error); ok {
				return e, nil
			}
		} else {
			pv.Elem().SetString(r.ErrValue.(string))
			if e, ok := pv.Elem().Interface().(error); ok {
				return e, nil
			}
		}
		return nil, fmt.Errorf("%s is not an error", rt)
	}
	return nil, fmt.Errorf("unknown error kind %q", r.Err)
}

// body is the thread body: one request through the generated client, observed end to end.
func body(svc *spec.Service, o op, tag string) func(any) any {
	if o.raw != "" {
		return rawBody(o, tag)
	}
	return func(env any) any {
		s := env.(*bEnv).s
		m := o.m
		syms := s.ServiceSyms()
		var herr error
		var serr error
		if o.req.Err != "" {
			var berr error
			serr, berr = buildError(s, syms, svc, m, o.req, tag)
			if berr != nil {
				return "HARNESS: " + berr.Error()
			}
		}
		reply := drv.ReplyWith(s, m, o.req.Result, o.req.View, serr, &herr)
		streamed := "-"
		if m.HTTP.SkipReq {
			// SkipRequestBodyEncodeDecode: the service gets (ctx, payload, body) and reads the
			// body to the end (an in-memory reader: never blocks) before it answers
			inner := reply
			reply = func(method string, args []any) []any {
				streamed = "missing"
				if len(args) >= 3 {
					if rc, ok := args[2].(io.ReadCloser); ok && rc != nil {
						b, err := io.ReadAll(rc)
						streamed = fmt.Sprintf("%q", b)
						if err != nil {
							streamed += " read-error=" + err.Error()
						}
					}
				}
				return inner(method, args)
			}
		}
		call := &drv.Call{Reply: reply}
		var payload any
		if pt := s.PayloadType(m.Name); pt != nil && m.Payload != nil {
			rv, err := s.V.New(pt, m.Payload, o.req.Payload)
			if err != nil {
				return "HARNESS: cannot build payload: " + err.Error()
			}
			payload = rv.Interface()
		}
		if m.HTTP.SkipReq {
			// the client endpoint takes the generated <Method>RequestData{Payload, Body}
			rt, _ := drv.SymByNorm(syms, "type:"+s.GoMethod(m.Name)+"RequestData").(reflect.Type)
			if rt == nil {
				return "HARNESS: no registered RequestData type for " + m.Name
			}
			rd := reflect.New(rt)
			if payload != nil {
				rd.Elem().FieldByName("Payload").Set(reflect.ValueOf(payload))
			}
			rd.Elem().FieldByName("Body").Set(reflect.ValueOf(io.NopCloser(strings.NewReader(o.req.Body))))
			payload = rd.Interface()
		}
		res, cerr := s.InvokeConcurrent(call, m.Name, payload)
		if herr != nil {
			return "HARNESS: " + herr.Error()
		}
		var sb strings.Builder
		if call.Rec != nil {
			var hs []string
			for k, v := range call.Rec.Header() {
				hs = append(hs, k+"="+strings.Join(v, ","))
			}
			sort.Strings(hs)
			fmt.Fprintf(&sb, "status=%d headers=[%s] body=%s writeheaders=%d", call.Rec.Code, strings.Join(hs, "; "),
				showBody(call.Rec.Header().Get("Content-Type"), call.Rec.Body.String()), call.WriteHeaders)
		} else {
			sb.WriteString("no-response")
		}
		if call.ServerPanic != "" {
			sb.WriteString(" SERVER-PANIC: " + firstLine(call.ServerPanic))
		}
		fmt.Fprintf(&sb, " | service: invoked=%d", call.Invoked)
		if call.Invoked > 0 {
			sb.WriteString(" payload=" + spec.Canon(drv.ReceivedPayload(s, m, call)))
			if m.HTTP.SkipReq {
				sb.WriteString(" streamed-body=" + streamed)
			}
		}
		sb.WriteString(" | client: ")
		switch {
		case cerr != nil:
			var namer goa.GoaErrorNamer
			name := "-"
			if errors.As(cerr, &namer) {
				name = namer.GoaErrorName()
			}
			var jb strings.Builder
			enc := json.NewEncoder(&jb)
			enc.SetEscapeHTML(false) // keep <id> maskable
			_ = enc.Encode(cerr)
			// a gob body quoted inside the client's error text carries the random error id in binary
			hide := func(s string) string { return s }
			if call.Rec != nil {
				hide = gobIDMask(call.Rec.Header().Get("Content-Type"), call.Rec.Body.Bytes())
			}
			fmt.Fprintf(&sb, "error type=%T name=%s text=%q value=%s", cerr, name, hide(mask(cerr.Error())), hide(mask(strings.TrimSpace(jb.String()))))
		case res == nil || m.Result == nil:
			sb.WriteString("no result")
		default:
			sb.WriteString("result=" + spec.Canon(s.V.Get(reflect.ValueOf(res), m.Result)))
		}
		return sb.String()
	}
}

func firstLine(s string) string {
	if i := strings.IndexByte(s, '\n'); i >= 0 {
		return s[:i]
	}
	return s
}

// diffClass names the FIRST stage of the round trip at which a request deviates from its
// sequential reference (later stages follow from it, so one root cause gives one class per
// request class): "service-input" (the service was not invoked with the payload this client
// sent), "response" (the service got the right payload, the server answered something else),
// "client" (the same response was decoded to something else).
func diffClass(got, want string) string {
	g, w := strings.Split(got, " | "), strings.Split(want, " | ")
	if len(g) != 3 || len(w) != 3 {
		return "shape"
	}
	switch {
	case g[1] != w[1]:
		return "service-input"
	case g[0] != w[0]:
		return "response"
	}
	return "client"
}

// class groups the labels of the menu into the request classes the pair coverage is about.
func class(label string) string {
	l := label
	if strings.HasPrefix(l, "accept:xml ") {
		return "accept-xml-error"
	}
	if strings.HasPrefix(l, "accept:") && !strings.Contains(l, " ") {
		return l // accept:json, accept:xml, accept:gob, accept:text/plain, accept:text/html: one class per encoding
	}
	if i := strings.IndexByte(l, ':'); i >= 0 {
		l = l[:i]
	}
	switch {
	case strings.HasPrefix(l, "upload "):
		return "upload-error"
	case strings.HasPrefix(l, "upload"):
		return "upload"
	case strings.HasPrefix(l, "valid"):
		return "valid"
	case strings.HasPrefix(l, "invalid"):
		return "invalid"
	case strings.HasPrefix(l, "undeclared"):
		return "undeclared"
	}
	return l // declared-default, declared-custom, declared-primitive, view, view-fixed, accept
}

// Scenarios enumerates the family B scenarios of a corpus directory.
func Scenarios(corpusDir string) []vrt.Scenario {
	var out []vrt.Scenario
	fail := func(format string, a ...any) []vrt.Scenario {
		fmt.Fprintf(os.Stderr, "c20b worker: "+format+"\n", a...)
		os.Exit(2)
		return nil
	}
	b, err := os.ReadFile(filepath.Join(corpusDir, "CORPUS.json"))
	if err != nil {
		return fail("%v", err)
	}
	var ci corpusInfo
	if err := json.Unmarshal(b, &ci); err != nil {
		return fail("CORPUS.json: %v", err)
	}
	for _, d := range ci.Designs {
		if !d.Linked {
			continue
		}
		sb, err := os.ReadFile(filepath.Join(d.Dir, "spec.json"))
		if err != nil {
			return fail("%v", err)
		}
		sp := new(spec.Spec)
		if err := json.Unmarshal(sb, sp); err != nil {
			return fail("%s: %v", d.Name, err)
		}
		for _, svc := range sp.Services {
			out = append(out, serviceScenarios(d.Name, sp, svc)...)
		}
	}
	// triples may coincide: keep the first of each name
	seen := map[string]bool{}
	var uniq []vrt.Scenario
	for _, s := range out {
		if !seen[s.Name] {
			seen[s.Name] = true
			uniq = append(uniq, s)
		}
	}
	return uniq
}

func serviceScenarios(design string, sp *spec.Spec, svc *spec.Service) []vrt.Scenario {
	// the request universe of the service, in menu order
	var univ []op
	perMethod := map[string][]int{}
	for _, m := range svc.Methods {
		if m.HTTP == nil {
			continue
		}
		for _, r := range menu.Requests(sp, svc, m, "t") {
			perMethod[m.Name] = append(perMethod[m.Name], len(univ))
			univ = append(univ, op{m: m, req: r})
		}
	}
	// the raw not-found request is one more entry of the universe
	rawNotFound := len(univ)
	univ = append(univ, op{raw: "notfound", req: menu.Request{Label: "raw-notfound"}})
	// mkx builds one scenario: enc names the encoding negotiated for ALL its requests (-1: what
	// the generated client sends), pre the sequential prefix request (-1: none)
	mkx := func(thoroughOnly bool, enc, pre int, idx ...int) vrt.Scenario {
		var parts, sig []string
		// thorough: two threads = all interleavings, and for the quick covering set also preemption bound 2 (the complete search
		// costs a few dozen executions here and subsumes every bound); three threads =
		// preemption bound 2 (their complete search runs to 10^4..10^5 inequivalent interleavings
		// as soon as the pattern cache is involved)
		// pairs outside the quick covering set: all interleavings only
		sc := vrt.Scenario{Family: "c20B", ThoroughOnly: thoroughOnly, ThoroughBound: 2, NoThoroughComplete: len(idx) >= 3,
			NoThoroughBounded: thoroughOnly && len(idx) == 2}
		retag := func(i int, tag string) op {
			if univ[i].raw != "" {
				return univ[i]
			}
			m := univ[i].m
			// the menu is regenerated with the issuer's tag so that two requests of the same
			// class carry different values
			var req menu.Request
			for _, r := range menu.Requests(sp, svc, m, tag) {
				if r.Label == univ[i].req.Label {
					req = r
				}
			}
			return op{m: m, req: req}
		}
		describe := func(o op) (part, sg string) {
			if o.raw != "" {
				return "raw:" + o.raw, "raw:" + o.raw
			}
			return o.m.Name + ":" + o.req.Label, shapeOf(o.m) + ":" + o.req.Label
		}
		for t, i := range idx {
			tag := fmt.Sprintf("t%d", t)
			o := retag(i, tag)
			sc.Threads = append(sc.Threads, body(svc, o, tag))
			p, sg := describe(o)
			parts = append(parts, p)
			sig = append(sig, sg)
			// signatures carry the request CLASS only (one root cause in a template shows in
			// every shape: the shape is in the scenario name and in the description)
			sc.Labels = append(sc.Labels, class(o.req.Label))
		}
		sc.Name = fmt.Sprintf("c20B/%s/%s %s", design, svc.Name, strings.Join(parts, " || "))
		sc.SigName = "c20B"
		sc.DiffClass = diffClass
		sc.Doc = "requests in flight on one mounted generated server: " + strings.Join(sig, " || ")
		accept := ""
		if enc >= 0 {
			accept = Encodings[enc].Accept
			sc.Name += " @accept=" + Encodings[enc].Name
			sc.Doc += "; every request negotiates " + accept + " (Accept set on the wire)"
		}
		if pre >= 0 {
			po := retag(pre, "pre")
			pbody := body(svc, po, "pre")
			sc.Prefix = func(env any) { _ = pbody(env) }
			p, sg := describe(po)
			sc.Name += " pre=" + p
			sc.Doc += "; sequential prefix request on the same server before the threads start: " + sg
		}
		sc.Setup = func() any {
			goa.VerifResetPatterns()
			s, err := drv.Mount(design, sp, svc)
			if err != nil {
				panic("mount: " + err.Error())
			}
			e := &bEnv{s: s, accept: accept}
			if err := wrapDoers(s, func(d goahttp.Doer) goahttp.Doer { return wireDoer{inner: d, env: e} }); err != nil {
				panic("mount: " + err.Error())
			}
			return e
		}
		return sc
	}
	mk := func(thoroughOnly bool, idx ...int) vrt.Scenario { return mkx(thoroughOnly, -1, -1, idx...) }
	var out []vrt.Scenario
	seen := map[string]bool{}
	add := func(thoroughOnly bool, idx ...int) {
		sorted := append([]int{}, idx...)
		sort.Ints(sorted)
		k := fmt.Sprint(sorted)
		if seen[k] {
			return
		}
		seen[k] = true
		out = append(out, mk(thoroughOnly, sorted...))
	}
	// QUICK: a covering set of pairs.
	//  (a) per method: every pair of DISTINCT request classes, and each class with itself
	//      (first representative of a class);
	//  (b) across methods: the first request of each method with the first error request of the
	//      next method (ring).
	var names []string
	for _, m := range svc.Methods {
		if len(perMethod[m.Name]) > 0 {
			names = append(names, m.Name)
		}
	}
	firstErr := func(mn string) int {
		for _, i := range perMethod[mn] {
			if univ[i].req.Err != "" {
				return i
			}
		}
		return perMethod[mn][len(perMethod[mn])-1]
	}
	for _, mn := range names {
		rep := map[string]int{}
		var classes []string
		for _, i := range perMethod[mn] {
			c := class(univ[i].req.Label)
			if _, ok := rep[c]; !ok {
				rep[c] = i
				classes = append(classes, c)
			}
		}
		for a := 0; a < len(classes); a++ {
			for b := a; b < len(classes); b++ {
				add(false, rep[classes[a]], rep[classes[b]])
			}
		}
	}
	for k, mn := range names {
		if len(names) < 2 {
			break
		}
		next := names[(k+1)%len(names)]
		add(false, perMethod[mn][0], firstErr(next))
		add(false, perMethod[mn][0], perMethod[next][0])
	}
	// ENCODINGS x OUTCOMES FROM NON-INITIAL STATES (quick and thorough). The designs fix which
	// method negotiates what; here the Accept header is set on the wire, so EVERY generated
	// handler answers in every encoding goa's ResponseEncoder knows, and a sequential prefix
	// request runs on the mounted server before the threads start.
	//  (c) per method that does not map Accept itself, per encoding e in {xml, gob, text/plain,
	//      text/html} (json is what (a) and (b) already negotiate): prefix = raw request for an
	//      unknown path (the muxer's not-found handler, negotiated to e), then
	//      first valid || first valid, and first valid || first error request;
	//      thorough: every pair of request classes of the method instead of these two;
	//  (d) per service, per encoding e in all five: no prefix, raw not-found || first valid
	//      request of the first method; and prefix = that valid request, then raw not-found ||
	//      raw not-found.
	addx := func(thoroughOnly bool, enc, pre int, idx ...int) {
		sorted := append([]int{}, idx...)
		sort.Ints(sorted)
		k := fmt.Sprint(enc, pre, sorted)
		if seen[k] {
			return
		}
		seen[k] = true
		out = append(out, mkx(thoroughOnly, enc, pre, sorted...))
	}
	mapsAccept := func(m *spec.Method) bool {
		if m.HTTP == nil {
			return false
		}
		for _, h := range m.HTTP.Headers {
			if strings.EqualFold(h.Wire, "Accept") {
				return true
			}
		}
		return false
	}
	firstValid := func(mn string) int {
		for _, i := range perMethod[mn] {
			if univ[i].req.Err == "" {
				return i
			}
		}
		return perMethod[mn][0]
	}
	for _, m := range svc.Methods {
		mn := m.Name
		if len(perMethod[mn]) == 0 || mapsAccept(m) {
			continue
		}
		for e := 1; e < len(Encodings); e++ {
			v := firstValid(mn)
			addx(false, e, rawNotFound, v, v)
			if fe := firstErr(mn); univ[fe].req.Err != "" {
				addx(false, e, rawNotFound, v, fe)
			}
			rep := map[string]int{}
			var classes []string
			for _, i := range perMethod[mn] {
				c := class(univ[i].req.Label)
				if _, ok := rep[c]; !ok {
					rep[c] = i
					classes = append(classes, c)
				}
			}
			for a := 0; a < len(classes); a++ {
				for b := a; b < len(classes); b++ {
					addx(true, e, rawNotFound, rep[classes[a]], rep[classes[b]])
				}
			}
		}
	}
	if len(names) > 0 {
		v0 := firstValid(names[0])
		for e := range Encodings {
			addx(false, e, -1, rawNotFound, v0)
			addx(false, e, v0, rawNotFound, rawNotFound)
		}
	}
	// THOROUGH: all pairs of the universe, and triples: per method (first, first error, last)
	// and across methods (first requests of three consecutive methods, and first + error + error).
	for a := 0; a < len(univ); a++ {
		for b := a; b < len(univ); b++ {
			add(true, a, b)
		}
	}
	for k, mn := range names {
		l := perMethod[mn]
		out = append(out, mk(true, l[0], firstErr(mn), l[len(l)-1]))
		if len(names) >= 3 {
			n1, n2 := names[(k+1)%len(names)], names[(k+2)%len(names)]
			out = append(out, mk(true, l[0], perMethod[n1][0], perMethod[n2][0]))
			out = append(out, mk(true, l[0], firstErr(n1), firstErr(n2)))
		}
	}
	return out
}

// gobIDMask returns a function hiding the random error id of a gob encoded error body wherever
// the body is quoted (generated clients put the raw body of an unexpected response into their
// error text). The id is found by decoding the body; a body without an ID field hides nothing.
func gobIDMask(ct string, body []byte) func(string) string {
	if !strings.Contains(ct, "gob") || len(body) == 0 {
		return func(s string) string { return s }
	}
	var v struct{ ID string }
	if err := gob.NewDecoder(bytes.NewReader(body)).Decode(&v); err != nil || len(v.ID) < 6 {
		return func(s string) string { return s }
	}
	return func(s string) string { return strings.ReplaceAll(s, v.ID, "*") }
}

var (
	designDir = regexp.MustCompile(`^d\d{4}/`)
	svcDir    = regexp.MustCompile(`/s\d+(/|$)`)
	methodNum = regexp.MustCompile(`M\d+`)
)

// NormalizeSite abstracts a site of generated code for race signatures: no design number, no
// service number, no method number (the root cause of a race in generated code is the
// template). Sites of goa's own packages are left alone.
func NormalizeSite(file, fn string) (string, string) {
	if !designDir.MatchString(file) {
		return file, fn
	}
	file = designDir.ReplaceAllString(file, "")
	file = svcDir.ReplaceAllString(file, "/svc$1")
	return file, methodNum.ReplaceAllString(fn, "MN")
}

//go:build verifworker

// Package scen holds the scenarios of C20 FAMILY B: generated servers and clients under the
// controlled scheduler. It is compiled only into the worker that the driver (checks/c20b)
// builds INSIDE the corpus module, together with the generated packages of the corpus.
//
// Alphabet: for every mounted service of the corpus (spec.C20B: every handler shape), the
// request menu of each of its methods (checks/c20b/menu): valid, invalid (validation
// failure), declared error (default ErrorResult / custom type / primitive), undeclared error
// (plain error and service error: the default error encoder), every view, Accept json vs xml.
// One operation = one request issued through the GENERATED CLIENT whose Doer is the in-memory
// wire (http.Request.Write -> http.ReadRequest -> goa muxer -> generated server -> stub).
// Bound: 2 threads x 1 request over a covering set of request pairs per service (quick) /
// all pairs + 3 threads over a covering set of triples (thorough); schedules as configured
// by the driver (preemption bounds / all interleavings).
// Oracle: happens-before race oracle over every instrumented access of goa's runtime AND
// of the generated service, server, client and views packages; differential per-request
// oracle: (status, headers, body modulo error ID, decoded client result or client error,
// payload the service received, number of service invocations) must equal the sequential
// reference of the same request alone on a freshly mounted server; no deadlock, no panic.
package scen

import (
	"encoding/json"
	"errors"
	"fmt"
	"io"
	"os"
	"path/filepath"
	"reflect"
	"regexp"
	"sort"
	"strings"

	goa "goa.design/goa/v3/pkg"
	"goa.design/goa/v3/pkg/vrt"

	"verif/checks/c20b/menu"
	"verif/e2/drv"
	"verif/e2/spec"
)

type designInfo struct {
	Name   string `json:"name"`
	Dir    string `json:"dir"`
	Linked bool   `json:"linked"`
}

type corpusInfo struct {
	Family  string        `json:"family"`
	Designs []*designInfo `json:"designs"`
}

// op is one request of one thread.
type op struct {
	m   *spec.Method
	req menu.Request
}

func shapeOf(m *spec.Method) string {
	switch m.Feat["family"] {
	case "L2-errors":
		return fmt.Sprintf("errors(%s,%s,%s)", m.Feat["level"], m.Feat["type"], m.Feat["status"])
	case "L2-views":
		return "views(" + m.Feat["shape"] + ")"
	}
	return m.Feat["shape"]
}

var (
	// the id may sit inside a quoted (and re-quoted) copy of the body: allow backslashes
	idJSON = regexp.MustCompile(`(\\*")(id|ID)(\\*":\\*")[^"\\]*(\\*")`)
	idXML  = regexp.MustCompile(`<id>[^<]*</id>`)
)

func mask(s string) string {
	s = idJSON.ReplaceAllString(s, `${1}${2}${3}*${4}`)
	return idXML.ReplaceAllString(s, `<id>*</id>`)
}

// buildError makes the error the stub returns for a request.
func buildError(s *drv.Svc, syms map[string]any, svc *spec.Service, m *spec.Method, r menu.Request, tag string) (error, error) {
	kind, name, _ := strings.Cut(r.Err, ":")
	switch kind {
	case "plain":
		return errors.New("boom " + tag), nil
	case "service-error":
		return goa.PermanentError("undeclared", "undeclared service error %s", tag), nil
	case "default":
		mk, _ := drv.SymByNorm(syms, "Make"+name).(func(error) *goa.ServiceError)
		if mk == nil {
			return nil, fmt.Errorf("no Make function for %s", name)
		}
		return mk(errors.New("declared " + name + " " + tag)), nil
	case "custom", "primitive":
		defs, _ := drv.DeclaredErrors(s.Spec, svc, m)
		var def *spec.ErrorDef
		for i := range defs {
			if defs[i].Name == name {
				def = &defs[i]
			}
		}
		if def == nil || def.Type == nil {
			return nil, fmt.Errorf("error %s is not declared with a type", name)
		}
		key := "type:" + name
		if kind == "custom" {
			key = "type:" + def.Type.Ref
		}
		rt, _ := drv.SymByNorm(syms, key).(reflect.Type)
		if rt == nil {
			return nil, fmt.Errorf("no registered type for error %s", name)
		}
		pv := reflect.New(rt)
		if kind == "custom" {
			if err := s.V.Set(pv.Elem(), def.Type, r.ErrValue); err != nil {
				return nil, err
			}
			if e, ok := pv.Interface().(error); ok {
				return e, nil
			}
		} else {
			pv.Elem().SetString(r.ErrValue.(string))
			if e, ok := pv.Elem().Interface().(error); ok {
				return e, nil
			}
		}
		return nil, fmt.Errorf("%s is not an error", rt)
	}
	return nil, fmt.Errorf("unknown error kind %q", r.Err)
}

// body is the thread body: one request through the generated client, observed end to end.
func body(svc *spec.Service, o op, tag string) func(any) any {
	return func(env any) any {
		s := env.(*drv.Svc)
		m := o.m
		syms := s.ServiceSyms()
		var herr error
		var serr error
		if o.req.Err != "" {
			var berr error
			serr, berr = buildError(s, syms, svc, m, o.req, tag)
			if berr != nil {
				return "HARNESS: " + berr.Error()
			}
		}
		reply := drv.ReplyWith(s, m, o.req.Result, o.req.View, serr, &herr)
		streamed := "-"
		if m.HTTP.SkipReq {
			// SkipRequestBodyEncodeDecode: the service gets (ctx, payload, body) and reads the
			// body to the end (an in-memory reader: never blocks) before it answers
			inner := reply
			reply = func(method string, args []any) []any {
				streamed = "missing"
				if len(args) >= 3 {
					if rc, ok := args[2].(io.ReadCloser); ok && rc != nil {
						b, err := io.ReadAll(rc)
						streamed = fmt.Sprintf("%q", b)
						if err != nil {
							streamed += " read-error=" + err.Error()
						}
					}
				}
				return inner(method, args)
			}
		}
		call := &drv.Call{Reply: reply}
		var payload any
		if pt := s.PayloadType(m.Name); pt != nil && m.Payload != nil {
			rv, err := s.V.New(pt, m.Payload, o.req.Payload)
			if err != nil {
				return "HARNESS: cannot build payload: " + err.Error()
			}
			payload = rv.Interface()
		}
		if m.HTTP.SkipReq {
			// the client endpoint takes the generated <Method>RequestData{Payload, Body}
			rt, _ := drv.SymByNorm(syms, "type:"+s.GoMethod(m.Name)+"RequestData").(reflect.Type)
			if rt == nil {
				return "HARNESS: no registered RequestData type for " + m.Name
			}
			rd := reflect.New(rt)
			if payload != nil {
				rd.Elem().FieldByName("Payload").Set(reflect.ValueOf(payload))
			}
			rd.Elem().FieldByName("Body").Set(reflect.ValueOf(io.NopCloser(strings.NewReader(o.req.Body))))
			payload = rd.Interface()
		}
		res, cerr := s.InvokeConcurrent(call, m.Name, payload)
		if herr != nil {
			return "HARNESS: " + herr.Error()
		}
		var sb strings.Builder
		if call.Rec != nil {
			var hs []string
			for k, v := range call.Rec.Header() {
				hs = append(hs, k+"="+strings.Join(v, ","))
			}
			sort.Strings(hs)
			fmt.Fprintf(&sb, "status=%d headers=[%s] body=%s writeheaders=%d", call.Rec.Code, strings.Join(hs, "; "),
				mask(strings.TrimSpace(call.Rec.Body.String())), call.WriteHeaders)
		} else {
			sb.WriteString("no-response")
		}
		if call.ServerPanic != "" {
			sb.WriteString(" SERVER-PANIC: " + firstLine(call.ServerPanic))
		}
		fmt.Fprintf(&sb, " | service: invoked=%d", call.Invoked)
		if call.Invoked > 0 {
			sb.WriteString(" payload=" + spec.Canon(drv.ReceivedPayload(s, m, call)))
			if m.HTTP.SkipReq {
				sb.WriteString(" streamed-body=" + streamed)
			}
		}
		sb.WriteString(" | client: ")
		switch {
		case cerr != nil:
			var namer goa.GoaErrorNamer
			name := "-"
			if errors.As(cerr, &namer) {
				name = namer.GoaErrorName()
			}
			var jb strings.Builder
			enc := json.NewEncoder(&jb)
			enc.SetEscapeHTML(false) // keep <id> maskable
			_ = enc.Encode(cerr)
			fmt.Fprintf(&sb, "error type=%T name=%s text=%q value=%s", cerr, name, mask(cerr.Error()), mask(strings.TrimSpace(jb.String())))
		case res == nil || m.Result == nil:
			sb.WriteString("no result")
		default:
			sb.WriteString("result=" + spec.Canon(s.V.Get(reflect.ValueOf(res), m.Result)))
		}
		return sb.String()
	}
}

func firstLine(s string) string {
	if i := strings.IndexByte(s, '\n'); i >= 0 {
		return s[:i]
	}
	return s
}

// diffClass says which parts of the observable deviate from the sequential reference.
func diffClass(got, want string) string {
	g, w := strings.Split(got, " | "), strings.Split(want, " | ")
	names := []string{"response", "service", "client"}
	if len(g) != 3 || len(w) != 3 {
		return "shape"
	}
	var parts []string
	for i := range names {
		if g[i] != w[i] {
			parts = append(parts, names[i])
		}
	}
	return strings.Join(parts, "+")
}

// class groups the labels of the menu into the request classes the pair coverage is about.
func class(label string) string {
	l := label
	if strings.HasPrefix(l, "accept:xml ") {
		return "accept-xml-error"
	}
	if i := strings.IndexByte(l, ':'); i >= 0 {
		l = l[:i]
	}
	switch {
	case strings.HasPrefix(l, "upload "):
		return "upload-error"
	case strings.HasPrefix(l, "upload"):
		return "upload"
	case strings.HasPrefix(l, "valid"):
		return "valid"
	case strings.HasPrefix(l, "invalid"):
		return "invalid"
	case strings.HasPrefix(l, "undeclared"):
		return "undeclared"
	}
	return l // declared-default, declared-custom, declared-primitive, view, view-fixed, accept
}

// Scenarios enumerates the family B scenarios of a corpus directory.
func Scenarios(corpusDir string) []vrt.Scenario {
	var out []vrt.Scenario
	fail := func(format string, a ...any) []vrt.Scenario {
		fmt.Fprintf(os.Stderr, "c20b worker: "+format+"\n", a...)
		os.Exit(2)
		return nil
	}
	b, err := os.ReadFile(filepath.Join(corpusDir, "CORPUS.json"))
	if err != nil {
		return fail("%v", err)
	}
	var ci corpusInfo
	if err := json.Unmarshal(b, &ci); err != nil {
		return fail("CORPUS.json: %v", err)
	}
	for _, d := range ci.Designs {
		if !d.Linked {
			continue
		}
		sb, err := os.ReadFile(filepath.Join(d.Dir, "spec.json"))
		if err != nil {
			return fail("%v", err)
		}
		sp := new(spec.Spec)
		if err := json.Unmarshal(sb, sp); err != nil {
			return fail("%s: %v", d.Name, err)
		}
		for _, svc := range sp.Services {
			out = append(out, serviceScenarios(d.Name, sp, svc)...)
		}
	}
	// triples may coincide: keep the first of each name
	seen := map[string]bool{}
	var uniq []vrt.Scenario
	for _, s := range out {
		if !seen[s.Name] {
			seen[s.Name] = true
			uniq = append(uniq, s)
		}
	}
	return uniq
}

func serviceScenarios(design string, sp *spec.Spec, svc *spec.Service) []vrt.Scenario {
	// the request universe of the service, in menu order
	var univ []op
	perMethod := map[string][]int{}
	for _, m := range svc.Methods {
		if m.HTTP == nil {
			continue
		}
		for _, r := range menu.Requests(sp, svc, m, "t") {
			perMethod[m.Name] = append(perMethod[m.Name], len(univ))
			univ = append(univ, op{m, r})
		}
	}
	mk := func(thoroughOnly bool, idx ...int) vrt.Scenario {
		var parts, sig []string
		// thorough: two threads = all interleavings, and for the quick covering set also preemption bound 2 (the complete search
		// costs a few dozen executions here and subsumes every bound); three threads =
		// preemption bound 2 (their complete search runs to 10^4..10^5 inequivalent interleavings
		// as soon as the pattern cache is involved)
		// pairs outside the quick covering set: all interleavings only
		sc := vrt.Scenario{Family: "c20B", ThoroughOnly: thoroughOnly, ThoroughBound: 2, NoThoroughComplete: len(idx) >= 3,
			NoThoroughBounded: thoroughOnly && len(idx) == 2}
		for t, i := range idx {
			tag := fmt.Sprintf("t%d", t)
			m := univ[i].m
			// the menu is regenerated with the thread's tag so that two requests of the same
			// class carry different values
			var req menu.Request
			for _, r := range menu.Requests(sp, svc, m, tag) {
				if r.Label == univ[i].req.Label {
					req = r
				}
			}
			sc.Threads = append(sc.Threads, body(svc, op{m, req}, tag))
			parts = append(parts, m.Name+":"+req.Label)
			sig = append(sig, shapeOf(m)+":"+req.Label)
			// signatures carry the request CLASS only (one root cause in a template shows in
			// every shape: the shape is in the scenario name and in the description)
			sc.Labels = append(sc.Labels, class(req.Label))
		}
		sc.Name = fmt.Sprintf("c20B/%s/%s %s", design, svc.Name, strings.Join(parts, " || "))
		sc.SigName = "c20B"
		sc.DiffClass = diffClass
		sc.Doc = "requests in flight on one mounted generated server: " + strings.Join(sig, " || ")
		sc.Setup = func() any {
			goa.VerifResetPatterns()
			s, err := drv.Mount(design, sp, svc)
			if err != nil {
				panic("mount: " + err.Error())
			}
			return s
		}
		return sc
	}
	var out []vrt.Scenario
	seen := map[string]bool{}
	add := func(thoroughOnly bool, idx ...int) {
		sorted := append([]int{}, idx...)
		sort.Ints(sorted)
		k := fmt.Sprint(sorted)
		if seen[k] {
			return
		}
		seen[k] = true
		out = append(out, mk(thoroughOnly, sorted...))
	}
	// QUICK: a covering set of pairs.
	//  (a) per method: every pair of DISTINCT request classes, and each class with itself
	//      (first representative of a class);
	//  (b) across methods: the first request of each method with the first error request of the
	//      next method (ring).
	var names []string
	for _, m := range svc.Methods {
		if len(perMethod[m.Name]) > 0 {
			names = append(names, m.Name)
		}
	}
	firstErr := func(mn string) int {
		for _, i := range perMethod[mn] {
			if univ[i].req.Err != "" {
				return i
			}
		}
		return perMethod[mn][len(perMethod[mn])-1]
	}
	for _, mn := range names {
		rep := map[string]int{}
		var classes []string
		for _, i := range perMethod[mn] {
			c := class(univ[i].req.Label)
			if _, ok := rep[c]; !ok {
				rep[c] = i
				classes = append(classes, c)
			}
		}
		for a := 0; a < len(classes); a++ {
			for b := a; b < len(classes); b++ {
				add(false, rep[classes[a]], rep[classes[b]])
			}
		}
	}
	for k, mn := range names {
		if len(names) < 2 {
			break
		}
		next := names[(k+1)%len(names)]
		add(false, perMethod[mn][0], firstErr(next))
		add(false, perMethod[mn][0], perMethod[next][0])
	}
	// THOROUGH: all pairs of the universe, and triples: per method (first, first error, last)
	// and across methods (first requests of three consecutive methods, and first + error + error).
	for a := 0; a < len(univ); a++ {
		for b := a; b < len(univ); b++ {
			add(true, a, b)
		}
	}
	for k, mn := range names {
		l := perMethod[mn]
		out = append(out, mk(true, l[0], firstErr(mn), l[len(l)-1]))
		if len(names) >= 3 {
			n1, n2 := names[(k+1)%len(names)], names[(k+2)%len(names)]
			out = append(out, mk(true, l[0], perMethod[n1][0], perMethod[n2][0]))
			out = append(out, mk(true, l[0], firstErr(n1), firstErr(n2)))
		}
	}
	return out
}

var (
	designDir = regexp.MustCompile(`^d\d{4}/`)
	svcDir    = regexp.MustCompile(`/s\d+(/|$)`)
	methodNum = regexp.MustCompile(`M\d+`)
)

// NormalizeSite abstracts a site of generated code for race signatures: no design number, no
// service number, no method number (the root cause of a race in generated code is the
// template). Sites of goa's own packages are left alone.
func NormalizeSite(file, fn string) (string, string) {
	if !designDir.MatchString(file) {
		return file, fn
	}
	file = designDir.ReplaceAllString(file, "")
	file = svcDir.ReplaceAllString(file, "/svc$1")
	return file, methodNum.ReplaceAllString(fn, "MN")
}

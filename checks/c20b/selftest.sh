#!/bin/sh
# Demonstrates detection for C20 FAMILY B (generated servers and clients under the scheduler).
#
# usage: checks/c20b/selftest.sh [name-substring]
#
# The mutants change goa's SERVER TEMPLATES (and runtime), so the generated code itself must
# be regenerated: every checks/c20b/mutants/*.diff is applied to a scratch git worktree of
# /repo under /tmp/c20b-selftest (removed at the end, /repo's working tree is never touched)
# and C20 runs against it with VERIF_REPO (docs/CHECK_AUTHORING.md, last section): fresh
# genworker, fresh corpus, fresh instrumentation, fresh worker. Signatures are compared with
# those of the unmutated tree:
#   "# expect: <text>"  a NEW signature containing <text> must be reported
#   "# expect: none"    BENIGN mutant: the signature set must not change
# Note: goa's own golden-file tests pin the template text, so any template mutant fails them;
# what is shown here is that the behaviour change is seen.
cd "$(dirname "$0")/../.." || exit 2
filter="$1"
S=/tmp/c20b-selftest
rm -rf "$S"; mkdir -p "$S"
sigs() { grep '^  signature: ' | sed 's/^  signature: //' | sort -u; }
mkdir -p replays/C20
(cd replays && ls C20/* 2>/dev/null | sort) > "$S/replays.before"
touch "$S/start"
# only the products of OUR scratch worktrees are removed (other agents use VERIF_REPO too)
drop_alt() { # $1 = worktree path
  tag=$(echo "$1" | cksum | cut -d' ' -f1)
  h=$(printf %s "$1" | sha256sum | cut -c1-8)
  rm -rf ".work/alt-$tag" ".work/e2-alt-$h" bin/*.alt-"$tag"
}
cleanup() {
  (cd replays && ls C20/* 2>/dev/null | sort | comm -13 "$S/replays.before" - | xargs -r rm -f)
  for w in "$S"/goa-*; do [ -d "$w" ] && { git -C /repo worktree remove --force "$w" 2>/dev/null; drop_alt "$w"; }; done
  find bin -name 'genworker.alt-*' -newer "$S/start" -delete 2>/dev/null
  rm -rf "$S"
}
trap cleanup EXIT
VERIF_C20_FAMILIES=B ./run.sh C20 quick --no-evidence > "$S/base.out" 2>&1; sigs < "$S/base.out" > "$S/base.sigs"
if grep -q HARNESS-ERROR "$S/base.out"; then echo "baseline run has a harness error"; grep HARNESS "$S/base.out" | cut -c1-300; exit 2; fi
echo "baseline signatures (unmutated tree): $(wc -l < "$S/base.sigs")"
fail=0
for m in checks/c20b/mutants/*.diff; do
  name=$(basename "$m" .diff)
  case "$name" in *"$filter"*) ;; *) continue;; esac
  expect=$(sed -n 's/^# expect: //p' "$m")
  w="$S/goa-$name"
  git -C /repo worktree add --detach "$w" HEAD > /dev/null 2>&1 || { echo "FAIL $name: cannot create worktree"; fail=1; continue; }
  # the scratch copy must be /repo's WORKING TREE, not only HEAD
  (cd /repo && git diff HEAD) | (cd "$w" && patch -s -p1) 2>/dev/null
  (cd "$w" && patch -s -p1 < "$OLDPWD/$m") || { echo "FAIL $name: mutant does not apply to the current tree"; fail=1; continue; }
  VERIF_C20_FAMILIES=B VERIF_REPO="$w" ./run.sh C20 quick --no-evidence > "$S/$name.out" 2>&1; sigs < "$S/$name.out" > "$S/$name.sigs"
  new=$(comm -13 "$S/base.sigs" "$S/$name.sigs"); gone=$(comm -23 "$S/base.sigs" "$S/$name.sigs")
  if grep -q HARNESS-ERROR "$S/$name.out"; then echo "FAIL $name: harness error"; grep HARNESS-ERROR "$S/$name.out" | cut -c1-400; fail=1
  else case "$expect" in
    none) if [ -z "$new" ] && [ -z "$gone" ]; then echo "ok   $name: benign, no alarm"; else echo "FAIL $name: benign mutant changed the verdict: +[$new] -[$gone]"; fail=1; fi;;
    *) if echo "$new" | grep -q "$expect"; then echo "ok   $name: DETECTED: $(echo "$new" | grep "$expect" | head -1 | cut -c1-170)  (+$(echo "$new" | wc -l) new signature(s))"
       else echo "FAIL $name: expected a new signature containing '$expect', got: [$new]"; tail -3 "$S/$name.out" | cut -c1-300; fail=1; fi;;
  esac; fi
  git -C /repo worktree remove --force "$w" 2>/dev/null
  drop_alt "$w"
done
exit $fail

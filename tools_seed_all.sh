#!/bin/bash
# usage: tools_seed_all.sh [regex over seeded ids, default all]
# Re-confirms seeded changes against the current /repo and /verif: patch still applies, demo
# fails with / passes without, and the named checks report a VIOLATION. One RESULT line each.
cd /verif
FILTER="${1:-.}"
for D in seeded/*/; do
  ID=$(basename "$D"); P=${ID%-*}; V=${ID#*-}
  echo "$ID" | grep -Eq "$FILTER" || continue
  [ -f "$D/patch.diff" ] || continue
  # seeded/ is the source of truth: stage a copy where tools_seed.sh expects a delivery
  rm -rf "/tmp/seedall/$P-out/$V"; mkdir -p "/tmp/seedall/$P-out/$V"; cp -r "$D"/patch.diff "$D"/demo "$D"/meta.json "/tmp/seedall/$P-out/$V/" 2>/dev/null
  # checks recorded at the last confirmation that reported violations (default: the property's own)
  CHECKS=$(jq -r '.coordinator_confirmation.checks_run[]? | select(test(":exit=1:")) | split(":")[0]' "$D/meta.json" 2>/dev/null | tr '\n' ' ')
  [ -n "$CHECKS" ] || CHECKS="$P"
  SEED_ROOT=/tmp/seedall SEED_SKIP_TESTS=1 ./tools_seed.sh "$P" "$V" $CHECKS 2>&1 | tail -1
done

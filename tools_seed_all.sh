#!/bin/bash
# Re-confirms every seeded change against the current /repo and /verif: patch still applies, demo
# fails with / passes without, and the named checks report a VIOLATION. Summary on stdout.
cd /verif
for D in seeded/*/; do
  ID=$(basename "$D"); P=${ID%-*}; V=${ID#*-}
  # seeded/ is the source of truth: stage a copy where tools_seed.sh expects a delivery
  rm -rf "/tmp/seed/$P-out/$V"; mkdir -p "/tmp/seed/$P-out/$V"; cp -r "$D"/patch.diff "$D"/demo "$D"/meta.json "/tmp/seed/$P-out/$V/" 2>/dev/null
  CHECKS="$P"
  case "$ID" in C05-B) CHECKS="C05 C18";; C14-A) CHECKS="C14 C07";; esac
  SEED_SKIP_TESTS=1 ./tools_seed.sh "$P" "$V" $CHECKS 2>&1 | tail -1
done

#!/bin/sh
# Builds the binaries of every check claimed in MANIFEST.json (plus helpers) once, which also
# warms the Go build cache. Offline.
cd "$(dirname "$0")" || exit 2
export GOFLAGS=-mod=mod GOPROXY=off GOSUMDB=off GOTOOLCHAIN=local
mkdir -p bin evidence replays .work/gocache
export GOCACHE="${VERIF_GOCACHE:-$PWD/.work/gocache}"
rc=0
for id in $(jq -r '.checks[].property_id' MANIFEST.json | tr 'A-Z' 'a-z') genworker; do
  if [ -d "cmd/$id" ]; then
    go build -tags verif -o "bin/$id" "./cmd/$id" || rc=2
  fi
done
exit $rc

#!/bin/sh
# Builds every check binary once (warms the Go build cache). Offline.
cd "$(dirname "$0")" || exit 2
export GOFLAGS=-mod=mod GOPROXY=off GOSUMDB=off GOTOOLCHAIN=local
mkdir -p bin evidence replays
cp /repo/go.sum go.sum.repo 2>/dev/null && cat go.sum.repo go.sum.extra 2>/dev/null | sort -u > go.sum; rm -f go.sum.repo
rc=0
for d in cmd/*/; do
  n=$(basename "$d")
  go build -tags verif -o "bin/$n" "./$d" || rc=2
done
exit $rc

// Package sched is the driver half of engine E3/E4: it runs in the plain (uninstrumented)
// check process, produces the instrumented overlay of goa's CURRENT working tree (package
// verif/instr), builds the inner worker binary with `go build -tags verif,verifworker
// -overlay ...`, runs the worker as sharded subprocesses and feeds what they report into
// core.Ctx. The runtime half (scheduler, oracles, explorer, shims) is package vrt in
// sched/vrt; see README.md for the API.
package sched

import (
	"bytes"
	"context"
	"encoding/json"
	"errors"
	"fmt"
	"os"
	"os/exec"
	"path/filepath"
	"runtime"
	"sort"
	"strings"
	"sync"
	"time"

	"verif/core"
	"verif/instr"
	"verif/sched/vrt"
)

// Job describes one instrumented build.
type Job struct {
	// Check names the work directory /verif/.work/<Check>.
	Check string
	// Packages are the goa packages to instrument (import paths).
	Packages []string
	// Extra are further package sets to instrument (generated code of C20 family B).
	Extra []instr.Target
	// ExportFiles maps a path inside /repo (relative) to a source file under /verif that the
	// overlay adds there (`//go:build verif` export files).
	ExportFiles map[string]string
	// WorkerPkg is the main package of the worker, relative to BuildDir ("./checks/c20/worker").
	WorkerPkg string
	// BuildDir is the directory `go build` runs in: /verif by default; the root of a generated
	// module when the worker lives next to generated code (family B). That module must
	// resolve goa.design/goa/v3 to /repo (replace directive) so that the overlay applies.
	BuildDir string
	Deep     bool
	// NoAux skips the auxiliary free-running -race build.
	NoAux bool
}

// Built is the product of Build.
type Built struct {
	Job       Job
	Dir       string
	Worker    string
	AuxWorker string // "" if the -race build failed or was skipped
	AuxErr    string
	Report    *instr.Report
	BuildSecs float64
	env       []string
}

const goaModule = "goa.design/goa/v3"

// VrtImport is the import path of the runtime inside goa's module.
const VrtImport = goaModule + "/pkg/vrt"

// childEnv returns the environment for go commands and the base overlay found in GOFLAGS (the
// guide's way to apply a mutation: GOFLAGS="-mod=mod -overlay=/tmp/x/overlay.json").
func childEnv() (env []string, baseOverlay string) {
	var flags []string
	for _, f := range strings.Fields(os.Getenv("GOFLAGS")) {
		if strings.HasPrefix(f, "-overlay=") {
			baseOverlay = strings.TrimPrefix(f, "-overlay=")
			continue
		}
		flags = append(flags, f)
	}
	if v := os.Getenv("VERIF_OVERLAY"); v != "" {
		baseOverlay = v
	}
	hasMod := false
	for _, f := range flags {
		if strings.HasPrefix(f, "-mod=") {
			hasMod = true
		}
	}
	if !hasMod {
		flags = append(flags, "-mod=mod")
	}
	env = []string{"GOFLAGS=" + strings.Join(flags, " "), "GOPROXY=off", "GOSUMDB=off", "GOTOOLCHAIN=local"}
	return env, baseOverlay
}

// Build instruments and builds. Any failure is a harness error for the caller (exit 2).
func Build(j Job) (*Built, error) {
	start := time.Now()
	root := core.Root()
	repo := core.RepoDir()
	dir := filepath.Join(root, ".work", j.Check)
	if mf := os.Getenv("VERIF_MODFILE"); mf != "" {
		// VERIF_REPO run (see run.sh): its own work directory next to the alternate go.mod, so that
		// runs against different copies of goa (several seeded changes checked at the same time)
		// do not overwrite each other's overlay and worker
		dir = filepath.Join(filepath.Dir(mf), j.Check)
	}
	if err := os.MkdirAll(dir, 0o755); err != nil {
		return nil, err
	}
	env, base := childEnv()
	extra := map[string]string{}
	for rel, src := range j.ExportFiles {
		// copy under a .go name (the sources are kept as .go.txt so that `go build ./...`
		// in /verif does not see a stray package)
		b, err := os.ReadFile(src)
		if err != nil {
			return nil, err
		}
		dst := filepath.Join(dir, "export", strings.ReplaceAll(rel, "/", "_"))
		if err := os.MkdirAll(filepath.Dir(dst), 0o755); err != nil {
			return nil, err
		}
		if err := os.WriteFile(dst, b, 0o644); err != nil {
			return nil, err
		}
		extra[filepath.Join(repo, rel)] = dst
	}
	mk := func(out string, pkgs []string, targets []instr.Target) instr.Config {
		cfg := instr.Config{
			OutDir: filepath.Join(dir, out), VrtImport: VrtImport, VrtDir: filepath.Join(repo, "pkg", "vrt"),
			VrtSrc: filepath.Join(root, "sched", "vrt"), ExtraFiles: extra, BaseOverlay: base,
			Tags: []string{"verif"}, Deep: j.Deep, Env: env,
		}
		if len(pkgs) > 0 {
			// the goa packages are resolved from the module the worker is built in
			t := instr.Target{Dir: root, Patterns: pkgs, Root: repo}
			if j.BuildDir != "" {
				t.Dir = j.BuildDir
			} else if mf := os.Getenv("VERIF_MODFILE"); mf != "" {
				t.Flags = []string{"-modfile=" + mf} // VERIF_REPO run: see run.sh
			}
			cfg.Targets = append(cfg.Targets, t)
		}
		cfg.Targets = append(cfg.Targets, targets...)
		return cfg
	}
	b := &Built{Job: j, Dir: dir, env: env}
	rep, err := instr.Run(mk("overlay", j.Packages, j.Extra))
	if err != nil {
		return nil, fmt.Errorf("instrumenter: %w", err)
	}
	b.Report = rep
	build := func(out, overlay string, race bool) error {
		args := []string{"build", "-tags", "verif,verifworker", "-overlay", overlay, "-o", out}
		if mf := os.Getenv("VERIF_MODFILE"); mf != "" && j.BuildDir == "" {
			args = append(args, "-modfile="+mf)
		}
		if race {
			args = append(args, "-race")
		}
		args = append(args, j.WorkerPkg)
		cmd := exec.Command("go", args...)
		cmd.Dir = root
		if j.BuildDir != "" {
			cmd.Dir = j.BuildDir
		}
		cmd.Env = append(os.Environ(), env...)
		var buf bytes.Buffer
		cmd.Stdout, cmd.Stderr = &buf, &buf
		if err := cmd.Run(); err != nil {
			return fmt.Errorf("go %s: %v\n%s", strings.Join(args, " "), err, clip(buf.String(), 6000))
		}
		return nil
	}
	var wg sync.WaitGroup
	if !j.NoAux {
		wg.Add(1)
		go func() {
			defer wg.Done()
			// the auxiliary binary links the UNINSTRUMENTED goa sources (plus the runtime
			// package and the export files): the Go race detector sees the real code
			arep, err := instr.Run(mk("overlay-aux", nil, nil))
			if err != nil {
				b.AuxErr = err.Error()
				return
			}
			out := filepath.Join(dir, "worker-race")
			if err := build(out, arep.Overlay, true); err != nil {
				b.AuxErr = err.Error()
				return
			}
			b.AuxWorker = out
		}()
	}
	b.Worker = filepath.Join(dir, "worker")
	err = build(b.Worker, rep.Overlay, false)
	wg.Wait()
	if err != nil {
		return nil, fmt.Errorf("instrumented build failed: %w", err)
	}
	b.BuildSecs = time.Since(start).Seconds()
	return b, nil
}

func clip(s string, n int) string {
	if len(s) > n {
		return s[:n] + "..."
	}
	return s
}

// run executes the worker with a hard wall-clock limit and decodes its JSON output into v.
func (b *Built) run(bin string, limit time.Duration, memLimitKB int, v any, args ...string) (stderr string, err error) {
	ctx, cancel := context.WithTimeout(context.Background(), limit)
	defer cancel()
	var cmd *exec.Cmd
	if memLimitKB > 0 {
		sh := fmt.Sprintf("ulimit -v %d; exec \"$0\" \"$@\"", memLimitKB)
		cmd = exec.CommandContext(ctx, "sh", append([]string{"-c", sh, bin}, args...)...)
	} else {
		cmd = exec.CommandContext(ctx, bin, args...)
	}
	cmd.Dir = b.Dir
	cmd.Env = append(os.Environ(), "GORACE=halt_on_error=0 exitcode=0")
	var out, errb bytes.Buffer
	cmd.Stdout, cmd.Stderr = &out, &errb
	err = cmd.Run()
	stderr = errb.String()
	if ctx.Err() != nil {
		return stderr, fmt.Errorf("worker %v killed after %s", args, limit)
	}
	if err != nil {
		return stderr, fmt.Errorf("worker %v: %v: %s", args, err, clip(stderr, 2000))
	}
	if err := json.Unmarshal(out.Bytes(), v); err != nil {
		return stderr, fmt.Errorf("worker %v: bad output: %v: %s", args, err, clip(out.String(), 500))
	}
	return stderr, nil
}

// List returns the scenarios registered in the worker.
func (b *Built) List() ([]vrt.ScenarioInfo, error) {
	var out []vrt.ScenarioInfo
	_, err := b.run(b.Worker, 60*time.Second, 0, &out, "-list")
	return out, err
}

// Plan says how one scenario is explored.
type Plan struct {
	Info     vrt.ScenarioInfo
	Bound    int
	Complete bool
	Shards   int
}

// Options selects and tunes the scenarios of one check run.
type Options struct {
	// Families selects scenarios by Scenario.Family.
	Families []string
	// Prefix is put in front of state / outcome keys (several drivers may feed one Ctx).
	Prefix string
	// Procs is the number of worker subprocesses run at the same time (default: all cores).
	Procs int
	// AuxIters is the number of free-running iterations per scenario of the auxiliary -race
	// pass (default 200).
	AuxIters int
	// AuxCopies > 1 makes the auxiliary pass run that many real goroutines per thread body
	// (2-3 bodies x AuxCopies goroutines hammer one instance together); AuxMax caps the number
	// of scenarios of the auxiliary pass (0 = all selected quick scenarios).
	AuxCopies int
	AuxMax    int
	// AuxKeep, when set, restricts the auxiliary pass to the scenarios it accepts.
	AuxKeep func(scenario string) bool
	// RowGroup, when set, maps a scenario name to the name of a group ("" = none): the scenarios
	// of a group are reported as ONE aggregated row under the note "scenario_groups" (menus of
	// thousands of small scenarios) instead of one row each under "scenarios".
	RowGroup func(scenario string) string
	// Only restricts the run to scenarios whose name contains this text (development aid,
	// also settable through VERIF_SCHED_ONLY); a restricted run is reported as incomplete.
	Only string
}

func (o Options) want(fam string) bool {
	if len(o.Families) == 0 {
		return true
	}
	for _, f := range o.Families {
		if f == fam {
			return true
		}
	}
	return false
}

// PlansFor applies the tier defaults.
//
//	quick:    preemption bound 2 (Scenario.Bound overrides), or ALL interleavings when the
//	          scenario asks for it (Scenario.Complete);
//	thorough: preemption bound 3 (Scenario.ThoroughBound overrides) AND, unless the scenario
//	          opts out (NoThoroughComplete), ALL interleavings with the sleep-set reduction. The
//	          two explorations are independent implementations of the search and their
//	          findings are cross-checked by Feed.
func PlansFor(info vrt.ScenarioInfo, thorough bool) []Plan {
	if !thorough {
		p := Plan{Info: info, Shards: 1, Complete: info.Complete, Bound: info.Bound}
		if p.Bound == 0 {
			p.Bound = 2
		}
		return []Plan{p}
	}
	b := Plan{Info: info, Shards: 2, Bound: info.ThoroughBound}
	if b.Bound == 0 {
		b.Bound = 3
	}
	if info.Threads >= 3 {
		b.Shards = 8
	}
	if info.NoShard {
		b.Shards = 1
	}
	var out []Plan
	if !info.NoThoroughBounded || info.NoThoroughComplete {
		out = append(out, b)
	}
	if !info.NoThoroughComplete {
		c := Plan{Info: info, Shards: 2, Complete: true}
		if info.Threads >= 3 {
			c.Shards = 8
		}
		if info.NoThoroughBounded || info.NoShard {
			c.Shards = 1 // small scenarios: sharding would only repeat the first levels
		}
		out = append(out, c)
	}
	return out
}

// Merged is the union of the shard results of one scenario.
type Merged struct {
	vrt.Result
	Plan Plan
}

func merge(plan Plan, rs []*vrt.Result) *Merged {
	m := &Merged{Plan: plan}
	m.Result = *rs[0]
	m.Outcomes = map[string]int64{}
	m.Findings = nil
	m.TraceHashes = nil
	hashes := map[uint64]struct{}{}
	found := map[string]*vrt.Finding{}
	m.Executions, m.Schedules, m.SleepBlocked, m.Contended, m.Projections = 0, 0, 0, 0, 0
	m.PerBound = nil
	m.Exhaustive = true
	m.BoundCompleted = 1 << 30
	approx := false
	for _, r := range rs {
		m.Executions += r.Executions
		m.Projections += r.Projections
		m.Opaque = append(m.Opaque, r.Opaque...)
		m.Schedules += r.Schedules
		m.SleepBlocked += r.SleepBlocked
		m.Contended += r.Contended
		for i, n := range r.PerBound {
			for len(m.PerBound) <= i {
				m.PerBound = append(m.PerBound, 0)
			}
			m.PerBound[i] += n
		}
		if r.MaxDepth > m.MaxDepth {
			m.MaxDepth = r.MaxDepth
		}
		if r.MaxPreemptions > m.MaxPreemptions {
			m.MaxPreemptions = r.MaxPreemptions
		}
		if r.BoundCompleted < m.BoundCompleted {
			m.BoundCompleted = r.BoundCompleted
		}
		m.Exhaustive = m.Exhaustive && r.Exhaustive
		for k, v := range r.Outcomes {
			m.Outcomes[k] += v
		}
		if len(r.TraceHashes) == 0 && r.DistinctTraces > 0 {
			approx = true
		}
		for _, h := range r.TraceHashes {
			hashes[h] = struct{}{}
		}
		for _, f := range r.Findings {
			if g := found[f.Signature]; g == nil {
				c := *f
				found[f.Signature] = &c
			} else {
				g.Count += f.Count
				if f.Bound < g.Bound || (f.Bound == g.Bound && len(f.Schedule) < len(g.Schedule)) {
					cnt := g.Count
					c := *f
					c.Count = cnt
					found[f.Signature] = &c
				}
			}
		}
		if r.Incomplete != "" {
			m.Incomplete = strings.TrimSpace(m.Incomplete + " " + r.Incomplete)
		}
		if r.HarnessError != "" {
			m.HarnessError = strings.TrimSpace(m.HarnessError + " " + r.HarnessError)
		}
		if r.WallMS > m.WallMS {
			m.WallMS = r.WallMS
		}
	}
	if !approx {
		m.DistinctTraces = len(hashes)
		for h := range hashes {
			m.TraceHashes = append(m.TraceHashes, h)
		}
		sort.Slice(m.TraceHashes, func(i, j int) bool { return m.TraceHashes[i] < m.TraceHashes[j] })
	}
	var sigs []string
	for s := range found {
		sigs = append(sigs, s)
	}
	sort.Strings(sigs)
	for _, s := range sigs {
		m.Findings = append(m.Findings, found[s])
	}
	return m
}

// ErrNoScenario is returned by Explore when the selection (families, tier, restriction) is empty.
var ErrNoScenario = errors.New("no scenario registered in the worker for this selection")

// Explore runs every selected scenario (sharded over subprocesses) and returns the merged
// results in registration order.
func (b *Built) Explore(c *core.Ctx, o Options) ([]*Merged, error) {
	infos, err := b.List()
	if err != nil {
		return nil, err
	}
	type task struct {
		plan  int
		shard int
	}
	var plans []Plan
	var tasks []task
	only := o.Only
	if v := os.Getenv("VERIF_SCHED_ONLY"); v != "" {
		only = v
	}
	if only != "" {
		c.Incomplete("restricted to scenarios containing " + only + " (VERIF_SCHED_ONLY)")
	}
	for _, in := range infos {
		if !o.want(in.Family) || (in.ThoroughOnly && !c.Thorough()) || !strings.Contains(in.Name, only) {
			continue
		}
		for _, p := range PlansFor(in, c.Thorough()) {
			plans = append(plans, p)
			for s := 0; s < p.Shards; s++ {
				tasks = append(tasks, task{len(plans) - 1, s})
			}
		}
	}
	if len(plans) == 0 {
		return nil, fmt.Errorf("%w: families %v, restriction %q", ErrNoScenario, o.Families, only)
	}
	procs := o.Procs
	if procs <= 0 {
		procs = runtime.NumCPU()
	}
	results := make([][]*vrt.Result, len(plans))
	for i, p := range plans {
		results[i] = make([]*vrt.Result, p.Shards)
	}
	var mu sync.Mutex
	var firstErr error
	// leave the workers a little less than what is left of the check's own budget
	deadline := c.Deadline().Add(-20 * time.Second)
	next := 0
	var wg sync.WaitGroup
	for w := 0; w < procs; w++ {
		wg.Add(1)
		go func() {
			defer wg.Done()
			for {
				mu.Lock()
				if next >= len(tasks) || firstErr != nil {
					mu.Unlock()
					return
				}
				t := tasks[next]
				next++
				mu.Unlock()
				p := plans[t.plan]
				args := []string{"-scenario", p.Info.Name, "-shard", fmt.Sprint(t.shard), "-shards", fmt.Sprint(p.Shards),
					"-deadline", fmt.Sprint(deadline.Unix())}
				if p.Complete {
					args = append(args, "-complete")
				} else {
					args = append(args, "-bound", fmt.Sprint(p.Bound))
				}
				var r vrt.Result
				limit := time.Until(deadline) + 90*time.Second
				if limit < 2*time.Minute {
					limit = 2 * time.Minute
				}
				if _, err := b.run(b.Worker, limit, 16<<20, &r, args...); err != nil {
					mu.Lock()
					if firstErr == nil {
						firstErr = err
					}
					mu.Unlock()
					return
				}
				results[t.plan][t.shard] = &r
			}
		}()
	}
	wg.Wait()
	if firstErr != nil {
		return nil, firstErr
	}
	var out []*Merged
	for i, p := range plans {
		out = append(out, merge(p, results[i]))
	}
	return out, nil
}

// Feed reports merged results through the Ctx: states, executions, outcomes, violations.
func (b *Built) Feed(c *core.Ctx, o Options, ms []*Merged) {
	type row struct {
		Scenario       string  `json:"scenario"`
		Threads        int     `json:"threads"`
		Mode           string  `json:"mode"`
		Bound          int     `json:"bound"`
		BoundCompleted any     `json:"bound_completed"`
		Schedules      int64   `json:"schedules"`
		PerBound       []int64 `json:"schedules_per_bound"`
		Executions     int64   `json:"executions"`
		MaxDepth       int     `json:"max_depth"`
		MaxPreemptions int     `json:"max_preemptions"`
		Traces         int     `json:"distinct_traces"`
		Outcomes       int     `json:"distinct_outcomes"`
		Contended      int64   `json:"contended_points"`
		Findings       int     `json:"findings"`
		WallMS         int64   `json:"wall_ms"`
	}
	type group struct {
		Group          string  `json:"group"`
		Scenarios      int     `json:"scenarios"`
		Threads        []int   `json:"threads_min_max"`
		Modes          string  `json:"modes"`
		Bound          int     `json:"bound_max"`
		Schedules      int64   `json:"schedules"`
		PerBound       []int64 `json:"schedules_per_bound"`
		Executions     int64   `json:"executions"`
		MaxDepth       int     `json:"max_depth"`
		MaxPreemptions int     `json:"max_preemptions"`
		Traces         int64   `json:"distinct_traces"`
		Nontrivial     int     `json:"scenarios_with_more_than_one_trace"`
		Outcomes       int64   `json:"distinct_outcomes"`
		Contended      int64   `json:"contended_points"`
		Findings       int     `json:"findings"`
		WallMS         int64   `json:"wall_ms_sum"`
	}
	groups := map[string]*group{}
	var groupOrder []string
	var rows []row
	var total int64
	opaque := map[string]bool{}
	for _, m := range ms {
		for _, t := range m.Opaque {
			opaque[t] = true
		}
	}
	if len(opaque) > 0 {
		var ts []string
		for t := range opaque {
			ts = append(ts, t)
		}
		sort.Strings(ts)
		k := "opaque_object_types_met"
		if o.Prefix != "" {
			k += "_" + strings.Trim(o.Prefix, ":/ ")
		}
		c.Note(k, ts)
	}
	// cross-check: a finding of the preemption-bounded search must also be a finding of the
	// complete search of the same scenario (the complete search covers every schedule)
	complete := map[string]*Merged{}
	for _, m := range ms {
		if m.Plan.Complete && m.Exhaustive {
			complete[m.Scenario] = m
		}
	}
	for _, m := range ms {
		cm := complete[m.Scenario]
		if m.Plan.Complete || cm == nil {
			continue
		}
		have := map[string]bool{}
		for _, f := range cm.Findings {
			have[f.Signature] = true
		}
		for _, f := range m.Findings {
			if !have[f.Signature] {
				c.HarnessError("scenario %s: %q found with preemption bound %d but not by the exploration of all interleavings (explorer inconsistency)", m.Scenario, f.Signature, m.Plan.Bound)
			}
		}
	}
	for _, m := range ms {
		name := o.Prefix + m.Scenario
		if m.HarnessError != "" {
			c.HarnessError("scenario %s: %s", name, m.HarnessError)
			continue
		}
		if m.Incomplete != "" {
			c.Incomplete(m.Incomplete)
		}
		nontrivial := m.DistinctTraces > 1
		for _, h := range m.TraceHashes {
			c.State(fmt.Sprintf("%s#%x", name, h), nontrivial)
		}
		if len(m.TraceHashes) == 0 {
			c.State(name, nontrivial)
		}
		c.Exec(m.Executions + m.Projections)
		if m.Projections > 0 {
			c.AddNote("projection_replays", m.Projections)
		}
		for k, n := range m.Outcomes {
			if strings.Contains(k, "BLOCKED(") {
				// an Env scenario in which a thread never returned -- and, no finding being
				// reported, did not return alone with the environment in the same order either
				c.AddNote("executions_with_a_thread_blocked_also_alone", n)
			}
		}
		total += m.Schedules
		for k, n := range m.Outcomes {
			for i := int64(0); i < n && i < 1; i++ {
				c.Outcome(name + ": " + k)
			}
		}
		var bc any = m.BoundCompleted
		if m.Plan.Complete {
			bc = "all interleavings"
			if !m.Exhaustive {
				bc = "incomplete"
			}
		}
		gname := ""
		if o.RowGroup != nil {
			gname = o.RowGroup(m.Scenario)
		}
		if gname != "" && m.Exhaustive {
			gname = o.Prefix + gname + " [" + m.Mode + "]"
			g := groups[gname]
			if g == nil {
				g = &group{Group: gname, Threads: []int{m.Threads, m.Threads}, Modes: m.Mode}
				groups[gname] = g
				groupOrder = append(groupOrder, gname)
			}
			g.Scenarios++
			if m.Threads < g.Threads[0] {
				g.Threads[0] = m.Threads
			}
			if m.Threads > g.Threads[1] {
				g.Threads[1] = m.Threads
			}
			if m.Plan.Bound > g.Bound {
				g.Bound = m.Plan.Bound
			}
			g.Schedules += m.Schedules
			for i, n := range m.PerBound {
				for len(g.PerBound) <= i {
					g.PerBound = append(g.PerBound, 0)
				}
				g.PerBound[i] += n
			}
			g.Executions += m.Executions
			if m.MaxDepth > g.MaxDepth {
				g.MaxDepth = m.MaxDepth
			}
			if m.MaxPreemptions > g.MaxPreemptions {
				g.MaxPreemptions = m.MaxPreemptions
			}
			g.Traces += int64(m.DistinctTraces)
			if nontrivial {
				g.Nontrivial++
			}
			g.Outcomes += int64(len(m.Outcomes))
			g.Contended += m.Contended
			g.Findings += len(m.Findings)
			g.WallMS += m.WallMS
		} else {
			rows = append(rows, row{Scenario: name, Threads: m.Threads, Mode: m.Mode, Bound: m.Plan.Bound, BoundCompleted: bc, Schedules: m.Schedules,
				PerBound: m.PerBound, Executions: m.Executions, MaxDepth: m.MaxDepth, MaxPreemptions: m.MaxPreemptions, Traces: m.DistinctTraces,
				Outcomes: len(m.Outcomes), Contended: m.Contended, Findings: len(m.Findings), WallMS: m.WallMS})
		}
		c.Sample(map[string]any{"scenario": name, "doc": m.Doc, "labels": m.Labels, "sequential_reference": m.Solo, "mode": m.Mode, "schedules": m.Schedules})
		for _, f := range m.Findings {
			f := f
			rc := vrt.ReplayCase{Check: b.Job.Check, Scenario: m.Scenario, Schedule: f.Schedule, Bound: f.Bound, Mode: m.Mode}
			what := fmt.Sprintf("%s [scenario %s, %d threads %v, first seen at preemption bound %d with %d preemption(s), %d failing schedule(s) of %d]",
				f.What, m.Scenario, m.Threads, m.Labels, f.Bound, f.Preempt, f.Count, m.Schedules)
			c.Violation(f.Signature, what, rc, func() bool { return b.replayHas(rc, f.Signature) })
		}
	}
	key := "scenarios"
	if o.Prefix != "" {
		key = "scenarios_" + strings.Trim(o.Prefix, ":/ ")
	}
	c.Note(key, rows)
	if len(groupOrder) > 0 {
		var gs []*group
		for _, n := range groupOrder {
			gs = append(gs, groups[n])
		}
		c.Note(strings.Replace(key, "scenarios", "scenario_groups", 1), gs)
	}
	c.AddNote("schedules_explored", total)
}

// replayHas re-executes a recorded schedule in a fresh worker process and reports whether the
// same signature fails again.
func (b *Built) replayHas(rc vrt.ReplayCase, sig string) bool {
	f, err := os.CreateTemp(b.Dir, "replay-*.json")
	if err != nil {
		return false
	}
	defer os.Remove(f.Name())
	_ = json.NewEncoder(f).Encode(rc)
	f.Close()
	var r vrt.Result
	if _, err := b.run(b.Worker, 2*time.Minute, 16<<20, &r, "-replay", f.Name()); err != nil {
		return false
	}
	for _, g := range r.Findings {
		if g.Signature == sig {
			return true
		}
	}
	return false
}

// Replay re-executes a replay file and reports its findings as violations (for --replay).
func (b *Built) Replay(c *core.Ctx, path string) {
	if abs, err := filepath.Abs(path); err == nil {
		path = abs
	}
	var r vrt.Result
	if _, err := b.run(b.Worker, 2*time.Minute, 16<<20, &r, "-replay", path); err != nil {
		c.HarnessError("replay: %v", err)
		return
	}
	if r.HarnessError != "" {
		c.HarnessError("replay: %s", r.HarnessError)
		return
	}
	c.Exec(r.Executions)
	// the replay file is rewritten by core with the same case it was read from
	var rc vrt.ReplayCase
	if err := core.ReplayCase(path, &rc); err != nil {
		c.HarnessError("replay: %v", err)
		return
	}
	fmt.Printf("replay scenario=%s schedule=%d points findings=%d\n", r.Scenario, len(rc.Schedule), len(r.Findings))
	for _, f := range r.Findings {
		fmt.Printf("  %s: %s\n", f.Signature, f.What)
		c.Violation(f.Signature, f.What, rc, nil)
	}
}

// AuxRace runs the auxiliary, NON-DECIDING pass: the same scenario bodies as real goroutines
// in a binary built with -race from the uninstrumented goa sources. What the Go race detector
// prints is summarised into the evidence under key; it never decides a verdict.
func (b *Built) AuxRace(c *core.Ctx, o Options, key string, hbSignatures []string) {
	if key == "" {
		key = "aux_race_pass"
	}
	note := map[string]any{"deciding": false}
	defer func() { c.Note(key, note) }()
	if b.AuxWorker == "" {
		note["skipped"] = "race build not available: " + clip(b.AuxErr, 300)
		return
	}
	infos, err := b.List()
	if err != nil {
		note["skipped"] = err.Error()
		return
	}
	var names []string
	for _, in := range infos {
		if o.want(in.Family) && !in.ThoroughOnly && (o.AuxKeep == nil || o.AuxKeep(in.Name)) {
			names = append(names, in.Name)
		}
	}
	iters := o.AuxIters
	if iters == 0 {
		iters = 200
	}
	if o.AuxMax > 0 && len(names) > o.AuxMax {
		// an evenly spread subset, deterministic
		var sub []string
		for i := 0; i < o.AuxMax; i++ {
			sub = append(sub, names[i*len(names)/o.AuxMax])
		}
		names = sub
	}
	copies := o.AuxCopies
	if copies < 1 {
		copies = 1
	}
	note["goroutines_per_thread_body"] = copies
	var fr []vrt.FreeResult
	stderr, err := b.run(b.AuxWorker, 10*time.Minute, 0, &fr, "-free", strings.Join(names, ","), "-iters", fmt.Sprint(iters), "-copies", fmt.Sprint(copies))
	if err != nil {
		note["skipped"] = clip(err.Error(), 300)
		return
	}
	reports := strings.Count(stderr, "WARNING: DATA RACE")
	funcs := map[string]int{}
	for _, blk := range strings.Split(stderr, "WARNING: DATA RACE")[1:] {
		lines := strings.Split(blk, "\n")
		for i, l := range lines {
			l = strings.TrimSpace(l)
			if (strings.HasPrefix(l, "Write at") || strings.HasPrefix(l, "Read at") || strings.HasPrefix(l, "Previous write at") || strings.HasPrefix(l, "Previous read at")) && i+1 < len(lines) {
				fn := strings.TrimSpace(lines[i+1])
				if j := strings.Index(fn, "("); j > 0 {
					fn = fn[:j]
				}
				if i+2 < len(lines) {
					// first frame: "      /repo/http/encoding.go:223 +0x92"
					if f := strings.Fields(lines[i+2]); len(f) > 0 {
						fn = f[0] + " (" + fn + ")"
					}
				}
				kind := strings.Fields(l)[0]
				if kind == "Previous" {
					kind = strings.Fields(l)[1]
				}
				funcs[strings.ToLower(kind)+" at "+fn]++
			}
		}
	}
	panics := 0
	for _, r := range fr {
		panics += r.Panics
	}
	note["scenarios"] = len(names)
	note["iterations_per_scenario"] = iters
	note["race_reports"] = reports
	note["racing_accesses"] = funcs
	note["panics"] = panics
	seen := map[string]bool{}
	var uniq []string
	for _, s := range hbSignatures {
		if !seen[s] {
			seen[s] = true
			uniq = append(uniq, s)
		}
	}
	note["races_of_the_hb_oracle_in_this_run"] = uniq
	note["rule"] = "a race reported here counts as a violation only if the scheduler's happens-before oracle reports it too"
}

// NoteInstrumentation records what the instrumenter did.
func (b *Built) NoteInstrumentation(c *core.Ctx, key string) {
	if key == "" {
		key = "instrumentation"
	}
	c.Note(key, map[string]any{
		"packages": b.Report.Packages, "files_rewritten": b.Report.Files, "access_hooks": b.Report.Hooks,
		"hooks_by_category": b.Report.ByCategory, "not_hooked": b.Report.Skipped, "files_with_sync_shim": b.Report.SyncFiles,
		"deep": b.Job.Deep, "build_seconds": b.BuildSecs,
		"granularity": "hooks sit inside the expression at the exact evaluation position (no hoisting); every hook and every shim operation is a scheduling point",
	})
}

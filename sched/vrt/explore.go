package vrt

import (
	"fmt"
	"hash/fnv"
	"sort"
	"strings"
	"time"
)

// Options configures one exploration of one scenario.
type Options struct {
	// Bound is the maximal preemption bound; bounds 0..Bound are explored iteratively.
	Bound int
	// Complete explores ALL interleavings (no preemption bound) with the sleep-set reduction:
	// every Mazurkiewicz trace is executed at least once; the oracles (HB races, final
	// results, invariants) are trace-invariant. Sleep sets are never combined with a
	// preemption bound (that combination is unsound).
	Complete bool
	// NoSleep turns the reduction off in Complete mode (brute force; used to validate it).
	NoSleep bool
	Horizon int
	// Shard / Shards split the level-2 subtrees of the DFS over processes.
	Shard, Shards int
	Deadline      time.Time
	// StopAtFirst stops at the end of the first bound that produced a violation.
	StopAtFirst bool
}

// SchedPoint is one point of a recorded schedule: [choice, enabledMask, running, runningEnabled].
// runningEnabled == 2 marks a DATA choice point (Exec.choose): enabledMask then has one bit per
// alternative and choice is the alternative taken by thread `running`.
type SchedPoint [4]int

// Finding is one oracle failure class found during an exploration.
type Finding struct {
	Signature string       `json:"signature"`
	Class     string       `json:"class"` // race | deadlock | horizon | differential | invariant | panic
	What      string       `json:"what"`
	Count     int64        `json:"count"`
	Bound     int          `json:"bound"`       // smallest preemption bound at which it was seen
	Preempt   int          `json:"preemptions"` // preemptions of the recorded schedule
	Schedule  []SchedPoint `json:"schedule"`
	Race      *Race        `json:"race,omitempty"`
}

// Result is what a worker reports for one (scenario, shard).
type Result struct {
	Scenario       string           `json:"scenario"`
	Family         string           `json:"family"`
	Doc            string           `json:"doc"`
	Threads        int              `json:"threads"`
	Labels         []string         `json:"labels"`
	Mode           string           `json:"mode"` // "preemption-bounded" | "complete(sleep-sets)" | "complete(brute-force)"
	Bound          int              `json:"bound"`
	BoundCompleted int              `json:"bound_completed"` // -1 if not even bound 0 was completed
	Exhaustive     bool             `json:"exhaustive"`
	Executions     int64            `json:"executions"`
	Schedules      int64            `json:"schedules"` // distinct complete schedules at the last completed bound
	PerBound       []int64          `json:"per_bound"`
	SleepBlocked   int64            `json:"sleep_blocked"`
	MaxDepth       int              `json:"max_depth"`
	MaxPreemptions int              `json:"max_preemptions"`
	Contended      int64            `json:"contended_points"`
	TraceHashes    []uint64         `json:"trace_hashes,omitempty"`
	DistinctTraces int              `json:"distinct_traces"`
	Outcomes       map[string]int64 `json:"outcomes"`
	Solo           []string         `json:"solo"`
	Findings       []*Finding       `json:"findings"`
	Incomplete     string           `json:"incomplete,omitempty"`
	HarnessError   string           `json:"harness_error,omitempty"`
	WallMS         int64            `json:"wall_ms"`
	Projections    int64            `json:"projections,omitempty"`  // projection replays of the Env differential oracle
	Opaque         []string         `json:"opaque_types,omitempty"` // "write T" / "safe T": dynamic types the opaque-object hooks met
	Shard          int              `json:"shard"`
	Shards         int              `json:"shards"`
}

type execOut struct {
	x        *Exec
	results  []string
	check    string
	classify string
	trace    uint64
}

// runOnce executes the scenario once. only >= 0 runs only that thread (sequential reference).
func runOnce(sc *Scenario, prefix []prefixEntry, branchSleep uint32, o *Options, only int) (out *execOut, herr string) {
	return runSel(sc, prefix, branchSleep, o, only, nil, nil)
}

// runSel is runOnce with a projection: sel != nil runs only the listed scenario threads (the
// Prefix is kept) and guide drives the scheduler (see Exec.guide).
func runSel(sc *Scenario, prefix []prefixEntry, branchSleep uint32, o *Options, only int, sel []int, guide []int8) (out *execOut, herr string) {
	h := o.Horizon
	if h == 0 {
		h = sc.Horizon
	}
	if h == 0 {
		h = 20000
	}
	x := newExec(h)
	x.prefix = prefix
	x.useSleep = o.Complete && !o.NoSleep
	x.keepOps = x.useSleep
	x.branchSleep = branchSleep
	x.guide = guide
	if sel != nil {
		x.useSleep, x.keepOps = false, false
	}
	x.mode = modeSetup
	cur = x
	defer func() {
		cur = nil
		if r := recover(); r != nil {
			if se, ok := r.(stuckError); ok {
				herr = "stuck: " + se.msg
				return
			}
			herr = fmt.Sprintf("scenario %s: panic outside the virtual threads (Setup/Check): %v", sc.Name, r)
		}
	}()
	env := sc.Setup()
	if sc.Prefix != nil && only < 0 {
		// sequential prefix: still single-threaded (setup mode), so whatever it leaves behind
		// -- pooled objects, filled caches, lazily built globals -- happens-before every thread
		sc.Prefix(env)
	}
	var fns []func() any
	for i, f := range sc.Threads {
		if only >= 0 && i != only {
			continue
		}
		if sel != nil {
			keep := false
			for _, j := range sel {
				keep = keep || j == i
			}
			if !keep {
				continue
			}
		}
		f := f
		fns = append(fns, func() any { return f(env) })
	}
	x.runThreads(fns)
	out = &execOut{x: x}
	raw := make([]any, len(x.threads))
	for i, t := range x.threads {
		if i >= len(fns) {
			break // spawned helper threads have no observable
		}
		switch {
		case t.completed:
			raw[i] = t.result
			out.results = append(out.results, canon(t.result))
		case sc.Env != nil && x.verdict == "deadlock" && t.blockedAt != "":
			out.results = append(out.results, "BLOCKED("+t.blockedAt+")")
		default:
			out.results = append(out.results, "ABORTED")
		}
	}
	if x.verdict == "" {
		if sc.Check != nil {
			out.check = sc.Check(env, raw[:len(fns)])
		}
		if sc.Classify != nil {
			out.classify = sc.Classify(env, raw[:len(fns)])
		}
	}
	out.trace = x.traceHash()
	return out, ""
}

// traceHash fingerprints the order of conflicting operations per object (reads between two
// writes commute). Two executions with different fingerprints are inequivalent interleavings;
// the number of distinct fingerprints is the vacuity statistic "distinct_traces".
func (x *Exec) traceHash() uint64 {
	type oh struct{ h, reads uint64 }
	m := map[uintptr]*oh{}
	mix := func(a uint64, tid int, site string, kind uint8) uint64 {
		h := fnv.New64a()
		var b [10]byte
		for i := 0; i < 8; i++ {
			b[i] = byte(a >> (8 * i))
		}
		b[8] = byte(tid)
		b[9] = kind
		h.Write(b[:])
		h.Write([]byte(site))
		return h.Sum64()
	}
	for i := range x.trace {
		e := &x.trace[i]
		o := m[e.obj]
		if o == nil {
			o = &oh{}
			m[e.obj] = o
		}
		if e.write {
			o.h = mix(o.h+o.reads, e.tid, e.site, e.kind)
			o.reads = 0
		} else {
			o.reads += mix(o.h, e.tid, e.site, e.kind)
		}
	}
	var sum uint64
	for _, o := range m {
		sum += mix(o.h+o.reads, 0, "", 0)
	}
	return sum
}

type explorer struct {
	sc      *Scenario
	o       Options
	res     *Result
	solo    []string
	bound   int
	found   map[string]*Finding
	traces  map[uint64]struct{}
	items   int
	stop    string
	n       int64 // executions in the current bound iteration that this shard owns
	started time.Time
}

func entriesOf(pts []pointRec) []prefixEntry {
	out := make([]prefixEntry, len(pts))
	for i := range pts {
		p := &pts[i]
		out[i] = prefixEntry{data: p.data, choice: p.choice, enabled: p.enabled, running: p.running, runningEnabled: p.runningEnabled}
	}
	return out
}

func scheduleOf(pts []pointRec) []SchedPoint {
	out := make([]SchedPoint, len(pts))
	for i := range pts {
		p := &pts[i]
		re := 0
		if p.runningEnabled {
			re = 1
		}
		if p.data {
			re = 2
		}
		out[i] = SchedPoint{int(p.choice), int(p.enabled), int(p.running), re}
	}
	return out
}

func prefixOfSchedule(s []SchedPoint) []prefixEntry {
	out := make([]prefixEntry, len(s))
	for i, p := range s {
		out[i] = prefixEntry{data: p[3] == 2, choice: uint8(p[0]), enabled: uint32(p[1]), running: int8(p[2]), runningEnabled: p[3] != 0}
	}
	return out
}

func preemptionsOf(pts []pointRec) int {
	n := 0
	for i := range pts {
		if !pts[i].data && pts[i].runningEnabled && pts[i].chosen != pts[i].running {
			n++
		}
	}
	return n
}

func (e *explorer) add(sig, class, what string, out *execOut, r *Race) {
	f := e.found[sig]
	if f == nil {
		f = &Finding{Signature: sig, Class: class, What: what, Bound: e.bound, Preempt: preemptionsOf(out.x.points),
			Schedule: scheduleOf(out.x.points), Race: r}
		e.found[sig] = f
	}
	f.Count++
}

// check evaluates every oracle on one complete execution.
func (e *explorer) check(out *execOut) {
	x := out.x
	sc := e.sc
	switch x.verdict {
	case "divergence", "stuck":
		e.stop = "harness"
		e.res.HarnessError = x.verdict + ": " + x.verdictMsg
		return
	case "deadlock":
		if sc.Env == nil {
			e.add("deadlock scenario="+sc.sigName()+" "+deadlockClass(x.verdictMsg), "deadlock", x.verdictMsg, out, nil)
		}
	case "horizon":
		e.add("horizon scenario="+sc.sigName(), "horizon", x.verdictMsg+" (livelock or unbounded loop under this schedule)", out, nil)
	}
	for i := range x.races {
		r := x.races[i]
		e.add(r.Signature(), "race", fmt.Sprintf("data race (%s): thread %d at %s, then thread %d at %s, not ordered by happens-before [scenario %s]",
			r.Kind, r.PrevThread, r.PrevSite, r.CurThread, r.CurSite, sc.Name), out, &r)
	}
	for i, got := range out.results {
		if got == "ABORTED" {
			continue
		}
		if strings.HasPrefix(got, "PANIC: ") && (i >= len(e.solo) || e.solo[i] != got) {
			e.add(fmt.Sprintf("panic scenario=%s op=%s", sc.sigName(), sc.label(i)), "panic",
				fmt.Sprintf("thread %d (%s) panicked under this schedule: %s -- %s", i, sc.label(i), got, x.verdictMsg), out, nil)
			continue
		}
		if !sc.Shared && i < len(e.solo) && got != e.solo[i] {
			dc := ""
			if sc.DiffClass != nil {
				dc = " differs=" + sc.DiffClass(got, e.solo[i])
			}
			e.add(fmt.Sprintf("differential scenario=%s op=%s%s", sc.sigName(), sc.label(i), dc), "differential",
				fmt.Sprintf("thread %d (%s) observed %s but alone on a fresh instance it observes %s", i, sc.label(i), clip(got), clip(e.solo[i])), out, nil)
		}
	}
	if sc.Env != nil && (x.verdict == "" || x.verdict == "deadlock") {
		e.projections(out)
		if e.stop != "" {
			return
		}
	}
	if out.check != "" {
		class := out.check
		if j := strings.IndexByte(class, ':'); j >= 0 {
			class = class[:j]
		}
		e.add(fmt.Sprintf("invariant scenario=%s %s", sc.sigName(), class), "invariant", out.check, out, nil)
	}
	key := strings.Join(out.results, " || ")
	if out.classify != "" {
		key += " ## " + out.classify
	}
	key += fmt.Sprintf(" ## blocked=%d", x.contended)
	if x.verdict != "" {
		key += " !! " + x.verdict
	}
	if len(x.races) > 0 {
		key += fmt.Sprintf(" !! races=%d", len(x.races))
	}
	e.res.Outcomes[clipN(key, 300)]++
	e.traces[out.trace] = struct{}{}
	if len(x.points) > e.res.MaxDepth {
		e.res.MaxDepth = len(x.points)
	}
	if p := preemptionsOf(x.points); p > e.res.MaxPreemptions {
		e.res.MaxPreemptions = p
	}
	e.res.Contended += int64(x.contended)
}

// projections is the differential oracle of Env scenarios: every non-environment thread, run
// again with only the environment threads and in the same relative order, must observe the same.
func (e *explorer) projections(out *execOut) {
	sc := e.sc
	n := len(sc.Threads)
	isEnv := func(i int) bool {
		for _, j := range sc.Env {
			if j == i {
				return true
			}
		}
		return false
	}
	plain := e.o
	plain.Complete = false
	for i := 0; i < n && i < len(out.results); i++ {
		if isEnv(i) || out.results[i] == "ABORTED" {
			continue
		}
		sel := append([]int{}, sc.Env...)
		sel = append(sel, i)
		sort.Ints(sel)
		// thread ids of the projected execution: kept scenario threads in order, then the daemons
		idmap := map[int8]int8{}
		for k, j := range sel {
			idmap[int8(j)] = int8(k)
		}
		for id := n; id < len(out.x.threads); id++ {
			idmap[int8(id)] = int8(len(sel) + id - n)
		}
		var guide []int8
		for k := range out.x.points {
			p := &out.x.points[k]
			if p.data {
				continue
			}
			if g, ok := idmap[p.chosen]; ok {
				guide = append(guide, g)
			}
		}
		if guide == nil {
			guide = []int8{}
		}
		po, herr := runSel(sc, nil, 0, &plain, -1, sel, guide)
		if herr != "" {
			e.stop = "harness"
			e.res.HarnessError = "projection of thread " + sc.label(i) + ": " + herr
			return
		}
		e.res.Projections++
		if po.x.verdict != "" && po.x.verdict != "deadlock" {
			e.add(fmt.Sprintf("%s scenario=%s op=%s (alone with the environment)", po.x.verdict, sc.sigName(), sc.label(i)), po.x.verdict,
				fmt.Sprintf("thread %d (%s) alone with the environment threads, same order: %s", i, sc.label(i), po.x.verdictMsg), out, nil)
			continue
		}
		want := "ABORTED"
		for k, j := range sel {
			if j == i && k < len(po.results) {
				want = po.results[k]
			}
		}
		if got := out.results[i]; got != want {
			dc := ""
			if sc.DiffClass != nil {
				dc = " differs=" + sc.DiffClass(got, want)
			}
			e.add(fmt.Sprintf("differential scenario=%s op=%s%s", sc.sigName(), sc.label(i), dc), "differential",
				fmt.Sprintf("thread %d (%s) observed %s but alone with the environment threads %v in the same relative order it observes %s", i, sc.label(i), clip(got), sc.Env, clip(want)), out, nil)
		}
	}
}

func deadlockClass(msg string) string {
	// keep the operation kinds, drop thread ids and sites
	var kinds []string
	for _, part := range strings.Split(msg, ";") {
		if i := strings.Index(part, "blocked at "); i >= 0 {
			f := strings.Fields(part[i+len("blocked at "):])
			if len(f) > 0 {
				kinds = append(kinds, f[0])
			}
		}
	}
	sort.Strings(kinds)
	return "blocked=" + strings.Join(kinds, "+")
}

func clip(s string) string { return clipN(s, 400) }

func clipN(s string, n int) string {
	if len(s) > n {
		return s[:n] + "..."
	}
	return s
}

// explore is the brief's deviation-bounded DFS: run the prefix, then default choices; check the
// execution; then branch at every later point within the bound.
func (e *explorer) explore(prefix []prefixEntry, sleep uint32, level int) {
	if e.stop != "" {
		return
	}
	if level == 2 && e.o.Shards > 1 {
		e.items++
		if (e.items-1)%e.o.Shards != e.o.Shard {
			return
		}
	}
	if e.res.Executions&31 == 0 && !e.o.Deadline.IsZero() && time.Now().After(e.o.Deadline) {
		e.stop = "deadline"
		return
	}
	out, herr := runOnce(e.sc, prefix, sleep, &e.o, -1)
	if herr != "" {
		e.stop = "harness"
		e.res.HarnessError = herr
		return
	}
	x := out.x
	e.res.Executions++
	owned := level >= 2 || e.o.Shards <= 1 || e.o.Shard == 0
	if x.sleepBlocked {
		e.res.SleepBlocked++
	}
	if owned {
		// a sleep-blocked execution is a redundant interleaving of a trace explored
		// elsewhere; it is still a real execution, so the oracles may look at it
		e.check(out)
		if !x.sleepBlocked {
			e.n++
		}
		if e.stop != "" {
			return
		}
	} else if x.verdict == "divergence" || x.verdict == "stuck" {
		e.stop = "harness"
		e.res.HarnessError = x.verdict + ": " + x.verdictMsg
		return
	}
	limit := len(x.points)
	if x.sleepBlocked {
		limit = x.blockedAt
	}
	pre := 0
	var buf [32]int8
	for i := 0; i < limit; i++ {
		p := &x.points[i]
		if p.data {
			// data choice of the running thread: every alternative is explored, at no preemption
			// cost; the sleep set in force at the point carries over unchanged (the chooser is
			// awake, and the threads asleep stay independent of what was executed so far)
			if i >= len(prefix) {
				for alt := 0; alt < p.nEnabled(); alt++ {
					if alt == int(p.choice) {
						continue
					}
					np := append(entriesOf(x.points[:i]), prefixEntry{data: true, choice: uint8(alt), enabled: p.enabled, running: p.running, runningEnabled: true})
					var sl uint32
					if e.o.Complete && !e.o.NoSleep {
						sl = p.sleep
					}
					e.explore(np, sl, level+1)
					if e.stop != "" {
						return
					}
				}
			}
			continue
		}
		if i >= len(prefix) {
			if ne := p.nEnabled(); ne > 1 {
				if e.o.Complete {
					order := p.order(buf[:0])
					asleep := p.sleep | 1<<uint(p.chosen)
					if e.o.NoSleep {
						asleep = 0
					}
					for alt, id := range order {
						if alt == int(p.choice) || p.sleep&(1<<uint(id)) != 0 {
							continue
						}
						np := append(entriesOf(x.points[:i]), prefixEntry{choice: uint8(alt), enabled: p.enabled, running: p.running, runningEnabled: p.runningEnabled})
						e.explore(np, asleep, level+1)
						if e.stop != "" {
							return
						}
						if !e.o.NoSleep {
							asleep |= 1 << uint(id)
						}
					}
				} else {
					cost := pre
					if p.runningEnabled {
						cost++ // switching away from a runnable thread is a preemption
					}
					if cost <= e.bound {
						for alt := 1; alt < ne; alt++ {
							np := append(entriesOf(x.points[:i]), prefixEntry{choice: uint8(alt), enabled: p.enabled, running: p.running, runningEnabled: p.runningEnabled})
							e.explore(np, 0, level+1)
							if e.stop != "" {
								return
							}
						}
					}
				}
			}
		}
		if p.runningEnabled && p.chosen != p.running {
			pre++
		}
	}
}

func sameObservation(a, b *execOut) string {
	if len(a.x.points) != len(b.x.points) {
		return fmt.Sprintf("number of scheduling points %d vs %d", len(a.x.points), len(b.x.points))
	}
	for i := range a.x.points {
		p, q := &a.x.points[i], &b.x.points[i]
		if p.data != q.data || p.enabled != q.enabled || p.chosen != q.chosen || p.running != q.running {
			return fmt.Sprintf("point %d differs", i)
		}
	}
	if strings.Join(a.results, "\x00") != strings.Join(b.results, "\x00") {
		return fmt.Sprintf("results %q vs %q", a.results, b.results)
	}
	if a.check != b.check || a.classify != b.classify || a.x.verdict != b.x.verdict {
		return "check/classify/verdict differ"
	}
	if len(a.x.races) != len(b.x.races) {
		return "race sets differ"
	}
	if a.trace != b.trace {
		return "trace fingerprints differ"
	}
	return ""
}

// Explore runs the whole exploration of one scenario (or one shard of it).
func Explore(sc *Scenario, o Options) *Result {
	start := time.Now()
	if o.Shards <= 0 {
		o.Shards = 1
	}
	res := &Result{Scenario: sc.Name, Family: sc.Family, Doc: sc.Doc, Threads: len(sc.Threads), Bound: o.Bound, BoundCompleted: -1,
		Outcomes: map[string]int64{}, Shard: o.Shard, Shards: o.Shards}
	for i := range sc.Threads {
		res.Labels = append(res.Labels, sc.label(i))
	}
	switch {
	case o.Complete && o.NoSleep:
		res.Mode = "complete(brute-force)"
	case o.Complete:
		res.Mode = "complete(sleep-sets)"
	default:
		res.Mode = "preemption-bounded"
	}
	e := &explorer{sc: sc, o: o, res: res, found: map[string]*Finding{}, traces: map[uint64]struct{}{}, started: start}
	defer func() {
		res.WallMS = time.Since(start).Milliseconds()
		for _, f := range e.found {
			res.Findings = append(res.Findings, f)
		}
		sort.Slice(res.Findings, func(i, j int) bool { return res.Findings[i].Signature < res.Findings[j].Signature })
		res.DistinctTraces = len(e.traces)
		res.Opaque = OpaqueTypesSeen()
		if len(e.traces) <= 200000 {
			for h := range e.traces {
				res.TraceHashes = append(res.TraceHashes, h)
			}
			sort.Slice(res.TraceHashes, func(i, j int) bool { return res.TraceHashes[i] < res.TraceHashes[j] })
		}
	}()
	// sequential references: each thread alone on a fresh instance
	plain := o
	plain.Complete = false
	for i := range sc.Threads {
		if sc.Shared || sc.Env != nil {
			break // threads legitimately depend on each other / on the environment: no fixed sequential reference
		}
		out, herr := runOnce(sc, nil, 0, &plain, i)
		if herr != "" {
			res.HarnessError = herr
			return res
		}
		if out.x.verdict != "" && out.x.verdict != "panic" {
			res.HarnessError = fmt.Sprintf("sequential reference of thread %d ended with %s: %s", i, out.x.verdict, out.x.verdictMsg)
			return res
		}
		if len(out.x.races) > 0 {
			res.HarnessError = fmt.Sprintf("sequential reference of thread %d reports a race (impossible): %+v", i, out.x.races[0])
			return res
		}
		e.solo = append(e.solo, out.results[0])
		// determinism of the reference itself
		out2, _ := runOnce(sc, nil, 0, &plain, i)
		if out2 == nil || out2.results[0] != out.results[0] {
			other := "<harness error>"
			if out2 != nil {
				other = clip(out2.results[0])
			}
			res.HarnessError = fmt.Sprintf("sequential reference of thread %d (%s) is not deterministic: %s vs %s", i, sc.label(i), clip(out.results[0]), other)
			return res
		}
	}
	res.Solo = e.solo
	// the first schedule is executed twice and must give identical observations
	a, herr := runOnce(sc, nil, 0, &o, -1)
	if herr != "" {
		res.HarnessError = herr
		return res
	}
	b, herr := runOnce(sc, nil, 0, &o, -1)
	if herr != "" {
		res.HarnessError = herr
		return res
	}
	if d := sameObservation(a, b); d != "" {
		res.HarnessError = "the first schedule is not reproducible (uncaptured nondeterminism): " + d
		return res
	}
	if o.Complete {
		e.bound = -1
		e.n, e.items = 0, 0
		e.explore(nil, 0, 0)
		res.PerBound = []int64{e.n}
		res.Schedules = e.n
		if e.stop == "" {
			res.Exhaustive = true
			res.BoundCompleted = 1 << 20
		}
	} else {
		for bnd := 0; bnd <= o.Bound; bnd++ {
			e.bound = bnd
			e.n, e.items = 0, 0
			// outcome/trace statistics describe the deepest completed bound
			saved := res.Outcomes
			res.Outcomes = map[string]int64{}
			e.explore(nil, 0, 0)
			if e.stop != "" {
				for k, v := range saved {
					if _, ok := res.Outcomes[k]; !ok {
						res.Outcomes[k] = v
					}
				}
				break
			}
			res.PerBound = append(res.PerBound, e.n)
			res.Schedules = e.n
			res.BoundCompleted = bnd
			if o.StopAtFirst && len(e.found) > 0 {
				break
			}
		}
		res.Exhaustive = e.stop == "" && (res.BoundCompleted == o.Bound || (o.StopAtFirst && len(e.found) > 0))
	}
	switch e.stop {
	case "deadline":
		res.Incomplete = fmt.Sprintf("deadline reached in scenario %s: bound %d completed, %d executions done while exploring bound %d", sc.Name, res.BoundCompleted, e.n, e.bound)
	}
	return res
}

// Replay re-executes one recorded schedule and returns the findings of that single execution.
func Replay(sc *Scenario, sched []SchedPoint, o Options) *Result {
	res := &Result{Scenario: sc.Name, Threads: len(sc.Threads), Mode: "replay", Outcomes: map[string]int64{}}
	e := &explorer{sc: sc, o: o, res: res, found: map[string]*Finding{}, traces: map[uint64]struct{}{}}
	plain := o
	plain.Complete = false
	for i := range sc.Threads {
		if sc.Shared || sc.Env != nil {
			break
		}
		out, herr := runOnce(sc, nil, 0, &plain, i)
		if herr != "" {
			res.HarnessError = herr
			return res
		}
		e.solo = append(e.solo, out.results[0])
	}
	res.Solo = e.solo
	o.Complete = false
	out, herr := runOnce(sc, prefixOfSchedule(sched), 0, &o, -1)
	if herr != "" {
		res.HarnessError = herr
		return res
	}
	res.Executions = 1
	e.check(out)
	for _, f := range e.found {
		res.Findings = append(res.Findings, f)
	}
	sort.Slice(res.Findings, func(i, j int) bool { return res.Findings[i].Signature < res.Findings[j].Signature })
	return res
}

// Package vatomic is the drop-in replacement for sync/atomic in instrumented files (E4-a).
// Every operation first calls vrt.Atomic (a scheduling point and a happens-before edge on the
// location: loads acquire, stores release, read-modify-writes do both — the semantics of the
// Go race detector) and then performs the real atomic operation while still holding the run
// token. Outside an exploration vrt.Atomic returns immediately.
//
// The overlay writer replaces the import path verif/sched/vrt by goa.design/goa/v3/pkg/vrt.
package vatomic

import (
	"sync/atomic"
	"unsafe"

	"verif/sched/vrt"
)

func AddInt32(addr *int32, delta int32) int32 {
	vrt.Atomic(unsafe.Pointer(addr), vrt.AtomicRMW)
	return atomic.AddInt32(addr, delta)
}
func AddInt64(addr *int64, delta int64) int64 {
	vrt.Atomic(unsafe.Pointer(addr), vrt.AtomicRMW)
	return atomic.AddInt64(addr, delta)
}
func AddUint32(addr *uint32, delta uint32) uint32 {
	vrt.Atomic(unsafe.Pointer(addr), vrt.AtomicRMW)
	return atomic.AddUint32(addr, delta)
}
func AddUint64(addr *uint64, delta uint64) uint64 {
	vrt.Atomic(unsafe.Pointer(addr), vrt.AtomicRMW)
	return atomic.AddUint64(addr, delta)
}
func AddUintptr(addr *uintptr, delta uintptr) uintptr {
	vrt.Atomic(unsafe.Pointer(addr), vrt.AtomicRMW)
	return atomic.AddUintptr(addr, delta)
}

func LoadInt32(addr *int32) int32 {
	vrt.Atomic(unsafe.Pointer(addr), vrt.AtomicLoad)
	return atomic.LoadInt32(addr)
}
func LoadInt64(addr *int64) int64 {
	vrt.Atomic(unsafe.Pointer(addr), vrt.AtomicLoad)
	return atomic.LoadInt64(addr)
}
func LoadUint32(addr *uint32) uint32 {
	vrt.Atomic(unsafe.Pointer(addr), vrt.AtomicLoad)
	return atomic.LoadUint32(addr)
}
func LoadUint64(addr *uint64) uint64 {
	vrt.Atomic(unsafe.Pointer(addr), vrt.AtomicLoad)
	return atomic.LoadUint64(addr)
}
func LoadUintptr(addr *uintptr) uintptr {
	vrt.Atomic(unsafe.Pointer(addr), vrt.AtomicLoad)
	return atomic.LoadUintptr(addr)
}
func LoadPointer(addr *unsafe.Pointer) unsafe.Pointer {
	vrt.Atomic(unsafe.Pointer(addr), vrt.AtomicLoad)
	return atomic.LoadPointer(addr)
}

func StoreInt32(addr *int32, val int32) {
	vrt.Atomic(unsafe.Pointer(addr), vrt.AtomicStore)
	atomic.StoreInt32(addr, val)
}
func StoreInt64(addr *int64, val int64) {
	vrt.Atomic(unsafe.Pointer(addr), vrt.AtomicStore)
	atomic.StoreInt64(addr, val)
}
func StoreUint32(addr *uint32, val uint32) {
	vrt.Atomic(unsafe.Pointer(addr), vrt.AtomicStore)
	atomic.StoreUint32(addr, val)
}
func StoreUint64(addr *uint64, val uint64) {
	vrt.Atomic(unsafe.Pointer(addr), vrt.AtomicStore)
	atomic.StoreUint64(addr, val)
}
func StoreUintptr(addr *uintptr, val uintptr) {
	vrt.Atomic(unsafe.Pointer(addr), vrt.AtomicStore)
	atomic.StoreUintptr(addr, val)
}
func StorePointer(addr *unsafe.Pointer, val unsafe.Pointer) {
	vrt.Atomic(unsafe.Pointer(addr), vrt.AtomicStore)
	atomic.StorePointer(addr, val)
}

func SwapInt32(addr *int32, new int32) int32 {
	vrt.Atomic(unsafe.Pointer(addr), vrt.AtomicRMW)
	return atomic.SwapInt32(addr, new)
}
func SwapInt64(addr *int64, new int64) int64 {
	vrt.Atomic(unsafe.Pointer(addr), vrt.AtomicRMW)
	return atomic.SwapInt64(addr, new)
}
func SwapUint32(addr *uint32, new uint32) uint32 {
	vrt.Atomic(unsafe.Pointer(addr), vrt.AtomicRMW)
	return atomic.SwapUint32(addr, new)
}
func SwapUint64(addr *uint64, new uint64) uint64 {
	vrt.Atomic(unsafe.Pointer(addr), vrt.AtomicRMW)
	return atomic.SwapUint64(addr, new)
}
func SwapUintptr(addr *uintptr, new uintptr) uintptr {
	vrt.Atomic(unsafe.Pointer(addr), vrt.AtomicRMW)
	return atomic.SwapUintptr(addr, new)
}
func SwapPointer(addr *unsafe.Pointer, new unsafe.Pointer) unsafe.Pointer {
	vrt.Atomic(unsafe.Pointer(addr), vrt.AtomicRMW)
	return atomic.SwapPointer(addr, new)
}

func CompareAndSwapInt32(addr *int32, old, new int32) bool {
	vrt.Atomic(unsafe.Pointer(addr), vrt.AtomicRMW)
	return atomic.CompareAndSwapInt32(addr, old, new)
}
func CompareAndSwapInt64(addr *int64, old, new int64) bool {
	vrt.Atomic(unsafe.Pointer(addr), vrt.AtomicRMW)
	return atomic.CompareAndSwapInt64(addr, old, new)
}
func CompareAndSwapUint32(addr *uint32, old, new uint32) bool {
	vrt.Atomic(unsafe.Pointer(addr), vrt.AtomicRMW)
	return atomic.CompareAndSwapUint32(addr, old, new)
}
func CompareAndSwapUint64(addr *uint64, old, new uint64) bool {
	vrt.Atomic(unsafe.Pointer(addr), vrt.AtomicRMW)
	return atomic.CompareAndSwapUint64(addr, old, new)
}
func CompareAndSwapUintptr(addr *uintptr, old, new uintptr) bool {
	vrt.Atomic(unsafe.Pointer(addr), vrt.AtomicRMW)
	return atomic.CompareAndSwapUintptr(addr, old, new)
}
func CompareAndSwapPointer(addr *unsafe.Pointer, old, new unsafe.Pointer) bool {
	vrt.Atomic(unsafe.Pointer(addr), vrt.AtomicRMW)
	return atomic.CompareAndSwapPointer(addr, old, new)
}

// Int32 mirrors atomic.Int32.
type Int32 struct{ v atomic.Int32 }

func (x *Int32) Load() int32 { vrt.Atomic(unsafe.Pointer(x), vrt.AtomicLoad); return x.v.Load() }
func (x *Int32) Store(val int32) {
	vrt.Atomic(unsafe.Pointer(x), vrt.AtomicStore)
	x.v.Store(val)
}
func (x *Int32) Swap(new int32) int32 {
	vrt.Atomic(unsafe.Pointer(x), vrt.AtomicRMW)
	return x.v.Swap(new)
}
func (x *Int32) CompareAndSwap(old, new int32) bool {
	vrt.Atomic(unsafe.Pointer(x), vrt.AtomicRMW)
	return x.v.CompareAndSwap(old, new)
}
func (x *Int32) Add(delta int32) int32 {
	vrt.Atomic(unsafe.Pointer(x), vrt.AtomicRMW)
	return x.v.Add(delta)
}

// Int64 mirrors atomic.Int64.
type Int64 struct{ v atomic.Int64 }

func (x *Int64) Load() int64 { vrt.Atomic(unsafe.Pointer(x), vrt.AtomicLoad); return x.v.Load() }
func (x *Int64) Store(val int64) {
	vrt.Atomic(unsafe.Pointer(x), vrt.AtomicStore)
	x.v.Store(val)
}
func (x *Int64) Swap(new int64) int64 {
	vrt.Atomic(unsafe.Pointer(x), vrt.AtomicRMW)
	return x.v.Swap(new)
}
func (x *Int64) CompareAndSwap(old, new int64) bool {
	vrt.Atomic(unsafe.Pointer(x), vrt.AtomicRMW)
	return x.v.CompareAndSwap(old, new)
}
func (x *Int64) Add(delta int64) int64 {
	vrt.Atomic(unsafe.Pointer(x), vrt.AtomicRMW)
	return x.v.Add(delta)
}

// Uint32 mirrors atomic.Uint32.
type Uint32 struct{ v atomic.Uint32 }

func (x *Uint32) Load() uint32 { vrt.Atomic(unsafe.Pointer(x), vrt.AtomicLoad); return x.v.Load() }
func (x *Uint32) Store(val uint32) {
	vrt.Atomic(unsafe.Pointer(x), vrt.AtomicStore)
	x.v.Store(val)
}
func (x *Uint32) Swap(new uint32) uint32 {
	vrt.Atomic(unsafe.Pointer(x), vrt.AtomicRMW)
	return x.v.Swap(new)
}
func (x *Uint32) CompareAndSwap(old, new uint32) bool {
	vrt.Atomic(unsafe.Pointer(x), vrt.AtomicRMW)
	return x.v.CompareAndSwap(old, new)
}
func (x *Uint32) Add(delta uint32) uint32 {
	vrt.Atomic(unsafe.Pointer(x), vrt.AtomicRMW)
	return x.v.Add(delta)
}

// Uint64 mirrors atomic.Uint64.
type Uint64 struct{ v atomic.Uint64 }

func (x *Uint64) Load() uint64 { vrt.Atomic(unsafe.Pointer(x), vrt.AtomicLoad); return x.v.Load() }
func (x *Uint64) Store(val uint64) {
	vrt.Atomic(unsafe.Pointer(x), vrt.AtomicStore)
	x.v.Store(val)
}
func (x *Uint64) Swap(new uint64) uint64 {
	vrt.Atomic(unsafe.Pointer(x), vrt.AtomicRMW)
	return x.v.Swap(new)
}
func (x *Uint64) CompareAndSwap(old, new uint64) bool {
	vrt.Atomic(unsafe.Pointer(x), vrt.AtomicRMW)
	return x.v.CompareAndSwap(old, new)
}
func (x *Uint64) Add(delta uint64) uint64 {
	vrt.Atomic(unsafe.Pointer(x), vrt.AtomicRMW)
	return x.v.Add(delta)
}

// Uintptr mirrors atomic.Uintptr.
type Uintptr struct{ v atomic.Uintptr }

func (x *Uintptr) Load() uintptr { vrt.Atomic(unsafe.Pointer(x), vrt.AtomicLoad); return x.v.Load() }
func (x *Uintptr) Store(val uintptr) {
	vrt.Atomic(unsafe.Pointer(x), vrt.AtomicStore)
	x.v.Store(val)
}
func (x *Uintptr) Swap(new uintptr) uintptr {
	vrt.Atomic(unsafe.Pointer(x), vrt.AtomicRMW)
	return x.v.Swap(new)
}
func (x *Uintptr) CompareAndSwap(old, new uintptr) bool {
	vrt.Atomic(unsafe.Pointer(x), vrt.AtomicRMW)
	return x.v.CompareAndSwap(old, new)
}
func (x *Uintptr) Add(delta uintptr) uintptr {
	vrt.Atomic(unsafe.Pointer(x), vrt.AtomicRMW)
	return x.v.Add(delta)
}

// Bool mirrors atomic.Bool.
type Bool struct{ v atomic.Bool }

func (x *Bool) Load() bool { vrt.Atomic(unsafe.Pointer(x), vrt.AtomicLoad); return x.v.Load() }
func (x *Bool) Store(val bool) {
	vrt.Atomic(unsafe.Pointer(x), vrt.AtomicStore)
	x.v.Store(val)
}
func (x *Bool) Swap(new bool) bool {
	vrt.Atomic(unsafe.Pointer(x), vrt.AtomicRMW)
	return x.v.Swap(new)
}
func (x *Bool) CompareAndSwap(old, new bool) bool {
	vrt.Atomic(unsafe.Pointer(x), vrt.AtomicRMW)
	return x.v.CompareAndSwap(old, new)
}

// Pointer mirrors atomic.Pointer[T].
type Pointer[T any] struct{ v atomic.Pointer[T] }

func (x *Pointer[T]) Load() *T { vrt.Atomic(unsafe.Pointer(x), vrt.AtomicLoad); return x.v.Load() }
func (x *Pointer[T]) Store(val *T) {
	vrt.Atomic(unsafe.Pointer(x), vrt.AtomicStore)
	x.v.Store(val)
}
func (x *Pointer[T]) Swap(new *T) *T {
	vrt.Atomic(unsafe.Pointer(x), vrt.AtomicRMW)
	return x.v.Swap(new)
}
func (x *Pointer[T]) CompareAndSwap(old, new *T) bool {
	vrt.Atomic(unsafe.Pointer(x), vrt.AtomicRMW)
	return x.v.CompareAndSwap(old, new)
}

// Value mirrors atomic.Value.
type Value struct{ v atomic.Value }

func (x *Value) Load() any { vrt.Atomic(unsafe.Pointer(x), vrt.AtomicLoad); return x.v.Load() }
func (x *Value) Store(val any) {
	vrt.Atomic(unsafe.Pointer(x), vrt.AtomicStore)
	x.v.Store(val)
}
func (x *Value) Swap(new any) any {
	vrt.Atomic(unsafe.Pointer(x), vrt.AtomicRMW)
	return x.v.Swap(new)
}
func (x *Value) CompareAndSwap(old, new any) bool {
	vrt.Atomic(unsafe.Pointer(x), vrt.AtomicRMW)
	return x.v.CompareAndSwap(old, new)
}

package vrt

import (
	"fmt"
	"reflect"
	"runtime"
	"sort"
	"strings"
	"unsafe"
)

// vclock is a vector clock indexed by virtual thread id. Clocks of different lengths are
// compatible (missing components are zero).
type vclock []uint32

func (v vclock) clone() vclock { return append(vclock(nil), v...) }

func (v vclock) grow(n int) vclock {
	for len(v) < n {
		v = append(v, 0)
	}
	return v
}

func (v vclock) inc(i int) { v[i]++ }

func (v vclock) get(i int) uint32 {
	if i < len(v) {
		return v[i]
	}
	return 0
}

// join sets *v to the component-wise maximum of *v and o.
func (v *vclock) join(o vclock) {
	if len(o) > len(*v) {
		*v = v.grow(len(o))
	}
	for i, c := range o {
		if c > (*v)[i] {
			(*v)[i] = c
		}
	}
}

// Race is one pair of conflicting accesses not ordered by happens-before.
type Race struct {
	Kind       string `json:"kind"` // "write-vs-read": earlier access kind, then later access kind
	PrevSite   string `json:"prev_site"`
	CurSite    string `json:"cur_site"`
	PrevThread int    `json:"prev_thread"`
	CurThread  int    `json:"cur_thread"`
}

// Site strings are produced by the instrumenter: "relative/file.go:line|Func|expr".
func splitSite(s string) (pos, fn, expr string) {
	parts := strings.SplitN(s, "|", 3)
	for len(parts) < 3 {
		parts = append(parts, "")
	}
	return parts[0], parts[1], parts[2]
}

func fileOf(pos string) string {
	if i := strings.LastIndexByte(pos, ':'); i >= 0 {
		return pos[:i]
	}
	return pos
}

// SiteNormalizer, when set by a worker main, abstracts the file and function of a site before
// they enter a race signature (family B strips design, service and method numbers of generated
// code: the root cause of a race in generated code is the template, not the design).
var SiteNormalizer func(file, fn string) (string, string)

// Signature is the stable abstract class of a race: variable, functions and file, access kinds;
// no line numbers, no thread ids, symmetric in the two accesses.
func (r Race) Signature() string {
	pp, pf, pe := splitSite(r.PrevSite)
	cp, cf, ce := splitSite(r.CurSite)
	kinds := strings.SplitN(r.Kind, "-vs-", 2)
	pfile, cfile := fileOf(pp), fileOf(cp)
	if SiteNormalizer != nil {
		pfile, pf = SiteNormalizer(pfile, pf)
		cfile, cf = SiteNormalizer(cfile, cf)
	}
	a := fmt.Sprintf("%s@%s:%s", kinds[0], pfile, pf)
	b := fmt.Sprintf("%s@%s:%s", kinds[len(kinds)-1], cfile, cf)
	if b < a {
		a, b = b, a
	}
	v := pe
	if ce != pe {
		vs := []string{pe, ce}
		sort.Strings(vs)
		v = vs[0] + "/" + vs[1]
	}
	return fmt.Sprintf("race var=%s %s vs %s", v, a, b)
}

// cell is the shadow state of one memory location (one leaf word of a variable, or one map).
type cell struct {
	keep any // pins the object for the duration of the execution: no address reuse

	// last plain write
	wT    int32
	wC    uint32
	wSite string
	// plain reads since the last write, per thread
	rC    []uint32
	rSite []string
	// last atomic write and atomic reads (conflict with plain accesses only)
	awT   int32
	awC   uint32
	awPC  uintptr
	arC   []uint32
	arPC  []uintptr
	hasW  bool
	hasAW bool
}

func (x *Exec) cellOf(addr uintptr, keep any) *cell {
	c := x.shadow[addr]
	if c == nil {
		c = &cell{keep: keep, wT: -1, awT: -1}
		x.shadow[addr] = c
	}
	return c
}

func (x *Exec) report(kind, prevSite, curSite string, prevT, curT int) {
	key := kind + "\x00" + prevSite + "\x00" + curSite
	if x.raceSeen[key] {
		return
	}
	x.raceSeen[key] = true
	x.races = append(x.races, Race{Kind: kind, PrevSite: prevSite, CurSite: curSite, PrevThread: prevT, CurThread: curT})
}

func setAt(s []uint32, i int, v uint32) []uint32 {
	for len(s) <= i {
		s = append(s, 0)
	}
	s[i] = v
	return s
}

func setStr(s []string, i int, v string) []string {
	for len(s) <= i {
		s = append(s, "")
	}
	s[i] = v
	return s
}

// access checks and records one plain access of thread t to one location.
func (x *Exec) access(t *thread, addr uintptr, keep any, write bool, site string) {
	c := x.cellOf(addr, keep)
	id := t.id
	// against the last plain write
	if c.hasW && int(c.wT) != id && c.wC > t.vc.get(int(c.wT)) {
		if write {
			x.report("write-vs-write", c.wSite, site, int(c.wT), id)
		} else {
			x.report("write-vs-read", c.wSite, site, int(c.wT), id)
		}
	}
	// against the last atomic write
	if c.hasAW && int(c.awT) != id && c.awC > t.vc.get(int(c.awT)) {
		if write {
			x.report("atomicwrite-vs-write", pcSite(c.awPC), site, int(c.awT), id)
		} else {
			x.report("atomicwrite-vs-read", pcSite(c.awPC), site, int(c.awT), id)
		}
	}
	if write {
		for r, rc := range c.rC {
			if r != id && rc > t.vc.get(r) {
				x.report("read-vs-write", c.rSite[r], site, r, id)
			}
		}
		for r, rc := range c.arC {
			if r != id && rc > t.vc.get(r) {
				x.report("atomicread-vs-write", pcSite(c.arPC[r]), site, r, id)
			}
		}
		c.hasW = true
		c.wT, c.wC, c.wSite = int32(id), t.vc[id], site
		c.rC = c.rC[:0]
		c.rSite = c.rSite[:0]
		return
	}
	c.rC = setAt(c.rC, id, t.vc[id])
	c.rSite = setStr(c.rSite, id, site)
}

// atomicAccess checks an atomic operation against plain accesses of the same location.
func (x *Exec) atomicAccess(t *thread, addr uintptr, write bool, pc uintptr) {
	c := x.cellOf(addr, nil)
	id := t.id
	if c.hasW && int(c.wT) != id && c.wC > t.vc.get(int(c.wT)) {
		x.report("write-vs-atomic", c.wSite, pcSite(pc), int(c.wT), id)
	}
	if write {
		for r, rc := range c.rC {
			if r != id && rc > t.vc.get(r) {
				x.report("read-vs-atomicwrite", c.rSite[r], pcSite(pc), r, id)
			}
		}
		c.hasAW = true
		c.awT, c.awC, c.awPC = int32(id), t.vc[id], pc
		c.arC = c.arC[:0]
		c.arPC = c.arPC[:0]
		return
	}
	c.arC = setAt(c.arC, id, t.vc[id])
	for len(c.arPC) <= id {
		c.arPC = append(c.arPC, 0)
	}
	c.arPC[id] = pc
}

// pcSite renders the caller of an atomic shim as a site string "file:line|Func|atomic".
func pcSite(pc uintptr) string {
	if pc == 0 {
		return "?|?|atomic"
	}
	f := runtime.FuncForPC(pc - 1)
	if f == nil {
		return "?|?|atomic"
	}
	file, line := f.FileLine(pc - 1)
	for _, marker := range []string{"/overlay/", "/repo/"} {
		if i := strings.LastIndex(file, marker); i >= 0 {
			file = file[i+len(marker):]
			break
		}
	}
	name := f.Name()
	if i := strings.LastIndexByte(name, '/'); i >= 0 {
		name = name[i+1:]
	}
	if i := strings.IndexByte(name, '.'); i >= 0 {
		name = name[i+1:]
	}
	return fmt.Sprintf("%s:%d|%s|atomic", file, line, name)
}

// ---- address resolution -----------------------------------------------------------------

type eface struct {
	typ  unsafe.Pointer
	data unsafe.Pointer
}

// leafCache maps a pointee type to the offsets of its separately addressable leaves (fields of
// nested structs, array elements), so that a whole-struct copy conflicts with a field access
// and two neighbouring fields never alias.
var leafCache = map[reflect.Type][]uintptr{}

const maxLeaves = 64

func leavesOf(t reflect.Type) []uintptr {
	if l, ok := leafCache[t]; ok {
		return l
	}
	var out []uintptr
	var walk func(t reflect.Type, base uintptr)
	walk = func(t reflect.Type, base uintptr) {
		if len(out) >= maxLeaves {
			return
		}
		switch t.Kind() {
		case reflect.Struct:
			if t.NumField() == 0 {
				return
			}
			for i := 0; i < t.NumField(); i++ {
				f := t.Field(i)
				walk(f.Type, base+f.Offset)
			}
		case reflect.Array:
			for i := 0; i < t.Len() && len(out) < maxLeaves; i++ {
				walk(t.Elem(), base+uintptr(i)*t.Elem().Size())
			}
		default:
			out = append(out, base)
		}
	}
	walk(t, 0)
	leafCache[t] = out
	return out
}

func (x *Exec) hookAccess(t *thread, p any, write bool, site string) {
	e := (*eface)(unsafe.Pointer(&p))
	if e.data == nil {
		return
	}
	base := uintptr(e.data)
	rt := reflect.TypeOf(p)
	kind := opRead
	if write {
		kind = opWrite
	}
	x.point(t, op{kind: uint8(kind), write: write, obj: base, site: site})
	if rt.Kind() == reflect.Ptr {
		et := rt.Elem()
		switch et.Kind() {
		case reflect.Struct, reflect.Array:
			ls := leavesOf(et)
			for _, off := range ls {
				x.access(t, base+off, p, write, site)
			}
			return
		}
	}
	// pointer to a leaf, or a map (identity = the map header pointer)
	x.access(t, base, p, write, site)
}

// R records a read of the variable p points to (p is a pointer) or of the map p.
func R(p any, site string) {
	if x, t := current(); t != nil {
		x.hookAccess(t, p, false, site)
	}
}

// W records a write of the variable p points to (p is a pointer) or of the map p.
func W(p any, site string) {
	if x, t := current(); t != nil {
		x.hookAccess(t, p, true, site)
	}
}

// RP is the in-expression form of R: `x` is rewritten to `*vrt.RP(&x, site)`.
func RP[T any](p *T, site string) *T {
	if x, t := current(); t != nil {
		x.hookAccess(t, p, false, site)
	}
	return p
}

// WP is the in-expression form of W: `x = v` is rewritten to `*vrt.WP(&x, site) = v`.
func WP[T any](p *T, site string) *T {
	if x, t := current(); t != nil {
		x.hookAccess(t, p, true, site)
	}
	return p
}

// RM records a read of map m (lookup, len, range) and returns m.
func RM[M ~map[K]V, K comparable, V any](m M, site string) M {
	if x, t := current(); t != nil && m != nil {
		x.hookAccess(t, m, false, site)
	}
	return m
}

// WM records a write of map m (assignment to an element, delete, clear) and returns m.
func WM[M ~map[K]V, K comparable, V any](m M, site string) M {
	if x, t := current(); t != nil && m != nil {
		x.hookAccess(t, m, true, site)
	}
	return m
}

package vrt

import (
	"reflect"
	"sort"
	"strings"
)

// ---- shared objects of uninstrumented types -------------------------------------------------
//
// The happens-before oracle only sees the accesses the instrumenter rewrites, and it rewrites
// goa's own code: what happens INSIDE a bufio.Reader, a bytes.Buffer or a json.Encoder is
// invisible. A package-level value of such a type is shared by every request, so the
// instrumenter records each USE of one (method call on it, field access through it, passing it
// to a call) as an access to the object itself:
//
//   - no access at all when the object's type is documented as safe for concurrent use
//     (ConcurrencySafe below: the explicit allow-list, every entry with its reason);
//   - a WRITE for every other type from outside the instrumented code: two uses by two threads
//     that are not ordered by happens-before are then a data race of the existing oracle, whose
//     signature names the variable and the dynamic type.
//
// The decision is taken on the DYNAMIC type (an io.Reader variable may hold crypto/rand's reader
// or a *bufio.Reader); when the static type already decides, the instrumenter emits no hook.

// ConcurrencySafe is the allow-list: "<package path>.<type name>" or "<package path>.*" ->
// why values of that type may be used by several goroutines at once without synchronisation.
var ConcurrencySafe = map[string]string{
	"sync.*":                   "synchronisation primitives; in instrumented code they are the vsync shims whose operations are scheduling points with their own happens-before semantics",
	"sync/atomic.*":            "atomic values; shimmed (vatomic) in instrumented code",
	"context.*":                "package doc: \"Contexts are safe for simultaneous use by multiple goroutines\"",
	"crypto/rand.*":            "crypto/rand.Reader: \"a global, shared instance of a cryptographically secure random number generator\"; Read is safe for concurrent use",
	"regexp.Regexp":            "type doc: \"A Regexp is safe for concurrent use by multiple goroutines, except for configuration methods, such as Longest\"",
	"log.Logger":               "type doc: \"A Logger can be used simultaneously from multiple goroutines; it guarantees to serialize access to the Writer\"",
	"log/slog.Logger":          "handlers are required to be safe for concurrent use; a Logger is an immutable handle on one",
	"net/http.Client":          "type doc: \"Clients are safe for concurrent use by multiple goroutines\"",
	"net/http.Transport":       "type doc: \"Transports ... are safe for concurrent use by multiple goroutines\"",
	"net/http.ServeMux":        "guards its routing table with its own mutex; Handle and ServeHTTP may be called concurrently",
	"time.Location":            "immutable after loading; all methods are read-only",
	"os.File":                  "type doc: \"The methods of File are safe for concurrent use\" (os.Stdout, os.Stderr)",
	"io.discard":               "io.Discard: stateless, \"all Write calls succeed without doing anything\"",
	"errors.*":                 "error values made by errors.New / errors.Join are immutable",
	"fmt.wrapError":            "error value made by fmt.Errorf: immutable",
	"fmt.wrapErrors":           "error value made by fmt.Errorf: immutable",
	"reflect.rtype":            "reflect.Type values are immutable descriptors; package doc: comparable and usable from any goroutine",
	"unicode.RangeTable":       "read-only character tables (unicode.Letter, ...)",
	"unicode.SpecialCase":      "read-only case mapping tables",
	"encoding/base64.Encoding": "immutable after NewEncoding; Encode/Decode methods do not modify it (base64.StdEncoding, RawURLEncoding are shared by design)",
	"encoding/base32.Encoding": "immutable after NewEncoding, as base64.Encoding",
	"encoding/binary.*":        "binary.BigEndian / LittleEndian: stateless byte order values",
	"text/template.Template":   "type doc (Execute): \"A template may be executed safely in parallel\"",
	"html/template.Template":   "type doc (Execute): \"A template may be executed safely in parallel\"",
	"go/token.FileSet":         "type doc: \"The methods of FileSet are synchronized; multiple goroutines may invoke them concurrently\"",
	"net.Resolver":             "type doc: a Resolver may be used by multiple goroutines simultaneously",
}

// InternalPkg says whether a package path belongs to the instrumented code (goa itself, the
// generated corpus, the harness): values of its types are not opaque, their code carries hooks.
var InternalPkg = func(path string) bool {
	return strings.HasPrefix(path, "goa.design/goa/v3") || path == "corpus" || strings.HasPrefix(path, "corpus/") ||
		path == "verif" || strings.HasPrefix(path, "verif/")
}

// SafeReason returns the allow-list reason for a named type ("" = not allow-listed).
func SafeReason(pkgPath, name string) string {
	if r, ok := ConcurrencySafe[pkgPath+"."+name]; ok {
		return r
	}
	return ConcurrencySafe[pkgPath+".*"]
}

// OpaqueStats counts, per dynamic type, the uses the runtime looked at (worker evidence).
type OpaqueStats struct {
	Tracked     map[string]int64 `json:"tracked_as_write,omitempty"`
	AllowListed map[string]int64 `json:"allow_listed,omitempty"`
}

var opaqueStats = OpaqueStats{Tracked: map[string]int64{}, AllowListed: map[string]int64{}}

// OpaqueTypesSeen lists "kind type" lines of everything the opaque hooks met in this process.
func OpaqueTypesSeen() []string {
	var out []string
	for k := range opaqueStats.Tracked {
		out = append(out, "write "+k)
	}
	for k := range opaqueStats.AllowListed {
		out = append(out, "safe "+k)
	}
	sort.Strings(out)
	return out
}

// opaqueIdentity returns the object a value stands for: the pointee of a pointer, the header of
// a map or channel. Values without reference semantics (a struct held by value, a number) are
// copies and have no shared identity.
func opaqueIdentity(rv reflect.Value) (base uintptr, named reflect.Type, ok bool) {
	for rv.IsValid() && rv.Kind() == reflect.Interface {
		rv = rv.Elem()
	}
	if !rv.IsValid() {
		return 0, nil, false
	}
	t := rv.Type()
	switch rv.Kind() {
	case reflect.Ptr:
		if rv.IsNil() {
			return 0, nil, false
		}
		return rv.Pointer(), t.Elem(), true
	case reflect.Map, reflect.Chan:
		if rv.IsNil() || t.PkgPath() == "" {
			return 0, nil, false // unnamed maps: element hooks of the instrumenter cover them
		}
		return rv.Pointer(), t, true
	}
	return 0, nil, false
}

func (x *Exec) opaque(t *thread, v any, site string) {
	base, named, ok := opaqueIdentity(reflect.ValueOf(v))
	if !ok || named.PkgPath() == "" || named.Name() == "" || InternalPkg(named.PkgPath()) {
		return
	}
	key := named.PkgPath() + "." + named.Name()
	if SafeReason(named.PkgPath(), named.Name()) != "" {
		opaqueStats.AllowListed[key]++
		return
	}
	opaqueStats.Tracked[key]++
	ts := reflect.TypeOf(v).String()
	site += " (" + ts + ")"
	x.point(t, op{kind: opWrite, write: true, obj: base, site: site})
	x.access(t, base, v, true, site)
}

// OV is the in-expression hook for a USE of a package-level value (or a value reached only
// through one) whose type is not goa's: `f(x)` / `x.M()` become `f(vrt.OV(x, site))` /
// `vrt.OV(x, site).M()`.
func OV[T any](v T, site string) T {
	if x, t := current(); t != nil {
		x.opaque(t, any(v), site)
	}
	return v
}

// OP is OV for an addressable variable held by value whose pointer-receiver method is called
// (`buf.Write(p)` with `var buf bytes.Buffer` becomes `vrt.OP(&buf, site).Write(p)`).
func OP[T any](p *T, site string) *T {
	if x, t := current(); t != nil {
		x.opaque(t, any(p), site)
	}
	return p
}

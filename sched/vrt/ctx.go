package vrt

import (
	"context"
	"unsafe"
)

// ---- context cancellation as a scheduler primitive ------------------------------------------
//
// A goroutine that waits for `<-ctx.Done()` blocks inside the runtime, outside the cooperative
// scheduler. The instrumenter therefore rewrites the receive statement `<-x.Done()` (x of type
// context.Context) into vrt.AwaitDone(x), and every call of a value of type context.CancelFunc
// into vrt.Cancel(f): the wait becomes a blocking scheduler operation that is enabled once
// x.Err() != nil, the cancellation a scheduling point. Happens-before: every cancellation
// releases into ONE global clock and every completed wait acquires it (the runtime cannot tell
// which context a CancelFunc belongs to, parents cancel children): an over-approximation of the
// real edge "cancel(ctx) happens before <-ctx.Done() returns", which can only hide races between
// accesses ordered through an unrelated cancellation, never invent one.

var ctxObj byte // identity of the global cancellation object

// AwaitDone blocks until ctx is done. Outside an exploration it is `<-ctx.Done()`.
func AwaitDone(ctx context.Context) {
	x, t := current()
	if x == nil {
		<-ctx.Done()
		return
	}
	if x.mode == modeAbort {
		return
	}
	if t == nil {
		if ctx.Err() == nil {
			panic("vrt: waiting for a context that is not done would block the single-threaded setup phase")
		}
		return
	}
	p := unsafe.Pointer(&ctxObj)
	st := x.obj(p)
	x.point(t, op{kind: opAwait, obj: uintptr(p), st: st, cond: func() bool { return ctx.Err() != nil }, site: "await-done"})
	t.vc.join(st.rel)
}

// CancelPoint is the scheduling point and release of a cancellation (call it right before the
// CancelFunc).
func CancelPoint() {
	x, t := current()
	if t == nil {
		return
	}
	p := unsafe.Pointer(&ctxObj)
	st := x.obj(p)
	x.point(t, op{kind: opCancel, write: true, obj: uintptr(p), st: st})
	st.rel.join(t.vc)
	t.vc.inc(t.id)
}

// Cancel calls f under the scheduler: `cancel()` is rewritten to `vrt.Cancel(cancel)`.
func Cancel(f context.CancelFunc) {
	CancelPoint()
	f()
}

// Package vsync is the drop-in replacement for the parts of package sync that goa's runtime
// and generated code use (E4-a). The instrumenter rewrites `import "sync"` into
// `import sync "goa.design/goa/v3/pkg/vrt/vsync"`. Every operation is a scheduling point of
// the controlled scheduler and an edge of the happens-before oracle; when no exploration is
// active (package init, free-running auxiliary pass) the real primitives are used.
//
// The source imports verif/sched/vrt; the overlay writer replaces that import path by
// goa.design/goa/v3/pkg/vrt when it copies this file into goa's tree.
package vsync

import (
	"sync"
	"sync/atomic"
	"unsafe"

	"verif/sched/vrt"
)

// Locker is sync.Locker.
type Locker = sync.Locker

// Mutex mirrors sync.Mutex.
type Mutex struct {
	real sync.Mutex
}

func (m *Mutex) Lock() {
	if !vrt.LockOp(unsafe.Pointer(m), vrt.MutexLock) {
		m.real.Lock()
	}
}

func (m *Mutex) Unlock() {
	if !vrt.LockOp(unsafe.Pointer(m), vrt.MutexUnlock) {
		m.real.Unlock()
	}
}

func (m *Mutex) TryLock() bool {
	if ok, handled := vrt.TryLockOp(unsafe.Pointer(m), false); handled {
		return ok
	}
	return m.real.TryLock()
}

// RWMutex mirrors sync.RWMutex, including writer preference (a pending Lock holds back new
// readers).
type RWMutex struct {
	real sync.RWMutex
}

func (m *RWMutex) Lock() {
	if !vrt.LockOp(unsafe.Pointer(m), vrt.RWLock) {
		m.real.Lock()
	}
}

func (m *RWMutex) Unlock() {
	if !vrt.LockOp(unsafe.Pointer(m), vrt.RWUnlock) {
		m.real.Unlock()
	}
}

func (m *RWMutex) RLock() {
	if !vrt.LockOp(unsafe.Pointer(m), vrt.RWRLock) {
		m.real.RLock()
	}
}

func (m *RWMutex) RUnlock() {
	if !vrt.LockOp(unsafe.Pointer(m), vrt.RWRUnlock) {
		m.real.RUnlock()
	}
}

func (m *RWMutex) TryLock() bool {
	if ok, handled := vrt.TryLockOp(unsafe.Pointer(m), false); handled {
		return ok
	}
	return m.real.TryLock()
}

func (m *RWMutex) TryRLock() bool {
	if ok, handled := vrt.TryLockOp(unsafe.Pointer(m), true); handled {
		return ok
	}
	return m.real.TryRLock()
}

type rlocker RWMutex

func (r *rlocker) Lock()   { (*RWMutex)(r).RLock() }
func (r *rlocker) Unlock() { (*RWMutex)(r).RUnlock() }

// RLocker mirrors (*sync.RWMutex).RLocker.
func (m *RWMutex) RLocker() Locker { return (*rlocker)(m) }

// Once mirrors sync.Once. The done flag lives in the object (a Once completed during package
// init or an earlier execution stays completed); the "running" state and the clocks are per
// execution.
type Once struct {
	done atomic.Uint32
	m    sync.Mutex
}

func (o *Once) Do(f func()) {
	if !vrt.Active() {
		if o.done.Load() == 0 {
			o.m.Lock()
			defer o.m.Unlock()
			if o.done.Load() == 0 {
				defer o.done.Store(1)
				f()
			}
		}
		return
	}
	p := unsafe.Pointer(o)
	if o.done.Load() == 1 {
		vrt.OnceAcquire(p)
		return
	}
	if !vrt.OnceEnter(p, func() bool { return o.done.Load() == 1 }) {
		return
	}
	defer vrt.OnceLeave(p, func() { o.done.Store(1) })
	f()
}

// WaitGroup mirrors sync.WaitGroup.
type WaitGroup struct {
	real sync.WaitGroup
}

func (wg *WaitGroup) Add(delta int) {
	if !vrt.WGAdd(unsafe.Pointer(wg), delta) {
		wg.real.Add(delta)
	}
}

func (wg *WaitGroup) Done() { wg.Add(-1) }

func (wg *WaitGroup) Wait() {
	if !vrt.WGWait(unsafe.Pointer(wg)) {
		wg.real.Wait()
	}
}

// Map mirrors sync.Map. Under the scheduler every operation is a sequentially consistent
// synchronisation on the map object (stronger than the real sync.Map's guarantees: it can
// hide races that go through a Map but never invents one). Range must be deterministic for a
// given schedule (its callback usually contains scheduling points), so under an exploration the
// shim remembers the order in which keys were first stored and Range visits a snapshot of the
// keys taken when it starts, in that order, skipping the ones deleted meanwhile -- one of the
// behaviours sync.Map documents ("Range does not necessarily correspond to any consistent
// snapshot"; a key stored during the call may or may not be visited: here it is not).
type Map struct {
	real  sync.Map
	order []any // keys in first-store order, maintained only while an exploration is active
}

func (m *Map) noteStore(key any) {
	if !vrt.Active() {
		return
	}
	if _, ok := m.real.Load(key); !ok {
		m.order = append(m.order, key)
	}
}

func (m *Map) noteDelete(key any) {
	if !vrt.Active() {
		return
	}
	for i, k := range m.order {
		if k == key {
			m.order = append(m.order[:i:i], m.order[i+1:]...)
			return
		}
	}
}

func (m *Map) Load(key any) (any, bool) {
	vrt.SyncPoint(unsafe.Pointer(m), false)
	return m.real.Load(key)
}
func (m *Map) Store(key, value any) {
	vrt.SyncPoint(unsafe.Pointer(m), true)
	m.noteStore(key)
	m.real.Store(key, value)
}
func (m *Map) LoadOrStore(key, value any) (any, bool) {
	vrt.SyncPoint(unsafe.Pointer(m), true)
	m.noteStore(key)
	return m.real.LoadOrStore(key, value)
}
func (m *Map) LoadAndDelete(key any) (any, bool) {
	vrt.SyncPoint(unsafe.Pointer(m), true)
	m.noteDelete(key)
	return m.real.LoadAndDelete(key)
}
func (m *Map) Delete(key any) {
	vrt.SyncPoint(unsafe.Pointer(m), true)
	m.noteDelete(key)
	m.real.Delete(key)
}
func (m *Map) Swap(key, value any) (any, bool) {
	vrt.SyncPoint(unsafe.Pointer(m), true)
	m.noteStore(key)
	return m.real.Swap(key, value)
}
func (m *Map) CompareAndSwap(key, old, new any) bool {
	vrt.SyncPoint(unsafe.Pointer(m), true)
	return m.real.CompareAndSwap(key, old, new)
}
func (m *Map) CompareAndDelete(key, old any) bool {
	vrt.SyncPoint(unsafe.Pointer(m), true)
	ok := m.real.CompareAndDelete(key, old)
	if ok {
		m.noteDelete(key)
	}
	return ok
}
func (m *Map) Range(f func(key, value any) bool) {
	vrt.SyncPoint(unsafe.Pointer(m), false)
	if !vrt.Active() {
		m.real.Range(f)
		return
	}
	keys := append([]any{}, m.order...)
	seen := make(map[any]bool, len(keys))
	for _, k := range keys {
		seen[k] = true
		if v, ok := m.real.Load(k); ok {
			if !f(k, v) {
				return
			}
		}
	}
	// keys stored while no exploration was active (package initialisation) are not in the
	// order list: they follow, in Go's order (keys stored during this Range are not visited)
	for _, k := range m.order {
		seen[k] = true
	}
	var rest [][2]any
	m.real.Range(func(k, v any) bool {
		if !seen[k] {
			rest = append(rest, [2]any{k, v})
		}
		return true
	})
	for _, kv := range rest {
		if !f(kv[0], kv[1]) {
			return
		}
	}
}

// Pool mirrors sync.Pool. Outside an exploration it is the real pool. Under the scheduler it
// is a per-execution multiset shared by all threads: Get and Put are scheduling points, Put(x)
// happens-before the Get that returns x, and WHICH value a Get returns is a data choice the
// explorer branches over: any value Put before by ANY thread (most recent first) or none of
// them (New is called) -- exactly the freedom sync.Pool documents. So "A puts, B gets A's
// object while A still uses it", "a value Put twice is handed to two callers" and "the pool
// dropped the value" all exist as explored executions. Misuse of the pool is never reported by
// itself: its effects are judged by the differential and the happens-before oracles.
type Pool struct {
	New  func() any
	real sync.Pool
}

func (p *Pool) Get() any {
	v, ok, handled := vrt.PoolGet(unsafe.Pointer(p))
	if !handled {
		if v := p.real.Get(); v != nil {
			return v
		}
	} else if ok {
		return v
	}
	if p.New != nil {
		return p.New()
	}
	return nil
}

func (p *Pool) Put(v any) {
	if v == nil {
		return
	}
	if !vrt.PoolPut(unsafe.Pointer(p), v) {
		p.real.Put(v)
	}
}

// OnceFunc, OnceValue, OnceValues mirror the sync helpers on top of the Once shim.
func OnceFunc(f func()) func() {
	var o Once
	return func() { o.Do(f) }
}

func OnceValue[T any](f func() T) func() T {
	var o Once
	var v T
	return func() T { o.Do(func() { v = f() }); return v }
}

func OnceValues[T1, T2 any](f func() (T1, T2)) func() (T1, T2) {
	var o Once
	var a T1
	var b T2
	return func() (T1, T2) { o.Do(func() { a, b = f() }); return a, b }
}

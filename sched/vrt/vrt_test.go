package vrt_test

import (
	"bufio"
	"context"
	crand "crypto/rand"
	"fmt"
	"io"
	"regexp"
	"sort"
	"strings"
	"testing"

	"verif/sched/vrt"
	atomic "verif/sched/vrt/vatomic"
	sync "verif/sched/vrt/vsync"
)

// The tests below are the self-test of engine E3: small synthetic programs with known
// answers, written the way the instrumenter rewrites goa code (vrt.RP / vrt.WP / vrt.RM /
// vrt.WM around shared accesses, the sync shims instead of package sync).

type counterEnv struct {
	mu sync.Mutex
	n  int
}

func classes(r *vrt.Result) []string {
	var out []string
	for _, f := range r.Findings {
		out = append(out, f.Class)
	}
	sort.Strings(out)
	return out
}

func has(r *vrt.Result, class string) *vrt.Finding {
	for _, f := range r.Findings {
		if f.Class == class {
			return f
		}
	}
	return nil
}

func racyCounter() *vrt.Scenario {
	inc := func(env any) any {
		e := env.(*counterEnv)
		v := *vrt.RP(&e.n, "t.go:1|inc|e.n")
		*vrt.WP(&e.n, "t.go:2|inc|e.n") = v + 1
		return "ok"
	}
	return &vrt.Scenario{Name: "racy-counter", Setup: func() any { return &counterEnv{} },
		Threads: []func(any) any{inc, inc}, Shared: true,
		Check: func(env any, _ []any) string {
			if n := env.(*counterEnv).n; n != 2 {
				return fmt.Sprintf("lost-update: n=%d", n)
			}
			return ""
		},
		Classify: func(env any, _ []any) string { return fmt.Sprint(env.(*counterEnv).n) }}
}

func TestRaceFoundAtBoundZero(t *testing.T) {
	r := vrt.Explore(racyCounter(), vrt.Options{Bound: 0})
	if r.HarnessError != "" {
		t.Fatal(r.HarnessError)
	}
	f := has(r, "race")
	if f == nil {
		t.Fatalf("no race at bound 0: %+v", r.Findings)
	}
	if f.Preempt != 0 || f.Bound != 0 {
		t.Fatalf("race should be seen without preemption: %+v", f)
	}
	if has(r, "invariant") != nil {
		t.Fatalf("lost update needs a preemption, yet reported at bound 0")
	}
	if !strings.Contains(f.Signature, "var=e.n") {
		t.Fatalf("signature %q", f.Signature)
	}
}

func TestLostUpdateNeedsOnePreemption(t *testing.T) {
	r := vrt.Explore(racyCounter(), vrt.Options{Bound: 2})
	f := has(r, "invariant")
	if f == nil || f.Bound != 1 || f.Preempt != 1 {
		t.Fatalf("lost update must be found first at bound 1: %+v", f)
	}
	if len(r.Outcomes) < 2 {
		t.Fatalf("expected two outcome classes (n=1, n=2): %v", r.Outcomes)
	}
	// the recorded schedule replays to the same failure
	rp := vrt.Replay(racyCounter(), f.Schedule, vrt.Options{})
	if has(rp, "invariant") == nil {
		t.Fatalf("replay did not reproduce: %+v", rp)
	}
}

func lockedCounter() *vrt.Scenario {
	inc := func(env any) any {
		e := env.(*counterEnv)
		e.mu.Lock()
		v := *vrt.RP(&e.n, "t.go:1|inc|e.n")
		*vrt.WP(&e.n, "t.go:2|inc|e.n") = v + 1
		e.mu.Unlock()
		return "ok"
	}
	return &vrt.Scenario{Name: "locked-counter", Setup: func() any { return &counterEnv{} },
		Threads: []func(any) any{inc, inc, inc}, Shared: true,
		Check: func(env any, _ []any) string {
			if n := env.(*counterEnv).n; n != 3 {
				return fmt.Sprintf("lost-update: n=%d", n)
			}
			return ""
		}}
}

func TestMutexNoFalseAlarm(t *testing.T) {
	r := vrt.Explore(lockedCounter(), vrt.Options{Bound: 2})
	if r.HarnessError != "" || len(r.Findings) != 0 {
		t.Fatalf("false alarm: %v %+v", r.HarnessError, r.Findings)
	}
	if !r.Exhaustive || r.BoundCompleted != 2 || r.Schedules < 50 || r.Contended == 0 || r.DistinctTraces != 6 {
		t.Fatalf("unexpected coverage: schedules=%d contended=%d traces=%d per=%v", r.Schedules, r.Contended, r.DistinctTraces, r.PerBound)
	}
	r2 := vrt.Explore(lockedCounter(), vrt.Options{Bound: 2})
	if r2.Schedules != r.Schedules || r2.Executions != r.Executions || r2.MaxDepth != r.MaxDepth {
		t.Fatalf("not deterministic: %d/%d vs %d/%d", r.Schedules, r.Executions, r2.Schedules, r2.Executions)
	}
}

type twoLocks struct{ a, b sync.Mutex }

func TestLockOrderDeadlock(t *testing.T) {
	sc := &vrt.Scenario{Name: "lock-order", Setup: func() any { return &twoLocks{} },
		Threads: []func(any) any{
			func(env any) any {
				e := env.(*twoLocks)
				e.a.Lock()
				e.b.Lock()
				e.b.Unlock()
				e.a.Unlock()
				return 1
			},
			func(env any) any {
				e := env.(*twoLocks)
				e.b.Lock()
				e.a.Lock()
				e.a.Unlock()
				e.b.Unlock()
				return 2
			},
		}}
	r := vrt.Explore(sc, vrt.Options{Bound: 0})
	if has(r, "deadlock") != nil {
		t.Fatalf("deadlock needs one preemption")
	}
	r = vrt.Explore(sc, vrt.Options{Bound: 1})
	f := has(r, "deadlock")
	if f == nil || f.Bound != 1 {
		t.Fatalf("deadlock not found at bound 1: %+v", r.Findings)
	}
	// after an aborted execution the next ones must still work (no poisoned state)
	if r.HarnessError != "" {
		t.Fatal(r.HarnessError)
	}
}

type cacheEnv struct {
	mu   sync.RWMutex
	m    map[string]int
	fill func(e *cacheEnv, k string)
}

func cacheGet(e *cacheEnv, k string) int {
	e.mu.RLock()
	v, ok := vrt.RM(e.m, "c.go:1|get|e.m")[k]
	e.mu.RUnlock()
	if !ok {
		v = len(k)
		e.fill(e, k)
	}
	return v
}

func cacheScenario(name string, fill func(e *cacheEnv, k string)) *vrt.Scenario {
	get := func(k string) func(any) any {
		return func(env any) any { return cacheGet(env.(*cacheEnv), k) }
	}
	return &vrt.Scenario{Name: name, Setup: func() any { return &cacheEnv{m: map[string]int{}, fill: fill} },
		Threads: []func(any) any{get("ab"), get("ab")}}
}

func TestRWMutexCacheFill(t *testing.T) {
	good := cacheScenario("cache-good", func(e *cacheEnv, k string) {
		e.mu.Lock()
		vrt.WM(e.m, "c.go:2|fill|e.m")[k] = len(k)
		e.mu.Unlock()
	})
	r := vrt.Explore(good, vrt.Options{Bound: 3})
	if r.HarnessError != "" || len(r.Findings) != 0 {
		t.Fatalf("false alarm on the correct cache: %v %+v", r.HarnessError, r.Findings)
	}
	// mutation: take RLock instead of Lock on the fill
	bad := cacheScenario("cache-rlock-fill", func(e *cacheEnv, k string) {
		e.mu.RLock()
		vrt.WM(e.m, "c.go:2|fill|e.m")[k] = len(k)
		e.mu.RUnlock()
	})
	r = vrt.Explore(bad, vrt.Options{Bound: 0})
	if f := has(r, "race"); f == nil {
		t.Fatalf("RLock-protected map write not reported: %+v", r.Findings)
	}
	// mutation: no lock at all on the fill
	bad2 := cacheScenario("cache-nolock-fill", func(e *cacheEnv, k string) {
		vrt.WM(e.m, "c.go:2|fill|e.m")[k] = len(k)
	})
	r = vrt.Explore(bad2, vrt.Options{Bound: 0})
	if f := has(r, "race"); f == nil {
		t.Fatalf("unlocked map write not reported: %+v", r.Findings)
	}
}

func TestRecursiveRLockDeadlocksWithWriter(t *testing.T) {
	type env struct{ mu sync.RWMutex }
	sc := &vrt.Scenario{Name: "recursive-rlock", Setup: func() any { return &env{} },
		Threads: []func(any) any{
			func(e any) any {
				m := &e.(*env).mu
				m.RLock()
				m.RLock()
				m.RUnlock()
				m.RUnlock()
				return 1
			},
			func(e any) any { m := &e.(*env).mu; m.Lock(); m.Unlock(); return 2 },
		}}
	r := vrt.Explore(sc, vrt.Options{Bound: 2})
	if has(r, "deadlock") == nil {
		t.Fatalf("writer preference not modelled: %+v", r.Findings)
	}
}

type pubEnv struct {
	data int
	flag uint32
	once sync.Once
	wg   sync.WaitGroup
}

func TestAtomicPublication(t *testing.T) {
	mk := func(name string, atomicFlag bool) *vrt.Scenario {
		return &vrt.Scenario{Name: name, Setup: func() any { return &pubEnv{} }, Shared: true,
			Threads: []func(any) any{
				func(env any) any {
					e := env.(*pubEnv)
					*vrt.WP(&e.data, "p.go:1|pub|e.data") = 42
					if atomicFlag {
						atomic.StoreUint32(&e.flag, 1)
					} else {
						*vrt.WP(&e.flag, "p.go:2|pub|e.flag") = 1
					}
					return nil
				},
				func(env any) any {
					e := env.(*pubEnv)
					var f uint32
					if atomicFlag {
						f = atomic.LoadUint32(&e.flag)
					} else {
						f = *vrt.RP(&e.flag, "p.go:3|sub|e.flag")
					}
					if f == 1 {
						return *vrt.RP(&e.data, "p.go:4|sub|e.data")
					}
					return -1
				},
			}}
	}
	r := vrt.Explore(mk("publish-atomic", true), vrt.Options{Bound: 2})
	if r.HarnessError != "" || len(r.Findings) != 0 {
		t.Fatalf("false alarm on release/acquire publication: %v %+v", r.HarnessError, r.Findings)
	}
	if len(r.Outcomes) != 2 {
		t.Fatalf("want outcomes {42,-1}: %v", r.Outcomes)
	}
	r = vrt.Explore(mk("publish-plain", false), vrt.Options{Bound: 2})
	if has(r, "race") == nil {
		t.Fatalf("plain flag publication must race")
	}
}

func TestOnceAndWaitGroup(t *testing.T) {
	sc := &vrt.Scenario{Name: "once-wg", Setup: func() any { e := &pubEnv{}; e.wg.Add(2); return e }, Shared: true,
		Threads: []func(any) any{
			func(env any) any {
				e := env.(*pubEnv)
				e.once.Do(func() { *vrt.WP(&e.data, "o.go:1|init|e.data") = 7 })
				v := *vrt.RP(&e.data, "o.go:2|use|e.data")
				e.wg.Done()
				return v
			},
			func(env any) any {
				e := env.(*pubEnv)
				e.once.Do(func() { *vrt.WP(&e.data, "o.go:1|init|e.data") = 7 })
				v := *vrt.RP(&e.data, "o.go:2|use|e.data")
				e.wg.Done()
				return v
			},
			func(env any) any {
				e := env.(*pubEnv)
				e.wg.Wait()
				return *vrt.RP(&e.data, "o.go:3|after|e.data")
			},
		},
		Check: func(_ any, res []any) string {
			for _, r := range res {
				if r != 7 {
					return fmt.Sprintf("once-broken: %v", res)
				}
			}
			return ""
		}}
	r := vrt.Explore(sc, vrt.Options{Bound: 2})
	if r.HarnessError != "" || len(r.Findings) != 0 {
		t.Fatalf("false alarm: %v %+v", r.HarnessError, r.Findings)
	}
	if r.Contended == 0 {
		t.Fatalf("nobody ever blocked on the Once/WaitGroup")
	}
}

func TestSpawnJoin(t *testing.T) {
	sc := &vrt.Scenario{Name: "spawn", Setup: func() any { return &pubEnv{} }, Shared: true,
		Threads: []func(any) any{
			func(env any) any {
				e := env.(*pubEnv)
				*vrt.WP(&e.data, "s.go:1|parent|e.data") = 1
				e.wg.Add(1)
				vrt.Go(func() {
					*vrt.WP(&e.data, "s.go:2|child|e.data") = *vrt.RP(&e.data, "s.go:2|child|e.data") + 1
					e.wg.Done()
				})
				e.wg.Wait()
				return *vrt.RP(&e.data, "s.go:3|parent|e.data")
			},
		},
		Check: func(_ any, res []any) string {
			if res[0] != 2 {
				return fmt.Sprintf("fork-join: %v", res)
			}
			return ""
		}}
	r := vrt.Explore(sc, vrt.Options{Bound: 2})
	if r.HarnessError != "" || len(r.Findings) != 0 {
		t.Fatalf("false alarm with fork/join edges: %v %+v", r.HarnessError, r.Findings)
	}
	// without the WaitGroup the parent's read races with the child's write
	sc2 := &vrt.Scenario{Name: "spawn-nojoin", Setup: func() any { return &pubEnv{} }, Shared: true,
		Threads: []func(any) any{
			func(env any) any {
				e := env.(*pubEnv)
				vrt.Go(func() { *vrt.WP(&e.data, "s.go:2|child|e.data") = 5 })
				return *vrt.RP(&e.data, "s.go:3|parent|e.data")
			},
		}}
	r = vrt.Explore(sc2, vrt.Options{Bound: 1})
	if has(r, "race") == nil {
		t.Fatalf("unjoined child write must race: %+v", r.Findings)
	}
}

// The sleep-set reduction must see exactly the same outcome classes, findings and traces as
// the brute-force enumeration of all interleavings.
func TestSleepSetsAgreeWithBruteForce(t *testing.T) {
	mk := []func() *vrt.Scenario{racyCounter, func() *vrt.Scenario {
		return cacheScenario("cache-good", func(e *cacheEnv, k string) {
			e.mu.Lock()
			vrt.WM(e.m, "c.go:2|fill|e.m")[k] = len(k)
			e.mu.Unlock()
		})
	}, func() *vrt.Scenario {
		s := lockedCounter()
		s.Threads = s.Threads[:2]
		s.Check = nil
		return s
	}}
	for _, f := range mk {
		brute := vrt.Explore(f(), vrt.Options{Complete: true, NoSleep: true})
		sleep := vrt.Explore(f(), vrt.Options{Complete: true})
		if brute.HarnessError != "" || sleep.HarnessError != "" {
			t.Fatalf("%s: %s / %s", brute.Scenario, brute.HarnessError, sleep.HarnessError)
		}
		if !brute.Exhaustive || !sleep.Exhaustive {
			t.Fatalf("%s: not exhaustive", brute.Scenario)
		}
		keys := func(m map[string]int64) string {
			var k []string
			seen := map[string]bool{}
			for s := range m {
				// the blocked=N component is a per-interleaving statistic, not trace-invariant
				if i := strings.Index(s, " ## blocked="); i >= 0 {
					s = s[:i]
				}
				if !seen[s] {
					seen[s] = true
					k = append(k, s)
				}
			}
			sort.Strings(k)
			return strings.Join(k, "\n")
		}
		if keys(brute.Outcomes) != keys(sleep.Outcomes) {
			t.Fatalf("%s: outcome classes differ:\n%s\n--\n%s", brute.Scenario, keys(brute.Outcomes), keys(sleep.Outcomes))
		}
		if fmt.Sprint(classes(brute)) != fmt.Sprint(classes(sleep)) {
			t.Fatalf("%s: findings differ: %v vs %v", brute.Scenario, classes(brute), classes(sleep))
		}
		if brute.DistinctTraces != sleep.DistinctTraces {
			t.Fatalf("%s: traces differ: brute %d sleep %d", brute.Scenario, brute.DistinctTraces, sleep.DistinctTraces)
		}
		if sleep.Schedules > brute.Schedules {
			t.Fatalf("%s: reduction explored more (%d) than brute force (%d)", brute.Scenario, sleep.Schedules, brute.Schedules)
		}
		t.Logf("%s: brute force %d schedules, sleep sets %d (+%d sleep-blocked), %d traces, outcomes %d",
			brute.Scenario, brute.Schedules, sleep.Schedules, sleep.SleepBlocked, sleep.DistinctTraces, len(sleep.Outcomes))
	}
}

var flip int

// Uncaptured nondeterminism must be reported as a harness error, never as a violation.
func TestNondeterminismIsHarnessError(t *testing.T) {
	sc := &vrt.Scenario{Name: "nondet", Setup: func() any { flip++; return &counterEnv{} }, Shared: true,
		Threads: []func(any) any{
			func(env any) any {
				e := env.(*counterEnv)
				if flip%2 == 0 {
					e.mu.Lock()
					e.mu.Unlock()
				}
				return 0
			},
			func(env any) any { e := env.(*counterEnv); e.mu.Lock(); e.mu.Unlock(); return 0 },
		}}
	r := vrt.Explore(sc, vrt.Options{Bound: 1})
	if r.HarnessError == "" {
		t.Fatalf("nondeterministic scenario not flagged: %+v", r)
	}
}

func TestShardsPartitionTheSearch(t *testing.T) {
	whole := vrt.Explore(lockedCounter(), vrt.Options{Bound: 2})
	var sum int64
	for s := 0; s < 3; s++ {
		r := vrt.Explore(lockedCounter(), vrt.Options{Bound: 2, Shard: s, Shards: 3})
		if r.HarnessError != "" {
			t.Fatal(r.HarnessError)
		}
		sum += r.Schedules
	}
	if sum != whole.Schedules {
		t.Fatalf("shards explored %d schedules, unsharded %d", sum, whole.Schedules)
	}
}

func TestPanicAndHorizon(t *testing.T) {
	sc := &vrt.Scenario{Name: "panic-holding-lock", Setup: func() any { return &counterEnv{} },
		Threads: []func(any) any{
			func(env any) any {
				e := env.(*counterEnv)
				e.mu.Lock()
				if *vrt.RP(&e.n, "x.go:1|a|e.n") == 1 {
					panic("boom")
				}
				e.mu.Unlock()
				return "ok"
			},
			func(env any) any {
				e := env.(*counterEnv)
				e.mu.Lock()
				*vrt.WP(&e.n, "x.go:2|b|e.n") = 1
				e.mu.Unlock()
				return "ok"
			},
		}}
	r := vrt.Explore(sc, vrt.Options{Bound: 1})
	if r.HarnessError != "" {
		t.Fatal(r.HarnessError)
	}
	if has(r, "panic") == nil {
		t.Fatalf("panic under a schedule not reported: %+v", r.Findings)
	}
	spin := &vrt.Scenario{Name: "spin", Setup: func() any { return &pubEnv{} }, Shared: true, Horizon: 200,
		Threads: []func(any) any{
			func(env any) any {
				e := env.(*pubEnv)
				for atomic.LoadUint32(&e.flag) == 0 {
					vrt.Yield()
				}
				return nil
			},
			func(env any) any { return nil },
		}}
	r = vrt.Explore(spin, vrt.Options{Bound: 0})
	if has(r, "horizon") == nil {
		t.Fatalf("spinning forever must hit the horizon: %+v", r.Findings)
	}
}

type pooled struct{ owner int }

// A value handed back to a Pool while its putter still uses it must be observable by another
// thread (use-after-Put), and a correct Put-after-last-use must stay silent.
func TestPoolReuseAcrossThreads(t *testing.T) {
	mk := func(name string, putEarly bool) *vrt.Scenario {
		type env struct{ p sync.Pool }
		use := func(id int) func(any) any {
			return func(e any) any {
				p := &e.(*env).p
				o := p.Get().(*pooled)
				o.owner = id
				if putEarly {
					p.Put(o) // bug: still read below
					return o.owner
				}
				v := o.owner
				p.Put(o)
				return v
			}
		}
		return &vrt.Scenario{Name: name, Setup: func() any { return &env{p: sync.Pool{New: func() any { return &pooled{} }}} },
			Threads: []func(any) any{use(1), use(2)}}
	}
	r := vrt.Explore(mk("pool-ok", false), vrt.Options{Bound: 2})
	if r.HarnessError != "" || len(r.Findings) != 0 {
		t.Fatalf("false alarm on correct pool use: %v %+v", r.HarnessError, r.Findings)
	}
	if r.DistinctTraces < 2 {
		t.Fatalf("pool operations of the two threads never interleaved: %d traces", r.DistinctTraces)
	}
	r = vrt.Explore(mk("pool-use-after-put", true), vrt.Options{Bound: 1})
	if has(r, "differential") == nil {
		t.Fatalf("use-after-Put not observed: %+v", r.Findings)
	}
}

// ---- sync.Pool as a data choice, sequential prefix -------------------------------------------

type poolEnv struct{ p sync.Pool }

type pooledBuf struct {
	id    int
	owner string
	out   *[]string // where the holder writes: set by the holder after Get
}

// Get may return ANY value Put before, or a fresh one: all alternatives are explored.
func TestPoolGetIsADataChoice(t *testing.T) {
	sc := &vrt.Scenario{Name: "pool-choice", Shared: true,
		Setup: func() any {
			e := &poolEnv{p: sync.Pool{New: func() any { return &pooledBuf{id: 0} }}}
			e.p.Put(&pooledBuf{id: 1})
			e.p.Put(&pooledBuf{id: 2})
			return e
		},
		Threads: []func(any) any{
			func(e any) any { return e.(*poolEnv).p.Get().(*pooledBuf).id },
			func(e any) any { return e.(*poolEnv).p.Get().(*pooledBuf).id },
		}}
	for _, o := range []vrt.Options{{Bound: 0}, {Complete: true}, {Complete: true, NoSleep: true}} {
		r := vrt.Explore(sc, o)
		if r.HarnessError != "" || len(r.Findings) != 0 {
			t.Fatalf("%+v: %s %+v", o, r.HarnessError, r.Findings)
		}
		got := map[string]bool{}
		for k := range r.Outcomes {
			got[k[:strings.Index(k, " ##")]] = true
		}
		// every pair (a, b) with a, b in {0 fresh, 1, 2}, except the same pooled value twice
		want := []string{"0 || 0", "0 || 1", "0 || 2", "1 || 0", "2 || 0", "1 || 2", "2 || 1"}
		for _, w := range want {
			if !got[w] {
				t.Fatalf("%+v: alternative %q never explored: %v", o, w, got)
			}
		}
		if got["1 || 1"] || got["2 || 2"] {
			t.Fatalf("%+v: one pooled value handed out twice: %v", o, got)
		}
	}
}

// poolUser is what a pooled encoder does: take a value, point it at the caller's own sink,
// write the caller's data through it, give it back.
func poolUser(tag string) func(any) any {
	return func(e any) any {
		p := &e.(*poolEnv).p
		var sink []string
		b := p.Get().(*pooledBuf)
		b.out = &sink
		vrt.Yield() // the holder works for a while
		*b.out = append(*b.out, "data of "+tag)
		p.Put(b)
		return strings.Join(sink, ",")
	}
}

// A value released twice by an EARLIER operation (sequential prefix) can be handed to two later
// operations: reported only through its effect (differential oracle), needs one preemption,
// and the recorded schedule (with its data choices) replays.
func TestPoolDoublePutInPrefixShowsInLaterOperations(t *testing.T) {
	mk := func(name string, puts int) *vrt.Scenario {
		return &vrt.Scenario{Name: name,
			Setup: func() any { return &poolEnv{p: sync.Pool{New: func() any { return &pooledBuf{} }}} },
			Prefix: func(e any) {
				p := &e.(*poolEnv).p
				b := p.Get().(*pooledBuf)
				for i := 0; i < puts; i++ {
					p.Put(b)
				}
			},
			Threads: []func(any) any{poolUser("one"), poolUser("two")}}
	}
	r := vrt.Explore(mk("pool-prefix-single-put", 1), vrt.Options{Bound: 2})
	if r.HarnessError != "" || len(r.Findings) != 0 {
		t.Fatalf("false alarm after a correct prefix: %s %+v", r.HarnessError, r.Findings)
	}
	r = vrt.Explore(mk("pool-prefix-double-put", 2), vrt.Options{Bound: 0})
	if r.HarnessError != "" || len(r.Findings) != 0 {
		t.Fatalf("double Put must not be reported by itself (no overlap at bound 0): %s %+v", r.HarnessError, r.Findings)
	}
	r = vrt.Explore(mk("pool-prefix-double-put", 2), vrt.Options{Bound: 1})
	f := has(r, "differential")
	if f == nil {
		t.Fatalf("value handed to two holders not observed: %+v", r.Findings)
	}
	for i := 0; i < 3; i++ {
		rr := vrt.Replay(mk("pool-prefix-double-put", 2), f.Schedule, vrt.Options{})
		if rr.HarnessError != "" || has(rr, "differential") == nil {
			t.Fatalf("recorded schedule does not replay: %s %+v", rr.HarnessError, rr.Findings)
		}
	}
	// the two searches agree, with and without the reduction
	brute := vrt.Explore(mk("pool-prefix-double-put", 2), vrt.Options{Complete: true, NoSleep: true})
	sleep := vrt.Explore(mk("pool-prefix-double-put", 2), vrt.Options{Complete: true})
	if brute.HarnessError != "" || sleep.HarnessError != "" || !brute.Exhaustive || !sleep.Exhaustive {
		t.Fatalf("%s / %s", brute.HarnessError, sleep.HarnessError)
	}
	if fmt.Sprint(classes(brute)) != fmt.Sprint(classes(sleep)) || has(sleep, "differential") == nil || brute.DistinctTraces != sleep.DistinctTraces {
		t.Fatalf("searches disagree: %v (%d traces) vs %v (%d traces)", classes(brute), brute.DistinctTraces, classes(sleep), sleep.DistinctTraces)
	}
	t.Logf("double put: bounded %v schedules; brute force %d, sleep sets %d (+%d blocked), %d traces", r.PerBound, brute.Schedules, sleep.Schedules, sleep.SleepBlocked, sleep.DistinctTraces)
}

// State left behind by the prefix must not show in a later operation: the sequential references
// are computed on a fresh instance WITHOUT the prefix.
func TestPrefixLeakIsADifferentialFinding(t *testing.T) {
	type env struct{ last string }
	sc := &vrt.Scenario{Name: "prefix-leak",
		Setup:  func() any { return &env{} },
		Prefix: func(e any) { e.(*env).last = "earlier request" },
		Threads: []func(any) any{
			func(e any) any { return "mine" + e.(*env).last },
			func(e any) any { return "other" },
		}}
	r := vrt.Explore(sc, vrt.Options{Bound: 0})
	if f := has(r, "differential"); f == nil || len(r.Findings) != 1 {
		t.Fatalf("leak from the prefix operation not reported exactly once: %s %+v", r.HarnessError, r.Findings)
	}
}

// ---- context cancellation, daemon goroutines, environment threads ---------------------------

// miniCanceler is the shape of a graceful-shutdown interceptor: a background goroutine started
// when the interceptor is built waits for the shutdown context, then cancels every registered
// in-flight call. byMethod registers the calls under their method name instead of per call.
type miniCanceler struct {
	byMethod  bool
	cancels   sync.Map
	canceling uint32
}

func newMiniCanceler(ctx context.Context, byMethod bool) *miniCanceler {
	c := &miniCanceler{byMethod: byMethod}
	vrt.Go(func() {
		vrt.AwaitDone(ctx)
		atomic.StoreUint32(&c.canceling, 1)
		c.cancels.Range(func(_, v any) bool {
			vrt.Cancel(v.(context.CancelFunc))
			return true
		})
	})
	return c
}

func (c *miniCanceler) stream(method, tag string, blocking bool) string {
	if atomic.LoadUint32(&c.canceling) == 1 {
		return "refused " + tag
	}
	cctx, cancel := context.WithCancel(context.Background())
	var key any = &cancel
	if c.byMethod {
		key = method
	}
	c.cancels.Store(key, cancel)
	res := "returned " + tag
	if blocking {
		vrt.AwaitDone(cctx) // the handler serves until its context is cancelled
		res = "canceled " + tag
	}
	c.cancels.Delete(key)
	vrt.Cancel(cancel)
	return res
}

type cancelerEnv struct {
	c        *miniCanceler
	shutdown context.CancelFunc
}

func cancelerScenario(name string, byMethod bool, prefix bool, calls ...[3]string) *vrt.Scenario {
	sc := &vrt.Scenario{Name: name,
		Setup: func() any {
			ctx, cancel := context.WithCancel(context.Background())
			return &cancelerEnv{c: newMiniCanceler(ctx, byMethod), shutdown: cancel}
		}}
	if prefix {
		sc.Prefix = func(e any) { e.(*cancelerEnv).c.stream("/svc/Watch", "pre", false) }
	}
	for _, call := range calls {
		call := call
		sc.Threads = append(sc.Threads, func(e any) any { return e.(*cancelerEnv).c.stream(call[0], call[1], call[2] == "block") })
		sc.Labels = append(sc.Labels, "stream("+call[2]+")")
	}
	sc.Threads = append(sc.Threads, func(e any) any { vrt.Cancel(e.(*cancelerEnv).shutdown); return "shutdown" })
	sc.Labels = append(sc.Labels, "shutdown")
	sc.Env = []int{len(sc.Threads) - 1}
	return sc
}

func TestEnvProjectionOracle(t *testing.T) {
	same := [][3]string{{"/svc/Watch", "t0", "block"}, {"/svc/Watch", "t1", "block"}}
	mixed := [][3]string{{"/svc/Watch", "t0", "block"}, {"/svc/Watch", "t1", "return"}}
	other := [][3]string{{"/svc/Watch", "t0", "block"}, {"/svc/Tail", "t1", "block"}}
	for _, o := range []vrt.Options{{Bound: 2}, {Complete: true}} {
		// per-call registration: whatever the order, a call behaves as it does alone with the
		// shutdown in the same order (this includes the executions in which a call registers
		// after the sweep and is never cancelled: it blocks alone, too)
		for i, calls := range [][][3]string{same, mixed, other} {
			r := vrt.Explore(cancelerScenario(fmt.Sprint("canceler-ok-", i), false, i == 1, calls...), o)
			if r.HarnessError != "" || len(r.Findings) != 0 {
				t.Fatalf("%+v calls %v: false alarm: %s %+v", o, calls, r.HarnessError, r.Findings)
			}
			if r.Projections == 0 || len(r.Outcomes) < 3 {
				t.Fatalf("vacuous: %d projections, outcomes %v", r.Projections, r.Outcomes)
			}
		}
		// registration by method name: two calls of ONE method disturb each other
		r := vrt.Explore(cancelerScenario("canceler-by-method", true, false, same...), o)
		f := has(r, "differential")
		if r.HarnessError != "" || f == nil {
			t.Fatalf("%+v: shared slot not observed: %s %+v", o, r.HarnessError, r.Findings)
		}
		for i := 0; i < 3; i++ {
			rr := vrt.Replay(cancelerScenario("canceler-by-method", true, false, same...), f.Schedule, vrt.Options{})
			if rr.HarnessError != "" || has(rr, "differential") == nil {
				t.Fatalf("recorded schedule does not replay: %s %+v", rr.HarnessError, rr.Findings)
			}
		}
		r = vrt.Explore(cancelerScenario("canceler-by-method-mixed", true, false, mixed...), o)
		if has(r, "differential") == nil {
			t.Fatalf("%+v: open/open/complete/shutdown not observed: %+v", o, r.Findings)
		}
		// ... calls of different methods do not
		r = vrt.Explore(cancelerScenario("canceler-by-method-other", true, false, other...), o)
		if r.HarnessError != "" || len(r.Findings) != 0 {
			t.Fatalf("%+v: false alarm for different methods: %s %+v", o, r.HarnessError, r.Findings)
		}
	}
}

// ---- opaque shared objects -------------------------------------------------------------------

// A use of a shared value of an uninstrumented type is a WRITE of the object unless the type is
// on the allow-list of types documented as safe for concurrent use.
func TestOpaqueObjectUses(t *testing.T) {
	type env struct {
		mu  sync.Mutex
		src io.Reader
		re  *regexp.Regexp
	}
	mk := func(name string, src func() io.Reader, locked bool) *vrt.Scenario {
		use := func(e any) any {
			v := e.(*env)
			if locked {
				v.mu.Lock()
				defer v.mu.Unlock()
			}
			b := make([]byte, 2)
			_, _ = io.ReadFull(vrt.OV(v.src, "t.go:1|use|src"), b)
			return vrt.OV(v.re, "t.go:2|use|re").MatchString("abc")
		}
		return &vrt.Scenario{Name: name, Shared: true, Threads: []func(any) any{use, use},
			Setup: func() any { return &env{src: src(), re: regexp.MustCompile("b")} }}
	}
	r := vrt.Explore(mk("opaque-bufio", func() io.Reader { return bufio.NewReader(strings.NewReader("0123456789")) }, false), vrt.Options{Bound: 0})
	f := has(r, "race")
	if f == nil || !strings.Contains(f.Signature, "var=src (*bufio.Reader)") || len(r.Findings) != 1 {
		t.Fatalf("shared *bufio.Reader not reported as a race naming variable and type: %s %+v", r.HarnessError, r.Findings)
	}
	r = vrt.Explore(mk("opaque-bufio-locked", func() io.Reader { return bufio.NewReader(strings.NewReader("0123456789")) }, true), vrt.Options{Bound: 2})
	if r.HarnessError != "" || len(r.Findings) != 0 {
		t.Fatalf("uses ordered by a mutex reported: %s %+v", r.HarnessError, r.Findings)
	}
	r = vrt.Explore(mk("opaque-cryptorand", func() io.Reader { return crand.Reader }, false), vrt.Options{Bound: 2})
	if r.HarnessError != "" || len(r.Findings) != 0 {
		t.Fatalf("allow-listed types (crypto/rand reader, *regexp.Regexp) reported: %s %+v", r.HarnessError, r.Findings)
	}
	for k, why := range vrt.ConcurrencySafe {
		if len(why) < 20 || !strings.Contains(k, ".") {
			t.Fatalf("allow-list entry %q needs a reason", k)
		}
	}
}

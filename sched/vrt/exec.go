// Package vrt is the runtime half of engine E3 (controlled scheduler) of the goa verification
// machinery. It holds
//
//   - the cooperative scheduler: N virtual threads are goroutines, exactly one of them holds the
//     run token; every hooked operation announces a pending operation and calls the scheduler,
//     which picks the next thread among the ENABLED ones (exec.go);
//   - the happens-before race oracle: vector clocks per thread / lock / atomic / Once /
//     WaitGroup / fork-join and a FastTrack-style shadow memory (hb.go);
//   - the state machines behind the sync / sync/atomic shims (syncobj.go, packages vsync,
//     vatomic);
//   - the stateless DFS explorer with iterative preemption bounding and (for the complete,
//     unbounded mode only) sleep sets (explore.go);
//   - the Scenario type and the worker command line (scenario.go, worker.go).
//
// The files physically live in /verif/sched/vrt but are compiled INTO goa's module through
// `go build -overlay` as package goa.design/goa/v3/pkg/vrt, so that instrumented goa files and
// the harness share one instance. The package imports the standard library only and therefore
// also builds as verif/sched/vrt (used by its own unit tests).
//
// Concurrency discipline of this file: all fields of Exec and thread are only touched by the
// goroutine that holds the run token (a virtual thread, or the explorer's main goroutine while
// no thread runs). Token hand-offs go through channels and therefore order everything.
package vrt

import (
	"fmt"
	"runtime"
	"runtime/debug"
	"strings"
	"time"
)

// modes of an execution
const (
	modeSetup = iota // single main goroutine, hooks are pass-through state machines, no points
	modeRun          // virtual threads under the scheduler
	modeAbort        // execution is being torn down, every hook is a no-op
	modePost         // after the run: like modeSetup
)

// operation kinds (what a parked thread is about to do)
const (
	opStart = iota
	opExit
	opRead
	opWrite
	opAtomic
	opLock     // Mutex.Lock / RWMutex.Lock acquire phase
	opLockAnn  // RWMutex.Lock announce phase (writer preference)
	opRLock    //
	opUnlock   //
	opRUnlock  //
	opTryLock  //
	opOnce     // Once.Do entry
	opOnceDone // Once.Do completion
	opWGAdd    //
	opWGWait   //
	opSpawn    //
	opJoin     //
	opYield    // explicit yield (spin loops)
	opData     // data choice of the running thread (which pooled value a Pool.Get returns)
	opAwait    // blocked until a condition holds (context cancellation: AwaitDone)
	opCancel   // call of a context.CancelFunc
)

var opNames = [...]string{"start", "exit", "R", "W", "atomic", "lock", "lock-announce", "rlock", "unlock", "runlock", "trylock",
	"once", "once-done", "wg-add", "wg-wait", "spawn", "join", "yield", "data-choice", "await-done", "cancel"}

// op is the pending operation of a parked thread.
type op struct {
	kind  uint8
	write bool      // for the dependence relation (sleep sets): does it modify obj
	obj   uintptr   // identity of the object operated on (0 = none: independent of everything)
	st    *objState // state machine of the sync object, when there is one
	site  string
	cond  func() bool // opAwait: enabled when it returns true
}

func (o *op) enabled() bool {
	switch o.kind {
	case opLock:
		return !o.st.w && o.st.r == 0
	case opRLock:
		return !o.st.w && o.st.pendW == 0
	case opOnce:
		return !o.st.running
	case opWGWait:
		return o.st.n <= 0
	case opJoin:
		return o.st.th.finished
	case opAwait:
		return o.cond()
	}
	return true
}

// dependent reports whether two pending operations may not commute (or may enable/disable each
// other). Used only by the sleep-set reduction of the complete mode.
func dependent(a, b *op) bool {
	if a.obj == 0 || b.obj == 0 || a.obj != b.obj {
		return false
	}
	return a.write || b.write
}

type thread struct {
	id        int
	wake      chan struct{}
	fn        func() any
	pending   op
	finished  bool
	started   bool
	result    any
	panicked  bool
	completed bool // returned normally or panicked (its result is an observable)
	vc        vclock
	selfObj   objState // join target
	// daemon: started by vrt.Go during the single-threaded setup phase (a background goroutine of
	// the instance under test). It has no observable, and an execution whose scenario threads
	// have all finished ends normally when only blocked daemons are left.
	daemon bool
	// blockedAt names the operation the thread was parked at when the execution ended blocked
	blockedAt string
}

// pointRec is one choice point of an execution: a scheduling point (which enabled thread runs
// next) or, with data set, a DATA choice of the running thread (Exec.choose: which of n
// alternatives a nondeterministic operation takes; enabled then has the n low bits set, choice
// == chosen is the alternative, and the point is neither a preemption nor a context switch).
type pointRec struct {
	data           bool
	enabled        uint32 // bit i = thread i enabled
	running        int8   // id of the thread that called the scheduler, -1 if none/finished
	runningEnabled bool
	choice         uint8  // index into the canonical order
	chosen         int8   // thread id
	sleep          uint32 // sleep set at this point (complete mode)
	ops            []op   // pending ops by thread id at this point (complete mode only)
}

// canonical order: the running thread first if still enabled, then ascending ids.
func (p *pointRec) order(buf []int8) []int8 {
	buf = buf[:0]
	if p.data {
		for i := int8(0); int(i) < p.nEnabled(); i++ {
			buf = append(buf, i)
		}
		return buf
	}
	if p.runningEnabled {
		buf = append(buf, p.running)
	}
	for i := int8(0); i < 32; i++ {
		if p.enabled&(1<<uint(i)) != 0 && !(p.runningEnabled && i == p.running) {
			buf = append(buf, i)
		}
	}
	return buf
}

func (p *pointRec) nEnabled() int {
	n := 0
	for m := p.enabled; m != 0; m &= m - 1 {
		n++
	}
	return n
}

// Exec is one execution of one scenario under the scheduler.
type Exec struct {
	mode     int
	threads  []*thread
	running  *thread
	mainWake chan struct{}

	// schedule
	prefix       []prefixEntry
	points       []pointRec
	keepOps      bool   // record pending ops per point (complete mode)
	useSleep     bool   // sleep-set reduction on
	branchSleep  uint32 // sleep set to install at the last prefix point
	curSleep     uint32
	sleepBlocked bool
	blockedAt    int
	trace        []traceEv
	steps        int
	horizon      int

	verdict    string // "", "deadlock", "horizon", "panic", "divergence", "stuck"
	verdictMsg string

	// happens-before oracle
	objs     map[uintptr]*objState
	pools    map[uintptr][]poolItem
	shadow   map[uintptr]*cell
	races    []Race
	raceSeen map[string]bool

	// trace fingerprint (vacuity statistic): per-object order of conflicting accesses
	contended int // number of times a thread was found blocked at a point

	// virtual clock
	ticks int64

	orderBuf []int8

	// goroutines started by vrt.Go during setup: they become daemon threads when the run starts
	pendingSpawn []func()
	// guide, when set (projection replay of the differential oracle of Env scenarios), lists the
	// thread to run at each scheduling point; an entry that cannot be followed (thread finished
	// or disabled) is skipped and the canonical default applies
	guide []int8
	gpos  int
}

// traceEv is one executed operation on an object (input of the trace fingerprint).
type traceEv struct {
	obj   uintptr
	tid   int
	kind  uint8
	write bool
	site  string
}

type prefixEntry struct {
	data           bool
	choice         uint8
	enabled        uint32
	running        int8
	runningEnabled bool
}

// cur is the execution in progress, nil when the process runs free (package init, driver
// code, the auxiliary race pass). Written only while no virtual thread exists.
var cur *Exec

// Active reports whether an exploration is in progress (setup, run or post phase).
func Active() bool { return cur != nil }

func (x *Exec) scheduling() bool { return x.mode == modeRun && x.running != nil }

// stuckTimeout bounds the wall time the explorer waits for the token to come back. It is not
// an oracle: expiry means a virtual thread blocked inside an uninstrumented primitive (real
// channel, io.Pipe, ...) and is reported as a harness error.
var stuckTimeout = 30 * time.Second

func newExec(horizon int) *Exec {
	return &Exec{
		mainWake: make(chan struct{}, 1),
		horizon:  horizon,
		objs:     map[uintptr]*objState{},
		pools:    map[uintptr][]poolItem{},
		shadow:   map[uintptr]*cell{},
		raceSeen: map[string]bool{},
	}
}

func (x *Exec) newThread(fn func() any, parent *thread) *thread {
	t := &thread{id: len(x.threads), wake: make(chan struct{}, 1), fn: fn}
	if t.id >= 31 {
		panic("vrt: too many virtual threads")
	}
	t.selfObj.th = t
	t.pending = op{kind: opStart}
	n := t.id + 1
	t.vc = make(vclock, n)
	if parent != nil {
		copy(t.vc, parent.vc)
	}
	t.vc[t.id] = 1
	x.threads = append(x.threads, t)
	go x.threadMain(t)
	return t
}

// threadMain is the goroutine body of a virtual thread.
func (x *Exec) threadMain(t *thread) {
	<-t.wake
	normal := false
	defer func() {
		// runs on normal return, on panic in goa code and on runtime.Goexit (abort)
		if x.mode == modeAbort {
			recover() // a panic of deferred goa code during the teardown is of no interest
			t.finished = true
			x.mainWake <- struct{}{}
			return
		}
		if !normal {
			r := recover()
			t.panicked = true
			t.completed = true
			t.result = fmt.Sprintf("PANIC: %v", r)
			t.finished = true
			x.verdict = "panic"
			x.verdictMsg = fmt.Sprintf("thread %d panicked: %v\n%s", t.id, r, trimStack(debug.Stack()))
			x.mode = modeAbort
			x.running = nil
			x.mainWake <- struct{}{}
			return
		}
		// normal completion: the exit is a release for joiners; then give the token away
		t.finished = true
		t.completed = true
		t.selfObj.rel = t.vc.clone()
		x.schedule(t)
	}()
	if x.mode == modeAbort {
		runtime.Goexit()
	}
	t.started = true
	t.result = t.fn()
	// the exit is itself a scheduling point so that "thread finished" is an explicit event
	normal = true
}

func trimStack(b []byte) string {
	lines := strings.Split(string(b), "\n")
	var out []string
	for _, l := range lines {
		if strings.Contains(l, "/vrt/") || strings.Contains(l, "runtime/") || strings.HasPrefix(l, "goroutine ") {
			continue
		}
		out = append(out, strings.TrimSpace(l))
		if len(out) >= 12 {
			break
		}
	}
	return strings.Join(out, " < ")
}

// point parks the calling thread before operation o and returns when the scheduler has picked
// it to perform o. It must be called by the token holder.
func (x *Exec) point(t *thread, o op) {
	t.pending = o
	x.schedule(t)
}

// schedule picks the next thread. from is the caller (token holder); it is either parked at a
// pending operation or finished.
func (x *Exec) schedule(from *thread) {
	if x.mode != modeRun {
		return
	}
	x.steps++
	if x.steps > x.horizon {
		x.abortFrom(from, "horizon", fmt.Sprintf("step horizon %d exceeded", x.horizon))
		return
	}
	var p pointRec
	p.running = -1
	allDone, mainsDone := true, true
	for _, th := range x.threads {
		if th.finished {
			continue
		}
		allDone = false
		if !th.daemon {
			mainsDone = false
		}
		if th.pending.enabled() {
			p.enabled |= 1 << uint(th.id)
		}
	}
	if from != nil && !from.finished {
		p.running = int8(from.id)
		p.runningEnabled = p.enabled&(1<<uint(from.id)) != 0
		if !p.runningEnabled {
			x.contended++
		}
	}
	if p.enabled == 0 {
		if allDone {
			x.running = nil
			x.mainWake <- struct{}{}
			return
		}
		if mainsDone {
			// every scenario thread has finished; what is left are background goroutines of the
			// instance parked at a blocking operation (as they would be in a live server): the
			// execution is complete, the daemons are torn down
			x.abortFrom(from, "", "")
			return
		}
		var sb strings.Builder
		for _, th := range x.threads {
			if !th.finished {
				th.blockedAt = opNames[th.pending.kind]
				fmt.Fprintf(&sb, " thread %d blocked at %s %s;", th.id, opNames[th.pending.kind], th.pending.site)
			}
		}
		x.abortFrom(from, "deadlock", "no enabled thread:"+sb.String())
		return
	}
	order := p.order(x.orderBuf)
	x.orderBuf = order
	idx := len(x.points)
	choice := 0
	if idx < len(x.prefix) {
		pe := x.prefix[idx]
		if pe.data || pe.enabled != p.enabled || pe.running != p.running || pe.runningEnabled != p.runningEnabled || int(pe.choice) >= len(order) {
			x.abortFrom(from, "divergence", fmt.Sprintf("replay diverged at point %d: recorded enabled=%b running=%d(%v) choice=%d, now enabled=%b running=%d(%v)",
				idx, pe.enabled, pe.running, pe.runningEnabled, pe.choice, p.enabled, p.running, p.runningEnabled))
			return
		}
		choice = int(pe.choice)
		if x.useSleep && idx == len(x.prefix)-1 {
			x.curSleep = x.branchSleep
		}
	} else if x.guide != nil {
		for x.gpos < len(x.guide) {
			g := x.guide[x.gpos]
			at := -1
			for i, id := range order {
				if id == g {
					at = i
				}
			}
			x.gpos++
			if at >= 0 {
				choice = at
				break
			}
		}
	} else if x.useSleep && !x.sleepBlocked {
		// default choice: first enabled thread that is not asleep
		choice = -1
		for i, id := range order {
			if x.curSleep&(1<<uint(id)) == 0 {
				choice = i
				break
			}
		}
		if choice < 0 {
			// every enabled thread is asleep: this execution is redundant. Drain it with
			// default choices (executions always run to completion) and mark it.
			x.sleepBlocked = true
			x.blockedAt = idx
			choice = 0
		}
	}
	p.choice = uint8(choice)
	p.chosen = order[choice]
	next := x.threads[p.chosen]
	if x.keepOps {
		p.sleep = x.curSleep
		p.ops = make([]op, len(x.threads))
		for i, th := range x.threads {
			p.ops[i] = th.pending
		}
	}
	if x.useSleep {
		// threads stay asleep only while the executed operations are independent of theirs
		var ns uint32
		for m := x.curSleep; m != 0; m &= m - 1 {
			id := trailingZeros(m)
			if id < len(x.threads) && id != next.id && !dependent(&x.threads[id].pending, &next.pending) {
				ns |= 1 << uint(id)
			}
		}
		x.curSleep = ns
	}
	x.points = append(x.points, p)
	if next.pending.obj != 0 {
		x.trace = append(x.trace, traceEv{obj: next.pending.obj, tid: next.id, kind: next.pending.kind, write: next.pending.write, site: next.pending.site})
	}
	if next == from {
		return
	}
	x.running = next
	next.wake <- struct{}{}
	if from != nil && !from.finished {
		<-from.wake
		if x.mode == modeAbort {
			runtime.Goexit()
		}
	}
}

// maxDataChoice bounds the alternatives of one data choice point.
const maxDataChoice = 8

// choose is a DATA choice point of the running thread t: it returns an alternative in 0..n-1.
// The explorer branches over every alternative (a data choice is not a context switch: it costs
// no preemption under a preemption bound and leaves the sleep sets of the complete mode alone);
// the default alternative is 0. The choice is recorded in the schedule, so replays and the
// divergence check cover it. Outside the run phase (setup, prefix, post) the answer is 0.
func (x *Exec) choose(t *thread, n int, obj uintptr) int {
	if n <= 1 || t == nil || x.mode != modeRun {
		return 0
	}
	if n > maxDataChoice {
		n = maxDataChoice
	}
	x.steps++
	if x.steps > x.horizon {
		x.abortFrom(t, "horizon", fmt.Sprintf("step horizon %d exceeded", x.horizon))
		return 0
	}
	p := pointRec{data: true, enabled: uint32(1)<<uint(n) - 1, running: int8(t.id), runningEnabled: true}
	idx := len(x.points)
	choice := 0
	if idx < len(x.prefix) {
		pe := x.prefix[idx]
		if !pe.data || pe.enabled != p.enabled || pe.running != p.running || int(pe.choice) >= n {
			x.abortFrom(t, "divergence", fmt.Sprintf("replay diverged at point %d: recorded data=%v enabled=%b running=%d choice=%d, now a data choice among %d by thread %d",
				idx, pe.data, pe.enabled, pe.running, pe.choice, n, t.id))
			return 0
		}
		choice = int(pe.choice)
		if x.useSleep && idx == len(x.prefix)-1 {
			x.curSleep = x.branchSleep
		}
	}
	p.choice = uint8(choice)
	p.chosen = int8(choice)
	if x.keepOps {
		p.sleep = x.curSleep
	}
	x.points = append(x.points, p)
	x.trace = append(x.trace, traceEv{obj: obj, tid: t.id, kind: opData, write: true, site: fmt.Sprintf("alt=%d/%d", choice, n)})
	return choice
}

func trailingZeros(m uint32) int {
	n := 0
	for m&1 == 0 {
		m >>= 1
		n++
	}
	return n
}

// abortFrom ends the execution with a verdict. Called by the token holder.
func (x *Exec) abortFrom(from *thread, verdict, msg string) {
	x.verdict, x.verdictMsg = verdict, msg
	x.mode = modeAbort
	x.running = nil
	if from != nil && !from.finished {
		runtime.Goexit() // deferred code of the thread runs with no-op hooks, then wakes main
	}
	x.mainWake <- struct{}{}
}

// runThreads executes the thread bodies to completion under the scheduler and tears down
// whatever is left after an abort. It is called by the explorer's main goroutine.
func (x *Exec) runThreads(fns []func() any) {
	x.mode = modeRun
	for _, f := range fns {
		x.newThread(f, nil)
	}
	for _, f := range x.pendingSpawn {
		f := f
		x.newThread(func() any { f(); return nil }, nil).daemon = true
	}
	x.pendingSpawn = nil
	for _, th := range x.threads {
		th.vc = th.vc.grow(len(x.threads))
	}
	x.running = nil
	x.schedule(nil)
	x.waitMain()
	if x.mode == modeAbort {
		// tear down parked threads one at a time (their deferred goa code must not run
		// concurrently)
		for i := 0; i < len(x.threads); i++ {
			th := x.threads[i]
			if th.finished {
				continue
			}
			th.wake <- struct{}{}
			x.waitMain()
		}
	}
	x.running = nil
	x.mode = modePost
}

func (x *Exec) waitMain() {
	// fast path: the token is usually back before we get here
	select {
	case <-x.mainWake:
		return
	default:
	}
	t := time.NewTimer(stuckTimeout)
	defer t.Stop()
	select {
	case <-x.mainWake:
	case <-t.C:
		x.verdict = "stuck"
		x.verdictMsg = "a virtual thread did not come back to the scheduler within " + stuckTimeout.String() +
			" (blocked inside an uninstrumented primitive?)"
		panic(stuckError{x.verdictMsg})
	}
}

type stuckError struct{ msg string }

// ---- hooks used by instrumented code -------------------------------------------------

// current returns the execution and the calling virtual thread when the caller runs under the
// scheduler, (x, nil) in the setup/post phase and (nil, nil) when the process runs free.
func current() (*Exec, *thread) {
	x := cur
	if x == nil {
		return nil, nil
	}
	if x.mode == modeRun {
		return x, x.running
	}
	return x, nil
}

// Yield is a scheduling point without effect. Spin/retry loops must call it.
func Yield() {
	if x, t := current(); t != nil {
		x.point(t, op{kind: opYield})
	}
}

// Go starts f as a new virtual thread when called under the scheduler and as a plain goroutine
// otherwise. The instrumenter rewrites `go f(x)` into `vrt.Go(func() { f(x) })`.
func Go(f func()) {
	x, t := current()
	if x != nil && t == nil && x.mode == modeSetup {
		// a background goroutine started while the instance is built (single-threaded setup):
		// it becomes a daemon thread of the execution when the scenario threads start
		x.pendingSpawn = append(x.pendingSpawn, f)
		return
	}
	if t == nil {
		go f()
		return
	}
	x.point(t, op{kind: opSpawn})
	x.newThread(func() any { f(); return nil }, t)
	t.vc.inc(t.id)
	for _, th := range x.threads {
		th.vc = th.vc.grow(len(x.threads))
	}
}

// ThreadID returns the id of the calling virtual thread, -1 outside the scheduler.
func ThreadID() int {
	if _, t := current(); t != nil {
		return t.id
	}
	return -1
}

package vrt

import (
	"runtime"
	"time"
	"unsafe"
)

// objState is the per-execution state machine of one synchronisation object (keyed by the
// object's address in Exec.objs, so that an aborted execution leaves nothing behind).
type objState struct {
	// Mutex / RWMutex
	w     bool   // write-locked
	r     int    // number of read locks held
	pendW int    // writers that have announced themselves (RWMutex writer preference)
	rel   vclock // released by the last Unlock / Once completion / WaitGroup Done / atomic store
	relR  vclock // join of the releases of RUnlock since the last Unlock
	// Once
	running bool
	// WaitGroup
	n int
	// join target
	th *thread
	// keep pins the object for the duration of the execution (no address reuse)
	keep unsafe.Pointer
}

func (x *Exec) obj(p unsafe.Pointer) *objState {
	k := uintptr(p)
	s := x.objs[k]
	if s == nil {
		s = &objState{keep: p}
		x.objs[k] = s
	}
	return s
}

// LockKind selects the operation of LockOp.
type LockKind int

const (
	MutexLock LockKind = iota
	MutexUnlock
	RWLock
	RWUnlock
	RWRLock
	RWRUnlock
)

// LockOp performs a Mutex/RWMutex operation on the object at p under the scheduler. It returns
// false when no exploration is active: the shim then uses the real primitive.
func LockOp(p unsafe.Pointer, k LockKind) bool {
	x, t := current()
	if x == nil {
		return false
	}
	if x.mode == modeAbort {
		return true
	}
	st := x.obj(p)
	o := uintptr(p)
	if t == nil {
		// setup / post phase: single goroutine, plain state machine
		switch k {
		case MutexLock, RWLock:
			if st.w || st.r > 0 {
				panic("vrt: lock already held in the single-threaded setup phase (self-deadlock)")
			}
			st.w = true
		case MutexUnlock, RWUnlock:
			if !st.w {
				panic("sync: unlock of unlocked mutex")
			}
			st.w = false
		case RWRLock:
			if st.w {
				panic("vrt: RLock of a write-locked RWMutex in the single-threaded setup phase")
			}
			st.r++
		case RWRUnlock:
			if st.r <= 0 {
				panic("sync: RUnlock of unlocked RWMutex")
			}
			st.r--
		}
		return true
	}
	switch k {
	case MutexLock:
		x.point(t, op{kind: opLock, write: true, obj: o, st: st})
		st.w = true
		t.vc.join(st.rel)
	case RWLock:
		// phase 1: announce (from now on new readers are held back, as in sync.RWMutex)
		x.point(t, op{kind: opLockAnn, write: true, obj: o, st: st})
		st.pendW++
		// phase 2: acquire when no reader and no writer holds the lock
		x.point(t, op{kind: opLock, write: true, obj: o, st: st})
		st.pendW--
		st.w = true
		t.vc.join(st.rel)
		t.vc.join(st.relR)
	case MutexUnlock, RWUnlock:
		x.point(t, op{kind: opUnlock, write: true, obj: o, st: st})
		if !st.w {
			panic("sync: unlock of unlocked mutex")
		}
		st.w = false
		st.rel = t.vc.clone()
		st.relR = st.relR[:0]
		t.vc.inc(t.id)
	case RWRLock:
		x.point(t, op{kind: opRLock, write: true, obj: o, st: st})
		st.r++
		t.vc.join(st.rel)
	case RWRUnlock:
		x.point(t, op{kind: opRUnlock, write: true, obj: o, st: st})
		if st.r <= 0 {
			panic("sync: RUnlock of unlocked RWMutex")
		}
		st.r--
		st.relR.join(t.vc)
		t.vc.inc(t.id)
	}
	return true
}

// TryLockOp is TryLock/TryRLock. handled=false when no exploration is active.
func TryLockOp(p unsafe.Pointer, read bool) (ok, handled bool) {
	x, t := current()
	if x == nil {
		return false, false
	}
	if x.mode == modeAbort {
		return true, true
	}
	st := x.obj(p)
	if t != nil {
		x.point(t, op{kind: opTryLock, write: true, obj: uintptr(p), st: st})
	}
	if read {
		if st.w || st.pendW > 0 {
			return false, true
		}
		st.r++
		if t != nil {
			t.vc.join(st.rel)
		}
		return true, true
	}
	if st.w || st.r > 0 {
		return false, true
	}
	st.w = true
	if t != nil {
		t.vc.join(st.rel)
		t.vc.join(st.relR)
	}
	return true, true
}

// OnceEnter is called by the Once shim when an exploration is active and the Once is not done
// yet. run=true: the caller must run f and then call OnceLeave. run=false: another thread
// completed f meanwhile (the caller was blocked until then) or the execution is aborting.
func OnceEnter(p unsafe.Pointer, done func() bool) (run bool) {
	x, t := current()
	if x == nil || x.mode == modeAbort {
		return false
	}
	st := x.obj(p)
	if t == nil {
		if st.running {
			panic("vrt: recursive Once.Do in the setup phase (deadlock)")
		}
		if done() {
			return false
		}
		st.running = true
		return true
	}
	x.point(t, op{kind: opOnce, write: true, obj: uintptr(p), st: st})
	if done() {
		t.vc.join(st.rel)
		return false
	}
	st.running = true
	return true
}

// OnceAcquire is called on the fast path (Once already done): completion of f happens before
// the return of every Do.
func OnceAcquire(p unsafe.Pointer) {
	x, t := current()
	if t == nil {
		return
	}
	st := x.obj(p)
	x.point(t, op{kind: opOnce, write: false, obj: uintptr(p), st: st})
	t.vc.join(st.rel)
}

// OnceLeave completes a Once: scheduling point, then setDone (the shim's done flag), then the
// release. The flag is set after the point so that no thread can take the fast path before the
// release clock exists.
func OnceLeave(p unsafe.Pointer, setDone func()) {
	x, t := current()
	if x == nil {
		setDone()
		return
	}
	if x.mode == modeAbort {
		return // f was interrupted by the teardown: leave the Once undone
	}
	st := x.obj(p)
	if t != nil {
		x.point(t, op{kind: opOnceDone, write: true, obj: uintptr(p), st: st})
		setDone()
		st.rel = t.vc.clone()
		t.vc.inc(t.id)
	} else {
		setDone()
	}
	st.running = false
}

// WGAdd is WaitGroup.Add/Done. handled=false when no exploration is active.
func WGAdd(p unsafe.Pointer, delta int) bool {
	x, t := current()
	if x == nil {
		return false
	}
	if x.mode == modeAbort {
		return true
	}
	st := x.obj(p)
	if t != nil {
		x.point(t, op{kind: opWGAdd, write: true, obj: uintptr(p), st: st})
		st.rel.join(t.vc)
		t.vc.inc(t.id)
	}
	st.n += delta
	if st.n < 0 {
		panic("sync: negative WaitGroup counter")
	}
	return true
}

// WGWait is WaitGroup.Wait.
func WGWait(p unsafe.Pointer) bool {
	x, t := current()
	if x == nil {
		return false
	}
	if x.mode == modeAbort {
		return true
	}
	st := x.obj(p)
	if t == nil {
		if st.n > 0 {
			panic("vrt: WaitGroup.Wait would block in the single-threaded setup phase")
		}
		return true
	}
	x.point(t, op{kind: opWGWait, write: true, obj: uintptr(p), st: st})
	t.vc.join(st.rel)
	return true
}

// AtomicKind classifies an atomic operation for the happens-before oracle.
type AtomicKind int

const (
	AtomicLoad  AtomicKind = iota // acquire
	AtomicStore                   // release
	AtomicRMW                     // acquire + release (Add, Swap, CompareAndSwap, And, Or)
)

// Atomic is called by the atomic shims BEFORE the real atomic operation on addr. It is a
// scheduling point; the real operation then executes while the caller still holds the token.
func Atomic(addr unsafe.Pointer, k AtomicKind) {
	x, t := current()
	if t == nil {
		return
	}
	var pcs [1]uintptr
	runtime.Callers(3, pcs[:])
	st := x.obj(addr)
	x.point(t, op{kind: opAtomic, write: k != AtomicLoad, obj: uintptr(addr), st: st})
	x.atomicAccess(t, uintptr(addr), k != AtomicLoad, pcs[0])
	switch k {
	case AtomicLoad:
		t.vc.join(st.rel)
	case AtomicStore:
		st.rel = t.vc.clone()
		t.vc.inc(t.id)
	case AtomicRMW:
		t.vc.join(st.rel)
		st.rel = t.vc.clone()
		t.vc.inc(t.id)
	}
}

// SyncPoint makes the object at p a sequentially consistent synchronisation object: every
// operation on it acquires and releases (used by the sync.Map shim).
func SyncPoint(p unsafe.Pointer, write bool) {
	x, t := current()
	if t == nil {
		return
	}
	st := x.obj(p)
	x.point(t, op{kind: opAtomic, write: write, obj: uintptr(p), st: st})
	t.vc.join(st.rel)
	st.rel = t.vc.clone()
	t.vc.inc(t.id)
}

// ---- sync.Pool ------------------------------------------------------------------------------

// poolItem is one pooled value with the clock of the Put that pooled it (Go memory model: a
// call to Put(x) is synchronized before a call to Get returning that same value x).
type poolItem struct {
	v  any
	vc vclock
}

// PoolGet is the Pool shim's Get under an exploration. The pool is a per-execution multiset
// shared by all threads, and what sync.Pool documents is modelled as a DATA CHOICE of the
// caller: a Get may return ANY value Put before (by whichever thread -- the real pool may or
// may not hand a value to another P) or none of them (the pool may drop values at any time;
// the shim then calls New). The explorer branches over every alternative: alternative 0 (the
// default) is the value Put most recently, then the older ones (at most maxDataChoice-1 of
// them), last "none: a fresh value". A value that was Put twice sits in the pool twice and can
// be handed to two callers: the shim does not judge pool misuse itself, its effect is judged by
// the differential and the race oracles. ok=false: the caller gets a fresh value (the shim
// calls New). handled=false: no exploration active. During the single-threaded setup / prefix
// phase the answer is the default alternative.
func PoolGet(p unsafe.Pointer) (v any, ok, handled bool) {
	x, t := current()
	if x == nil {
		return nil, false, false
	}
	if x.mode == modeAbort {
		return nil, false, true
	}
	if t != nil {
		x.point(t, op{kind: opAtomic, write: true, obj: uintptr(p), st: x.obj(p)})
	}
	items := x.pools[uintptr(p)]
	if len(items) == 0 {
		return nil, false, true
	}
	n := len(items)
	if n > maxDataChoice-1 {
		n = maxDataChoice - 1
	}
	alt := x.choose(t, n+1, uintptr(p))
	if alt == n {
		return nil, false, true // none of the pooled values: the values stay pooled
	}
	i := len(items) - 1 - alt
	it := items[i]
	x.pools[uintptr(p)] = append(items[:i:i], items[i+1:]...)
	if t != nil {
		t.vc.join(it.vc)
	}
	return it.v, true, true
}

// PoolPut is the Pool shim's Put: a scheduling point before the value is pooled and one right
// after (from that moment another thread may be handed the value, whatever the putter still
// does with it).
func PoolPut(p unsafe.Pointer, v any) bool {
	x, t := current()
	if x == nil {
		return false
	}
	if x.mode == modeAbort {
		return true
	}
	if x.pools == nil {
		x.pools = map[uintptr][]poolItem{}
	}
	it := poolItem{v: v}
	if t != nil {
		x.point(t, op{kind: opAtomic, write: true, obj: uintptr(p), st: x.obj(p)})
		it.vc = t.vc.clone()
		t.vc.inc(t.id)
	}
	x.pools[uintptr(p)] = append(x.pools[uintptr(p)], it)
	if t != nil {
		x.point(t, op{kind: opYield})
	}
	return true
}

// ---- virtual clock -----------------------------------------------------------------------

var epoch = time.Date(2020, 1, 1, 0, 0, 0, 0, time.UTC)

// Now replaces time.Now in instrumented files: during an exploration it returns a virtual time
// that advances by one millisecond per call (deterministic for a given schedule).
func Now() time.Time {
	x := cur
	if x == nil {
		return time.Now()
	}
	x.ticks++
	return epoch.Add(time.Duration(x.ticks) * time.Millisecond)
}

// Since replaces time.Since.
func Since(t time.Time) time.Duration { return Now().Sub(t) }

// Until replaces time.Until.
func Until(t time.Time) time.Duration { return t.Sub(Now()) }

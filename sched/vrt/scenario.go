package vrt

import (
	"encoding/json"
	"fmt"
)

// Scenario is one closed concurrent test driver: a fresh shared environment built
// single-threaded by Setup, and N thread bodies that operate on it. The explorer executes the
// scenario once per schedule (Setup is called again for every execution: live objects are
// never copied, and process-global state such as goa's pattern cache must be reset by Setup).
//
// Oracles evaluated on every complete schedule:
//   - happens-before race oracle over every instrumented access (always on);
//   - deadlock / step horizon / panic (always on);
//   - differential per-thread oracle (unless Shared is set): Threads[i](env) must return the
//     same observable as when it runs alone on a fresh environment;
//   - Check, the scenario-specific invariant.
type Scenario struct {
	// Name is the unique name of the scenario (may contain enumeration artefacts such as design
	// numbers). SigName, when set, replaces it inside violation signatures: it must be built
	// from abstract features only.
	Name    string
	SigName string
	// Doc says what collides in this scenario (goes to the evidence).
	Doc string
	// Family groups scenarios ("c17", "c20A", ...): the driver selects by family.
	Family string
	// Setup builds the environment single-threaded (hooks are pass-through, virtual clock on).
	Setup func() any
	// Prefix, when set, runs single-threaded right after Setup and before the threads start: a
	// SEQUENTIAL PREFIX operation (an earlier request) that leaves the instance in a non-initial
	// state -- pooled objects, filled caches, lazily built globals. It is NOT run for the
	// sequential references of the differential oracle: each thread's observable must equal its
	// result alone on a FRESH instance, so state left behind by the earlier operation must not
	// show in a later one either.
	Prefix func(env any)
	// Threads are the thread bodies. The returned observable must be JSON-encodable and must
	// not contain anything the property allows to differ between runs (error IDs, addresses).
	Threads []func(env any) any
	// Labels name the operation of each thread (used in violation signatures; stable classes,
	// not indices).
	Labels []string
	// Shared is set when the threads legitimately influence each other's results (a shared
	// sampler): the differential per-thread oracle is then off and Check decides.
	Shared bool
	// Env, when non-nil, lists the indices of ENVIRONMENT threads (a shutdown event, a peer that
	// legitimately decides what the others observe). The differential oracle of the other
	// threads then is a PROJECTION REPLAY: after every execution, for each non-environment thread
	// i, the scenario is executed again with only {i} + Env (+ the daemon goroutines of the
	// instance, + the Prefix), the scheduler following the order the kept threads had in the
	// original execution; thread i's observable (or "BLOCKED(op)" if it never returns) must be
	// the same: its outcome depends on its own order relative to the environment, never on the
	// other threads. A blocked execution is then no finding by itself (a thread that also blocks
	// alone under the same order is not disturbed by its peers).
	Env []int
	// DiffClass, when set, classifies HOW an observable differs from its sequential reference
	// (e.g. the first deviating stage "response"); the class becomes part of the differential signature.
	DiffClass func(got, want string) string
	// Check is evaluated single-threaded after every complete schedule. It returns "" when
	// the invariant holds, otherwise "class: details" (the class goes into the signature).
	Check func(env any, results []any) string
	// Classify returns a schedule-dependent observable used only for the vacuity statistic
	// (distinct outcomes), e.g. the number of cache fills.
	Classify func(env any, results []any) string
	// Bound / ThoroughBound are the preemption bounds of the two tiers (default 2 / 3).
	// Complete makes the quick tier explore ALL interleavings (sleep-set reduction) instead
	// of a preemption bound. The thorough tier always does both, unless NoThoroughComplete
	// is set (scenarios whose number of inequivalent interleavings is out of reach).
	Bound              int
	ThoroughBound      int
	Complete           bool
	NoThoroughComplete bool
	// NoThoroughBounded: the thorough tier explores all interleavings only (which subsumes
	// every preemption bound); used for large sets of small scenarios.
	NoThoroughBounded bool
	// ThoroughOnly scenarios are skipped by the quick tier.
	ThoroughOnly bool
	// NoShard: the thorough tier explores the scenario in one worker process (small scenarios of
	// large menus: sharding would only repeat the process start and the first levels).
	NoShard bool
	// Horizon is the maximal number of scheduling points of one execution (default 20000).
	Horizon int
}

func (s *Scenario) sigName() string {
	if s.SigName != "" {
		return s.SigName
	}
	return s.Name
}

func (s *Scenario) label(i int) string {
	if i < len(s.Labels) && s.Labels[i] != "" {
		return s.Labels[i]
	}
	return fmt.Sprintf("t%d", i)
}

// canon renders an observable canonically (JSON; falls back to %v).
func canon(v any) string {
	if s, ok := v.(string); ok {
		return s
	}
	b, err := json.Marshal(v)
	if err != nil {
		return fmt.Sprintf("%v", v)
	}
	return string(b)
}

// Catch runs f and converts a panic into the observable "PANIC: <value>". Thread bodies use it
// for operations that are expected to panic in the sequential reference too. (A panic that is
// not caught ends the execution: the instance may hold shim locks.)
func Catch(f func() any) (res any) {
	defer func() {
		if cur != nil && cur.mode == modeAbort {
			return // teardown (runtime.Goexit) in progress, not a panic
		}
		if r := recover(); r != nil {
			res = fmt.Sprintf("PANIC: %v", r)
		}
	}()
	return f()
}

package vrt

import (
	"encoding/json"
	"flag"
	"fmt"
	"os"
	"runtime"
	"strings"
	"sync"
	"time"
)

// ScenarioInfo is what `worker -list` prints for each registered scenario.
type ScenarioInfo struct {
	Name               string   `json:"name"`
	Family             string   `json:"family"`
	Doc                string   `json:"doc"`
	Threads            int      `json:"threads"`
	Labels             []string `json:"labels"`
	Shared             bool     `json:"shared"`
	Bound              int      `json:"bound"`
	ThoroughBound      int      `json:"thorough_bound"`
	Complete           bool     `json:"complete"`
	NoThoroughComplete bool     `json:"no_thorough_complete"`
	NoThoroughBounded  bool     `json:"no_thorough_bounded"`
	ThoroughOnly       bool     `json:"thorough_only"`
	NoShard            bool     `json:"no_shard,omitempty"`
}

// ReplayCase is the "case" stored in a replay file of a scheduler check.
type ReplayCase struct {
	Check    string       `json:"check"`
	Scenario string       `json:"scenario"`
	Schedule []SchedPoint `json:"schedule"`
	Bound    int          `json:"bound"`
	Mode     string       `json:"mode"`
}

// FreeResult is what the auxiliary free-running pass reports (the binary is built with -race
// and WITHOUT the instrumented goa files; the race detector writes its reports to stderr).
type FreeResult struct {
	Scenario   string `json:"scenario"`
	Iterations int    `json:"iterations"`
	Goroutines int    `json:"goroutines"`
	Panics     int    `json:"panics"`
}

// WorkerMain is the main function of a worker binary: it explores registered scenarios as told
// by the command line and prints one JSON document on stdout. Exit status 0 unless the command
// line is unusable (2); oracle failures and harness errors travel inside the JSON.
//
//	worker -list
//	worker -scenario NAME [-bound N | -complete [-nosleep]] [-shard I -shards N] [-deadline UNIX] [-horizon N]
//	worker -replay FILE            (FILE holds a ReplayCase, or a core replay file with a "case" member)
//	worker -free NAME -iters N     (auxiliary pass: real goroutines, no scheduler)
func WorkerMain(scenarios []Scenario) {
	fs := flag.NewFlagSet("worker", flag.ExitOnError)
	list := fs.Bool("list", false, "list scenarios")
	name := fs.String("scenario", "", "scenario to explore")
	bound := fs.Int("bound", 2, "maximal preemption bound")
	complete := fs.Bool("complete", false, "explore all interleavings (sleep sets)")
	nosleep := fs.Bool("nosleep", false, "with -complete: brute force, no reduction")
	shard := fs.Int("shard", 0, "shard index")
	shards := fs.Int("shards", 1, "number of shards")
	deadline := fs.Int64("deadline", 0, "unix time after which the exploration stops (incomplete)")
	horizon := fs.Int("horizon", 0, "step horizon per execution")
	replay := fs.String("replay", "", "replay file")
	free := fs.String("free", "", "run the scenario bodies free (auxiliary race pass)")
	iters := fs.Int("iters", 200, "iterations of the free pass")
	copies := fs.Int("copies", 1, "free pass: real goroutines per thread body (2-3 bodies x copies run together)")
	procs := fs.Int("procs", 1, "GOMAXPROCS for explorations")
	_ = fs.Parse(os.Args[1:])
	enc := json.NewEncoder(os.Stdout)
	find := func(n string) *Scenario {
		for i := range scenarios {
			if scenarios[i].Name == n {
				return &scenarios[i]
			}
		}
		fmt.Fprintf(os.Stderr, "unknown scenario %q\n", n)
		os.Exit(2)
		return nil
	}
	seen := map[string]bool{}
	for _, s := range scenarios {
		if seen[s.Name] {
			fmt.Fprintf(os.Stderr, "duplicate scenario name %q\n", s.Name)
			os.Exit(2)
		}
		seen[s.Name] = true
	}
	switch {
	case *list:
		var out []ScenarioInfo
		for i := range scenarios {
			s := &scenarios[i]
			info := ScenarioInfo{Name: s.Name, Family: s.Family, Doc: s.Doc, Threads: len(s.Threads), Shared: s.Shared,
				Bound: s.Bound, ThoroughBound: s.ThoroughBound, Complete: s.Complete, NoThoroughComplete: s.NoThoroughComplete, NoThoroughBounded: s.NoThoroughBounded, ThoroughOnly: s.ThoroughOnly, NoShard: s.NoShard}
			for j := range s.Threads {
				info.Labels = append(info.Labels, s.label(j))
			}
			out = append(out, info)
		}
		_ = enc.Encode(out)
	case *free != "":
		runtime.GOMAXPROCS(runtime.NumCPU())
		names := strings.Split(*free, ",")
		var out []FreeResult
		for _, n := range names {
			out = append(out, runFree(find(n), *iters, *copies))
		}
		_ = enc.Encode(out)
	case *replay != "":
		runtime.GOMAXPROCS(*procs)
		b, err := os.ReadFile(*replay)
		if err != nil {
			fmt.Fprintln(os.Stderr, err)
			os.Exit(2)
		}
		var doc struct {
			Case *ReplayCase `json:"case"`
			ReplayCase
		}
		if err := json.Unmarshal(b, &doc); err != nil {
			fmt.Fprintln(os.Stderr, err)
			os.Exit(2)
		}
		rc := doc.ReplayCase
		if doc.Case != nil {
			rc = *doc.Case
		}
		_ = enc.Encode(Replay(find(rc.Scenario), rc.Schedule, Options{Horizon: *horizon}))
	case *name != "":
		runtime.GOMAXPROCS(*procs)
		o := Options{Bound: *bound, Complete: *complete, NoSleep: *nosleep, Shard: *shard, Shards: *shards, Horizon: *horizon}
		if *deadline > 0 {
			o.Deadline = time.Unix(*deadline, 0)
		}
		_ = enc.Encode(Explore(find(*name), o))
	default:
		fs.Usage()
		os.Exit(2)
	}
}

// runFree runs the thread bodies of a scenario as real goroutines, released together, iters
// times. No scheduler, no oracle: the Go race detector (if the binary was built with -race)
// is the only observer. Non-deciding by design.
func runFree(sc *Scenario, iters, copies int) FreeResult {
	res := FreeResult{Scenario: sc.Name, Iterations: iters, Goroutines: len(sc.Threads) * copies}
	var pmu sync.Mutex
	for it := 0; it < iters; it++ {
		env := sc.Setup()
		if sc.Prefix != nil {
			sc.Prefix(env)
		}
		var wg sync.WaitGroup
		gate := make(chan struct{})
		for k := 0; k < len(sc.Threads)*copies; k++ {
			f := sc.Threads[k%len(sc.Threads)]
			wg.Add(1)
			go func() {
				defer wg.Done()
				defer func() {
					if r := recover(); r != nil {
						pmu.Lock()
						res.Panics++
						pmu.Unlock()
					}
				}()
				<-gate
				f(env)
			}()
		}
		close(gate)
		wg.Wait()
	}
	return res
}

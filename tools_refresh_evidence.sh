#!/bin/bash
# Runs every claimed quick check once against /repo, writing evidence/<id>.json, and prints
# one line per check (exit code, summary line). Used before committing evidence.
cd /verif
for id in $(jq -r '.checks[].property_id' MANIFEST.json); do
  ./run.sh "$id" quick > "/tmp/ev_$id.out" 2>&1; rc=$?
  echo "$id exit=$rc $(grep -c '^VIOLATION' /tmp/ev_$id.out) violations; $(tail -1 /tmp/ev_$id.out | cut -c1-150)"
done

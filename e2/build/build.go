package build

import (
	"fmt"
	"strings"

	. "goa.design/goa/v3/dsl" //nolint
	"goa.design/goa/v3/expr"

	sp "verif/e2/spec"
)

// Build performs the public goa DSL calls that correspond to the Spec. It is the only way
// goa ever sees the design: no expr value is constructed by hand. It must be called once per
// process, before eval.RunDSL (the DSL registers with goa's global expr.Root).
func Build(s *sp.Spec) {
	b := &builder{s: s, types: map[string]expr.DataType{}, schemes: map[string]*expr.SchemeExpr{}}
	b.run()
}

type builder struct {
	s       *sp.Spec
	types   map[string]expr.DataType
	schemes map[string]*expr.SchemeExpr
}

func (b *builder) run() {
	s := b.s
	for _, sc := range s.Schemes {
		sc := sc
		fn := func() {
			for _, scope := range sc.Scopes {
				Scope(scope, "scope "+scope)
			}
		}
		switch sc.Kind {
		case "basic":
			b.schemes[sc.Name] = BasicAuthSecurity(sc.Name, fn)
		case "apikey":
			b.schemes[sc.Name] = APIKeySecurity(sc.Name, fn)
		case "jwt":
			b.schemes[sc.Name] = JWTSecurity(sc.Name, fn)
		case "oauth2":
			b.schemes[sc.Name] = OAuth2Security(sc.Name, func() {
				ClientCredentialsFlow("http://goa.design/token", "http://goa.design/refresh")
				fn()
			})
		}
	}
	// Named types are declared in order; a definition may refer to itself or to a later
	// definition by name (goa resolves strings lazily for Type("name")).
	for _, td := range s.Types {
		b.declare(td)
	}
	API(s.APIName, func() {
		b.errors(s.Errors)
		b.security(s.Security)
		if s.APIPath != "" || len(s.HTTPErrs) > 0 || len(s.APIParams)+len(s.APIHeaders)+len(s.APICookies)+len(s.APIRules) > 0 {
			HTTP(func() {
				if s.APIPath != "" {
					Path(s.APIPath)
				}
				b.mapping(s.APIParams, s.APIHeaders, s.APICookies, s.APIRules, true)
				b.responses(s.HTTPErrs)
			})
		}
	})
	for _, svc := range s.Services {
		svc := svc
		Service(svc.Name, func() {
			b.errors(svc.Errors)
			b.security(svc.Security)
			hasHTTP := svc.Path != "" || len(svc.HTTPErrs) > 0 || len(svc.Files) > 0 || len(svc.Params)+len(svc.Headers)+len(svc.Cookies)+len(svc.Rules) > 0
			if hasHTTP {
				HTTP(func() {
					if svc.Path != "" {
						Path(svc.Path)
					}
					for _, p := range svc.Paths {
						Path(p)
					}
					b.mapping(svc.Params, svc.Headers, svc.Cookies, svc.Rules, true)
					b.responses(svc.HTTPErrs)
				})
			}
			for _, f := range svc.Files {
				parts := strings.SplitN(f, " ", 2)
				Files(parts[0], parts[1])
			}
			for _, m := range svc.Methods {
				b.method(m)
			}
		})
	}
}

func (b *builder) declare(td *sp.TypeDef) {
	switch td.Kind {
	case "alias":
		b.types[td.Name] = Type(td.Name, b.prim(td.Base.K), func() { b.valid(td.Base.V) })
	case "type":
		b.types[td.Name] = Type(td.Name, func() {
			if td.Extend != "" {
				Extend(b.types[td.Extend])
			}
			if td.Reference != "" {
				Reference(b.types[td.Reference])
			}
			b.attrs(td.Attrs, td.Required, td.ErrorName)
		})
	case "result":
		b.types[td.Name] = ResultType("application/vnd."+strings.ToLower(td.Name), func() {
			TypeName(td.Name)
			if td.Extend != "" {
				Extend(b.types[td.Extend])
			}
			Attributes(func() {
				b.attrs(td.Attrs, td.Required, td.ErrorName)
			})
			for _, v := range td.Views {
				v := v
				View(v.Name, func() {
					for _, a := range v.Attrs {
						if sub, ok := v.Sub[a]; ok && sub != "" {
							Attribute(a, func() { View(sub) })
						} else {
							Attribute(a)
						}
					}
				})
			}
		})
	case "collection":
		b.types[td.Name] = CollectionOf(b.types[td.Collection])
	}
}

func (b *builder) prim(k string) expr.DataType {
	switch k {
	case sp.KBool:
		return Boolean
	case sp.KInt:
		return Int
	case sp.KInt32:
		return Int32
	case sp.KInt64:
		return Int64
	case sp.KUInt:
		return UInt
	case sp.KUInt32:
		return UInt32
	case sp.KUInt64:
		return UInt64
	case sp.KFloat32:
		return Float32
	case sp.KFloat64:
		return Float64
	case sp.KString:
		return String
	case sp.KBytes:
		return Bytes
	case sp.KAny:
		return Any
	}
	panic("spec: unknown primitive " + k)
}

// dt returns the goa data type for t when it can be expressed as a value (primitive,
// array, map, user reference); inline objects return nil and are expressed by a DSL func.
func (b *builder) dt(t *sp.Type) any {
	switch t.K {
	case sp.KArray:
		return ArrayOf(b.dt(t.Elem), func() { b.valid(t.Elem.V) })
	case sp.KMap:
		return MapOf(b.dt(t.Key), b.dt(t.Elem), func() {
			if t.Key.V != nil {
				Key(func() { b.valid(t.Key.V) })
			}
			if t.Elem.V != nil {
				Elem(func() { b.valid(t.Elem.V) })
			}
		})
	case sp.KUser:
		if dt, ok := b.types[t.Ref]; ok {
			return dt
		}
		return t.Ref // forward / recursive reference by name
	case sp.KObject:
		// inline object used as element: goa needs a type value; declare an anonymous one
		return nil
	}
	return b.prim(t.K)
}

// attrs declares attributes inside an object-defining DSL.
func (b *builder) attrs(attrs []*sp.Attr, required []string, errName string) {
	for _, a := range attrs {
		a := a
		if a.Inherit {
			// declared by name only: type, validations and default come from the Reference type
			Attribute(a.Name)
			continue
		}
		fn := func() {
			b.valid(a.T.V)
			if a.HasDefault {
				Default(b.defv(a.T, a.Default))
			}
			if a.T.K == sp.KUser && a.T.View != "" {
				View(a.T.View)
			}
			if a.Name == errName && errName != "" {
				Meta("struct:error:name")
			}
		}
		b.attr(a, fn)
	}
	if len(required) > 0 {
		Required(required...)
	}
}

func (b *builder) attr(a *sp.Attr, fn func()) {
	decl := func(name string, args ...any) {
		switch {
		case a.Sec == "username":
			Username(name, args...)
			return
		case a.Sec == "password":
			Password(name, args...)
			return
		case strings.HasPrefix(a.Sec, "apikey:"):
			APIKey(strings.TrimPrefix(a.Sec, "apikey:"), name, args...)
			return
		case a.Sec == "token":
			Token(name, args...)
			return
		case a.Sec == "accesstoken":
			AccessToken(name, args...)
			return
		}
		if a.Tag != 0 {
			Field(a.Tag, name, args...)
		} else {
			Attribute(name, args...)
		}
	}
	if a.T.K == sp.KUnion {
		// OneOf union: the alternatives are declared like attributes (with their validations)
		OneOf(a.Name, func() {
			for _, alt := range a.T.Attrs {
				alt := alt
				b.attr(alt, func() { b.valid(alt.T.V) })
			}
		})
		return
	}
	if a.T.K == sp.KObject {
		decl(a.Name, func() {
			b.attrs(a.T.Attrs, a.T.Required, "")
			fn()
		})
		return
	}
	decl(a.Name, b.dt(a.T), fn)
}

func (b *builder) defv(t *sp.Type, v any) any {
	k := t.K
	if k == sp.KUser {
		if td := b.s.TypeDefByName(t.Ref); td != nil && td.Kind == "alias" {
			k = td.Base.K
		}
	}
	if k == sp.KArray && t.Elem != nil {
		if l, ok := v.([]any); ok {
			switch t.Elem.K {
			case sp.KInt, sp.KInt32, sp.KInt64, sp.KUInt, sp.KUInt32, sp.KUInt64:
				out := make([]int, len(l))
				for i, e := range l {
					out[i], _ = ConvDefault(sp.KInt, e).(int)
				}
				return out
			case sp.KFloat32, sp.KFloat64:
				out := make([]float64, len(l))
				for i, e := range l {
					out[i], _ = ConvDefault(sp.KFloat64, e).(float64)
				}
				return out
			case sp.KBool:
				out := make([]bool, len(l))
				for i, e := range l {
					out[i], _ = e.(bool)
				}
				return out
			}
		}
	}
	return ConvDefault(k, v)
}

// ConvDefault converts a JSON-decoded default (float64/string/bool) to the Go type goa expects.
func ConvDefault(k string, v any) any {
	switch k {
	case sp.KInt, sp.KInt32, sp.KInt64, sp.KUInt, sp.KUInt32, sp.KUInt64:
		switch x := v.(type) {
		case float64:
			return int(x)
		case int:
			return x
		case int64:
			return int(x)
		}
	case sp.KFloat32, sp.KFloat64:
		switch x := v.(type) {
		case int:
			return float64(x)
		case float64:
			return x
		}
	case sp.KBytes:
		if s, ok := v.(string); ok {
			return []byte(s)
		}
	case sp.KArray:
		if l, ok := v.([]any); ok {
			out := make([]string, len(l))
			for i, e := range l {
				out[i] = fmt.Sprint(e)
			}
			return out
		}
	}
	return v
}

func (b *builder) valid(v *sp.Valid) {
	if v == nil {
		return
	}
	if len(v.Enum) > 0 {
		vals := make([]any, len(v.Enum))
		for i, e := range v.Enum {
			if f, ok := e.(float64); ok && f == float64(int(f)) {
				vals[i] = int(f)
			} else {
				vals[i] = e
			}
		}
		Enum(vals...)
	}
	num := func(f float64) any {
		if f == float64(int(f)) {
			return int(f)
		}
		return f
	}
	if v.Min != nil {
		Minimum(num(*v.Min))
	}
	if v.Max != nil {
		Maximum(num(*v.Max))
	}
	if v.ExMin != nil {
		ExclusiveMinimum(num(*v.ExMin))
	}
	if v.ExMax != nil {
		ExclusiveMaximum(num(*v.ExMax))
	}
	if v.MinLen != nil {
		MinLength(*v.MinLen)
	}
	if v.MaxLen != nil {
		MaxLength(*v.MaxLen)
	}
	if v.Pattern != "" {
		Pattern(v.Pattern)
	}
	if v.Format != "" {
		Format(expr.ValidationFormat(v.Format))
	}
}

func (b *builder) errors(errs []sp.ErrorDef) {
	for _, e := range errs {
		e := e
		fn := func() {
			if e.Temporary {
				Temporary()
			}
			if e.Timeout {
				Timeout()
			}
			if e.Fault {
				Fault()
			}
		}
		if e.Type == nil {
			Error(e.Name, fn)
		} else if e.Type.K == sp.KObject {
			Error(e.Name, func() {
				b.attrs(e.Type.Attrs, e.Type.Required, "")
			})
		} else {
			Error(e.Name, b.dt(e.Type), fn)
		}
	}
}

func (b *builder) security(sec *sp.Security) {
	if sec == nil {
		return
	}
	if sec.None {
		NoSecurity()
		return
	}
	for _, req := range sec.Reqs {
		req := req
		var args []any
		var scopes []string
		for _, u := range req {
			args = append(args, b.schemes[u.Scheme])
			scopes = append(scopes, u.Scopes...)
		}
		if len(scopes) > 0 {
			args = append(args, func() {
				for _, sc := range scopes {
					Scope(sc)
				}
			})
		}
		Security(args...)
	}
}

// typeArg expresses t as the arguments of Payload/Result/StreamingPayload/...
func (b *builder) typeArgs(t *sp.Type, extra func()) []any {
	if t.K == sp.KObject {
		return []any{func() {
			b.attrs(t.Attrs, t.Required, "")
			if extra != nil {
				extra()
			}
		}}
	}
	fn := func() {
		b.valid(t.V)
		if t.K == sp.KUser && t.View != "" {
			View(t.View)
		}
		if extra != nil {
			extra()
		}
	}
	return []any{b.dt(t), fn}
}

func (b *builder) method(m *sp.Method) {
	Method(m.Name, func() {
		b.security(m.Security)
		if m.Payload != nil {
			args := b.typeArgs(m.Payload, nil)
			Payload(args[0], args[1:]...)
		}
		if m.Result != nil {
			args := b.typeArgs(m.Result, nil)
			Result(args[0], args[1:]...)
		}
		if m.StreamPayload != nil {
			args := b.typeArgs(m.StreamPayload, nil)
			StreamingPayload(args[0], args[1:]...)
		}
		if m.StreamResult != nil {
			args := b.typeArgs(m.StreamResult, nil)
			StreamingResult(args[0], args[1:]...)
		}
		b.errors(m.Errors)
		if h := m.HTTP; h != nil {
			HTTP(func() {
				b.route(h.Verb, h.Path)
				for _, r := range h.Routes {
					parts := strings.SplitN(r, " ", 2)
					b.route(parts[0], parts[1])
				}
				b.mapping(h.Params, h.Headers, h.Cookies, h.Rules, false)
				if h.MapParams == "*" {
					MapParams()
				} else if h.MapParams != "" {
					MapParams(h.MapParams)
				}
				b.body(h.Body)
				if h.Multipart {
					MultipartRequest()
				}
				if h.SkipReq {
					SkipRequestBodyEncodeDecode()
				}
				if h.SkipResp {
					SkipResponseBodyEncodeDecode()
				}
				b.responses(h.Responses)
			})
		}
		if g := m.GRPC; g != nil {
			GRPC(func() {
				if len(g.Message) > 0 {
					Message(func() {
						for _, p := range g.Message {
							Attribute(p.Attr)
						}
					})
				}
				if len(g.Metadata) > 0 {
					Metadata(func() {
						for _, p := range g.Metadata {
							Attribute(wire(p))
						}
					})
				}
				if len(g.Headers) > 0 || len(g.Trailers) > 0 || len(g.RespMessage) > 0 {
					Response(CodeOK, func() {
						if len(g.RespMessage) > 0 {
							Message(func() {
								for _, p := range g.RespMessage {
									Attribute(p.Attr)
								}
							})
						}
						if len(g.Headers) > 0 {
							Headers(func() {
								for _, p := range g.Headers {
									Attribute(wire(p))
								}
							})
						}
						if len(g.Trailers) > 0 {
							Trailers(func() {
								for _, p := range g.Trailers {
									Attribute(wire(p))
								}
							})
						}
					})
				}
			})
		}
	})
}

// mapping declares the HTTP mapping elements of one level (API, service or endpoint). An
// element named by a MapRule is written with its explicit type and its own validation DSL
// (Param("attr:wire", Int, func() { Minimum(1) })); a rule that no Map names declares a path
// parameter bound by the level's path. With grouped, query string parameters are written inside
// Params(func() { ... }) and headers inside Headers(func() { ... }) (the grouping forms of the DSL).
func (b *builder) mapping(params, headers, cookies []sp.Map, rules []sp.MapRule, grouped bool) {
	named := map[string]bool{}
	args := func(m sp.Map) []any {
		for _, r := range rules {
			r := r
			if r.Attr == m.Attr {
				named[r.Attr] = true
				return []any{b.dt(r.T), func() { b.valid(r.V) }}
			}
		}
		return nil
	}
	decl := func() {
		for _, p := range params {
			Param(wire(p), args(p)...)
		}
	}
	if grouped && len(params) > 0 {
		Params(decl)
	} else {
		decl()
	}
	hdecl := func() {
		for _, p := range headers {
			Header(wire(p), args(p)...)
		}
	}
	if grouped && len(headers) > 0 {
		Headers(hdecl)
	} else {
		hdecl()
	}
	for _, p := range cookies {
		Cookie(wire(p), args(p)...)
	}
	for _, r := range rules {
		if !named[r.Attr] {
			// no Map names it: a path parameter of this level's path
			Param(r.Attr, args(sp.Map{Attr: r.Attr})...)
		}
	}
}

func wire(m sp.Map) string {
	if m.Wire == "" || m.Wire == m.Attr {
		return m.Attr
	}
	return m.Attr + ":" + m.Wire
}

func (b *builder) route(verb, path string) {
	switch verb {
	case "GET":
		GET(path)
	case "POST":
		POST(path)
	case "PUT":
		PUT(path)
	case "PATCH":
		PATCH(path)
	case "DELETE":
		DELETE(path)
	case "HEAD":
		HEAD(path)
	case "OPTIONS":
		OPTIONS(path)
	case "TRACE":
		TRACE(path)
	case "CONNECT":
		CONNECT(path)
	default:
		panic("spec: verb " + verb)
	}
}

func (b *builder) body(body string) {
	switch {
	case body == "":
	case body == "empty":
		Body(Empty)
	case strings.HasPrefix(body, "attr:"):
		Body(strings.TrimPrefix(body, "attr:"))
	case strings.HasPrefix(body, "attrs:"):
		names := strings.Split(strings.TrimPrefix(body, "attrs:"), ",")
		Body(func() {
			for _, n := range names {
				Attribute(n)
			}
		})
	default:
		panic("spec: body " + body)
	}
}

func (b *builder) responses(rs []sp.Resp) {
	for _, r := range rs {
		r := r
		fn := func() {
			if r.Tag != nil {
				Tag(r.Tag.Attr, r.Tag.Value)
			}
			if r.ContentType != "" {
				ContentType(r.ContentType)
			}
			b.mapping(nil, r.Headers, r.Cookies, r.Rules, false)
			b.body(r.Body)
		}
		if r.Error != "" {
			Response(r.Error, r.Status, fn)
		} else {
			Response(r.Status, fn)
		}
	}
}

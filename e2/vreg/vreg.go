// Package vreg is the registry through which generated packages (via the glue files that
// stubgen writes next to them) hand their constructors to the generic driver.
package vreg

import "sync"

// Hook receives every call made to a generated Service / Auther interface method of a stub:
// the Go method name and the arguments (context first). It returns the results in order;
// a nil entry leaves the corresponding result at its zero value.
type Hook func(method string, args []any) []any

// Entry is one generated package's registration.
type Entry struct {
	Design  string         // design directory name (dNNN)
	Service string         // service directory name
	Role    string         // "service", "server", "client", "grpcserver", "grpcclient", "views"
	Syms    map[string]any // exported constructors by name
}

var (
	mu      sync.Mutex
	entries []Entry
)

// Register is called from init functions of the glue files.
func Register(design, service, role string, syms map[string]any) {
	mu.Lock()
	entries = append(entries, Entry{design, service, role, syms})
	mu.Unlock()
}

// Lookup returns the symbols registered for (design, service, role).
func Lookup(design, service, role string) map[string]any {
	mu.Lock()
	defer mu.Unlock()
	for _, e := range entries {
		if e.Design == design && e.Service == service && e.Role == role {
			return e.Syms
		}
	}
	return nil
}

// All returns every registration.
func All() []Entry {
	mu.Lock()
	defer mu.Unlock()
	return append([]Entry{}, entries...)
}

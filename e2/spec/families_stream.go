package spec

import "fmt"

// L2Streams is the HTTP (WebSocket) streaming family executed by the thorough tier of C02 and
// C03 (driver modes C02S / C03S): streaming kind x element type, one method per design.
//
//	kinds     server               StreamingResult
//	          client               StreamingPayload + Result
//	          bidi                 StreamingPayload + StreamingResult
//	          server-with-payload  Payload (query + required header) + StreamingResult
//	          client-noresult      StreamingPayload only            (object, string)
//	          bidi-with-payload    Payload + both streams           (user type)
//	elements  inline object, user type with a required attribute, string, int, array of string
//
// The streamed payload elements use the attribute names chunk/idx, the streamed result elements
// ev/seq, the initial payload qq/hh, so that a message decoded into the wrong type cannot look
// right.
func L2Streams() []MethodCase {
	var out []MethodCase
	n := 0
	type elem struct {
		name     string
		req, res func() *Type // streamed payload element, streamed result element
		defs     []*TypeDef
	}
	chType := &TypeDef{Name: "ChType", Kind: "type", Attrs: []*Attr{A("chunk", P(KString)), A("idx", P(KInt))}, Required: []string{"chunk"}}
	evType := &TypeDef{Name: "EvType", Kind: "type", Attrs: []*Attr{A("ev", P(KString)), A("seq", P(KInt))}, Required: []string{"ev"}}
	elems := []elem{
		{"object", func() *Type { return ObjT(nil, A("chunk", P(KString)), A("idx", P(KInt))) }, func() *Type { return ObjT(nil, A("ev", P(KString)), A("seq", P(KInt))) }, nil},
		{"user", func() *Type { return User("ChType") }, func() *Type { return User("EvType") }, []*TypeDef{chType, evType}},
		{"string", func() *Type { return P(KString) }, func() *Type { return P(KString) }, nil},
		{"int", func() *Type { return P(KInt) }, func() *Type { return P(KInt) }, nil},
		{"array-string", func() *Type { return ArrT(P(KString)) }, func() *Type { return ArrT(P(KString)) }, nil},
	}
	mk := func(kind string, e elem) {
		m := &Method{Name: fmt.Sprintf("m%d", n), Feat: map[string]string{"family": "L2-stream", "kind": kind, "elem": e.name}, HTTP: &HTTPMap{Verb: "GET"}}
		m.HTTP.Path = "/" + m.Name
		n++
		withPayload := func() {
			m.Payload = ObjT([]string{"hh"}, A("qq", P(KString)), A("hh", P(KInt)))
			m.HTTP.Params = []Map{{"qq", "q"}}
			m.HTTP.Headers = []Map{{"hh", "X-Hh"}}
		}
		switch kind {
		case "server":
			m.StreamResult = e.res()
		case "server-with-payload":
			withPayload()
			m.StreamResult = e.res()
		case "client":
			m.StreamPayload = e.req()
			m.Result = e.res()
		case "client-noresult":
			m.StreamPayload = e.req()
		case "bidi":
			m.StreamPayload = e.req()
			m.StreamResult = e.res()
		case "bidi-with-payload":
			withPayload()
			m.StreamPayload = e.req()
			m.StreamResult = e.res()
		default:
			panic("spec: stream kind " + kind)
		}
		out = append(out, MethodCase{M: m, Types: e.defs, Own: true})
	}
	for _, kind := range []string{"server", "client", "bidi", "server-with-payload"} {
		for _, e := range elems {
			mk(kind, e)
		}
	}
	mk("client-noresult", elems[0])
	mk("client-noresult", elems[2])
	mk("bidi-with-payload", elems[1])
	return out
}

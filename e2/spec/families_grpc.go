package spec

import (
	"fmt"
	"strings"
)

// gRPC families (C10). Every method carries GRPC: &GRPCMap{...} so that Build emits
// GRPC(func(){...}); message attributes carry the field number chosen in the design
// (Attr.Tag -> dsl.Field). Nothing here looks at goa.

// KUnion is the kind of a OneOf union attribute: Type.Attrs lists the alternatives (each with
// its own Tag). A union value is an Obj with exactly one key, the chosen alternative.
const KUnion = "union"

// GRPC destinations of an attribute.
const (
	GMessage  = "message"
	GMetadata = "metadata"
	GHeader   = "header"
	GTrailer  = "trailer"
)

// GAttr is one payload/result attribute of a gRPC method and where it travels.
type GAttr struct {
	A     *Attr
	Where string // GMessage, GMetadata (payload), GHeader, GTrailer (result)
	Req   bool
	Wire  string // metadata key when different from the attribute name
}

// AT builds a tagged attribute (Field(tag, name, type)).
func AT(tag int, name string, t *Type) *Attr { return &Attr{Name: name, T: t, Tag: tag} }

// ATD builds a tagged attribute with a default value.
func ATD(tag int, name string, t *Type, def any) *Attr {
	return &Attr{Name: name, T: t, Tag: tag, HasDefault: true, Default: def}
}

func gObject(attrs []GAttr) *Type {
	obj := &Type{K: KObject}
	for _, ga := range attrs {
		obj.Attrs = append(obj.Attrs, ga.A)
		if ga.Req {
			obj.Required = append(obj.Required, ga.A.Name)
		}
	}
	return obj
}

// GRPCMethod builds a unary gRPC method. payload/result nil: none.
func GRPCMethod(name string, payload, result []GAttr) *Method {
	m := &Method{Name: name, Feat: map[string]string{}, GRPC: &GRPCMap{}}
	if payload != nil {
		m.Payload = gObject(payload)
		for _, ga := range payload {
			if ga.Where == GMetadata {
				m.GRPC.Metadata = append(m.GRPC.Metadata, Map{Attr: ga.A.Name, Wire: ga.Wire})
			}
		}
	}
	if result != nil {
		m.Result = gObject(result)
		for _, ga := range result {
			switch ga.Where {
			case GHeader:
				m.GRPC.Headers = append(m.GRPC.Headers, Map{Attr: ga.A.Name, Wire: ga.Wire})
			case GTrailer:
				m.GRPC.Trailers = append(m.GRPC.Trailers, Map{Attr: ga.A.Name, Wire: ga.Wire})
			}
		}
	}
	return m
}

func gInner() *TypeDef {
	return &TypeDef{Name: "Inner", Kind: "type", Attrs: []*Attr{AT(1, "ia", P(KString)), AT(2, "ib", P(KInt)), ATD(3, "ic", P(KString), "idef")}, Required: []string{"ia"}}
}

// grpcTypeMenu is the type alphabet of the gRPC families: every primitive goa maps to a
// protocol buffer scalar, arrays, maps over every key kind, nested collections (which goa has to
// wrap into helper messages), aliases, user types, recursion.
func grpcTypeMenu() []typeEntry {
	inner := []*TypeDef{gInner()}
	node := []*TypeDef{{Name: "Node", Kind: "type", Attrs: []*Attr{AT(1, "val", P(KString)), AT(2, "next", User("Node"))}, Required: []string{"val"}}}
	tree := []*TypeDef{{Name: "Tree", Kind: "type", Attrs: []*Attr{AT(1, "val", P(KString)), AT(2, "kids", ArrT(User("Tree")))}, Required: []string{"val"}}}
	aliasS := []*TypeDef{{Name: "AliasS", Kind: "alias", Base: P(KString)}}
	aliasI := []*TypeDef{{Name: "AliasI", Kind: "alias", Base: P(KInt)}}
	return []typeEntry{
		{Name: "string", T: P(KString), Def: "dflt"},
		{Name: "int", T: P(KInt), Def: 7},
		{Name: "bool", T: P(KBool), Def: true},
		{Name: "float64", T: P(KFloat64), Def: 2.5},
		{Name: "int32", T: P(KInt32), Def: 7},
		{Name: "int64", T: P(KInt64), Def: 7},
		{Name: "uint", T: P(KUInt), Def: 7},
		{Name: "uint32", T: P(KUInt32), Def: 7},
		{Name: "uint64", T: P(KUInt64), Def: 7},
		{Name: "float32", T: P(KFloat32), Def: 2.5},
		{Name: "bytes", T: P(KBytes), Def: "dflt"},
		{Name: "arr_string", T: ArrT(P(KString)), Def: []any{"x", "y"}},
		{Name: "arr_int", T: ArrT(P(KInt))},
		{Name: "arr_bool", T: ArrT(P(KBool))},
		{Name: "arr_float64", T: ArrT(P(KFloat64))},
		{Name: "arr_bytes", T: ArrT(P(KBytes))},
		{Name: "arr_uint64", T: ArrT(P(KUInt64))},
		{Name: "arr_arr_string", T: ArrT(ArrT(P(KString)))},
		{Name: "arr_map_string_int", T: ArrT(MapT(P(KString), P(KInt)))},
		{Name: "map_string_string", T: MapT(P(KString), P(KString))},
		{Name: "map_string_int", T: MapT(P(KString), P(KInt))},
		{Name: "map_int_string", T: MapT(P(KInt), P(KString))},
		{Name: "map_int64_bool", T: MapT(P(KInt64), P(KBool))},
		{Name: "map_uint32_float64", T: MapT(P(KUInt32), P(KFloat64))},
		{Name: "map_uint64_bytes", T: MapT(P(KUInt64), P(KBytes))},
		{Name: "map_bool_string", T: MapT(P(KBool), P(KString))},
		{Name: "map_string_arr_string", T: MapT(P(KString), ArrT(P(KString)))},
		{Name: "map_string_map_string_int", T: MapT(P(KString), MapT(P(KString), P(KInt)))},
		{Name: "alias_string", T: User("AliasS"), Defs: aliasS, Def: "dflt"},
		{Name: "alias_int", T: User("AliasI"), Defs: aliasI, Def: 7},
		{Name: "arr_alias_string", T: ArrT(User("AliasS")), Defs: aliasS},
		{Name: "map_alias_string_alias_int", T: MapT(User("AliasS"), User("AliasI")), Defs: append(append([]*TypeDef{}, aliasS...), aliasI...)},
		{Name: "user_object", T: User("Inner"), Defs: inner},
		{Name: "arr_user", T: ArrT(User("Inner")), Defs: inner},
		{Name: "map_string_user", T: MapT(P(KString), User("Inner")), Defs: inner},
		{Name: "recursive_ref", T: User("Node"), Defs: node},
		{Name: "recursive_array", T: User("Tree"), Defs: tree},
		{Name: "inline_object", T: ObjT([]string{"oa"}, AT(1, "oa", P(KString)), AT(2, "ob", P(KBool)))},
		{Name: "union_prim", T: &Type{K: KUnion, Attrs: []*Attr{AT(5, "us", P(KString)), AT(6, "ui", P(KInt)), AT(7, "ub", P(KBool))}}},
		{Name: "union_user", T: &Type{K: KUnion, Attrs: []*Attr{AT(5, "us", P(KString)), AT(6, "uo", User("Inner"))}}, Defs: inner},
		{Name: "union_alias", T: &Type{K: KUnion, Attrs: []*Attr{AT(5, "us", User("AliasS")), AT(6, "ui", User("AliasI")), AT(7, "uo", User("Inner")), AT(8, "ub", P(KBool))}},
			Defs: mergeDefs(aliasS, aliasI, inner)},
		{Name: "union_array", T: &Type{K: KUnion, Attrs: []*Attr{AT(5, "us", P(KString)), AT(6, "ua", ArrT(P(KString)))}}},
		// a message that holds BOTH a user type which itself contains a union (directly, in an
		// array, in a map) AND a union of its own, in both attribute orders; a union whose
		// alternative is such a user type, next to a second union
		{Name: "holder_array_then_union", T: User("HolderAU"), Defs: gHolder("HolderAU", "array", false)},
		{Name: "holder_union_then_array", T: User("HolderUA"), Defs: gHolder("HolderUA", "array", true)},
		{Name: "holder_map_then_union", T: User("HolderMU"), Defs: gHolder("HolderMU", "map", false)},
		{Name: "holder_union_then_map", T: User("HolderUM"), Defs: gHolder("HolderUM", "map", true)},
		{Name: "holder_user_then_union", T: User("HolderTU"), Defs: gHolder("HolderTU", "user", false)},
		{Name: "holder_union_then_user", T: User("HolderUT"), Defs: gHolder("HolderUT", "user", true)},
		{Name: "holder_union_of_holder_then_union", T: User("HolderOU"), Defs: gHolder("HolderOU", "union", false)},
		{Name: "holder_union_then_union_of_holder", T: User("HolderUO"), Defs: gHolder("HolderUO", "union", true)},
	}
}

// gHolder defines a user type <name> with a "title", an attribute "items" that reaches the user
// type UItem (which has a union "iu" of its own) through an array, a map, directly, or as an
// alternative of a union, and a union "hu" of the holder itself; unionFirst puts "hu" before
// "items".
func gHolder(name, via string, unionFirst bool) []*TypeDef {
	item := &TypeDef{Name: "UItem", Kind: "type", Attrs: []*Attr{AT(1, "label", P(KString)),
		AT(9, "iu", &Type{K: KUnion, Attrs: []*Attr{AT(2, "ir", P(KFloat64)), AT(3, "is", P(KInt32))}})}, Required: []string{"label"}}
	var items *Attr
	switch via {
	case "array":
		items = AT(2, "items", ArrT(User("UItem")))
	case "map":
		items = AT(2, "items", MapT(P(KString), User("UItem")))
	case "user":
		items = AT(2, "items", User("UItem"))
	default:
		items = AT(2, "items", &Type{K: KUnion, Attrs: []*Attr{AT(2, "it", User("UItem")), AT(3, "ix", P(KString))}})
	}
	hu := AT(8, "hu", &Type{K: KUnion, Attrs: []*Attr{AT(5, "hs", P(KString)), AT(6, "hi", P(KInt32))}})
	attrs := []*Attr{AT(1, "title", P(KString)), items, hu}
	if unionFirst {
		attrs = []*Attr{AT(1, "title", P(KString)), hu, items}
	}
	return []*TypeDef{item, {Name: name, Kind: "type", Attrs: attrs, Required: []string{"title"}}}
}

func mergeDefs(lists ...[]*TypeDef) []*TypeDef {
	var out []*TypeDef
	for _, l := range lists {
		for _, d := range l {
			dup := false
			for _, e := range out {
				if e.Name == d.Name {
					dup = true
				}
			}
			if !dup {
				out = append(out, d)
			}
		}
	}
	return out
}

type gCounter struct{ n int }

func (c *gCounter) next() string { c.n++; return fmt.Sprintf("m%d", c.n-1) }

// GRPCTypes is type x side x requiredness with one message attribute per method (field
// number 1), plus payloads/results that are not objects (goa wraps them into a message with a
// single "field").
func GRPCTypes(thorough bool) []MethodCase {
	var out []MethodCase
	c := &gCounter{}
	for _, side := range []string{"payload", "result"} {
		for _, te := range grpcTypeMenu() {
			// goa's generator does not return on a type that contains an array of itself (each such
			// design costs the pipeline its two-minute timeout): thorough tier only, own design
			if te.Name == "recursive_array" && !thorough {
				continue
			}
			own := te.Name == "recursive_array" || te.Name == "recursive_ref" || te.Name == "inline_object"
			for _, req := range []string{"required", "optional", "default"} {
				if req == "default" && te.Def == nil {
					continue
				}
				if te.T.K == KUnion && req != "optional" {
					continue
				}
				if own && req != "required" {
					continue
				}
				a := AT(1, "aa", cloneType(te.T))
				if req == "default" {
					a = ATD(1, "aa", cloneType(te.T), te.Def)
				}
				ga := []GAttr{{A: a, Where: GMessage, Req: req == "required"}}
				var m *Method
				if side == "payload" {
					m = GRPCMethod(c.next(), ga, nil)
				} else {
					m = GRPCMethod(c.next(), nil, ga)
				}
				m.Feat = map[string]string{"family": "G-types", "side": side, "type": te.Name, "req": req, "loc": GMessage}
				out = append(out, MethodCase{M: m, Types: te.Defs, Own: own})
			}
			if te.T.K == KObject || te.T.K == KUnion {
				continue
			}
			// the payload / result is the type itself
			m := &Method{Name: c.next(), GRPC: &GRPCMap{}}
			if side == "payload" {
				m.Payload = cloneType(te.T)
			} else {
				m.Result = cloneType(te.T)
			}
			m.Feat = map[string]string{"family": "G-types", "side": side, "type": te.Name, "req": "whole", "loc": GMessage}
			out = append(out, MethodCase{M: m, Types: te.Defs, Own: own})
		}
	}
	return out
}

// GRPCTags is the field-number family: orders, gaps, the largest number, numbers around the
// range protoc reserves, numbers the protocol does not allow, duplicates and missing numbers at
// the top level (goa documents that it rejects them) and inside nested types.
func GRPCTags() []MethodCase {
	var out []MethodCase
	c := &gCounter{}
	add := func(desc string, attrs []*Attr, defs []*TypeDef) {
		// cases that goa may accept although no well-formed definition exists get a design of
		// their own, so that a generator failure is attributed to them alone
		own := strings.Contains(desc, "reserved-1") || strings.Contains(desc, "too-large") || desc == "negative" || strings.Contains(desc, "duplicate") || strings.Contains(desc, "missing") || strings.Contains(desc, "equals") || strings.Contains(desc, "+field-6")
		for _, side := range []string{"payload", "result"} {
			var ga []GAttr
			for _, a := range attrs {
				cp := *a
				ga = append(ga, GAttr{A: &cp, Where: GMessage})
			}
			var m *Method
			if side == "payload" {
				m = GRPCMethod(c.next(), ga, nil)
			} else {
				m = GRPCMethod(c.next(), nil, ga)
			}
			m.Feat = map[string]string{"family": "G-tags", "side": side, "tags": desc}
			out = append(out, MethodCase{M: m, Types: defs, Own: own})
		}
	}
	s, i := P(KString), P(KInt)
	add("1,2", []*Attr{AT(1, "aa", s), AT(2, "bb", i)}, nil)
	add("2,1", []*Attr{AT(2, "aa", s), AT(1, "bb", i)}, nil)
	add("gaps-1,5,100", []*Attr{AT(1, "aa", s), AT(5, "bb", i), AT(100, "cc", s)}, nil)
	add("descending-9,4,2", []*Attr{AT(9, "aa", s), AT(4, "bb", i), AT(2, "cc", ArrT(P(KString)))}, nil)
	add("two-byte-16,2047,2048", []*Attr{AT(16, "aa", s), AT(2047, "bb", i), AT(2048, "cc", s)}, nil)
	add("largest-536870911", []*Attr{AT(1, "aa", s), AT(536870911, "bb", i)}, nil)
	add("around-reserved-18999,20000", []*Attr{AT(18999, "aa", s), AT(20000, "bb", i)}, nil)
	add("reserved-19000", []*Attr{AT(19000, "aa", s)}, nil)
	add("reserved-19999", []*Attr{AT(1, "aa", s), AT(19999, "bb", i)}, nil)
	add("too-large-536870912", []*Attr{AT(536870912, "aa", s)}, nil)
	add("negative", []*Attr{AT(-1, "aa", s)}, nil)
	add("duplicate-top-level", []*Attr{AT(1, "aa", s), AT(1, "bb", i)}, nil)
	add("missing-top-level", []*Attr{AT(1, "aa", s), A("bb", i)}, nil)
	nested := func(name string, attrs ...*Attr) []*TypeDef {
		return []*TypeDef{{Name: name, Kind: "type", Attrs: attrs}}
	}
	add("nested-3,1", []*Attr{AT(1, "aa", User("NestA"))}, nested("NestA", AT(3, "na", s), AT(1, "nb", i)))
	add("nested-duplicate", []*Attr{AT(1, "aa", User("NestD"))}, nested("NestD", AT(2, "na", s), AT(2, "nb", i)))
	add("nested-missing", []*Attr{AT(1, "aa", User("NestM"))}, nested("NestM", AT(1, "na", s), A("nb", i)))
	add("nested-in-array-duplicate", []*Attr{AT(1, "aa", ArrT(User("NestE")))}, nested("NestE", AT(4, "na", s), AT(4, "nb", i)))
	add("map-field-numbers-7,3", []*Attr{AT(7, "aa", MapT(s, i)), AT(3, "bb", MapT(i, s))}, nil)
	add("union-members-5,6+field-6", []*Attr{AT(1, "aa", &Type{K: KUnion, Attrs: []*Attr{AT(5, "us", s), AT(6, "ui", i)}}), AT(6, "bb", s)}, nil)
	add("union-members-duplicate", []*Attr{AT(1, "aa", &Type{K: KUnion, Attrs: []*Attr{AT(5, "us", s), AT(5, "ui", i)}})}, nil)
	aliasDefs := []*TypeDef{{Name: "AliasS", Kind: "alias", Base: P(KString)}, {Name: "AliasI", Kind: "alias", Base: P(KInt32)}, gInner()}
	add("union-alias-members-4,9+field-2", []*Attr{AT(1, "aa", &Type{K: KUnion, Attrs: []*Attr{AT(4, "us", User("AliasS")), AT(9, "ui", User("AliasI"))}}), AT(2, "bb", s)}, aliasDefs)
	add("union-mixed-members-3,7,12", []*Attr{AT(1, "aa", &Type{K: KUnion, Attrs: []*Attr{AT(3, "us", User("AliasS")), AT(7, "uo", User("Inner")), AT(12, "up", i)}})}, aliasDefs)
	add("union-name-equals-member", []*Attr{AT(1, "us", &Type{K: KUnion, Attrs: []*Attr{AT(5, "us", s), AT(6, "ui", i)}})}, nil)
	add("name-is-keyword", []*Attr{AT(1, "message", s), AT(2, "optional", i), AT(3, "map", s)}, nil)
	// credentials: a method-level security requirement whose credential attribute(s) sit in the
	// payload (untagged: goa sends them as request metadata) x their position among the other
	// attributes x the field numbers of those: right, duplicate, missing. The numbers of the
	// attributes declared next to a credential are held to the same rules as everywhere else.
	type cred struct {
		name   string
		scheme string
		attrs  func() []*Attr
	}
	creds := []cred{
		{"jwt", "jwt", func() []*Attr { return []*Attr{{Name: "tok", T: P(KString), Sec: "token"}} }},
		{"apikey", "aks", func() []*Attr { return []*Attr{{Name: "keyh", T: P(KString), Sec: "apikey:aks"}} }},
		{"basic", "bsc", func() []*Attr {
			return []*Attr{{Name: "usr", T: P(KString), Sec: "username"}, {Name: "pwd", T: P(KString), Sec: "password"}}
		}},
	}
	for _, cr := range creds {
		for _, pos := range []string{"first", "middle", "last"} {
			for _, tc := range []string{"1,2", "duplicate", "missing"} {
				aa, bb := AT(1, "aa", P(KString)), AT(2, "bb", P(KInt32))
				switch tc {
				case "duplicate":
					bb.Tag = 1
				case "missing":
					bb.Tag = 0
				}
				var attrs []*Attr
				switch pos {
				case "first":
					attrs = append(append(attrs, cr.attrs()...), aa, bb)
				case "middle":
					attrs = append(append(append(attrs, aa), cr.attrs()...), bb)
				default:
					attrs = append(append(attrs, aa, bb), cr.attrs()...)
				}
				obj := &Type{K: KObject, Attrs: attrs}
				for _, a := range attrs {
					if a.Sec != "" {
						obj.Required = append(obj.Required, a.Name)
					}
				}
				m := &Method{Name: c.next(), GRPC: &GRPCMap{}, Payload: obj}
				req := Requirement{{Scheme: cr.scheme}}
				if cr.scheme == "jwt" {
					req = Requirement{{Scheme: "jwt", Scopes: []string{"s1"}}}
				}
				m.Security = &Security{Reqs: []Requirement{req}}
				m.Feat = map[string]string{"family": "G-tags", "side": "payload", "tags": fmt.Sprintf("credential-%s-%s+%s", cr.name, pos, tc)}
				out = append(out, MethodCase{M: m, Schemes: SecSchemes(), Own: tc != "1,2"})
			}
		}
	}
	return out
}

func grpcMetaTypes() []typeEntry {
	var out []typeEntry
	for _, te := range grpcTypeMenu() {
		switch te.Name {
		case "string", "int", "int32", "int64", "uint", "uint32", "uint64", "float32", "float64", "bool", "bytes",
			"arr_string", "arr_int", "arr_bool", "arr_float64", "alias_string", "alias_int", "map_string_string", "map_string_arr_string", "user_object":
			out = append(out, te)
		}
	}
	return out
}

// GRPCMeta is the metadata partition family: one attribute in the request metadata / response
// headers / response trailers (type x requiredness) next to one message attribute, renamed keys,
// everything in metadata, headers and trailers together.
func GRPCMeta(thorough bool) []MethodCase {
	var out []MethodCase
	c := &gCounter{}
	for _, where := range []string{GMetadata, GHeader, GTrailer} {
		for _, te := range grpcMetaTypes() {
			for _, req := range []string{"required", "optional", "default"} {
				if req == "default" && te.Def == nil {
					continue
				}
				if !thorough && req == "default" && te.Name != "string" && te.Name != "int" && te.Name != "arr_string" {
					continue
				}
				if !thorough && where != GMetadata {
					// quick tier: a reduced type menu for response headers / trailers
					switch te.Name {
					case "string", "int", "bool", "float64", "bytes", "arr_string", "arr_int", "alias_string":
					default:
						continue
					}
				}
				h := AT(2, "hh", cloneType(te.T))
				if req == "default" {
					h = ATD(2, "hh", cloneType(te.T), te.Def)
				}
				attrs := []GAttr{{A: AT(1, "aa", P(KString)), Where: GMessage}, {A: h, Where: where, Req: req == "required"}}
				var m *Method
				if where == GMetadata {
					m = GRPCMethod(c.next(), attrs, nil)
				} else {
					m = GRPCMethod(c.next(), nil, attrs)
				}
				m.Feat = map[string]string{"family": "G-meta", "loc": where, "type": te.Name, "req": req}
				out = append(out, MethodCase{M: m, Types: te.Defs})
			}
		}
	}
	s, i := P(KString), P(KInt)
	extra := func(desc string, payload, result []GAttr) {
		m := GRPCMethod(c.next(), payload, result)
		m.Feat = map[string]string{"family": "G-meta", "loc": "mixed", "shape": desc}
		out = append(out, MethodCase{M: m, Own: strings.Contains(desc, "untagged")})
	}
	extra("metadata-renamed-key", []GAttr{{A: AT(1, "aa", s), Where: GMessage}, {A: AT(2, "hh", s), Where: GMetadata, Wire: "x-renamed", Req: true}}, nil)
	extra("all-in-metadata", []GAttr{{A: AT(1, "hh", s), Where: GMetadata, Req: true}, {A: AT(2, "kk", i), Where: GMetadata}}, nil)
	extra("two-metadata+two-message", []GAttr{{A: AT(1, "aa", s), Where: GMessage, Req: true}, {A: AT(2, "bb", i), Where: GMessage}, {A: AT(3, "hh", s), Where: GMetadata}, {A: AT(4, "kk", s), Where: GMetadata, Req: true}}, nil)
	extra("metadata-untagged-attributes", []GAttr{{A: AT(1, "aa", s), Where: GMessage}, {A: A("hh", s), Where: GMetadata}}, nil)
	extra("message-untagged-with-metadata", []GAttr{{A: A("aa", s), Where: GMessage}, {A: AT(2, "hh", s), Where: GMetadata}}, nil)
	extra("header-renamed-key", nil, []GAttr{{A: AT(1, "aa", s), Where: GMessage}, {A: AT(2, "hh", s), Where: GHeader, Wire: "x-renamed", Req: true}})
	extra("header+trailer", nil, []GAttr{{A: AT(1, "aa", s), Where: GMessage}, {A: AT(2, "hh", s), Where: GHeader}, {A: AT(3, "tt", s), Where: GTrailer}})
	extra("all-in-headers", nil, []GAttr{{A: AT(1, "hh", s), Where: GHeader, Req: true}, {A: AT(2, "kk", s), Where: GHeader}})
	extra("all-in-trailers", nil, []GAttr{{A: AT(1, "tt", s), Where: GTrailer, Req: true}})
	extra("metadata+header+trailer", []GAttr{{A: AT(1, "aa", s), Where: GMessage}, {A: AT(2, "hh", s), Where: GMetadata}},
		[]GAttr{{A: AT(1, "ra", s), Where: GMessage}, {A: AT(2, "rh", s), Where: GHeader}, {A: AT(3, "rt", s), Where: GTrailer}})
	return out
}

// GRPCStreams is the streaming family: the four kinds x element shapes, with and without a
// (non-streamed) payload for the client-streaming kinds.
func GRPCStreams() []MethodCase {
	var out []MethodCase
	c := &gCounter{}
	inner := []*TypeDef{gInner()}
	type shape struct {
		name string
		t    func() *Type
		defs []*TypeDef
	}
	obj := func() *Type { return ObjT([]string{"aa"}, AT(1, "aa", P(KString)), AT(2, "bb", P(KInt))) }
	shapes := []shape{
		{"string", func() *Type { return P(KString) }, nil},
		{"object", obj, nil},
		{"user_object", func() *Type { return User("Inner") }, inner},
		{"arr_string", func() *Type { return ArrT(P(KString)) }, nil},
		{"map_string_int", func() *Type { return MapT(P(KString), P(KInt)) }, nil},
		{"int", func() *Type { return P(KInt) }, nil},
	}
	for _, sh := range shapes {
		for _, kind := range []string{"unary", "server", "client", "bidi"} {
			payloads := []string{"none"}
			if kind == "client" || kind == "bidi" {
				payloads = []string{"none", "object", "string"}
			}
			for _, pl := range payloads {
				m := &Method{Name: c.next(), GRPC: &GRPCMap{}}
				switch kind {
				case "unary":
					m.Payload, m.Result = sh.t(), sh.t()
				case "server":
					m.Payload, m.StreamResult = sh.t(), sh.t()
				case "client":
					m.StreamPayload, m.Result = sh.t(), sh.t()
				case "bidi":
					m.StreamPayload, m.StreamResult = sh.t(), sh.t()
				}
				switch pl {
				case "object":
					m.Payload = ObjT([]string{"pa"}, AT(1, "pa", P(KString)), AT(2, "pb", P(KInt)))
				case "string":
					m.Payload = P(KString)
				}
				m.Feat = map[string]string{"family": "G-stream", "stream": kind, "type": sh.name, "payload": pl}
				out = append(out, MethodCase{M: m, Types: sh.defs})
			}
		}
	}
	return out
}

// GRPCValidation is the "rejected before user code" family: validation keyword x position of
// the validated value inside the request message or metadata.
func GRPCValidation(thorough bool) []MethodCase {
	var out []MethodCase
	c := &gCounter{}
	add := func(attrs []GAttr, defs []*TypeDef, feat map[string]string) {
		m := GRPCMethod(c.next(), attrs, nil)
		feat["family"] = "G-valid"
		m.Feat = feat
		out = append(out, MethodCase{M: m, Types: defs})
	}
	one := func(a *Attr, where string, req bool, defs []*TypeDef, feat map[string]string) {
		feat["loc"] = where
		feat["req"] = "optional"
		if req {
			feat["req"] = "required"
		}
		attrs := []GAttr{{A: a, Where: where, Req: req}}
		if where != GMessage {
			attrs = append([]GAttr{{A: AT(2, "zz", P(KString)), Where: GMessage}}, attrs...)
		}
		add(attrs, defs, feat)
	}
	for _, ve := range validMenu() {
		isFormat := strings.HasPrefix(ve.Name, "format_")
		if isFormat && !thorough && ve.Name != "format_date" && ve.Name != "format_ipv4" && ve.Name != "format_uuid" {
			continue
		}
		for _, req := range []bool{true, false} {
			one(AT(1, "aa", WithV(ve.Base, ve.V)), GMessage, req, nil, map[string]string{"valid": ve.Name, "pos": "attribute"})
		}
		one(AT(1, "aa", WithV(ve.Base, ve.V)), GMetadata, true, nil, map[string]string{"valid": ve.Name, "pos": "attribute"})
		if thorough || !isFormat {
			one(AT(1, "aa", WithV(ve.Base, ve.V)), GMetadata, false, nil, map[string]string{"valid": ve.Name, "pos": "attribute"})
		}
		if isFormat && !thorough && ve.Name != "format_date" {
			continue
		}
		one(AT(1, "aa", ArrT(WithV(ve.Base, ve.V))), GMessage, true, nil, map[string]string{"valid": ve.Name, "pos": "array-element"})
		one(AT(1, "aa", MapT(P(KString), WithV(ve.Base, ve.V))), GMessage, true, nil, map[string]string{"valid": ve.Name, "pos": "map-element"})
		if ve.Base.K == KString || ve.Base.K == KInt {
			one(AT(1, "aa", MapT(WithV(ve.Base, ve.V), P(KString))), GMessage, false, nil, map[string]string{"valid": ve.Name, "pos": "map-key"})
		}
		innerV := &TypeDef{Name: "InnerV", Kind: "type", Attrs: []*Attr{AT(1, "fa", WithV(ve.Base, ve.V)), AT(2, "fb", P(KString))}, Required: []string{"fa"}}
		one(AT(1, "aa", User("InnerV")), GMessage, true, []*TypeDef{innerV}, map[string]string{"valid": ve.Name, "pos": "nested-field"})
		innerO := &TypeDef{Name: "InnerO", Kind: "type", Attrs: []*Attr{AT(1, "fa", WithV(ve.Base, ve.V)), AT(2, "fb", P(KString))}}
		one(AT(1, "aa", ArrT(User("InnerO"))), GMessage, false, []*TypeDef{innerO}, map[string]string{"valid": ve.Name, "pos": "nested-field-in-array"})
		alias := &TypeDef{Name: "AliasV", Kind: "alias", Base: WithV(ve.Base, ve.V)}
		one(AT(1, "aa", User("AliasV")), GMessage, true, []*TypeDef{alias}, map[string]string{"valid": ve.Name, "pos": "alias"})
		if ve.Base.K != KBytes {
			one(AT(1, "aa", ArrT(ArrT(WithV(ve.Base, ve.V)))), GMessage, false, nil, map[string]string{"valid": ve.Name, "pos": "nested-array-element"})
		}
	}
	// collection lengths
	one(AT(1, "aa", WithV(ArrT(P(KString)), &Valid{MinLen: I(1)})), GMessage, true, nil, map[string]string{"valid": "minlen_array", "pos": "attribute"})
	one(AT(1, "aa", WithV(ArrT(P(KInt)), &Valid{MaxLen: I(2)})), GMessage, false, nil, map[string]string{"valid": "maxlen_array", "pos": "attribute"})
	one(AT(1, "aa", WithV(MapT(P(KString), P(KInt)), &Valid{MinLen: I(1)})), GMessage, true, nil, map[string]string{"valid": "minlen_map", "pos": "attribute"})
	one(AT(1, "aa", WithV(MapT(P(KString), P(KInt)), &Valid{MaxLen: I(1)})), GMessage, false, nil, map[string]string{"valid": "maxlen_map", "pos": "attribute"})
	one(AT(1, "aa", WithV(ArrT(P(KString)), &Valid{MinLen: I(1)})), GMetadata, true, nil, map[string]string{"valid": "minlen_array", "pos": "attribute"})
	// alias bound and attribute bound both apply
	aliasMin := &TypeDef{Name: "AliasMin", Kind: "alias", Base: WithV(P(KInt), &Valid{Min: F(3)})}
	one(AT(1, "aa", WithV(User("AliasMin"), &Valid{Max: F(5)})), GMessage, true, []*TypeDef{aliasMin}, map[string]string{"valid": "alias_min+attr_max", "pos": "alias+attribute"})
	// required message-typed attributes (a protocol buffer message field can be absent)
	req := &TypeDef{Name: "InnerR", Kind: "type", Attrs: []*Attr{AT(1, "fa", P(KString)), AT(2, "fm", User("Leaf"))}, Required: []string{"fa", "fm"}}
	leaf := &TypeDef{Name: "Leaf", Kind: "type", Attrs: []*Attr{AT(1, "la", P(KString))}, Required: []string{"la"}}
	one(AT(1, "aa", User("InnerR")), GMessage, true, []*TypeDef{leaf, req}, map[string]string{"valid": "required", "pos": "nested-message"})
	one(AT(1, "aa", User("InnerR")), GMessage, false, []*TypeDef{leaf, req}, map[string]string{"valid": "required", "pos": "nested-message-optional-parent"})
	one(AT(1, "aa", ArrT(User("InnerR"))), GMessage, false, []*TypeDef{leaf, req}, map[string]string{"valid": "required", "pos": "nested-message-in-array"})
	one(AT(1, "aa", MapT(P(KString), User("InnerR"))), GMessage, false, []*TypeDef{leaf, req}, map[string]string{"valid": "required", "pos": "nested-message-in-map"})
	// required attributes of every shape, with the request message attributes inferred, listed
	// explicitly with Message(...), or listed in part
	{
		leafOnly := []*TypeDef{leaf}
		shapes := []struct {
			name string
			t    *Type
		}{
			{"message", User("Leaf")},
			{"array-of-message", ArrT(User("Leaf"))},
			{"map-of-message", MapT(P(KString), User("Leaf"))},
			{"array", ArrT(P(KString))},
			{"string", P(KString)},
			{"int32", P(KInt32)},
		}
		for _, sh := range shapes {
			for _, listing := range []string{"inferred", "listed", "listed-in-part"} {
				m := GRPCMethod(c.next(), []GAttr{{A: AT(1, "aa", cloneType(sh.t)), Where: GMessage, Req: true}, {A: AT(2, "bb", P(KString)), Where: GMessage}, {A: AT(3, "cc", User("Leaf")), Where: GMessage, Req: true}}, nil)
				switch listing {
				case "listed":
					m.GRPC.Message = []Map{{Attr: "aa"}, {Attr: "bb"}, {Attr: "cc"}}
				case "listed-in-part":
					m.GRPC.Message = []Map{{Attr: "aa"}}
				}
				m.Feat = map[string]string{"family": "G-valid", "valid": "required", "pos": "top-level-" + sh.name + "-" + listing, "loc": GMessage, "req": "required"}
				out = append(out, MethodCase{M: m, Types: leafOnly})
			}
		}
	}
	// the same on the RESULT side: required result attributes of every shape with the response
	// message attributes inferred, all listed with Response(CodeOK, func(){ Message(...) }), only a
	// required one listed, only the optional one listed. The generated client must reject a
	// response that lacks a required field before user code sees a result.
	{
		leafOnly := []*TypeDef{leaf}
		shapes := []struct {
			name string
			t    *Type
		}{
			{"message", User("Leaf")},
			{"array-of-message", ArrT(User("Leaf"))},
			{"map-of-message", MapT(P(KString), User("Leaf"))},
			{"array", ArrT(P(KString))},
			{"string", P(KString)},
			{"int32", P(KInt32)},
		}
		for _, sh := range shapes {
			for _, listing := range []string{"inferred", "listed", "listed-required-in-part", "listed-optional-only"} {
				m := GRPCMethod(c.next(), nil, []GAttr{{A: AT(1, "aa", cloneType(sh.t)), Where: GMessage, Req: true}, {A: AT(2, "bb", P(KString)), Where: GMessage}, {A: AT(3, "cc", User("Leaf")), Where: GMessage, Req: true}})
				switch listing {
				case "listed":
					m.GRPC.RespMessage = []Map{{Attr: "aa"}, {Attr: "bb"}, {Attr: "cc"}}
				case "listed-required-in-part":
					m.GRPC.RespMessage = []Map{{Attr: "aa"}}
				case "listed-optional-only":
					m.GRPC.RespMessage = []Map{{Attr: "bb"}}
				}
				m.Feat = map[string]string{"family": "G-valid", "side": "result", "valid": "required", "pos": "response-" + sh.name + "-" + listing, "loc": GMessage, "req": "required"}
				out = append(out, MethodCase{M: m, Types: leafOnly})
			}
		}
	}
	// the streamed message of a client stream is validated too
	{
		m := &Method{Name: c.next(), GRPC: &GRPCMap{}}
		m.StreamPayload = ObjT([]string{"aa"}, AT(1, "aa", WithV(P(KInt), &Valid{Min: F(3)})))
		m.Result = P(KString)
		m.Feat = map[string]string{"family": "G-valid", "valid": "min_int", "pos": "streamed-message", "loc": GMessage, "req": "required"}
		out = append(out, MethodCase{M: m})
	}
	return out
}

package spec

import "fmt"

// Two further gRPC families of C10 (nothing here looks at goa):
//
//	GRPCStreamValidation  validated STREAMED messages x streaming kind x result kind
//	GRPCReuse             services whose results depend on response metadata, for the
//	                      "one generated client used for many calls" oracle

// Result kinds of the stream validation family: what the method returns next to the stream.
const (
	GResNone  = "none"  // no Result (client streaming only)
	GResPlain = "plain" // a plain type (String; for the result side: the validated type itself)
	GResView2 = "rt2"   // a ResultType with the views "default" and "alt"
	GResView1 = "rt1"   // a ResultType with the one view "default"
)

// gResultType builds the result of a result kind. The two views of the 2-view result type are
// not nested: "default" shows id, name and note (which has a default value), "alt" shows id and
// extra — so rendering with one view and reading with the other is visible in both directions.
func gResultType(kind string) (*Type, []*TypeDef) {
	attrs := func() []*Attr {
		return []*Attr{AT(1, "id", P(KString)), AT(2, "name", P(KString)), AT(3, "extra", P(KInt32)), ATD(4, "note", P(KString), "dflt")}
	}
	switch kind {
	case GResPlain:
		return P(KString), nil
	case GResView2:
		return User("Rview2"), []*TypeDef{{Name: "Rview2", Kind: "result", Attrs: attrs(), Required: []string{"id"},
			Views: []View{{Name: "default", Attrs: []string{"id", "name", "note"}}, {Name: "alt", Attrs: []string{"id", "extra"}}}}}
	case GResView1:
		return User("Rview1"), []*TypeDef{{Name: "Rview1", Kind: "result", Attrs: attrs(), Required: []string{"id"},
			Views: []View{{Name: "default", Attrs: []string{"id", "name", "extra", "note"}}}}}
	}
	return nil, nil
}

// GRPCStreamValidation is the family of validated streamed messages over gRPC:
//
//	side     payload  the StreamingPayload carries the validation: the generated SERVER stream's
//	                  Recv must validate every message (kinds client, bidi)
//	         result   the StreamingResult carries it: the generated CLIENT stream's Recv must
//	                  validate every message (kinds server, bidi)
//	shape    primitive / array of validated elements / map of validated elements (string keys) /
//	         user type with a required validated field
//	keyword  the reduced menu of the HTTP stream family (streamValidMenu: quick 5, thorough 10)
//	         plus the collection's own length rule (array MaxLength(2), map MaxLength(1))
//	result   side payload: what the method returns next to the validated stream
//	           client streaming: none, plain String, ResultType with 2 views, ResultType with 1 view
//	           bidirectional:    StreamingResult plain String, ResultType 2 views, ResultType 1 view
//	         side result: the streamed type itself; for shape user it is a plain user type, a
//	           ResultType with 2 views (the view "tiny" leaves the validated field out) or a
//	           ResultType with 1 view; the other shapes cannot be result types
//
// complete product; four methods per service, one service per design. The direction that is not
// under test streams plain strings. Names of validated user types carry the method number (Pack
// merges definitions by name); the result types of the result menu are shared.
func GRPCStreamValidation(thorough bool) []MethodCase {
	var out []MethodCase
	n := 0
	name := func() string { return fmt.Sprintf("m%d", n) }
	add := func(side, kind, shape, valid, result string, m *Method, defs []*TypeDef) {
		m.Name = name()
		m.GRPC = &GRPCMap{}
		m.Feat = map[string]string{"family": "G-streamval", "side": side, "stream": kind, "shape": shape, "valid": valid, "pos": "stream-" + shape, "result": result}
		out = append(out, MethodCase{M: m, Types: defs})
		n++
	}
	type cell struct {
		shape, valid string
		t            func() (*Type, []*TypeDef) // the validated streamed type
	}
	var cells []cell
	for _, ve := range streamValidMenu(thorough) {
		ve := ve
		vt := func() *Type { return WithV(ve.Base, ve.V) }
		cells = append(cells,
			cell{"primitive", ve.Name, func() (*Type, []*TypeDef) { return vt(), nil }},
			cell{"array", ve.Name, func() (*Type, []*TypeDef) { return ArrT(vt()), nil }},
			cell{"map", ve.Name, func() (*Type, []*TypeDef) { return MapT(P(KString), vt()), nil }},
			cell{"user", ve.Name, func() (*Type, []*TypeDef) {
				td := &TypeDef{Name: fmt.Sprintf("MsgM%d", n), Kind: "type", Attrs: []*Attr{AT(1, "fa", vt()), AT(2, "fb", P(KString))}, Required: []string{"fa"}}
				return User(td.Name), []*TypeDef{td}
			}})
	}
	cells = append(cells,
		cell{"array", "maxlen_array", func() (*Type, []*TypeDef) { return WithV(ArrT(P(KString)), &Valid{MaxLen: I(2)}), nil }},
		cell{"map", "maxlen_map", func() (*Type, []*TypeDef) { return WithV(MapT(P(KString), P(KInt32)), &Valid{MaxLen: I(1)}), nil }})
	// side payload
	for _, kind := range []string{"client", "bidi"} {
		results := []string{GResNone, GResPlain, GResView2, GResView1}
		if kind == "bidi" {
			results = results[1:]
		}
		for _, c := range cells {
			for _, res := range results {
				t, defs := c.t()
				rt, rdefs := gResultType(res)
				m := &Method{StreamPayload: t}
				if kind == "client" {
					m.Result = rt
				} else {
					m.StreamResult = rt
				}
				add("payload", kind, c.shape, c.valid, res, m, mergeDefs(defs, rdefs))
			}
		}
	}
	// side result
	for _, kind := range []string{"server", "bidi"} {
		for _, c := range cells {
			results := []string{GResPlain}
			if c.shape == "user" {
				results = []string{GResPlain, GResView2, GResView1}
			}
			for _, res := range results {
				t, defs := c.t()
				if res != GResPlain {
					// the streamed result is a result type whose required field fa is validated
					td := defs[0]
					td.Kind = "result"
					td.Name = fmt.Sprintf("MsgRM%d", n)
					td.Views = []View{{Name: "default", Attrs: []string{"fa", "fb"}}}
					if res == GResView2 {
						td.Views = append(td.Views, View{Name: "tiny", Attrs: []string{"fb"}})
					}
					t = User(td.Name)
				}
				m := &Method{StreamResult: t}
				if kind == "bidi" {
					m.StreamPayload = P(KString)
				}
				add("result", kind, c.shape, c.valid, res, m, defs)
			}
		}
	}
	return out
}

// GRPCStreamValidationDoc describes the family for the evidence files.
const GRPCStreamValidationDoc = "gRPC streams whose messages carry validations: side {StreamingPayload validated by the generated server stream's Recv: kinds client, bidirectional; StreamingResult validated by the generated client stream's Recv: kinds server, bidirectional} x " +
	"shape {primitive, array of validated elements, map of validated elements, user type with a required validated field} x keyword (quick: enum, minimum, exclusive maximum, max length, pattern; thorough: + float maximum, float exclusive minimum, min length, two-sided int32 range, format ipv4; + array MaxLength, map MaxLength) x " +
	"result kind (side payload: client streaming {no result, plain String, ResultType with views default+alt, ResultType with one view}, bidirectional {StreamingResult String, ResultType 2 views, ResultType 1 view}; side result: the streamed type is plain, or for shape user also a ResultType with 2 views / 1 view); " +
	"sequences: every sequence of length 0..3 over {valid message V, invalid message I} (15 patterns), I instantiated once per distinct set of violated rules (at most 3), V by the first three valid candidates in turn; " +
	"oracle: the receiver's Recv delivers exactly the messages before the first invalid one, in order and equal, then returns a goa error named after a violated rule; user code (the service method for payload streams, the caller of the client stream for result streams) never sees an invalid message"

// GRPCReuse is the family behind the client-reuse oracle: services whose methods return results
// that depend on response metadata. Every service is a design of its own.
//
//	service unary     m: ResultType with 2 views (the view travels in the goa-view header) | result with one
//	                  attribute in the message, one in the response headers and one in the trailers |
//	                  ResultType with 1 view | payload with a metadata attribute and a plain String result
//	service stream    (thorough, and quick when the quick flag says so) client streaming returning the
//	                  2-view ResultType | server streaming of the 2-view ResultType | unary 2-view
//	                  ResultType | bidirectional streaming of strings
//	service mixed     unary result with headers and trailers | unary 2-view ResultType with a payload in
//	                  metadata | server streaming of objects | unary without payload and result
//
// Feat "shape" names the method kind; the driver derives two value variants per method.
func GRPCReuse(thorough bool) []MethodCase {
	var out []MethodCase
	n := 0
	s := P(KString)
	rt2, rdefs2 := gResultType(GResView2)
	rt1, rdefs1 := gResultType(GResView1)
	add := func(svc, shape, kind string, m *Method, defs []*TypeDef) {
		m.Name = fmt.Sprintf("m%d", n)
		n++
		if m.GRPC == nil {
			m.GRPC = &GRPCMap{}
		}
		m.Feat = map[string]string{"family": "G-reuse", "service": svc, "shape": shape, "stream": kind}
		out = append(out, MethodCase{M: m, Types: defs, SvcKey: "reuse-" + svc, DesignKey: "reuse-" + svc})
	}
	withResult := func(m *Method, t *Type) *Method { m.Result = t; return m }
	headersTrailers := func() *Method {
		return GRPCMethod("", []GAttr{{A: AT(1, "pa", s), Where: GMessage}},
			[]GAttr{{A: AT(1, "ra", s), Where: GMessage}, {A: AT(2, "rh", s), Where: GHeader}, {A: AT(3, "rt", P(KInt32)), Where: GTrailer}})
	}
	// service unary
	add("unary", "view2", "unary", withResult(GRPCMethod("", []GAttr{{A: AT(1, "pa", s), Where: GMessage}}, nil), rt2), rdefs2)
	add("unary", "headers-trailers", "unary", headersTrailers(), nil)
	add("unary", "view1", "unary", withResult(GRPCMethod("", []GAttr{{A: AT(1, "pa", s), Where: GMessage}}, nil), rt1), rdefs1)
	add("unary", "metadata-payload", "unary", withResult(GRPCMethod("", []GAttr{{A: AT(1, "pa", s), Where: GMessage}, {A: AT(2, "ph", s), Where: GMetadata}}, nil), P(KString)), nil)
	// service stream
	add("stream", "client-stream-view2", "client", &Method{StreamPayload: P(KString), Result: rt2}, rdefs2)
	add("stream", "server-stream-view2", "server", &Method{Payload: P(KString), StreamResult: rt2}, rdefs2)
	add("stream", "view2", "unary", withResult(GRPCMethod("", []GAttr{{A: AT(1, "pa", s), Where: GMessage}}, nil), rt2), rdefs2)
	add("stream", "bidi-strings", "bidi", &Method{StreamPayload: P(KString), StreamResult: P(KString)}, nil)
	if thorough {
		// service mixed
		add("mixed", "headers-trailers", "unary", headersTrailers(), nil)
		add("mixed", "view2-metadata-payload", "unary", withResult(GRPCMethod("", []GAttr{{A: AT(1, "pa", s), Where: GMessage}, {A: AT(2, "ph", s), Where: GMetadata}}, nil), rt2), rdefs2)
		add("mixed", "server-stream-objects", "server", &Method{Payload: P(KString), StreamResult: ObjT([]string{"aa"}, AT(1, "aa", s), AT(2, "bb", P(KInt32)))}, nil)
		add("mixed", "empty", "unary", &Method{}, nil)
	}
	return out
}

// GRPCReuseDoc describes the family for the evidence files.
const GRPCReuseDoc = "client reuse: per service ONE generated gRPC client, built once with NewClient(conn, opts...) from a call-option slice (quick: 1 option in a slice of capacity 8; thorough: no options, 1 of capacity 1, 1 of 3, 1 of 8, 2 of 8), serves every sequence of length 1..3 over the letters (method, value variant) of the service (2 variants per method: distinct values, and the views default / alt for multi-view result types) " +
	"and every overlap of two calls (call A is held inside the service method; B runs to completion or is held as well; completion orders A-then-B and B-then-A); services: unary {2-view ResultType, result with header+trailer attributes, 1-view ResultType, payload with metadata}, stream {client streaming returning a 2-view ResultType, server streaming of a 2-view ResultType, unary 2-view ResultType, bidirectional strings}, thorough + mixed {headers+trailers, 2-view ResultType with metadata payload, server streaming of objects, no payload / no result}; " +
	"oracle (differential): every call observes the same (payload at the service, result or streamed results at the caller, error) as the same call made alone on a fresh client"

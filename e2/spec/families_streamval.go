package spec

import "fmt"

// L2StreamValidation is the family of validated STREAMED messages over HTTP (WebSocket):
//
//	side     payload  the StreamingPayload carries the validation: the generated SERVER stream's
//	                  Recv must validate every message (kinds client, bidi)
//	         result   the StreamingResult carries it: the generated CLIENT stream's Recv must
//	                  validate every message (kinds server, bidi)
//	shape    primitive                the message is the validated primitive itself
//	         array / map              of validated elements (map: string keys)
//	         alias                    a named primitive type carrying the validation
//	         user                     a user type with a required validated field
//	keyword  reduced menu of validMenu: quick 5 (enum, inclusive and exclusive bound, length,
//	         pattern), thorough 10 (+ float bounds, two-sided range, minimum length, one format)
//	plus     the collection's own length rule: array MaxLength(2), map MaxLength(1)
//
// complete product side x kind x (shape x keyword + 2), four methods per service, one service per
// design. The direction that is not under test streams plain strings; a client-streaming method
// returns a plain string. Type names carry the method number (Pack merges definitions by name).
func L2StreamValidation(thorough bool) []MethodCase {
	var out []MethodCase
	n := 0
	add := func(side, kind, shape, valid string, t *Type, defs []*TypeDef) {
		m := &Method{Name: fmt.Sprintf("m%d", n), HTTP: &HTTPMap{Verb: "GET"}}
		m.HTTP.Path = "/" + m.Name
		m.Feat = map[string]string{"family": "L2-stream-validation", "side": side, "kind": kind, "shape": shape, "valid": valid, "pos": "stream-" + shape}
		switch {
		case side == "payload" && kind == "client":
			m.StreamPayload, m.Result = t, P(KString)
		case side == "payload":
			m.StreamPayload, m.StreamResult = t, P(KString)
		case kind == "server":
			m.StreamResult = t
		default:
			m.StreamPayload, m.StreamResult = P(KString), t
		}
		out = append(out, MethodCase{M: m, Types: defs})
		n++
	}
	for _, side := range []string{"payload", "result"} {
		kinds := []string{"client", "bidi"}
		if side == "result" {
			kinds = []string{"server", "bidi"}
		}
		for _, kind := range kinds {
			for _, ve := range streamValidMenu(thorough) {
				for _, shape := range []string{"primitive", "array", "map", "alias", "user"} {
					vt := WithV(ve.Base, ve.V)
					switch shape {
					case "primitive":
						add(side, kind, shape, ve.Name, vt, nil)
					case "array":
						add(side, kind, shape, ve.Name, ArrT(vt), nil)
					case "map":
						add(side, kind, shape, ve.Name, MapT(P(KString), vt), nil)
					case "alias":
						td := &TypeDef{Name: fmt.Sprintf("AliasM%d", n), Kind: "alias", Base: vt}
						add(side, kind, shape, ve.Name, User(td.Name), []*TypeDef{td})
					case "user":
						td := &TypeDef{Name: fmt.Sprintf("MsgM%d", n), Kind: "type", Attrs: []*Attr{A("fa", vt), A("fb", P(KString))}, Required: []string{"fa"}}
						add(side, kind, shape, ve.Name, User(td.Name), []*TypeDef{td})
					}
				}
			}
			add(side, kind, "array", "maxlen_array", WithV(ArrT(P(KString)), &Valid{MaxLen: I(2)}), nil)
			add(side, kind, "map", "maxlen_map", WithV(MapT(P(KString), P(KInt)), &Valid{MaxLen: I(1)}), nil)
		}
	}
	return out
}

func streamValidMenu(thorough bool) []validEntry {
	names := []string{"enum_string", "min_int", "exmax_int", "maxlen_string", "pattern_string"}
	if thorough {
		names = append(names, "max_float64", "exmin_float64", "minlen_string", "minmax_int32", "format_ipv4")
	}
	var out []validEntry
	for _, n := range names {
		for _, ve := range validMenu() {
			if ve.Name == n {
				out = append(out, ve)
			}
		}
	}
	return out
}

// StreamValidationDoc describes the family for the evidence files.
const StreamValidationDoc = "HTTP (WebSocket) streams whose messages carry validations: side {StreamingPayload validated by the server stream's Recv: kinds client, bidirectional; StreamingResult validated by the client stream's Recv: kinds server, bidirectional} x " +
	"shape {primitive, array of validated elements, map of validated elements, alias type, user type with a required validated field} x keyword (quick: enum, minimum, exclusive maximum, max length, pattern; thorough: + float maximum, float exclusive minimum, min length, two-sided int32 range, format ipv4) " +
	"+ the collection's own length (array MaxLength, map MaxLength); sequences: every sequence of length 0..3 over {valid message, invalid message}, the invalid message instantiated once per distinct set of violated rules (at most 3), valid positions by the first three valid candidates in turn; " +
	"oracle: the receiver's Recv delivers exactly the messages before the first invalid one, then returns a goa error named after a violated rule; user code stops there"

package spec

// Validations written on HTTP mapping elements (MapRule) are constraints the design places on
// the payload exactly like the ones written on the payload attribute itself: a request satisfies
// the design when the attribute's value satisfies both (conjunction). The reference model folds
// them into the payload type: the occurrence of every attribute named by a rule of the endpoint,
// of its service or of the API gains the rule's validations (Type.Extra).

// HTTPRules lists, per payload attribute, the validations written on the HTTP mapping elements
// that apply to method m of service svc, in the order API, service, endpoint.
func (s *Spec) HTTPRules(svc *Service, m *Method) map[string][]*Valid {
	out := map[string][]*Valid{}
	add := func(rules []MapRule) {
		for _, r := range rules {
			if r.V != nil {
				out[r.Attr] = append(out[r.Attr], r.V)
			}
		}
	}
	add(s.APIRules)
	if svc != nil {
		add(svc.Rules)
	}
	if m.HTTP != nil {
		add(m.HTTP.Rules)
	}
	return out
}

// RequestType returns the payload type of m with the validations of the HTTP mapping elements
// folded in. When no rule applies the payload type itself is returned, so that designs without
// HTTP-level validations are treated exactly as before.
func (s *Spec) RequestType(svc *Service, m *Method) *Type {
	if m.Payload == nil || m.HTTP == nil {
		return m.Payload
	}
	rules := s.HTTPRules(svc, m)
	if len(rules) == 0 {
		return m.Payload
	}
	return s.foldRules(m.Payload, rules)
}

// foldRules returns t (a payload or result type) with rules added to the occurrences of the
// attributes they name.
func (s *Spec) foldRules(t *Type, rules map[string][]*Valid) *Type {
	if len(rules) == 0 {
		return t
	}
	e := s.Eff(t)
	if e.K != KObject {
		// a payload / result that is not an object travels in one element: every rule applies to it
		c := *t
		for _, vs := range rules {
			c.Extra = append(append([]*Valid{}, c.Extra...), vs...)
		}
		return &c
	}
	// the type as an inline object with the same attributes (a user type is opened: the rules
	// belong to this endpoint's request or response, not to the type)
	obj := &Type{K: KObject, Required: e.Required}
	for _, a := range e.Attrs {
		vs := rules[a.Name]
		if len(vs) == 0 || a.T == nil {
			obj.Attrs = append(obj.Attrs, a)
			continue
		}
		ac := *a
		tc := *a.T
		tc.Extra = append(append([]*Valid{}, tc.Extra...), vs...)
		ac.T = &tc
		obj.Attrs = append(obj.Attrs, &ac)
	}
	return obj
}

// ResponseType returns the result type of m with the validations written on the headers and
// cookies of response resp folded in (the client must refuse a response that violates them). When
// the response has no rule the result type itself is returned.
func (s *Spec) ResponseType(m *Method, resp *Resp) *Type {
	if m.Result == nil || resp == nil || len(resp.Rules) == 0 {
		return m.Result
	}
	rules := map[string][]*Valid{}
	for _, r := range resp.Rules {
		if r.V != nil {
			rules[r.Attr] = append(rules[r.Attr], r.V)
		}
	}
	return s.foldRules(m.Result, rules)
}

package spec

import (
	"fmt"
	"strings"
)

// MethodCase is one method-sized design fragment together with the named types it needs.
type MethodCase struct {
	M     *Method
	Types []*TypeDef
}

// TypeMenu is the L1 type alphabet: name -> (type, needed definitions).
type typeEntry struct {
	Name string
	T    *Type
	Defs []*TypeDef
	Locs []string // locations where the type is meaningful
	Def  any      // a default value (nil: no default variant)
}

var allLocs = []string{LocPath, LocQuery, LocHeader, LocCookie, LocBody}
var nonPath = []string{LocQuery, LocHeader, LocCookie, LocBody}

func typeMenu(full bool) []typeEntry {
	m := []typeEntry{
		{Name: "string", T: P(KString), Locs: allLocs, Def: "dflt"},
		{Name: "int", T: P(KInt), Locs: allLocs, Def: 7},
		{Name: "bool", T: P(KBool), Locs: allLocs, Def: true},
		{Name: "float64", T: P(KFloat64), Locs: allLocs, Def: 2.5},
		{Name: "int32", T: P(KInt32), Locs: allLocs, Def: 7},
		{Name: "int64", T: P(KInt64), Locs: allLocs, Def: 7},
		{Name: "uint", T: P(KUInt), Locs: allLocs, Def: 7},
		{Name: "uint32", T: P(KUInt32), Locs: allLocs, Def: 7},
		{Name: "uint64", T: P(KUInt64), Locs: allLocs, Def: 7},
		{Name: "float32", T: P(KFloat32), Locs: allLocs, Def: 2.5},
		{Name: "bytes", T: P(KBytes), Locs: allLocs, Def: "dflt"},
		{Name: "any", T: P(KAny), Locs: []string{LocBody}},
		{Name: "arr_string", T: ArrT(P(KString)), Locs: allLocs, Def: []any{"x", "y"}},
		{Name: "arr_int", T: ArrT(P(KInt)), Locs: allLocs},
		{Name: "arr_bool", T: ArrT(P(KBool)), Locs: []string{LocQuery, LocHeader, LocBody}},
		{Name: "arr_float64", T: ArrT(P(KFloat64)), Locs: []string{LocQuery, LocBody}},
		{Name: "map_string_string", T: MapT(P(KString), P(KString)), Locs: []string{LocBody}},
		{Name: "map_string_int", T: MapT(P(KString), P(KInt)), Locs: []string{LocBody}},
		{Name: "map_int_string", T: MapT(P(KInt), P(KString)), Locs: []string{LocBody}},
		{Name: "map_string_arr_string", T: MapT(P(KString), ArrT(P(KString))), Locs: []string{LocBody}},
		{Name: "alias_string", T: User("AliasS"), Defs: []*TypeDef{{Name: "AliasS", Kind: "alias", Base: P(KString)}}, Locs: allLocs, Def: "dflt"},
		{Name: "alias_int", T: User("AliasI"), Defs: []*TypeDef{{Name: "AliasI", Kind: "alias", Base: P(KInt)}}, Locs: allLocs, Def: 7},
		{Name: "user_object", T: User("Inner"), Defs: []*TypeDef{{Name: "Inner", Kind: "type", Attrs: []*Attr{A("ia", P(KString)), A("ib", P(KInt)), AD("ic", P(KString), "idef")}, Required: []string{"ia"}}}, Locs: []string{LocBody}},
		{Name: "arr_user", T: ArrT(User("Inner")), Defs: []*TypeDef{{Name: "Inner", Kind: "type", Attrs: []*Attr{A("ia", P(KString)), A("ib", P(KInt)), AD("ic", P(KString), "idef")}, Required: []string{"ia"}}}, Locs: []string{LocBody}},
		{Name: "recursive", T: User("Node"), Defs: []*TypeDef{{Name: "Node", Kind: "type", Attrs: []*Attr{A("val", P(KString)), A("next", User("Node")), A("kids", ArrT(User("Node")))}, Required: []string{"val"}}}, Locs: []string{LocBody}},
		{Name: "inline_object", T: ObjT([]string{"oa"}, A("oa", P(KString)), A("ob", P(KBool))), Locs: []string{LocBody}},
	}
	_ = full
	return m
}

// methodFor builds a method whose payload (side=="payload") or result (side=="result")
// carries the given attributes at the given locations.
type attrAt struct {
	A   *Attr
	Loc string
	Req bool
}

func wireName(loc, attr string) string {
	switch loc {
	case LocHeader:
		return "X-" + strings.ToUpper(attr[:1]) + attr[1:]
	case LocQuery:
		return "q" + attr
	case LocCookie:
		return "c" + attr
	}
	return attr
}

// PayloadMethod builds a POST method carrying the attributes in the request.
func PayloadMethod(name string, attrs []attrAt) *Method {
	m := &Method{Name: name, Feat: map[string]string{}}
	obj := &Type{K: KObject}
	h := &HTTPMap{Verb: "POST", Path: "/" + name}
	for _, at := range attrs {
		obj.Attrs = append(obj.Attrs, at.A)
		if at.Req {
			obj.Required = append(obj.Required, at.A.Name)
		}
		switch at.Loc {
		case LocPath:
			h.Path += "/{" + at.A.Name + "}"
		case LocQuery:
			h.Params = append(h.Params, Map{at.A.Name, wireName(at.Loc, at.A.Name)})
		case LocHeader:
			h.Headers = append(h.Headers, Map{at.A.Name, wireName(at.Loc, at.A.Name)})
		case LocCookie:
			h.Cookies = append(h.Cookies, Map{at.A.Name, wireName(at.Loc, at.A.Name)})
		}
	}
	m.Payload = obj
	m.HTTP = h
	return m
}

// ResultMethod builds a GET method returning the attributes in the response.
func ResultMethod(name string, attrs []attrAt, status int) *Method {
	m := &Method{Name: name, Feat: map[string]string{}}
	obj := &Type{K: KObject}
	resp := Resp{Status: status}
	for _, at := range attrs {
		obj.Attrs = append(obj.Attrs, at.A)
		if at.Req {
			obj.Required = append(obj.Required, at.A.Name)
		}
		switch at.Loc {
		case LocHeader:
			resp.Headers = append(resp.Headers, Map{at.A.Name, wireName(at.Loc, at.A.Name)})
		case LocCookie:
			resp.Cookies = append(resp.Cookies, Map{at.A.Name, wireName(at.Loc, at.A.Name)})
		}
	}
	m.Result = obj
	m.HTTP = &HTTPMap{Verb: "GET", Path: "/" + name, Responses: []Resp{resp}}
	return m
}

func cloneType(t *Type) *Type {
	if t == nil {
		return nil
	}
	c := *t
	return &c
}

// L1Single is the complete product type x location x requiredness, one attribute per
// method, for the request side ("payload") or the response side ("result").
func L1Single(side string) []MethodCase {
	var out []MethodCase
	n := 0
	locs := allLocs
	if side == "result" {
		locs = []string{LocHeader, LocCookie, LocBody}
	}
	for _, te := range typeMenu(true) {
		for _, loc := range locs {
			ok := false
			for _, l := range te.Locs {
				if l == loc {
					ok = true
				}
			}
			if !ok {
				continue
			}
			for _, req := range []string{"required", "optional", "default"} {
				if req == "default" && te.Def == nil {
					continue
				}
				if loc == LocPath && req != "required" {
					continue
				}
				a := A("aa", cloneType(te.T))
				if req == "default" {
					a = AD("aa", cloneType(te.T), te.Def)
				}
				name := fmt.Sprintf("m%d", n)
				n++
				var m *Method
				if side == "payload" {
					m = PayloadMethod(name, []attrAt{{a, loc, req == "required"}})
				} else {
					m = ResultMethod(name, []attrAt{{a, loc, req == "required"}}, 200)
				}
				m.Feat = map[string]string{"family": "L1-single-" + side, "type": te.Name, "loc": loc, "req": req}
				out = append(out, MethodCase{M: m, Types: te.Defs})
			}
		}
	}
	return out
}

// L1Pair is the complete product of ordered pairs over a reduced (type, location,
// requiredness) menu: two attributes per method, to expose swaps, duplication and cross-talk.
func L1Pair(side string, thorough bool) []MethodCase {
	type item struct {
		te  typeEntry
		loc string
		req string
	}
	menu := typeMenu(true)
	pick := func(names ...string) []typeEntry {
		var out []typeEntry
		for _, n := range names {
			for _, te := range menu {
				if te.Name == n {
					out = append(out, te)
				}
			}
		}
		return out
	}
	types := pick("string", "int", "arr_string")
	reqs := []string{"required", "optional"}
	if thorough {
		types = pick("string", "int", "arr_string", "bool", "float64", "alias_string")
		reqs = []string{"required", "optional", "default"}
	}
	locs := allLocs
	if side == "result" {
		locs = []string{LocHeader, LocCookie, LocBody}
	}
	var items []item
	for _, te := range types {
		for _, loc := range locs {
			for _, req := range reqs {
				if loc == LocPath && req != "required" {
					continue
				}
				if req == "default" && te.Def == nil {
					continue
				}
				if loc == LocCookie && te.Name == "arr_string" {
					continue
				}
				items = append(items, item{te, loc, req})
			}
		}
	}
	var out []MethodCase
	n := 0
	for _, x := range items {
		for _, y := range items {
			mk := func(name string, it item) attrAt {
				a := A(name, cloneType(it.te.T))
				if it.req == "default" {
					a = AD(name, cloneType(it.te.T), it.te.Def)
				}
				return attrAt{a, it.loc, it.req == "required"}
			}
			name := fmt.Sprintf("m%d", n)
			n++
			attrs := []attrAt{mk("aa", x), mk("bb", y)}
			var m *Method
			if side == "payload" {
				m = PayloadMethod(name, attrs)
			} else {
				m = ResultMethod(name, attrs, 200)
			}
			m.Feat = map[string]string{"family": "L1-pair-" + side,
				"type": x.te.Name + "+" + y.te.Name, "loc": x.loc + "+" + y.loc, "req": x.req + "+" + y.req}
			var defs []*TypeDef
			defs = append(defs, x.te.Defs...)
			for _, d := range y.te.Defs {
				dup := false
				for _, e := range defs {
					if e.Name == d.Name {
						dup = true
					}
				}
				if !dup {
					defs = append(defs, d)
				}
			}
			out = append(out, MethodCase{M: m, Types: defs})
		}
	}
	return out
}

// Single wraps one method case into a one-method design (used to ask goa whether it accepts it).
func Single(mc MethodCase) *Spec {
	return &Spec{Types: mc.Types, Services: []*Service{{Name: "s0", Methods: []*Method{mc.M}}}}
}

// Pack groups method cases into designs of perService methods per service and perDesign
// services per design, merging the named types they need.
func Pack(cases []MethodCase, perService, perDesign int, family string) []*Spec {
	var out []*Spec
	var cur *Spec
	var svc *Service
	for _, mc := range cases {
		if svc == nil || len(svc.Methods) >= perService {
			if cur == nil || len(cur.Services) >= perDesign {
				cur = &Spec{Family: family}
				out = append(out, cur)
			}
			svc = &Service{Name: fmt.Sprintf("s%d", len(cur.Services))}
			cur.Services = append(cur.Services, svc)
		}
		svc.Methods = append(svc.Methods, mc.M)
		for _, d := range mc.Types {
			if cur.TypeDefByName(d.Name) == nil {
				cur.Types = append(cur.Types, d)
			}
		}
	}
	return out
}

// L2ResultStatus covers response status selection: each plain success status, a body-less
// 204, and tag-selected responses with the tag attribute required / optional / defaulted.
func L2ResultStatus() []MethodCase {
	var out []MethodCase
	n := 0
	next := func() string { n++; return fmt.Sprintf("m%d", n-1) }
	for _, st := range []int{200, 201, 202, 203, 206} {
		m := ResultMethod(next(), []attrAt{{A("aa", P(KString)), LocBody, true}, {A("hh", P(KString)), LocHeader, false}}, st)
		m.Feat = map[string]string{"family": "L2-status", "status": fmt.Sprint(st)}
		out = append(out, MethodCase{M: m})
	}
	{
		m := ResultMethod(next(), []attrAt{{A("hh", P(KString)), LocHeader, true}}, 204)
		m.Feat = map[string]string{"family": "L2-status", "status": "204-header-only"}
		out = append(out, MethodCase{M: m})
	}
	for _, req := range []string{"required", "optional", "default"} {
		kind := A("kind", WithV(P(KString), &Valid{Enum: []any{"created", "accepted", "other"}}))
		if req == "default" {
			kind = AD("kind", WithV(P(KString), &Valid{Enum: []any{"created", "accepted", "other"}}), "accepted")
		}
		m := ResultMethod(next(), []attrAt{{kind, LocBody, req == "required"}, {A("val", P(KInt)), LocBody, false}}, 200)
		m.HTTP.Responses = []Resp{
			{Status: 201, Tag: &TagSel{"kind", "created"}},
			{Status: 202, Tag: &TagSel{"kind", "accepted"}},
			{Status: 200},
		}
		m.Feat = map[string]string{"family": "L2-tags", "tag-attr": req}
		out = append(out, MethodCase{M: m})
		// tag attribute carried in a header
		kind2 := A("kind", WithV(P(KString), &Valid{Enum: []any{"created", "accepted", "other"}}))
		m2 := ResultMethod(next(), []attrAt{{kind2, LocHeader, req == "required"}, {A("val", P(KInt)), LocBody, false}}, 200)
		m2.HTTP.Responses = []Resp{
			{Status: 201, Tag: &TagSel{"kind", "created"}, Headers: []Map{{"kind", "X-Kind"}}},
			{Status: 200, Headers: []Map{{"kind", "X-Kind"}}},
		}
		if req != "default" {
			m2.Feat = map[string]string{"family": "L2-tags", "tag-attr": req, "tag-loc": "header"}
			out = append(out, MethodCase{M: m2})
		}
	}
	return out
}

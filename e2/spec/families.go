package spec

import (
	"fmt"
	"strings"
)

// MethodCase is one method-sized design fragment together with the named types it needs.
type MethodCase struct {
	M     *Method
	Types []*TypeDef
	// declarations the method relies on at service / API level (merged by Pack)
	SvcErrors   []ErrorDef
	SvcHTTPErrs []Resp
	APIErrors   []ErrorDef
	APIHTTPErrs []Resp
	Schemes     []Scheme
	SvcSecurity *Security
	APISecurity *Security
	// Own forces the case into a service (and design) of its own
	Own bool
	// Group: consecutive cases with the same non-empty Group share one design, each in a service
	// of its own (so that method names may repeat across the services of a design)
	Group string
	// SameService: consecutive cases with the same non-empty key are methods of ONE service
	SameService string
	// SvcPath/SvcPaths: HTTP base path(s) of the service (only with Own)
	SvcPath  string
	SvcPaths []string
	// service-level and API-level HTTP mapping elements the method relies on (families_httpval.go)
	SvcParams, SvcHeaders, SvcCookies []Map
	SvcRules                          []MapRule
	APIParams, APIHeaders, APICookies []Map
	APIRules                          []MapRule
	// APIPath: HTTP base path of the API (with Own or DesignKey)
	APIPath string
	// SvcKey: consecutive cases with the same non-empty SvcKey share one service, which holds
	// nothing else; DesignKey: the same for designs
	SvcKey, DesignKey string
}

// TypeMenu is the L1 type alphabet: name -> (type, needed definitions).
type typeEntry struct {
	Name string
	T    *Type
	Defs []*TypeDef
	Locs []string // locations where the type is meaningful
	Def  any      // a default value (nil: no default variant)
}

var allLocs = []string{LocPath, LocQuery, LocHeader, LocCookie, LocBody}
var nonPath = []string{LocQuery, LocHeader, LocCookie, LocBody}

func typeMenu(full bool) []typeEntry {
	m := []typeEntry{
		{Name: "string", T: P(KString), Locs: allLocs, Def: "dflt"},
		{Name: "int", T: P(KInt), Locs: allLocs, Def: 7},
		{Name: "bool", T: P(KBool), Locs: allLocs, Def: true},
		{Name: "float64", T: P(KFloat64), Locs: allLocs, Def: 2.5},
		{Name: "int32", T: P(KInt32), Locs: allLocs, Def: 7},
		{Name: "int64", T: P(KInt64), Locs: allLocs, Def: 7},
		{Name: "uint", T: P(KUInt), Locs: allLocs, Def: 7},
		{Name: "uint32", T: P(KUInt32), Locs: allLocs, Def: 7},
		{Name: "uint64", T: P(KUInt64), Locs: allLocs, Def: 7},
		{Name: "float32", T: P(KFloat32), Locs: allLocs, Def: 2.5},
		{Name: "bytes", T: P(KBytes), Locs: allLocs, Def: "dflt"},
		{Name: "any", T: P(KAny), Locs: []string{LocBody}},
		{Name: "arr_string", T: ArrT(P(KString)), Locs: allLocs, Def: []any{"x", "y"}},
		{Name: "arr_int", T: ArrT(P(KInt)), Locs: allLocs, Def: []any{1, 2, 3}},
		{Name: "arr_bool", T: ArrT(P(KBool)), Locs: []string{LocQuery, LocHeader, LocBody}, Def: []any{true, false}},
		{Name: "arr_float64", T: ArrT(P(KFloat64)), Locs: []string{LocQuery, LocBody}, Def: []any{0.5, 0.25}},
		{Name: "map_string_string", T: MapT(P(KString), P(KString)), Locs: []string{LocBody}},
		{Name: "map_string_int", T: MapT(P(KString), P(KInt)), Locs: []string{LocBody}},
		{Name: "map_int_string", T: MapT(P(KInt), P(KString)), Locs: []string{LocBody}},
		{Name: "map_string_arr_string", T: MapT(P(KString), ArrT(P(KString))), Locs: []string{LocBody}},
		{Name: "alias_string", T: User("AliasS"), Defs: []*TypeDef{{Name: "AliasS", Kind: "alias", Base: P(KString)}}, Locs: allLocs, Def: "dflt"},
		{Name: "alias_int", T: User("AliasI"), Defs: []*TypeDef{{Name: "AliasI", Kind: "alias", Base: P(KInt)}}, Locs: allLocs, Def: 7},
		{Name: "user_object", T: User("Inner"), Defs: []*TypeDef{{Name: "Inner", Kind: "type", Attrs: []*Attr{A("ia", P(KString)), A("ib", P(KInt)), AD("ic", P(KString), "idef")}, Required: []string{"ia"}}}, Locs: []string{LocBody}},
		{Name: "arr_user", T: ArrT(User("Inner")), Defs: []*TypeDef{{Name: "Inner", Kind: "type", Attrs: []*Attr{A("ia", P(KString)), A("ib", P(KInt)), AD("ic", P(KString), "idef")}, Required: []string{"ia"}}}, Locs: []string{LocBody}},
		{Name: "recursive", T: User("Node"), Defs: []*TypeDef{{Name: "Node", Kind: "type", Attrs: []*Attr{A("val", P(KString)), A("next", User("Node")), A("kids", ArrT(User("Node")))}, Required: []string{"val"}}}, Locs: []string{LocBody}},
		{Name: "inline_object", T: ObjT([]string{"oa"}, A("oa", P(KString)), A("ob", P(KBool))), Locs: []string{LocBody}},
	}
	_ = full
	return m
}

// methodFor builds a method whose payload (side=="payload") or result (side=="result")
// carries the given attributes at the given locations.
type attrAt struct {
	A   *Attr
	Loc string
	Req bool
}

func wireName(loc, attr string) string {
	switch loc {
	case LocHeader:
		return "X-" + strings.ToUpper(attr[:1]) + attr[1:]
	case LocQuery:
		return "q" + attr
	case LocCookie:
		return "c" + attr
	}
	return attr
}

// PayloadMethod builds a POST method carrying the attributes in the request.
func PayloadMethod(name string, attrs []attrAt) *Method {
	m := &Method{Name: name, Feat: map[string]string{}}
	obj := &Type{K: KObject}
	h := &HTTPMap{Verb: "POST", Path: "/" + name}
	for _, at := range attrs {
		obj.Attrs = append(obj.Attrs, at.A)
		if at.Req {
			obj.Required = append(obj.Required, at.A.Name)
		}
		switch at.Loc {
		case LocPath:
			h.Path += "/{" + at.A.Name + "}"
		case LocQuery:
			h.Params = append(h.Params, Map{at.A.Name, wireName(at.Loc, at.A.Name)})
		case LocHeader:
			h.Headers = append(h.Headers, Map{at.A.Name, wireName(at.Loc, at.A.Name)})
		case LocCookie:
			h.Cookies = append(h.Cookies, Map{at.A.Name, wireName(at.Loc, at.A.Name)})
		}
	}
	m.Payload = obj
	m.HTTP = h
	return m
}

// ResultMethod builds a GET method returning the attributes in the response.
func ResultMethod(name string, attrs []attrAt, status int) *Method {
	m := &Method{Name: name, Feat: map[string]string{}}
	obj := &Type{K: KObject}
	resp := Resp{Status: status}
	for _, at := range attrs {
		obj.Attrs = append(obj.Attrs, at.A)
		if at.Req {
			obj.Required = append(obj.Required, at.A.Name)
		}
		switch at.Loc {
		case LocHeader:
			resp.Headers = append(resp.Headers, Map{at.A.Name, wireName(at.Loc, at.A.Name)})
		case LocCookie:
			resp.Cookies = append(resp.Cookies, Map{at.A.Name, wireName(at.Loc, at.A.Name)})
		}
	}
	m.Result = obj
	m.HTTP = &HTTPMap{Verb: "GET", Path: "/" + name, Responses: []Resp{resp}}
	return m
}

func cloneType(t *Type) *Type {
	if t == nil {
		return nil
	}
	c := *t
	return &c
}

// L1Single is the complete product type x location x requiredness, one attribute per
// method, for the request side ("payload") or the response side ("result").
func L1Single(side string) []MethodCase {
	var out []MethodCase
	n := 0
	locs := allLocs
	if side == "result" {
		locs = []string{LocHeader, LocCookie, LocBody}
	}
	for _, te := range typeMenu(true) {
		for _, loc := range locs {
			ok := false
			for _, l := range te.Locs {
				if l == loc {
					ok = true
				}
			}
			if !ok {
				continue
			}
			for _, req := range []string{"required", "optional", "default"} {
				if req == "default" && te.Def == nil {
					continue
				}
				if loc == LocPath && req != "required" {
					continue
				}
				a := A("aa", cloneType(te.T))
				if req == "default" {
					a = AD("aa", cloneType(te.T), te.Def)
				}
				name := fmt.Sprintf("m%d", n)
				n++
				var m *Method
				if side == "payload" {
					m = PayloadMethod(name, []attrAt{{a, loc, req == "required"}})
				} else {
					m = ResultMethod(name, []attrAt{{a, loc, req == "required"}}, 200)
				}
				m.Feat = map[string]string{"family": "L1-single-" + side, "type": te.Name, "loc": loc, "req": req}
				out = append(out, MethodCase{M: m, Types: te.Defs})
			}
		}
	}
	return out
}

// L1Pair is the complete product of ordered pairs over a reduced (type, location,
// requiredness) menu: two attributes per method, to expose swaps, duplication and cross-talk.
func L1Pair(side string, thorough bool) []MethodCase {
	type item struct {
		te  typeEntry
		loc string
		req string
	}
	menu := typeMenu(true)
	pick := func(names ...string) []typeEntry {
		var out []typeEntry
		for _, n := range names {
			for _, te := range menu {
				if te.Name == n {
					out = append(out, te)
				}
			}
		}
		return out
	}
	types := pick("string", "int", "arr_string")
	reqs := []string{"required", "optional"}
	if thorough {
		types = pick("string", "int", "arr_string", "bool", "float64", "alias_string")
		reqs = []string{"required", "optional", "default"}
	}
	locs := allLocs
	if side == "result" {
		locs = []string{LocHeader, LocCookie, LocBody}
	}
	var items []item
	for _, te := range types {
		for _, loc := range locs {
			for _, req := range reqs {
				if loc == LocPath && req != "required" {
					continue
				}
				if req == "default" && te.Def == nil {
					continue
				}
				if loc == LocCookie && te.Name == "arr_string" {
					continue
				}
				items = append(items, item{te, loc, req})
			}
		}
	}
	var out []MethodCase
	n := 0
	for _, x := range items {
		for _, y := range items {
			mk := func(name string, it item) attrAt {
				a := A(name, cloneType(it.te.T))
				if it.req == "default" {
					a = AD(name, cloneType(it.te.T), it.te.Def)
				}
				return attrAt{a, it.loc, it.req == "required"}
			}
			name := fmt.Sprintf("m%d", n)
			n++
			attrs := []attrAt{mk("aa", x), mk("bb", y)}
			var m *Method
			if side == "payload" {
				m = PayloadMethod(name, attrs)
			} else {
				m = ResultMethod(name, attrs, 200)
			}
			m.Feat = map[string]string{"family": "L1-pair-" + side,
				"type": x.te.Name + "+" + y.te.Name, "loc": x.loc + "+" + y.loc, "req": x.req + "+" + y.req}
			var defs []*TypeDef
			defs = append(defs, x.te.Defs...)
			for _, d := range y.te.Defs {
				dup := false
				for _, e := range defs {
					if e.Name == d.Name {
						dup = true
					}
				}
				if !dup {
					defs = append(defs, d)
				}
			}
			out = append(out, MethodCase{M: m, Types: defs})
		}
	}
	return out
}

// Single wraps one method case into a one-method design (used to ask goa whether it accepts it).
func Single(mc MethodCase) *Spec {
	return Pack([]MethodCase{mc}, 1, 1, "single")[0]
}

// Pack groups method cases into designs of perService methods per service and perDesign
// services per design, merging the named types they need.
func Pack(cases []MethodCase, perService, perDesign int, family string) []*Spec {
	var out []*Spec
	var cur *Spec
	var svc *Service
	prevOwn := false
	prevGroup := ""
	prevSame := ""
	prevSvcKey, prevDesignKey := "", ""
	for _, mc := range cases {
		sameGroup := mc.Group != "" && mc.Group == prevGroup
		newGroup := mc.Group != prevGroup
		prevGroup = mc.Group
		together := mc.SameService != "" && mc.SameService == prevSame
		newSame := mc.SameService != prevSame
		prevSame = mc.SameService
		sameSvcKey := mc.SvcKey != "" && mc.SvcKey == prevSvcKey
		sameDesignKey := mc.DesignKey != "" && mc.DesignKey == prevDesignKey
		newKey := mc.SvcKey != prevSvcKey || mc.DesignKey != prevDesignKey
		newDesignKey := mc.DesignKey != prevDesignKey
		prevSvcKey, prevDesignKey = mc.SvcKey, mc.DesignKey
		if !together && !sameSvcKey && (svc == nil || len(svc.Methods) >= perService || mc.Own || prevOwn || mc.Group != "" || newGroup || newSame || newKey) {
			if !sameGroup && !sameDesignKey && (cur == nil || len(cur.Services) >= perDesign || mc.Own || prevOwn || newGroup || newDesignKey) {
				cur = &Spec{Family: family}
				out = append(out, cur)
			}
			svc = &Service{Name: fmt.Sprintf("s%d", len(cur.Services))}
			cur.Services = append(cur.Services, svc)
		}
		prevOwn = mc.Own
		svc.Methods = append(svc.Methods, mc.M)
		for _, e := range mc.SvcErrors {
			if !hasErr(svc.Errors, e.Name) {
				svc.Errors = append(svc.Errors, e)
			}
		}
		for _, r := range mc.SvcHTTPErrs {
			if !hasResp(svc.HTTPErrs, r.Error) {
				svc.HTTPErrs = append(svc.HTTPErrs, r)
			}
		}
		for _, e := range mc.APIErrors {
			if !hasErr(cur.Errors, e.Name) {
				cur.Errors = append(cur.Errors, e)
			}
		}
		for _, r := range mc.APIHTTPErrs {
			if !hasResp(cur.HTTPErrs, r.Error) {
				cur.HTTPErrs = append(cur.HTTPErrs, r)
			}
		}
		for _, sc := range mc.Schemes {
			dup := false
			for _, x := range cur.Schemes {
				if x.Name == sc.Name {
					dup = true
				}
			}
			if !dup {
				cur.Schemes = append(cur.Schemes, sc)
			}
		}
		if mc.SvcPath != "" {
			svc.Path = mc.SvcPath
		}
		if len(mc.SvcPaths) > 0 {
			svc.Paths = mc.SvcPaths
		}
		if len(mc.SvcParams)+len(mc.SvcHeaders)+len(mc.SvcCookies)+len(mc.SvcRules) > 0 {
			svc.Params, svc.Headers, svc.Cookies, svc.Rules = mc.SvcParams, mc.SvcHeaders, mc.SvcCookies, mc.SvcRules
		}
		if len(mc.APIParams)+len(mc.APIHeaders)+len(mc.APICookies)+len(mc.APIRules) > 0 {
			cur.APIParams, cur.APIHeaders, cur.APICookies, cur.APIRules = mc.APIParams, mc.APIHeaders, mc.APICookies, mc.APIRules
		}
		if mc.APIPath != "" {
			cur.APIPath = mc.APIPath
		}
		if mc.SvcSecurity != nil {
			svc.Security = mc.SvcSecurity
		}
		if mc.APISecurity != nil {
			cur.Security = mc.APISecurity
		}
		for _, d := range mc.Types {
			if cur.TypeDefByName(d.Name) == nil {
				cur.Types = append(cur.Types, d)
			}
		}
	}
	return out
}

// L2ResultStatus covers response status selection: each plain success status, a body-less
// 204, and tag-selected responses with the tag attribute required / optional / defaulted.
func L2ResultStatus() []MethodCase {
	var out []MethodCase
	n := 0
	next := func() string { n++; return fmt.Sprintf("m%d", n-1) }
	for _, st := range []int{200, 201, 202, 203, 206} {
		m := ResultMethod(next(), []attrAt{{A("aa", P(KString)), LocBody, true}, {A("hh", P(KString)), LocHeader, false}}, st)
		m.Feat = map[string]string{"family": "L2-status", "status": fmt.Sprint(st)}
		out = append(out, MethodCase{M: m})
	}
	{
		m := ResultMethod(next(), []attrAt{{A("hh", P(KString)), LocHeader, true}}, 204)
		m.Feat = map[string]string{"family": "L2-status", "status": "204-header-only"}
		out = append(out, MethodCase{M: m})
	}
	for _, req := range []string{"required", "optional", "default"} {
		kind := A("kind", WithV(P(KString), &Valid{Enum: []any{"created", "accepted", "other"}}))
		if req == "default" {
			kind = AD("kind", WithV(P(KString), &Valid{Enum: []any{"created", "accepted", "other"}}), "accepted")
		}
		m := ResultMethod(next(), []attrAt{{kind, LocBody, req == "required"}, {A("val", P(KInt)), LocBody, false}}, 200)
		m.HTTP.Responses = []Resp{
			{Status: 201, Tag: &TagSel{"kind", "created"}},
			{Status: 202, Tag: &TagSel{"kind", "accepted"}},
			{Status: 200},
		}
		m.Feat = map[string]string{"family": "L2-tags", "tag-attr": req}
		out = append(out, MethodCase{M: m})
		// tag attribute carried in a header
		kind2 := A("kind", WithV(P(KString), &Valid{Enum: []any{"created", "accepted", "other"}}))
		m2 := ResultMethod(next(), []attrAt{{kind2, LocHeader, req == "required"}, {A("val", P(KInt)), LocBody, false}}, 200)
		m2.HTTP.Responses = []Resp{
			{Status: 201, Tag: &TagSel{"kind", "created"}, Headers: []Map{{"kind", "X-Kind"}}},
			{Status: 200, Headers: []Map{{"kind", "X-Kind"}}},
		}
		if req != "default" {
			m2.Feat = map[string]string{"family": "L2-tags", "tag-attr": req, "tag-loc": "header"}
			out = append(out, MethodCase{M: m2})
		}
	}
	// required collection attributes of every kind in one result body (the service may leave any of
	// them nil: by normalisation 1 that is the empty collection, and the response must still be
	// what the document describes)
	{
		el := &TypeDef{Name: "RcElem", Kind: "result", Attrs: []*Attr{A("ea", P(KString)), A("eb", P(KInt))}, Required: []string{"ea"},
			Views: []View{{Name: "default", Attrs: []string{"ea", "eb"}}}}
		coll := &TypeDef{Name: "RcElemCollection", Kind: "collection", Collection: "RcElem"}
		named := &TypeDef{Name: "RcItem", Kind: "type", Attrs: []*Attr{A("ia", P(KString))}, Required: []string{"ia"}}
		m := ResultMethod(next(), []attrAt{
			{A("id", P(KString)), LocBody, true},
			{A("lines", User("RcElemCollection")), LocBody, true},
			{A("tags", ArrT(P(KString))), LocBody, true},
			{A("items", ArrT(User("RcItem"))), LocBody, true},
			{A("weights", MapT(P(KString), P(KInt))), LocBody, true},
			{A("extras", User("RcElemCollection")), LocBody, false},
		}, 200)
		m.Feat = map[string]string{"family": "L2-status", "status": "200-required-collections"}
		out = append(out, MethodCase{M: m, Types: []*TypeDef{el, coll, named}})
	}
	// two success responses selected by a tag, every ordered pair of response SHAPES (what one
	// response does with the body must not leak into the next)
	shapes := []struct {
		name string
		r    Resp
	}{
		{"attr-body", Resp{Body: "attr:summary", Headers: []Map{{"kind", "X-Kind"}, {"etag", "ETag"}}}},
		{"default-body", Resp{}},
		{"header+default-body", Resp{Headers: []Map{{"etag", "ETag"}}}},
		{"empty-body", Resp{Body: "empty", Headers: []Map{{"kind", "X-Kind"}, {"etag", "ETag"}}}},
	}
	for _, first := range shapes {
		for _, second := range shapes {
			kind := A("kind", WithV(P(KString), &Valid{Enum: []any{"created", "other"}}))
			m := ResultMethod(next(), []attrAt{{kind, LocBody, true}, {A("summary", P(KString)), LocBody, false}, {A("val", P(KInt)), LocBody, false}, {A("etag", P(KString)), LocBody, false}}, 200)
			r1, r2 := first.r, second.r
			r1.Status, r1.Tag = 201, &TagSel{"kind", "created"}
			r2.Status = 200
			m.HTTP.Responses = []Resp{r1, r2}
			m.Feat = map[string]string{"family": "L2-tags", "tag-attr": "required", "shapes": first.name + ">" + second.name}
			out = append(out, MethodCase{M: m})
		}
	}
	return out
}

type validEntry struct {
	Name string
	Base *Type // type carrying the validation
	V    *Valid
}

func validMenu() []validEntry {
	out := []validEntry{
		{"enum_string", P(KString), &Valid{Enum: []any{"x", "yy"}}},
		{"enum_int", P(KInt), &Valid{Enum: []any{1, 5}}},
		{"min_int", P(KInt), &Valid{Min: F(3)}},
		{"max_int", P(KInt), &Valid{Max: F(10)}},
		{"exmin_int", P(KInt), &Valid{ExMin: F(3)}},
		{"exmax_int", P(KInt), &Valid{ExMax: F(10)}},
		{"minmax_int32", P(KInt32), &Valid{Min: F(-2), Max: F(2)}},
		{"min_uint", P(KUInt), &Valid{Min: F(2)}},
		{"min_float64", P(KFloat64), &Valid{Min: F(0.5)}},
		{"max_float64", P(KFloat64), &Valid{Max: F(2.5)}},
		{"exmin_float64", P(KFloat64), &Valid{ExMin: F(0.5)}},
		{"exmax_float32", P(KFloat32), &Valid{ExMax: F(2.5)}},
		{"minlen_string", P(KString), &Valid{MinLen: I(2)}},
		{"maxlen_string", P(KString), &Valid{MaxLen: I(3)}},
		{"minmaxlen_string", P(KString), &Valid{MinLen: I(1), MaxLen: I(2)}},
		{"minlen_bytes", P(KBytes), &Valid{MinLen: I(2)}},
		{"pattern_string", P(KString), &Valid{Pattern: "^[a-c]+$"}},
		{"pattern2_string", P(KString), &Valid{Pattern: "[0-9]{2}"}},
		// patterns with characters that matter to whoever prints them into generated code
		{"pattern_pct_string", P(KString), &Valid{Pattern: "^[0-9]{1,3}%$"}},
		{"pattern_pct2_string", P(KString), &Valid{Pattern: "^a%%b%d$"}},
		{"pattern_bs_string", P(KString), &Valid{Pattern: `^\d+\.\d+$`}},
		{"pattern_bt_string", P(KString), &Valid{Pattern: "^`b`$"}},
		// half-open and open ranges: a lower and an upper bound of different kinds together
		{"min_exmax_float64", P(KFloat64), &Valid{Min: F(0), ExMax: F(10)}},
		{"exmin_max_int", P(KInt), &Valid{ExMin: F(0), Max: F(5)}},
		{"exmin_exmax_int", P(KInt), &Valid{ExMin: F(0), ExMax: F(3)}},
		// degenerate ranges: lower bound == upper bound (exactly one length / one value)
		{"eqlen_string", P(KString), &Valid{MinLen: I(2), MaxLen: I(2)}},
		{"eq_int", P(KInt), &Valid{Min: F(3), Max: F(3)}},
		{"eq_float64", P(KFloat64), &Valid{Min: F(2.5), Max: F(2.5)}},
	}
	for _, f := range Formats() {
		out = append(out, validEntry{"format_" + f, P(KString), &Valid{Format: f}})
	}
	return out
}

// L1Validation is the validation family: every validation keyword x nesting position x
// location x requiredness, one validated attribute per method.
func L1Validation(side string, thorough bool) []MethodCase {
	var out []MethodCase
	n := 0
	add := func(a *Attr, loc string, req bool, defs []*TypeDef, feat map[string]string) {
		name := fmt.Sprintf("m%d", n)
		n++
		var m *Method
		if side == "payload" {
			m = PayloadMethod(name, []attrAt{{a, loc, req}})
		} else {
			m = ResultMethod(name, []attrAt{{a, loc, req}}, 200)
		}
		feat["family"] = "L1-validation-" + side
		feat["loc"] = loc
		if req {
			feat["req"] = "required"
		} else {
			feat["req"] = "optional"
		}
		m.Feat = feat
		out = append(out, MethodCase{M: m, Types: defs})
	}
	locs := allLocs
	if side == "result" {
		locs = []string{LocHeader, LocBody}
	}
	for _, ve := range validMenu() {
		isFormat := strings.HasPrefix(ve.Name, "format_")
		for _, loc := range locs {
			if isFormat && !thorough && loc != LocQuery && loc != LocBody {
				continue
			}
			if loc == LocCookie && side == "payload" && ve.Base.K != KString {
				// non-string request cookies are covered by L1-single; keep the family small
				continue
			}
			for _, req := range []bool{true, false} {
				if loc == LocPath && !req {
					continue
				}
				// position: the attribute itself
				add(A("aa", WithV(ve.Base, ve.V)), loc, req, nil, map[string]string{"valid": ve.Name, "pos": "attribute"})
			}
		}
		if isFormat && !thorough && ve.Name != "format_date" && ve.Name != "format_ipv4" {
			continue
		}
		// position: array element (query and body)
		for _, loc := range []string{LocQuery, LocBody} {
			if side == "result" && loc == LocQuery {
				continue
			}
			if ve.Base.K == KBytes {
				continue
			}
			add(A("aa", ArrT(WithV(ve.Base, ve.V))), loc, true, nil, map[string]string{"valid": ve.Name, "pos": "array-element"})
		}
		// position: map element and map key (body)
		add(A("aa", MapT(P(KString), WithV(ve.Base, ve.V))), LocBody, true, nil, map[string]string{"valid": ve.Name, "pos": "map-element"})
		if ve.Base.K == KString || ve.Base.K == KInt {
			add(A("aa", MapT(WithV(ve.Base, ve.V), P(KString))), LocBody, false, nil, map[string]string{"valid": ve.Name, "pos": "map-key"})
		}
		// position: field of a nested user type (body)
		inner := &TypeDef{Name: "InnerV", Kind: "type", Attrs: []*Attr{A("fa", WithV(ve.Base, ve.V)), A("fb", P(KString))}, Required: []string{"fa"}}
		add(A("aa", User("InnerV")), LocBody, true, []*TypeDef{inner}, map[string]string{"valid": ve.Name, "pos": "nested-field"})
		// position: alias type carrying the validation
		alias := &TypeDef{Name: "AliasV", Kind: "alias", Base: WithV(ve.Base, ve.V)}
		for _, loc := range []string{LocQuery, LocBody} {
			if side == "result" && loc == LocQuery {
				loc = LocHeader
			}
			add(A("aa", User("AliasV")), loc, true, []*TypeDef{alias}, map[string]string{"valid": ve.Name, "pos": "alias"})
		}
	}
	// collection lengths
	for _, loc := range []string{LocQuery, LocBody} {
		if side == "result" && loc == LocQuery {
			continue
		}
		add(A("aa", WithV(ArrT(P(KString)), &Valid{MinLen: I(1)})), loc, true, nil, map[string]string{"valid": "minlen_array", "pos": "attribute"})
		add(A("aa", WithV(ArrT(P(KInt)), &Valid{MaxLen: I(2)})), loc, false, nil, map[string]string{"valid": "maxlen_array", "pos": "attribute"})
	}
	for _, loc := range []string{LocQuery, LocBody} {
		if side == "result" && loc == LocQuery {
			continue
		}
		add(A("aa", WithV(ArrT(P(KString)), &Valid{MinLen: I(2), MaxLen: I(2)})), loc, true, nil, map[string]string{"valid": "eqlen_array", "pos": "attribute"})
	}
	add(A("aa", WithV(MapT(P(KString), P(KInt)), &Valid{MinLen: I(1), MaxLen: I(1)})), LocBody, false, nil, map[string]string{"valid": "eqlen_map", "pos": "attribute"})
	add(A("aa", WithV(MapT(P(KString), P(KInt)), &Valid{MinLen: I(1)})), LocBody, true, nil, map[string]string{"valid": "minlen_map", "pos": "attribute"})
	add(A("aa", WithV(MapT(P(KString), P(KInt)), &Valid{MaxLen: I(1)})), LocBody, false, nil, map[string]string{"valid": "maxlen_map", "pos": "attribute"})
	// conflicting levels: alias bound and attribute bound both apply (conjunction)
	aliasMin := &TypeDef{Name: "AliasMin", Kind: "alias", Base: WithV(P(KInt), &Valid{Min: F(3)})}
	for _, loc := range []string{LocQuery, LocBody} {
		if side == "result" && loc == LocQuery {
			loc = LocHeader
		}
		add(A("aa", WithV(User("AliasMin"), &Valid{Max: F(5)})), loc, true, []*TypeDef{aliasMin}, map[string]string{"valid": "alias_min+attr_max", "pos": "alias+attribute"})
		add(A("aa", WithV(User("AliasMin"), &Valid{Min: F(1)})), loc, true, []*TypeDef{aliasMin}, map[string]string{"valid": "alias_min3+attr_min1", "pos": "alias+attribute"})
	}
	// inheritance: a type that Extends a base with required attributes and validations and
	// restates / adds required names in every order (the merged required list must be the union)
	baseV := &TypeDef{Name: "BaseV", Kind: "type", Attrs: []*Attr{A("id", P(KString)), A("email", WithV(P(KString), &Valid{MinLen: I(3)})), A("age", WithV(P(KInt), &Valid{Min: F(1)}))}, Required: []string{"id", "email"}}
	for i, reqs := range [][]string{{"name"}, {"id", "name"}, {"email", "name"}, {"name", "id"}, {"name", "email", "id"}, {"age"}, nil} {
		child := &TypeDef{Name: fmt.Sprintf("ChildV%d", i), Kind: "type", Extend: "BaseV", Attrs: []*Attr{A("name", P(KString))}, Required: reqs}
		add(A("aa", User(child.Name)), LocBody, true, []*TypeDef{baseV, child}, map[string]string{"valid": "extend-required-" + strings.Join(reqs, "+"), "pos": "extended-type"})
	}
	// Reference: attributes declared by name inherit their definition and the referenced type's
	// required names; the referring type adds a Required list of its own, or none
	refBase := &TypeDef{Name: "RefBaseV", Kind: "type", Attrs: []*Attr{A("id", P(KString)), A("email", WithV(P(KString), &Valid{MinLen: I(3)})), A("age", WithV(P(KInt), &Valid{Min: F(1)}))}, Required: []string{"id", "email"}}
	for i, reqs := range [][]string{nil, {"name"}, {"id", "name"}, {"name", "email"}, {"age"}} {
		child := &TypeDef{Name: fmt.Sprintf("RefChildV%d", i), Kind: "type", Reference: "RefBaseV",
			Attrs: []*Attr{{Name: "id", Inherit: true}, {Name: "email", Inherit: true}, {Name: "age", Inherit: true}, A("name", P(KString))}, Required: reqs}
		add(A("aa", User(child.Name)), LocBody, true, []*TypeDef{refBase, child}, map[string]string{"valid": "reference-required-" + strings.Join(reqs, "+"), "pos": "referring-type"})
	}
	// required checks on nilable and non-nilable types
	for _, te := range typeMenu(true) {
		if len(te.Defs) > 0 || te.Name == "any" {
			continue
		}
		for _, loc := range te.Locs {
			if loc == LocPath || (side == "result" && (loc == LocQuery || loc == LocPath)) {
				continue
			}
			if loc == LocCookie && te.T.K != KString {
				continue
			}
			add(A("aa", cloneType(te.T)), loc, true, nil, map[string]string{"valid": "required", "pos": "attribute", "type": te.Name})
		}
	}
	return out
}

func hasErr(l []ErrorDef, n string) bool {
	for _, e := range l {
		if e.Name == n {
			return true
		}
	}
	return false
}

func hasResp(l []Resp, n string) bool {
	for _, e := range l {
		if e.Error == n {
			return true
		}
	}
	return false
}

// L2Errors is the error family: level {method, service, API} x type {default ErrorResult,
// object type with an error-name attribute, primitive, type shared by two errors} x status
// assignment {distinct, shared} x response shape {body, headers+body} x DSL flags.
func L2Errors() []MethodCase {
	var out []MethodCase
	n := 0
	mk := func(feat map[string]string) *Method {
		m := &Method{Name: fmt.Sprintf("m%d", n), Feat: feat, HTTP: &HTTPMap{Verb: "POST"}}
		m.HTTP.Path = "/" + m.Name
		m.Payload = ObjT(nil, A("sel", P(KString)))
		m.Result = ObjT(nil, A("ok", P(KString)))
		feat["family"] = "L2-errors"
		n++
		return m
	}
	errT := func() *TypeDef {
		return &TypeDef{Name: "ErrT", Kind: "type", ErrorName: "name",
			Attrs: []*Attr{A("name", P(KString)), A("msg", P(KString)), A("code", P(KInt))}, Required: []string{"name"}}
	}
	// default ErrorResult, distinct statuses
	{
		m := mk(map[string]string{"level": "method", "type": "default", "status": "distinct"})
		m.Errors = []ErrorDef{{Name: "e_a"}, {Name: "e_b"}}
		m.HTTP.Responses = []Resp{{Error: "e_a", Status: 400}, {Error: "e_b", Status: 409}}
		out = append(out, MethodCase{M: m})
	}
	// default ErrorResult, two errors on one status
	{
		m := mk(map[string]string{"level": "method", "type": "default", "status": "shared"})
		m.Errors = []ErrorDef{{Name: "e_a"}, {Name: "e_b"}, {Name: "e_c"}}
		m.HTTP.Responses = []Resp{{Error: "e_a", Status: 400}, {Error: "e_b", Status: 400}, {Error: "e_c", Status: 404}}
		out = append(out, MethodCase{M: m})
	}
	// DSL flags
	{
		m := mk(map[string]string{"level": "method", "type": "default", "status": "distinct", "flags": "dsl"})
		m.Errors = []ErrorDef{{Name: "e_tmp", Temporary: true}, {Name: "e_to", Timeout: true}, {Name: "e_f", Fault: true}}
		m.HTTP.Responses = []Resp{{Error: "e_tmp", Status: 503}, {Error: "e_to", Status: 504}, {Error: "e_f", Status: 500}}
		out = append(out, MethodCase{M: m})
	}
	// object type with error name, shared by two errors, distinct and shared statuses
	for _, st := range []string{"distinct", "shared"} {
		m := mk(map[string]string{"level": "method", "type": "object-shared", "status": st})
		m.Errors = []ErrorDef{{Name: "e_a", Type: User("ErrT")}, {Name: "e_b", Type: User("ErrT")}}
		sb := 423
		if st == "shared" {
			sb = 422
		}
		m.HTTP.Responses = []Resp{{Error: "e_a", Status: 422}, {Error: "e_b", Status: sb}}
		out = append(out, MethodCase{M: m, Types: []*TypeDef{errT()}})
	}
	// object type with a header-mapped attribute
	{
		m := mk(map[string]string{"level": "method", "type": "object", "status": "distinct", "shape": "headers+body"})
		m.Errors = []ErrorDef{{Name: "e_a", Type: User("ErrT")}}
		m.HTTP.Responses = []Resp{{Error: "e_a", Status: 422, Headers: []Map{{"code", "X-Code"}}}}
		out = append(out, MethodCase{M: m, Types: []*TypeDef{errT()}})
	}
	// same status, same type, DIFFERENT response mappings: the second error carries an
	// attribute in a header, so client dispatch on the error name is needed to decode it
	{
		m := mk(map[string]string{"level": "method", "type": "object-shared", "status": "shared", "shape": "mixed-mappings"})
		m.Errors = []ErrorDef{{Name: "e_a", Type: User("ErrT")}, {Name: "e_b", Type: User("ErrT")}, {Name: "e_c", Type: User("ErrT")}}
		m.HTTP.Responses = []Resp{{Error: "e_a", Status: 422}, {Error: "e_b", Status: 422, Headers: []Map{{"code", "X-Code"}}}, {Error: "e_c", Status: 422, Headers: []Map{{"msg", "X-Msg"}}}}
		out = append(out, MethodCase{M: m, Types: []*TypeDef{errT()}})
	}
	{
		m := mk(map[string]string{"level": "method", "type": "default", "status": "shared", "shape": "mixed-mappings"})
		m.Errors = []ErrorDef{{Name: "e_a"}, {Name: "e_b"}, {Name: "e_c", Temporary: true}}
		m.HTTP.Responses = []Resp{{Error: "e_a", Status: 409}, {Error: "e_b", Status: 409, Headers: []Map{{"message", "X-Message"}}}, {Error: "e_c", Status: 409}}
		out = append(out, MethodCase{M: m})
	}
	// primitive error type
	{
		m := mk(map[string]string{"level": "method", "type": "primitive", "status": "distinct"})
		m.Errors = []ErrorDef{{Name: "e_s", Type: P(KString)}, {Name: "e_a"}}
		m.HTTP.Responses = []Resp{{Error: "e_s", Status: 418}, {Error: "e_a", Status: 400}}
		out = append(out, MethodCase{M: m})
	}
	// service-level error and response
	{
		m := mk(map[string]string{"level": "service", "type": "default", "status": "distinct"})
		m.Errors = []ErrorDef{{Name: "e_a"}}
		m.HTTP.Responses = []Resp{{Error: "e_a", Status: 400}}
		out = append(out, MethodCase{M: m, SvcErrors: []ErrorDef{{Name: "e_svc"}}, SvcHTTPErrs: []Resp{{Error: "e_svc", Status: 412}}})
	}
	// the same error declared on the service AND re-declared on the method, HTTP response given
	// at service level only (error inheritance must not add it twice)
	{
		m := mk(map[string]string{"level": "service+method", "type": "default", "status": "distinct"})
		m.Errors = []ErrorDef{{Name: "e_svc"}, {Name: "e_a"}}
		m.HTTP.Responses = []Resp{{Error: "e_a", Status: 400}}
		out = append(out, MethodCase{M: m, SvcErrors: []ErrorDef{{Name: "e_svc"}}, SvcHTTPErrs: []Resp{{Error: "e_svc", Status: 412}}, Own: true})
	}
	// declared at API level, referenced by service and by method, response at API level only
	{
		m := mk(map[string]string{"level": "api+service+method", "type": "default", "status": "distinct"})
		m.Errors = []ErrorDef{{Name: "e_api"}}
		out = append(out, MethodCase{M: m, SvcErrors: []ErrorDef{{Name: "e_api"}}, APIErrors: []ErrorDef{{Name: "e_api"}}, APIHTTPErrs: []Resp{{Error: "e_api", Status: 429}}, Own: true})
	}
	// two errors defined at API level with API-level responses; the service gives one of them a
	// response of its own: the method refers to both, in both orders (each error must resolve
	// its response independently of the one resolved before it)
	for _, order := range []string{"svc-mapped-first", "api-mapped-first"} {
		m := mk(map[string]string{"level": "api+service-response", "type": "default", "status": "distinct", "order": order})
		m.Errors = []ErrorDef{{Name: "e_x"}, {Name: "e_api"}}
		if order == "api-mapped-first" {
			m.Errors = []ErrorDef{{Name: "e_api"}, {Name: "e_x"}}
		}
		out = append(out, MethodCase{M: m, Own: true,
			APIErrors:   []ErrorDef{{Name: "e_x"}, {Name: "e_api"}},
			APIHTTPErrs: []Resp{{Error: "e_x", Status: 409}, {Error: "e_api", Status: 429}},
			SvcHTTPErrs: []Resp{{Error: "e_x", Status: 412}}})
	}
	// API-level error and response
	{
		m := mk(map[string]string{"level": "api", "type": "default", "status": "distinct"})
		m.Errors = []ErrorDef{{Name: "e_api"}} // refers to the API-level definition; HTTP mapping inherited
		out = append(out, MethodCase{M: m, APIErrors: []ErrorDef{{Name: "e_api"}}, APIHTTPErrs: []Resp{{Error: "e_api", Status: 429}}})
	}
	// no declared error at all
	{
		m := mk(map[string]string{"level": "none", "type": "none", "status": "none"})
		out = append(out, MethodCase{M: m})
	}
	// (new cases go below this line: families_c20b.go picks cases of this list by index)
	// error responses declared ABOVE the method (they are copied into every endpoint that
	// inherits them) whose attribute travels in a header with a name of its own
	{
		m := mk(map[string]string{"level": "service", "type": "object", "status": "distinct", "shape": "headers+body"})
		m.Errors = []ErrorDef{{Name: "e_a"}}
		m.HTTP.Responses = []Resp{{Error: "e_a", Status: 400}}
		out = append(out, MethodCase{M: m, Types: []*TypeDef{errT()},
			SvcErrors:   []ErrorDef{{Name: "e_svc", Type: User("ErrT")}},
			SvcHTTPErrs: []Resp{{Error: "e_svc", Status: 412, Headers: []Map{{"code", "X-Code"}}}}})
	}
	{
		m := mk(map[string]string{"level": "api", "type": "object", "status": "distinct", "shape": "headers+body"})
		m.Errors = []ErrorDef{{Name: "e_api"}}
		out = append(out, MethodCase{M: m, Types: []*TypeDef{errT()},
			APIErrors:   []ErrorDef{{Name: "e_api", Type: User("ErrT")}},
			APIHTTPErrs: []Resp{{Error: "e_api", Status: 429, Headers: []Map{{"code", "X-Code"}}}}})
	}
	return out
}

// Security family ----------------------------------------------------------------------

// SecSchemes are the scheme definitions used by the security family.
func SecSchemes() []Scheme {
	return []Scheme{
		{Name: "bsc", Kind: "basic"},
		{Name: "aks", Kind: "apikey"},
		{Name: "akq", Kind: "apikey"},
		{Name: "jwt", Kind: "jwt", Scopes: []string{"s1", "s2"}},
		{Name: "oa2", Kind: "oauth2", Scopes: []string{"s1", "s2"}},
	}
}

func secConjunctions(full bool) []Requirement {
	one := []Requirement{
		{{Scheme: "bsc"}},
		{{Scheme: "aks"}},
		{{Scheme: "akq"}},
		{{Scheme: "jwt", Scopes: []string{"s1"}}},
		{{Scheme: "oa2", Scopes: []string{"s2"}}},
	}
	if !full {
		// (the last one: two schemes of the SAME kind in one requirement)
		return append(one[:0:0], one[0], one[1], one[3], Requirement{{Scheme: "jwt", Scopes: []string{"s1", "s2"}}, {Scheme: "aks"}}, one[4], Requirement{{Scheme: "aks"}, {Scheme: "akq"}})
	}
	out := append([]Requirement{}, one...)
	names := []string{"bsc", "aks", "akq", "jwt", "oa2"}
	for i := 0; i < len(names); i++ {
		for j := i + 1; j < len(names); j++ {
			out = append(out, Requirement{one[i][0], one[j][0]})
		}
	}
	return out
}

// secMethod builds a method carrying the credential attributes of every scheme in use.
func secMethod(name string, used map[string]bool, implicitJWT bool) *Method {
	m := &Method{Name: name, Feat: map[string]string{"family": "L2-security"}, HTTP: &HTTPMap{Verb: "POST", Path: "/" + name}}
	obj := &Type{K: KObject}
	add := func(a *Attr) { obj.Attrs = append(obj.Attrs, a); obj.Required = append(obj.Required, a.Name) }
	if used["bsc"] {
		add(&Attr{Name: "usr", T: P(KString), Sec: "username"})
		add(&Attr{Name: "pwd", T: P(KString), Sec: "password"})
	}
	if used["aks"] {
		add(&Attr{Name: "keyh", T: P(KString), Sec: "apikey:aks"})
		m.HTTP.Headers = append(m.HTTP.Headers, Map{"keyh", "X-Key"})
	}
	if used["akq"] {
		add(&Attr{Name: "keyq", T: P(KString), Sec: "apikey:akq"})
		m.HTTP.Params = append(m.HTTP.Params, Map{"keyq", "k"})
	}
	if used["jwt"] {
		add(&Attr{Name: "tok", T: P(KString), Sec: "token"})
		if !implicitJWT {
			// basic auth owns the Authorization header: goa rejects a token mapped to it as well
			h := "Authorization"
			if used["bsc"] {
				h = "X-Jwt"
			}
			m.HTTP.Headers = append(m.HTTP.Headers, Map{"tok", h})
		}
	}
	if used["oa2"] {
		add(&Attr{Name: "atok", T: P(KString), Sec: "accesstoken"})
		m.HTTP.Headers = append(m.HTTP.Headers, Map{"atok", "X-Oauth"})
	}
	add(A("data", P(KString)))
	m.Payload = obj
	m.Result = ObjT(nil, A("ok", P(KString)))
	return m
}

func usedSchemes(secs ...*Security) map[string]bool {
	u := map[string]bool{}
	for _, s := range secs {
		if s == nil {
			continue
		}
		for _, r := range s.Reqs {
			for _, x := range r {
				u[x.Scheme] = true
			}
		}
	}
	return u
}

// L2Security enumerates requirement structures (1-3 alternatives of 1-2 schemes each) declared
// at method, service or API level, with method overrides and NoSecurity, explicit and implicit
// credential mapping.
func L2Security(thorough bool) []MethodCase {
	var out []MethodCase
	n := 0
	conj := secConjunctions(thorough)
	var structures []*Security
	for _, a := range conj {
		structures = append(structures, &Security{Reqs: []Requirement{a}})
	}
	red := secConjunctions(false)
	for i, a := range red {
		for j, b := range red {
			if i != j {
				structures = append(structures, &Security{Reqs: []Requirement{a, b}})
			}
		}
	}
	if thorough {
		for i, a := range red {
			for j, b := range red {
				for k, c := range red {
					if i != j && j != k && i != k {
						structures = append(structures, &Security{Reqs: []Requirement{a, b, c}})
					}
				}
			}
		}
	} else {
		structures = append(structures, &Security{Reqs: []Requirement{red[0], red[3], red[1]}}, &Security{Reqs: []Requirement{red[2], red[4], red[0]}})
	}
	desc := func(s *Security) string {
		if s == nil {
			return "-"
		}
		if s.None {
			return "none"
		}
		var alts []string
		for _, r := range s.Reqs {
			var names []string
			for _, x := range r {
				names = append(names, x.Scheme)
			}
			alts = append(alts, strings.Join(names, "&"))
		}
		return strings.Join(alts, "|")
	}
	for si, st := range structures {
		for _, level := range []string{"method", "service", "api"} {
			if level != "method" && si%3 != 0 && !thorough {
				continue // quick: service/API level for every third structure
			}
			name := fmt.Sprintf("m%d", n)
			n++
			implicit := len(st.Reqs) == 1 && len(st.Reqs[0]) == 1 && st.Reqs[0][0].Scheme == "jwt" && level == "method"
			m := secMethod(name, usedSchemes(st), false)
			m.Feat["level"] = level
			m.Feat["reqs"] = desc(st)
			m.Feat["override"] = "none"
			mc := MethodCase{M: m, Schemes: SecSchemes()}
			switch level {
			case "method":
				m.Security = st
			case "service":
				mc.SvcSecurity = st
				mc.Own = true
			case "api":
				mc.APISecurity = st
				mc.Own = true
			}
			out = append(out, mc)
			if implicit {
				name := fmt.Sprintf("m%d", n)
				n++
				m2 := secMethod(name, usedSchemes(st), true)
				m2.Security = st
				m2.Feat["level"], m2.Feat["reqs"], m2.Feat["override"], m2.Feat["mapping"] = level, desc(st), "none", "implicit"
				out = append(out, MethodCase{M: m2, Schemes: SecSchemes()})
			}
		}
	}
	// credential mapping x request body shape: one scheme, method level; the body is given
	// explicitly (one attribute as the whole body / an explicit attribute list) and the
	// credential attribute is mapped explicitly or left to goa's implicit mapping
	for _, one := range []Requirement{{{Scheme: "jwt", Scopes: []string{"s1"}}}, {{Scheme: "oa2", Scopes: []string{"s2"}}}, {{Scheme: "bsc"}}, {{Scheme: "aks"}}, {{Scheme: "akq"}}} {
		st := &Security{Reqs: []Requirement{one}}
		for _, body := range []string{"attr:data", "attrs:data"} {
			for _, mapping := range []string{"explicit", "implicit"} {
				sch := one[0].Scheme
				if mapping == "implicit" && sch != "jwt" && sch != "oa2" {
					continue
				}
				name := fmt.Sprintf("m%d", n)
				n++
				m := secMethod(name, usedSchemes(st), false)
				m.Security = st
				m.HTTP.Body = body
				if mapping == "implicit" {
					var keep []Map
					for _, h := range m.HTTP.Headers {
						if h.Attr != "tok" && h.Attr != "atok" {
							keep = append(keep, h)
						}
					}
					m.HTTP.Headers = keep
				}
				m.Feat["level"], m.Feat["reqs"], m.Feat["override"], m.Feat["mapping"], m.Feat["body"] = "method", desc(st), "none", mapping, body
				out = append(out, MethodCase{M: m, Schemes: SecSchemes()})
			}
		}
	}
	// requiredness of the credential attribute itself: optional, and optional with a default
	for _, one := range []Requirement{{{Scheme: "aks"}}, {{Scheme: "akq"}}, {{Scheme: "jwt", Scopes: []string{"s1"}}}, {{Scheme: "oa2", Scopes: []string{"s2"}}}, {{Scheme: "bsc"}}} {
		st := &Security{Reqs: []Requirement{one}}
		for _, cr := range []string{"optional", "default"} {
			name := fmt.Sprintf("m%d", n)
			n++
			m := secMethod(name, usedSchemes(st), false)
			m.Security = st
			var req []string
			for _, a := range m.Payload.Attrs {
				if a.Sec == "" {
					req = append(req, a.Name)
					continue
				}
				if cr == "default" {
					a.HasDefault, a.Default = true, "dflt-"+a.Name
				}
			}
			m.Payload.Required = req
			m.Feat["level"], m.Feat["reqs"], m.Feat["override"], m.Feat["mapping"], m.Feat["credential"] = "method", desc(st), "none", "explicit", cr
			out = append(out, MethodCase{M: m, Schemes: SecSchemes()})
		}
	}
	// the same secured method exposed over HTTP AND gRPC: each transport computes the credential
	// location on its own copy of the requirement
	for _, one := range []Requirement{{{Scheme: "jwt", Scopes: []string{"s1"}}}, {{Scheme: "oa2", Scopes: []string{"s2"}}}, {{Scheme: "bsc"}}, {{Scheme: "aks"}}, {{Scheme: "jwt", Scopes: []string{"s1"}}, {Scheme: "aks"}}} {
		st := &Security{Reqs: []Requirement{one}}
		for _, mapping := range []string{"explicit", "implicit"} {
			if mapping == "implicit" && one[0].Scheme != "jwt" && one[0].Scheme != "oa2" {
				continue
			}
			name := fmt.Sprintf("m%d", n)
			n++
			m := secMethod(name, usedSchemes(st), false)
			m.Security = st
			if mapping == "implicit" {
				var keep []Map
				for _, h := range m.HTTP.Headers {
					if h.Attr != "tok" && h.Attr != "atok" {
						keep = append(keep, h)
					}
				}
				m.HTTP.Headers = keep
			}
			for i, a := range m.Payload.Attrs {
				a.Tag = i + 1
			}
			for i, a := range m.Result.Attrs {
				a.Tag = i + 1
			}
			m.GRPC = &GRPCMap{}
			m.Feat["level"], m.Feat["reqs"], m.Feat["override"], m.Feat["mapping"], m.Feat["transport"] = "method", desc(st), "none", mapping, "http+grpc"
			out = append(out, MethodCase{M: m, Schemes: SecSchemes(), Own: true})
		}
	}
	// overrides: service/API level requirement, method overrides with another one or NoSecurity
	base := &Security{Reqs: []Requirement{red[0]}}
	other := &Security{Reqs: []Requirement{red[2], red[1]}}
	for _, level := range []string{"service", "api"} {
		for _, ov := range []string{"method", "nosecurity"} {
			name := fmt.Sprintf("m%d", n)
			n++
			var msec *Security
			if ov == "method" {
				msec = other
			} else {
				msec = &Security{None: true}
			}
			// the payload carries the credentials of the EFFECTIVE requirement only (goa rejects
			// credential attributes no effective scheme uses)
			m := secMethod(name, usedSchemes(msec), false)
			m.Security = msec
			m.Feat["level"], m.Feat["reqs"], m.Feat["override"] = level, desc(base), ov+":"+desc(msec)
			mc := MethodCase{M: m, Schemes: SecSchemes(), Own: true}
			if level == "service" {
				mc.SvcSecurity = base
			} else {
				mc.APISecurity = base
			}
			out = append(out, mc)
		}
	}
	// overrides that the payload of the overridden requirement would satisfy too: the same scheme
	// with a stronger scope, and the same scheme plus one more
	{
		weak := &Security{Reqs: []Requirement{{{Scheme: "jwt", Scopes: []string{"s1"}}}}}
		for _, level := range []string{"service", "api"} {
			for _, msec := range []*Security{
				{Reqs: []Requirement{{{Scheme: "jwt", Scopes: []string{"s1", "s2"}}}}},
				{Reqs: []Requirement{{{Scheme: "jwt", Scopes: []string{"s1"}}, {Scheme: "aks"}}}},
				{Reqs: []Requirement{{{Scheme: "jwt", Scopes: []string{"s2"}}}, {{Scheme: "aks"}}}},
			} {
				name := fmt.Sprintf("m%d", n)
				n++
				m := secMethod(name, usedSchemes(msec), false)
				m.Security = msec
				m.Feat["level"], m.Feat["reqs"], m.Feat["override"] = level, desc(weak), "method-superset:"+desc(msec)+":"+strings.Join(msec.Reqs[0][0].Scopes, "+")
				mc := MethodCase{M: m, Schemes: SecSchemes(), Own: true}
				if level == "service" {
					mc.SvcSecurity = weak
				} else {
					mc.APISecurity = weak
				}
				out = append(out, mc)
			}
		}
	}
	// API and service level both set: service wins for its methods
	{
		name := fmt.Sprintf("m%d", n)
		n++
		m := secMethod(name, usedSchemes(other), false)
		m.Feat["level"], m.Feat["reqs"], m.Feat["override"] = "api+service", desc(other), "service-over-api"
		out = append(out, MethodCase{M: m, Schemes: SecSchemes(), Own: true, APISecurity: base, SvcSecurity: other})
	}
	// no security anywhere
	{
		name := fmt.Sprintf("m%d", n)
		m := secMethod(name, map[string]bool{}, false)
		m.Feat["level"], m.Feat["reqs"], m.Feat["override"] = "none", "-", "none"
		out = append(out, MethodCase{M: m, Schemes: SecSchemes(), Own: true})
	}
	return out
}

// Views family -----------------------------------------------------------------------

// L2Views enumerates result types with views: every non-empty subset of three attributes as
// a second view, optional attributes, a nested result type rendered with per-view overrides, a
// collection, a self-recursive type, and a view fixed in the design.
func L2Views(thorough bool) []MethodCase {
	var out []MethodCase
	n := 0
	add := func(res *Type, defs []*TypeDef, feat map[string]string) {
		m := &Method{Name: fmt.Sprintf("m%d", n), Feat: feat, Result: res, HTTP: &HTTPMap{Verb: "GET"}}
		m.HTTP.Path = "/" + m.Name
		feat["family"] = "L2-views"
		n++
		out = append(out, MethodCase{M: m, Types: defs})
	}
	attrs := []string{"aa", "bb", "cc"}
	for mask := 1; mask < 8; mask++ {
		var sub []string
		for i, a := range attrs {
			if mask&(1<<i) != 0 {
				sub = append(sub, a)
			}
		}
		name := fmt.Sprintf("Rt%d", mask)
		td := &TypeDef{Name: name, Kind: "result",
			Attrs:    []*Attr{A("aa", P(KString)), A("bb", P(KInt)), A("cc", P(KString))},
			Required: []string{"aa"},
			Views:    []View{{Name: "default", Attrs: attrs}, {Name: "tiny", Attrs: sub}}}
		add(User(name), []*TypeDef{td}, map[string]string{"shape": "flat", "tiny": strings.Join(sub, "+")})
	}
	// three views
	{
		td := &TypeDef{Name: "RtThree", Kind: "result",
			Attrs:    []*Attr{A("aa", P(KString)), A("bb", P(KInt)), A("cc", P(KString)), A("dd", ArrT(P(KString)))},
			Required: []string{"aa", "bb"},
			Views:    []View{{Name: "default", Attrs: []string{"aa", "bb"}}, {Name: "mid", Attrs: []string{"aa", "cc"}}, {Name: "full", Attrs: []string{"aa", "bb", "cc", "dd"}}}}
		add(User("RtThree"), []*TypeDef{td}, map[string]string{"shape": "three-views"})
	}
	child := func() *TypeDef {
		return &TypeDef{Name: "Child", Kind: "result",
			Attrs:    []*Attr{A("ca", P(KString)), A("cb", P(KInt))},
			Required: []string{"ca"},
			Views:    []View{{Name: "default", Attrs: []string{"ca"}}, {Name: "ext", Attrs: []string{"ca", "cb"}}}}
	}
	// nested result type with per-view overrides
	{
		parent := &TypeDef{Name: "Parent", Kind: "result",
			Attrs:    []*Attr{A("pa", P(KString)), A("child", User("Child")), A("kids", ArrT(User("Child")))},
			Required: []string{"pa"},
			Views: []View{
				{Name: "default", Attrs: []string{"pa", "child"}},
				{Name: "ext", Attrs: []string{"pa", "child", "kids"}, Sub: map[string]string{"child": "ext"}},
				{Name: "min", Attrs: []string{"pa"}},
			}}
		add(User("Parent"), []*TypeDef{child(), parent}, map[string]string{"shape": "nested"})
	}
	// the same nested result type on two attributes rendered with DIFFERENT views in one parent
	// view (view names of parent and child do not coincide)
	{
		leaf := &TypeDef{Name: "Leaf", Kind: "result",
			Attrs:    []*Attr{A("id", P(KString)), A("lname", P(KString)), A("bonus", P(KInt))},
			Required: []string{"id"},
			Views:    []View{{Name: "default", Attrs: []string{"id", "lname"}}, {Name: "tiny", Attrs: []string{"id"}}, {Name: "full", Attrs: []string{"id", "lname", "bonus"}}}}
		two := &TypeDef{Name: "TwoLeaves", Kind: "result",
			Attrs:    []*Attr{A("first", User("Leaf")), A("second", User("Leaf")), A("third", User("Leaf"))},
			Required: []string{"first"},
			Views: []View{
				{Name: "default", Attrs: []string{"first", "second", "third"}, Sub: map[string]string{"first": "tiny", "third": "full"}},
				{Name: "alt", Attrs: []string{"first", "second"}, Sub: map[string]string{"second": "tiny"}},
				{Name: "same", Attrs: []string{"first", "second"}, Sub: map[string]string{"first": "full", "second": "full"}},
			}}
		add(User("TwoLeaves"), []*TypeDef{leaf, two}, map[string]string{"shape": "same-nested-type-different-views"})
	}
	// two structurally identical result types with different view definitions as siblings
	{
		author := &TypeDef{Name: "Author", Kind: "result",
			Attrs:    []*Attr{A("id", P(KString)), A("pname", P(KString)), A("email", P(KString))},
			Required: []string{"id"},
			Views:    []View{{Name: "default", Attrs: []string{"id", "pname"}}, {Name: "full", Attrs: []string{"id", "pname", "email"}}}}
		editor := &TypeDef{Name: "Editor", Kind: "result",
			Attrs:    []*Attr{A("id", P(KString)), A("pname", P(KString)), A("email", P(KString))},
			Required: []string{"id"},
			Views:    []View{{Name: "default", Attrs: []string{"id", "pname", "email"}}, {Name: "full", Attrs: []string{"id"}}}}
		article := &TypeDef{Name: "Article", Kind: "result",
			Attrs:    []*Attr{A("title", P(KString)), A("author", User("Author")), A("editor", User("Editor"))},
			Required: []string{"title"},
			Views: []View{
				{Name: "default", Attrs: []string{"title", "author", "editor"}},
				{Name: "full", Attrs: []string{"title", "editor", "author"}, Sub: map[string]string{"author": "full", "editor": "full"}},
			}}
		add(User("Article"), []*TypeDef{author, editor, article}, map[string]string{"shape": "identical-sibling-types"})
	}
	// a nested result type attribute whose view is given where the attribute is declared in the
	// type; parent views keep it, override it with another view, or override it back to "default"
	{
		owner := &TypeDef{Name: "Owner", Kind: "result",
			Attrs:    []*Attr{A("id", P(KString)), A("oname", P(KString)), A("ssn", P(KString))},
			Required: []string{"id", "oname"}, // oname is required but outside the tiny view
			Views:    []View{{Name: "default", Attrs: []string{"id", "oname"}}, {Name: "full", Attrs: []string{"id", "oname", "ssn"}}, {Name: "tiny", Attrs: []string{"id"}}}}
		ow := User("Owner")
		ow.View = "full"
		account := &TypeDef{Name: "Account", Kind: "result",
			Attrs:    []*Attr{A("num", P(KString)), A("owner", ow), A("co", User("Owner"))},
			Required: []string{"num"},
			Views: []View{
				{Name: "default", Attrs: []string{"num", "owner", "co"}, Sub: map[string]string{"owner": "default"}},
				{Name: "keep", Attrs: []string{"num", "owner", "co"}},
				{Name: "mix", Attrs: []string{"num", "owner", "co"}, Sub: map[string]string{"owner": "tiny", "co": "full"}},
			}}
		add(User("Account"), []*TypeDef{owner, account}, map[string]string{"shape": "type-level-attribute-view"})
	}
	// three nested attributes of one result type, adjacent or separated by plain attributes; one
	// parent view per override vector over {none, tiny, full}^3 (complete product, 27 views)
	for _, layout := range []string{"adjacent", "separated"} {
		leaf := &TypeDef{Name: "Lf", Kind: "result",
			Attrs:    []*Attr{A("id", P(KString)), A("lname", P(KString)), A("bonus", P(KInt))},
			Required: []string{"id", "lname"},
			Views:    []View{{Name: "default", Attrs: []string{"id", "lname"}}, {Name: "tiny", Attrs: []string{"id"}}, {Name: "full", Attrs: []string{"id", "lname", "bonus"}}}}
		attrs := []*Attr{A("n0", User("Lf")), A("n1", User("Lf")), A("n2", User("Lf"))}
		names := []string{"n0", "n1", "n2"}
		if layout == "separated" {
			attrs = []*Attr{A("n0", User("Lf")), A("s0", P(KString)), A("n1", User("Lf")), A("s1", P(KInt)), A("n2", User("Lf"))}
			names = []string{"n0", "s0", "n1", "s1", "n2"}
		}
		tri := &TypeDef{Name: "Tri" + strings.Title(layout), Kind: "result", Attrs: attrs, Required: []string{"n0"}}
		opts := []string{"", "tiny", "full"}
		for i := 0; i < 27; i++ {
			sub := map[string]string{}
			vname := "v"
			for k, a := range []string{"n0", "n1", "n2"} {
				o := opts[(i/pow3(k))%3]
				if o != "" {
					sub[a] = o
				}
				vname += string(rune('0' + (i/pow3(k))%3))
			}
			if i == 0 {
				vname = "default"
			}
			tri.Views = append(tri.Views, View{Name: vname, Attrs: names, Sub: sub})
		}
		add(User(tri.Name), []*TypeDef{leaf, tri}, map[string]string{"shape": "three-nested-" + layout})
	}
	// self-recursive result type: the nested occurrences are rendered with a per-view override
	// (default -> tiny), directly and through an array
	{
		node := &TypeDef{Name: "VNode", Kind: "result",
			Attrs:    []*Attr{A("val", P(KString)), A("note", P(KString)), A("next", User("VNode")), A("kids", ArrT(User("VNode")))},
			Required: []string{"val"},
			Views: []View{
				{Name: "default", Attrs: []string{"val", "note", "next", "kids"}, Sub: map[string]string{"next": "tiny", "kids": "tiny"}},
				{Name: "tiny", Attrs: []string{"val"}},
				{Name: "chain", Attrs: []string{"val", "next"}, Sub: map[string]string{"next": "chain"}},
			}}
		add(User("VNode"), []*TypeDef{node}, map[string]string{"shape": "recursive"})
	}
	// collection
	{
		td := &TypeDef{Name: "Elem", Kind: "result",
			Attrs:    []*Attr{A("ea", P(KString)), A("eb", P(KInt))},
			Required: []string{"ea"},
			Views:    []View{{Name: "default", Attrs: []string{"ea", "eb"}}, {Name: "tiny", Attrs: []string{"ea"}}}}
		coll := &TypeDef{Name: "ElemCollection", Kind: "collection", Collection: "Elem"}
		add(User("ElemCollection"), []*TypeDef{td, coll}, map[string]string{"shape": "collection"})
	}
	// view fixed in the design
	{
		td := &TypeDef{Name: "RtFixed", Kind: "result",
			Attrs:    []*Attr{A("aa", P(KString)), A("bb", P(KInt))},
			Required: []string{"aa"},
			Views:    []View{{Name: "default", Attrs: []string{"aa", "bb"}}, {Name: "tiny", Attrs: []string{"aa"}}}}
		t := User("RtFixed")
		t.View = "tiny"
		add(t, []*TypeDef{td}, map[string]string{"shape": "fixed-view"})
	}
	// views fixed in the design on a type whose default view omits a REQUIRED attribute: the
	// explicit "default", another view, on the type itself and on a collection of it
	for _, coll := range []bool{false, true} {
		for _, fixed := range []string{"default", "full", "tiny"} {
			sfx := fixed
			if coll {
				sfx += "Coll"
			}
			td := &TypeDef{Name: "Ef" + strings.Title(sfx), Kind: "result",
				Attrs:    []*Attr{A("ea", P(KString)), A("eb", P(KInt)), A("ec", P(KString))},
				Required: []string{"ea", "ec"},
				Views:    []View{{Name: "default", Attrs: []string{"ea", "eb"}}, {Name: "full", Attrs: []string{"ea", "eb", "ec"}}, {Name: "tiny", Attrs: []string{"ea"}}}}
			defs := []*TypeDef{td}
			t := User(td.Name)
			if coll {
				c := &TypeDef{Name: td.Name + "Collection", Kind: "collection", Collection: td.Name}
				defs = append(defs, c)
				t = User(c.Name)
			}
			t.View = fixed
			shape := "fixed-view-required-outside-default"
			if coll {
				shape += "-collection"
			}
			add(t, defs, map[string]string{"shape": shape, "fixed": fixed})
		}
	}
	// several methods of ONE service return the same result type: with a view fixed in the design
	// and left to the implementation, in every order (what one method fixes must not leak)
	for gi, order := range [][]string{{"tiny", ""}, {"", "tiny"}, {"tiny", "default"}, {"tiny", "", "default"}} {
		td := &TypeDef{Name: fmt.Sprintf("RtShared%d", gi), Kind: "result",
			Attrs:    []*Attr{A("aa", P(KString)), A("bb", P(KInt)), A("cc", P(KString))},
			Required: []string{"aa"},
			Views:    []View{{Name: "default", Attrs: []string{"aa", "bb"}}, {Name: "tiny", Attrs: []string{"aa"}}, {Name: "full", Attrs: []string{"aa", "bb", "cc"}}}}
		for _, fixed := range order {
			t := User(td.Name)
			t.View = fixed
			m := &Method{Name: fmt.Sprintf("m%d", n), Feat: map[string]string{"family": "L2-views", "shape": "shared-by-methods", "fixed": fixed, "order": strings.Join(order, ">")}, Result: t, HTTP: &HTTPMap{Verb: "GET"}}
			m.HTTP.Path = "/" + m.Name
			n++
			out = append(out, MethodCase{M: m, Types: []*TypeDef{td}, SameService: fmt.Sprintf("shared-rt-%d", gi)})
		}
	}
	// single default view only
	{
		td := &TypeDef{Name: "RtOne", Kind: "result",
			Attrs:    []*Attr{A("aa", P(KString)), A("bb", P(KInt))},
			Required: []string{"aa"},
			Views:    []View{{Name: "default", Attrs: []string{"aa", "bb"}}}}
		add(User("RtOne"), []*TypeDef{td}, map[string]string{"shape": "single-view"})
	}
	return out
}

// ViewAttrs is the reference for projection: the attribute names of view v of the named result
// type and, for each attribute that is itself a result type (or array of it), the view used.
func (s *Spec) ViewAttrs(typeName, view string) (attrs []string, sub map[string]string, ok bool) {
	td := s.TypeDefByName(typeName)
	if td == nil {
		return nil, nil, false
	}
	if td.Kind == "collection" {
		return s.ViewAttrs(td.Collection, view)
	}
	if view == "" {
		view = "default"
	}
	for _, v := range td.Views {
		if v.Name == view {
			return v.Attrs, v.Sub, true
		}
	}
	return nil, nil, false
}

// L1ValidationPairs exposes cross-talk between the validations of two attributes of one
// payload/result: ordered pairs over a reduced keyword menu, and pairs of attributes sharing one
// alias type (or one user type) where only one of them adds attribute-level validations.
func L1ValidationPairs(side string) []MethodCase {
	var out []MethodCase
	n := 0
	add := func(attrs []attrAt, defs []*TypeDef, feat map[string]string) {
		name := fmt.Sprintf("m%d", n)
		n++
		var m *Method
		if side == "payload" {
			m = PayloadMethod(name, attrs)
		} else {
			m = ResultMethod(name, attrs, 200)
		}
		feat["family"] = "L1-validation-pair-" + side
		m.Feat = feat
		out = append(out, MethodCase{M: m, Types: defs})
	}
	menu := validMenu()
	pick := func(names ...string) []validEntry {
		var l []validEntry
		for _, nme := range names {
			for _, ve := range menu {
				if ve.Name == nme {
					l = append(l, ve)
				}
			}
		}
		return l
	}
	red := pick("enum_string", "minlen_string", "pattern_string", "min_int", "max_int")
	locs := []string{LocBody, LocQuery}
	if side == "result" {
		locs = []string{LocBody, LocHeader}
	}
	for _, x := range red {
		for _, y := range red {
			for _, loc := range locs {
				add([]attrAt{{A("aa", WithV(x.Base, x.V)), loc, true}, {A("bb", WithV(y.Base, y.V)), loc, false}}, nil,
					map[string]string{"valid": x.Name + "+" + y.Name, "pos": "attribute+attribute", "loc": loc, "req": "required+optional"})
			}
		}
	}
	// shared alias: alias carries its own rule, one attribute adds another rule
	aliasS := &TypeDef{Name: "ShS", Kind: "alias", Base: WithV(P(KString), &Valid{MaxLen: I(8)})}
	aliasI := &TypeDef{Name: "ShI", Kind: "alias", Base: WithV(P(KInt), &Valid{Min: F(0)})}
	extraS := []*Valid{{Enum: []any{"basic", "pro"}}, {Pattern: "^[a-c]+$"}, {MinLen: I(2)}}
	extraI := []*Valid{{Max: F(5)}, {Enum: []any{1, 5}}}
	for _, loc := range locs {
		for i, ex := range extraS {
			for _, first := range []bool{true, false} {
				a1, a2 := A("aa", WithV(User("ShS"), ex)), A("bb", User("ShS"))
				if !first {
					a1, a2 = A("aa", User("ShS")), A("bb", WithV(User("ShS"), ex))
				}
				add([]attrAt{{a1, loc, true}, {a2, loc, true}}, []*TypeDef{aliasS},
					map[string]string{"valid": fmt.Sprintf("shared-alias-string-extra%d-first=%v", i, first), "pos": "alias+attribute", "loc": loc, "req": "required+required"})
			}
		}
		for i, ex := range extraI {
			for _, first := range []bool{true, false} {
				a1, a2 := A("aa", WithV(User("ShI"), ex)), A("bb", User("ShI"))
				if !first {
					a1, a2 = A("aa", User("ShI")), A("bb", WithV(User("ShI"), ex))
				}
				add([]attrAt{{a1, loc, true}, {a2, loc, false}}, []*TypeDef{aliasI},
					map[string]string{"valid": fmt.Sprintf("shared-alias-int-extra%d-first=%v", i, first), "pos": "alias+attribute", "loc": loc, "req": "required+optional"})
			}
		}
	}
	// three attributes of one alias, the middle one restricted
	add([]attrAt{{A("aa", User("ShS")), LocBody, false}, {A("bb", WithV(User("ShS"), &Valid{Enum: []any{"basic", "pro"}})), LocBody, false}, {A("cc", User("ShS")), LocBody, false}},
		[]*TypeDef{aliasS}, map[string]string{"valid": "shared-alias-string-middle", "pos": "alias+attribute", "loc": LocBody, "req": "optional"})
	// shared user type nested twice, the type's field validated; plus array of the alias
	inner := &TypeDef{Name: "ShInner", Kind: "type", Attrs: []*Attr{A("fa", WithV(P(KInt), &Valid{Min: F(1)})), A("fb", User("ShS"))}, Required: []string{"fa"}}
	add([]attrAt{{A("aa", User("ShInner")), LocBody, true}, {A("bb", ArrT(User("ShInner"))), LocBody, false}, {A("cc", WithV(User("ShS"), &Valid{Pattern: "^[a-c]+$"})), LocBody, false}},
		[]*TypeDef{aliasS, inner}, map[string]string{"valid": "shared-user-type", "pos": "nested+array+alias", "loc": LocBody, "req": "mixed"})
	add([]attrAt{{A("aa", ArrT(User("ShS"))), LocBody, true}, {A("bb", WithV(User("ShS"), &Valid{Enum: []any{"basic", "pro"}})), LocBody, false}},
		[]*TypeDef{aliasS}, map[string]string{"valid": "shared-alias-array+attr", "pos": "array-element+attribute", "loc": LocBody, "req": "required+optional"})
	return out
}

func pow3(k int) int {
	r := 1
	for ; k > 0; k-- {
		r *= 3
	}
	return r
}

package spec

import "fmt"

// C20B is the design family of C20 FAMILY B (generated servers and clients under the
// controlled scheduler). It is small on purpose — every execution of a scenario is a complete
// request/response through generated client, net/http parsing, goa muxer, generated server and
// back, and every scenario is explored over thousands of schedules — but it is chosen so that
// every handler shape the server templates can produce occurs:
//
//	payload in path + query + header + body, validations (pattern, minimum, format, enum,
//	length), result objects / primitives / collections, result types with views chosen by the
//	service, declared errors (default ErrorResult, custom object type with header, primitive
//	type; method, service and API level), undeclared errors (the default error encoder with a
//	nil formatter), no payload, no result, response content negotiation through Accept,
//	streamed request bodies (SkipRequestBodyEncodeDecode: payload in path/header/query plus
//	the raw body handed to the service). SkipResponseBodyEncodeDecode is left out: its
//	writer-to-reader adapter blocks in an io.Pipe, outside the controlled scheduler.
//
// Methods are packed four per service, one service per design, so that requests to the same
// and to different endpoints of one mounted server can be in flight together. The thorough
// tier adds the complete error and view families.
//
// The request menu of each method shape (client payload + what the stub answers) is in
// verif/checks/c20b/menu; it is keyed by Feat["shape"] / Feat["family"].
func C20B(thorough bool) []MethodCase {
	var out []MethodCase
	n := 0
	name := func() string { s := fmt.Sprintf("m%d", n%4); n++; return s }
	feat := func(shape string) map[string]string { return map[string]string{"family": "C20B", "shape": shape} }
	errT := func() *TypeDef {
		return &TypeDef{Name: "ErrT", Kind: "type", ErrorName: "name",
			Attrs: []*Attr{A("name", P(KString)), A("msg", P(KString)), A("code", P(KInt))}, Required: []string{"name"}}
	}
	rt := func(tn string) *TypeDef {
		return &TypeDef{Name: tn, Kind: "result",
			Attrs:    []*Attr{A("aa", P(KString)), A("bb", P(KInt)), A("cc", P(KString))},
			Required: []string{"aa"},
			Views:    []View{{Name: "default", Attrs: []string{"aa", "bb", "cc"}}, {Name: "tiny", Attrs: []string{"aa"}}}}
	}

	// ---- group 0 --------------------------------------------------------------------
	{ // rich: path + query + header + body, validations, two declared errors
		m := PayloadMethod(name(), []attrAt{
			{A("id", P(KString)), LocPath, true},
			{A("qv", P(KInt)), LocQuery, false},
			{A("hv", P(KString)), LocHeader, false},
			{A("name", WithV(P(KString), &Valid{Pattern: "^[a-z]+$"})), LocBody, true},
			{A("n", WithV(P(KInt), &Valid{Min: F(1)})), LocBody, false},
		})
		m.Feat = feat("rich")
		m.Result = ObjT([]string{"ok"}, A("ok", P(KString)), A("n", P(KInt)))
		m.Errors = []ErrorDef{{Name: "e_a"}, {Name: "e_c", Type: User("ErrT")}}
		m.HTTP.Responses = []Resp{{Error: "e_a", Status: 400}, {Error: "e_c", Status: 422, Headers: []Map{{"code", "X-Code"}}}}
		out = append(out, MethodCase{M: m, Types: []*TypeDef{errT()}})
	}
	{ // views chosen by the service, no payload
		m := &Method{Name: name(), Feat: feat("views"), Result: User("Rt"), HTTP: &HTTPMap{Verb: "GET"}}
		m.HTTP.Path = "/" + m.Name
		out = append(out, MethodCase{M: m, Types: []*TypeDef{rt("Rt")}})
	}
	{ // content negotiation: the Accept header is a payload attribute of the generated client
		m := &Method{Name: name(), Feat: feat("negotiate"), HTTP: &HTTPMap{Verb: "GET"}}
		m.HTTP.Path = "/" + m.Name
		m.Payload = ObjT(nil, A("acc", P(KString)))
		m.HTTP.Headers = []Map{{"acc", "Accept"}}
		m.Result = ObjT([]string{"aa"}, A("aa", P(KString)), A("bb", P(KInt)))
		out = append(out, MethodCase{M: m})
	}
	{ // path only, format validation, no result, one declared error
		m := PayloadMethod(name(), []attrAt{{A("id", WithV(P(KString), &Valid{Format: "uuid"})), LocPath, true}})
		m.HTTP.Verb = "DELETE"
		m.Feat = feat("path-noresult")
		m.Errors = []ErrorDef{{Name: "e_a"}}
		m.HTTP.Responses = []Resp{{Error: "e_a", Status: 404}}
		out = append(out, MethodCase{M: m})
	}
	// ---- group 1 --------------------------------------------------------------------
	{ // collections in the body, primitive result
		m := PayloadMethod(name(), []attrAt{
			{A("items", WithV(ArrT(P(KString)), &Valid{MinLen: I(1)})), LocBody, true},
			{A("tags", MapT(P(KString), P(KInt))), LocBody, false},
		})
		m.Feat = feat("collections")
		m.Result = P(KString)
		out = append(out, MethodCase{M: m})
	}
	{ // primitive error type next to a default one
		m := PayloadMethod(name(), []attrAt{{A("sel", P(KString)), LocBody, false}})
		m.Feat = feat("primitive-error")
		m.Result = ObjT(nil, A("ok", P(KString)))
		m.Errors = []ErrorDef{{Name: "e_s", Type: P(KString)}, {Name: "e_a"}}
		m.HTTP.Responses = []Resp{{Error: "e_s", Status: 418}, {Error: "e_a", Status: 400}}
		out = append(out, MethodCase{M: m})
	}
	{ // query only, enum validation, result with a header
		m := PayloadMethod(name(), []attrAt{{A("color", WithV(P(KString), &Valid{Enum: []any{"red", "green"}})), LocQuery, true}})
		m.HTTP.Verb = "GET"
		m.Feat = feat("query-enum")
		m.Result = ObjT([]string{"ok"}, A("ok", P(KString)), A("tag", P(KString)))
		m.HTTP.Responses = []Resp{{Status: 200, Headers: []Map{{"tag", "X-Tag"}}}}
		out = append(out, MethodCase{M: m})
	}
	{ // collection of a result type, view chosen by the service
		td := &TypeDef{Name: "Elem", Kind: "result",
			Attrs:    []*Attr{A("ea", P(KString)), A("eb", P(KInt))},
			Required: []string{"ea"},
			Views:    []View{{Name: "default", Attrs: []string{"ea", "eb"}}, {Name: "tiny", Attrs: []string{"ea"}}}}
		coll := &TypeDef{Name: "ElemCollection", Kind: "collection", Collection: "Elem"}
		m := &Method{Name: name(), Feat: feat("views-collection"), Result: User("ElemCollection"), HTTP: &HTTPMap{Verb: "GET"}}
		m.HTTP.Path = "/" + m.Name
		out = append(out, MethodCase{M: m, Types: []*TypeDef{td, coll}})
	}
	// ---- group 2: service and API level errors, negotiation of an error response ------
	{
		m := PayloadMethod(name(), []attrAt{{A("sel", P(KString)), LocBody, false}, {A("acc", P(KString)), LocHeader, false}})
		m.HTTP.Headers = []Map{{"acc", "Accept"}}
		m.Feat = feat("svc-error-negotiate")
		m.Result = ObjT(nil, A("ok", P(KString)))
		m.Errors = []ErrorDef{{Name: "e_a"}}
		m.HTTP.Responses = []Resp{{Error: "e_a", Status: 400}}
		out = append(out, MethodCase{M: m, SvcErrors: []ErrorDef{{Name: "e_svc", Temporary: true}}, SvcHTTPErrs: []Resp{{Error: "e_svc", Status: 503}}})
	}
	{
		m := PayloadMethod(name(), []attrAt{{A("sel", P(KString)), LocBody, false}})
		m.Feat = feat("api-error")
		m.Result = ObjT(nil, A("ok", P(KString)))
		m.Errors = []ErrorDef{{Name: "e_api"}}
		out = append(out, MethodCase{M: m, APIErrors: []ErrorDef{{Name: "e_api"}}, APIHTTPErrs: []Resp{{Error: "e_api", Status: 429}}})
	}
	{ // a second viewed result type in the same server
		m := &Method{Name: name(), Feat: feat("views"), Result: User("Rt2"), HTTP: &HTTPMap{Verb: "GET"}}
		m.HTTP.Path = "/" + m.Name
		out = append(out, MethodCase{M: m, Types: []*TypeDef{rt("Rt2")}})
	}
	{ // two custom errors sharing one type and one status
		m := PayloadMethod(name(), []attrAt{{A("sel", P(KString)), LocBody, false}})
		m.Feat = feat("shared-error-type")
		m.Result = ObjT(nil, A("ok", P(KString)))
		m.Errors = []ErrorDef{{Name: "e_a", Type: User("ErrT")}, {Name: "e_b", Type: User("ErrT")}}
		m.HTTP.Responses = []Resp{{Error: "e_a", Status: 422}, {Error: "e_b", Status: 422}}
		out = append(out, MethodCase{M: m, Types: []*TypeDef{errT()}})
	}
	// ---- group 3: streamed request bodies (SkipRequestBodyEncodeDecode) ------------------
	// the generated handler hands the service a <Method>RequestData{Payload, Body: r.Body}
	{
		m := PayloadMethod(name(), []attrAt{{A("id", P(KString)), LocPath, true}, {A("hh", P(KString)), LocHeader, false}})
		m.Feat = feat("skip-request-body")
		m.HTTP.SkipReq = true
		m.Result = ObjT(nil, A("ok", P(KString)))
		out = append(out, MethodCase{M: m})
	}
	{
		m := PayloadMethod(name(), []attrAt{{A("qv", P(KString)), LocQuery, false}})
		m.Feat = feat("skip-request-body-noresult")
		m.HTTP.SkipReq = true
		m.Errors = []ErrorDef{{Name: "e_a"}}
		m.HTTP.Responses = []Resp{{Error: "e_a", Status: 400}}
		out = append(out, MethodCase{M: m})
	}
	{
		m := PayloadMethod(name(), []attrAt{{A("sel", P(KString)), LocBody, false}})
		m.Feat = feat("plain-body")
		m.Result = ObjT(nil, A("ok", P(KString)))
		out = append(out, MethodCase{M: m})
	}
	{
		m := &Method{Name: name(), Feat: feat("noargs"), Result: ObjT(nil, A("ok", P(KString))), HTTP: &HTTPMap{Verb: "GET"}}
		m.HTTP.Path = "/" + m.Name
		out = append(out, MethodCase{M: m})
	}
	// ---- groups 4-6: slices of the shared error and view families ----------------------
	errs := L2Errors()
	views := L2Views(false)
	pick := func(cs []MethodCase, idx ...int) {
		for _, i := range idx {
			if i < len(cs) {
				mc := cs[i]
				mc.M.Name = name()
				mc.M.HTTP.Path = "/" + mc.M.Name
				out = append(out, mc)
			}
		}
	}
	pick(errs, 0, 2, 3, 6)   // default distinct, DSL flags, object-shared distinct, primitive
	pick(views, 2, 7, 8, 10) // flat tiny=aa+bb, three views, nested, fixed view
	pick(errs, 1, 5, 7, 9)   // shared status, headers+body, service level, none
	if thorough {
		pick(errs, 4, 8)
		pick(views, 0, 1)
		pick(views, 3, 4, 5, 6)
		pick(views, 9, 11)
	}
	return out
}

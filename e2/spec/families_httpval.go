package spec

import (
	"fmt"
	"strings"
)

// L1HTTPValidation is the family of validations written on the HTTP MAPPING of a payload
// attribute instead of (and in addition to) the payload attribute itself:
//
//	Param("aa:qaa", Int, func() { Minimum(3) })      Header("aa:X-Aa", String, func() { Pattern(...) })
//	Cookie("aa:caa", String, func() { Enum(...) })   Path("/x/{aa}") + Param("aa", Int, func() { ... })
//
// complete product of
//
//	location   path, query string, header, cookie
//	level      endpoint   the element is written in the method's HTTP expression
//	           service    in the service's HTTP expression: Params(func() { Param(...) }),
//	                      Headers(func() { Header(...) }), Cookie(...), Path("/sv/{aa}") + Param("aa", ...)
//	           api        in the API's HTTP expression, same forms, Path("/api/{aa}")
//	keyword    the menu of L1Validation (validMenu): quick 8 keywords + 1 format, thorough every
//	           non-format keyword but the one with both exclusive bounds and the one on Bytes (26)
//	           + 2 formats
//	attribute  plain: the payload attribute carries no validation of its own
//	           conj:  it carries a DIFFERENT validation (httpPartner): both apply (conjunction);
//	                  not for formats (a second rule would put strings outside the constructive
//	                  format tables into the value menu)
//	required   required / optional (path parameters are always required)
//
// plus, on the response side, location {response header, response cookie} x keyword x attribute x
// required at the one level responses of success have (the endpoint): the generated client must
// refuse a response violating a rule written on the Header / Cookie of the Response DSL.
//
// one mapped attribute "aa" per method. Service-level and API-level elements apply to every method
// of the service / design, so the cases that share one element (the plain/conj x required/optional
// variants) are packed into a service (a design) of their own (MethodCase.SvcKey / DesignKey).
func L1HTTPValidation(thorough bool) []MethodCase {
	var out []MethodCase
	n, nsvc, napi := 0, 0, 0
	for _, level := range []string{"endpoint", "service", "api"} {
		for _, ve := range httpValidMenu(thorough) {
			isFormat := strings.HasPrefix(ve.Name, "format_")
			for _, loc := range []string{LocPath, LocQuery, LocHeader, LocCookie} {
				key := ""
				switch level {
				case "service":
					key = fmt.Sprintf("hv-s%d", nsvc)
					nsvc++
				case "api":
					key = fmt.Sprintf("hv-a%d", napi)
					napi++
				}
				for _, conj := range []bool{false, true} {
					if conj && isFormat {
						continue
					}
					for _, req := range []bool{true, false} {
						if loc == LocPath && !req {
							continue
						}
						name := fmt.Sprintf("m%d", n)
						n++
						at := cloneType(ve.Base)
						valid, pos := ve.Name, "http-"+level
						if conj {
							pn, pv := httpPartner(ve)
							at = WithV(ve.Base, pv)
							valid, pos = ve.Name+"+attr_"+pn, pos+"+attribute"
						}
						m := PayloadMethod(name, []attrAt{{A("aa", at), loc, req}})
						rule := MapRule{Attr: "aa", T: cloneType(ve.Base), V: ve.V}
						mc := MethodCase{M: m}
						// the mapping element as PayloadMethod wrote it at endpoint level
						params, headers, cookies := m.HTTP.Params, m.HTTP.Headers, m.HTTP.Cookies
						switch level {
						case "endpoint":
							m.HTTP.Rules = []MapRule{rule}
						case "service":
							m.HTTP.Params, m.HTTP.Headers, m.HTTP.Cookies = nil, nil, nil
							mc.SvcParams, mc.SvcHeaders, mc.SvcCookies, mc.SvcRules = params, headers, cookies, []MapRule{rule}
							mc.SvcKey = key
							if loc == LocPath {
								m.HTTP.Path = "/" + name
								mc.SvcPath = "/sv/{aa}"
							}
						case "api":
							m.HTTP.Params, m.HTTP.Headers, m.HTTP.Cookies = nil, nil, nil
							mc.APIParams, mc.APIHeaders, mc.APICookies, mc.APIRules = params, headers, cookies, []MapRule{rule}
							mc.SvcKey, mc.DesignKey = key, key
							if loc == LocPath {
								m.HTTP.Path = "/" + name
								mc.APIPath = "/api/{aa}"
							}
						}
						m.Feat = map[string]string{"family": "L1-http-validation", "valid": valid, "pos": pos, "loc": loc, "level": level, "req": map[bool]string{true: "required", false: "optional"}[req]}
						out = append(out, mc)
					}
				}
			}
		}
	}
	// response side: a response header / cookie written with a validation DSL of its own
	// (Response(StatusOK, func() { Header("aa:X-Aa", String, func() { Pattern(...) }) })); the
	// generated client must refuse a response that violates it. Responses of success exist at
	// endpoint level only.
	for _, ve := range httpValidMenu(thorough) {
		isFormat := strings.HasPrefix(ve.Name, "format_")
		for _, loc := range []string{LocHeader, LocCookie} {
			for _, conj := range []bool{false, true} {
				if conj && isFormat {
					continue
				}
				for _, req := range []bool{true, false} {
					name := fmt.Sprintf("m%d", n)
					n++
					at := cloneType(ve.Base)
					valid, pos := ve.Name, "http-response"
					if conj {
						pn, pv := httpPartner(ve)
						at = WithV(ve.Base, pv)
						valid, pos = ve.Name+"+attr_"+pn, pos+"+attribute"
					}
					m := ResultMethod(name, []attrAt{{A("aa", at), loc, req}}, 200)
					m.HTTP.Responses[0].Rules = []MapRule{{Attr: "aa", T: cloneType(ve.Base), V: ve.V}}
					m.Feat = map[string]string{"family": "L1-http-validation", "valid": valid, "pos": pos, "loc": loc, "level": "response", "req": map[bool]string{true: "required", false: "optional"}[req]}
					out = append(out, MethodCase{M: m})
				}
			}
		}
	}
	return out
}

// httpValidMenu selects the keywords of validMenu used on HTTP mapping elements.
func httpValidMenu(thorough bool) []validEntry {
	quick := map[string]bool{"enum_string": true, "min_int": true, "max_float64": true, "exmin_int": true, "exmax_float32": true,
		"minlen_string": true, "maxlen_string": true, "pattern_string": true, "format_date": true}
	var out []validEntry
	for _, ve := range validMenu() {
		switch {
		case ve.Name == "exmin_exmax_int":
			// both exclusive bounds on one attribute: goa's known defect in the validation code
			// itself (L1-validation reports it), it would only be restated here
			continue
		case ve.Base.K == KBytes:
			// a length rule on Bytes outside the body does not compile (goa's known C01 defect,
			// recorded per exact signature for L1-validation): nothing could be executed
			continue
		case thorough && strings.HasPrefix(ve.Name, "format_"):
			if ve.Name != "format_date" && ve.Name != "format_ipv4" {
				continue
			}
		case !thorough && !quick[ve.Name]:
			continue
		}
		out = append(out, ve)
	}
	return out
}

// httpPartner returns the validation the payload attribute itself carries in the "conj" variant:
// a keyword that differs from the one on the mapping element, on the same base type, chosen so
// that the conjunction is satisfiable and the menus hold values violating either rule alone where
// the ranges allow it.
func httpPartner(ve validEntry) (string, *Valid) {
	v := ve.V
	switch ve.Base.K {
	case KString:
		switch {
		case v.MinLen == nil:
			return "minlen2", &Valid{MinLen: I(2)}
		case v.MaxLen == nil:
			return "maxlen3", &Valid{MaxLen: I(3)}
		}
		return "pattern", &Valid{Pattern: "^[a-c]+$"}
	case KBytes:
		return "maxlen3", &Valid{MaxLen: I(3)}
	}
	float := ve.Base.K == KFloat32 || ve.Base.K == KFloat64
	lo, hi := v.Min, v.Max
	if lo == nil {
		lo = v.ExMin
	}
	if hi == nil {
		hi = v.ExMax
	}
	switch {
	case len(v.Enum) > 0:
		return "max3", &Valid{Max: F(3)}
	case lo != nil && hi == nil:
		return "max", &Valid{Max: F(*lo + 3)}
	case hi != nil && lo == nil:
		return "min", &Valid{Min: F(*hi - 3)}
	case float:
		return "enum", &Valid{Enum: []any{0.5, 2.5, 10.5}}
	}
	return "enum", &Valid{Enum: []any{1, 2, 3}}
}

// HTTPValidationDoc describes the family for the evidence files.
const HTTPValidationDoc = "validations written on the HTTP mapping element of a payload attribute (Param/Header/Cookie with a type and a DSL of its own) instead of, and in addition to, the attribute itself: " +
	"location {path, query, header, cookie} x level {endpoint, service (Params/Headers groups, Cookie, service Path parameter), API (same forms, API Path parameter)} x keyword (quick: enum, min, max, exclusive min, exclusive max, min length, max length, pattern + format date; " +
	"thorough: the 26 non-format keywords of the validation family that are left without the one with both exclusive bounds and the one on Bytes + formats date, ipv4) x {the payload attribute has no validation, has a different validation: both apply} x {required, optional; path: required}, " +
	"and on the response side {response header, response cookie} x keyword x the same two attribute variants x {required, optional} (the client must refuse); one mapped attribute per method; formats only without a second rule; " +
	"the reference folds the HTTP-level rules into the payload/result type (conjunction), values on both sides of every boundary of either rule"

package spec

import (
	"sort"
	"strings"
)

// Extensions of the reference model for the deep-structure families (families_deep.go):
// OneOf unions, Reference inheritance, deeper value nesting. Every behaviour that would change
// the candidate sets of the older families is gated on the family name, so those stay exactly as
// they were.

// deep reports whether the design belongs to a deep-structure family.
func (s *Spec) deep() bool { return strings.HasPrefix(s.Family, "deep") }

// maxDepth bounds the nesting of enumerated object values (the bound exists for recursive
// types). Deep families nest user types three levels below the payload attribute.
func (s *Spec) maxDepth() int {
	if s.deep() {
		return 6
	}
	return 3
}

// inheritFromReference resolves attributes declared by name only in a type that has a Reference:
// type, validations and default value are those of the attribute of the same name of the
// referenced type (AllAttrs adds the referenced type's required names for those attributes).
func (s *Spec) inheritFromReference(td *TypeDef, attrs []*Attr) []*Attr {
	base := s.TypeDefByName(td.Reference)
	if base == nil {
		return attrs
	}
	ba, _ := s.AllAttrs(base)
	for i, a := range attrs {
		if !a.Inherit {
			continue
		}
		for _, b := range ba {
			if b.Name == a.Name {
				c := *b
				c.Inherit = false
				attrs[i] = &c
			}
		}
	}
	return attrs
}

// unionCandidates enumerates the values of a OneOf union: every candidate of every alternative,
// as an object with exactly one key (the chosen alternative).
func (s *Spec) unionCandidates(e Eff, loc string, depth int) []any {
	var out []any
	for _, alt := range e.Attrs {
		for _, c := range s.Candidates(alt.T, loc, depth+1) {
			if c == nil {
				continue
			}
			out = append(out, Obj{alt.Name: c})
		}
	}
	return out
}

// pickInvalid selects the invalid element values placed inside a collection. The older families
// use the first n. Deep families take one value per distinct set of violated rules (so that a
// missing required field of an element does not crowd out its boundary violations), at most 6.
func (s *Spec) pickInvalid(t *Type, invalid []any, n int) []any {
	if !s.deep() {
		if len(invalid) > n {
			return invalid[:n]
		}
		return invalid
	}
	seen := map[string]bool{}
	var out []any
	for _, v := range invalid {
		var keys []string
		for _, is := range s.Check(t, v, "") {
			keys = append(keys, is.String())
		}
		sort.Strings(keys)
		k := strings.Join(keys, ",")
		if seen[k] {
			continue
		}
		seen[k] = true
		out = append(out, v)
		if len(out) == 6 {
			break
		}
	}
	return out
}

package spec

import (
	"fmt"
	"strings"
)

// Deep type-structure families: JSON bodies whose type structure goes beyond the L1 menus.
//
//	DeepShapes      shape x position, no validations          (C01 compile, C02 payload, C03 result)
//	DeepValidation  keyword x deep position                   (C01 compile, C04 both sides)
//
// The menus are finite and enumerated completely; the sizes are stated in DeepShapesDoc /
// DeepValidationDoc (and printed into the evidence by the checks). Designs of these families carry
// a family name starting with "deep": the reference model (ref_deep.go) nests enumerated values
// deeper for them and selects invalid collection elements per violated rule.
//
// Naming: methods are m<N>. Types whose definition differs between cases carry the method number
// ("ItM12"), unions declared directly in a payload/result are named "um<N>", so that (a) Pack never
// merges two different definitions under one name and (b) a compiler diagnostic inside the code
// generated for such a type is attributed to the method that owns it. A OneOf union can only be
// declared as an attribute of an object (dsl.OneOf): a union as the whole payload/result, or
// directly as an array element, is not expressible with the public DSL; "union inside an array" is
// an array of a user type holding the union.

// deepInner is the user type of the L1 menu (same definition, so designs may share it).
func deepInner() *TypeDef {
	return &TypeDef{Name: "Inner", Kind: "type", Attrs: []*Attr{A("ia", P(KString)), A("ib", P(KInt)), AD("ic", P(KString), "idef")}, Required: []string{"ia"}}
}

func deepAliasS() *TypeDef { return &TypeDef{Name: "AliasS", Kind: "alias", Base: P(KString)} }
func deepAliasI() *TypeDef { return &TypeDef{Name: "AliasI", Kind: "alias", Base: P(KInt)} }

func unionT(alts ...*Attr) *Type { return &Type{K: KUnion, Attrs: alts} }

type deepShape struct {
	Name  string
	T     *Type
	Defs  []*TypeDef
	Union bool // the attribute itself is the union (attribute positions only)
	Attr  bool // usable as an attribute of the payload/result object
	Whole bool // usable as the whole payload/result
	Quick bool
}

func deepShapeMenu() []deepShape {
	inner, aliasS, aliasI := deepInner(), deepAliasS(), deepAliasI()
	outer := &TypeDef{Name: "Outer", Kind: "type", Attrs: []*Attr{A("name", P(KString)), A("inner", User("Inner")), A("opt", User("Inner")), A("list", ArrT(User("Inner")))}, Required: []string{"name", "inner"}}
	holder := &TypeDef{Name: "Holder", Kind: "type", Attrs: []*Attr{
		A("label", P(KString)),
		A("hu", unionT(A("hs", P(KString)), A("hi", P(KInt)))),
		A("ho", unionT(A("hb", P(KBool)), A("hn", User("Inner")))),
	}, Required: []string{"hu"}}
	pair := &TypeDef{Name: "Pair", Kind: "type", Attrs: []*Attr{A("left", User("Inner")), A("right", User("Inner")), A("more", ArrT(User("Inner")))}, Required: []string{"left"}}
	mutA := &TypeDef{Name: "MutA", Kind: "type", Attrs: []*Attr{A("name", P(KString)), A("b", User("MutB"))}, Required: []string{"name"}}
	mutB := &TypeDef{Name: "MutB", Kind: "type", Attrs: []*Attr{A("val", P(KInt)), A("a", User("MutA")), A("as", ArrT(User("MutA")))}}
	innerD := &TypeDef{Name: "InnerD", Kind: "type", Attrs: []*Attr{AD("da", P(KString), "dd"), AD("db", P(KInt), 7), A("dr", P(KString)), AD("dl", ArrT(P(KString)), []any{"x", "y"})}, Required: []string{"dr"}}
	wrapD := &TypeDef{Name: "WrapD", Kind: "type", Attrs: []*Attr{A("opt", User("InnerD")), A("req", User("InnerD")), A("arr", ArrT(User("InnerD")))}, Required: []string{"req"}}
	mid := &TypeDef{Name: "Mid", Kind: "type", Attrs: []*Attr{A("leafs", ArrT(User("Inner"))), A("lm", MapT(P(KString), User("Inner")))}}
	top := &TypeDef{Name: "Top", Kind: "type", Attrs: []*Attr{A("tn", P(KString)), A("mid", User("Mid"))}, Required: []string{"mid"}}
	nest := &TypeDef{Name: "Nest", Kind: "type", Attrs: []*Attr{A("nu", unionT(A("nh", User("Holder")), A("ns", P(KString))))}, Required: []string{"nu"}}
	refD := &TypeDef{Name: "RefD", Kind: "type", Reference: "InnerD", Attrs: []*Attr{{Name: "da", Inherit: true}, {Name: "db", Inherit: true}, {Name: "dr", Inherit: true}, A("own", P(KString))}, Required: []string{"dr"}}
	d := func(l ...*TypeDef) []*TypeDef { return l }
	return []deepShape{
		// 1. OneOf unions
		{Name: "union_prim", T: unionT(A("us", P(KString)), A("ui", P(KInt)), A("ub", P(KBool))), Union: true, Attr: true, Quick: true},
		{Name: "union_user", T: unionT(A("us", P(KString)), A("uo", User("Inner"))), Defs: d(inner), Union: true, Attr: true, Quick: true},
		{Name: "union_alias", T: unionT(A("ua", User("AliasS")), A("ui", User("AliasI"))), Defs: d(aliasS, aliasI), Union: true, Attr: true, Quick: true},
		{Name: "user_with_union", T: User("Holder"), Defs: d(inner, holder), Attr: true, Whole: true, Quick: true},
		{Name: "arr_user_with_union", T: ArrT(User("Holder")), Defs: d(inner, holder), Attr: true, Whole: true, Quick: true},
		{Name: "union_collections", T: unionT(A("ua", ArrT(P(KString))), A("um", MapT(P(KString), P(KInt))), A("us", P(KString))), Union: true, Attr: true},
		{Name: "union_five", T: unionT(A("us", P(KString)), A("ui", P(KInt)), A("ub", P(KBool)), A("uf", P(KFloat64)), A("ux", P(KBytes))), Union: true, Attr: true},
		{Name: "union_nested", T: User("Nest"), Defs: d(inner, holder, nest), Attr: true, Whole: true},
		{Name: "map_user_with_union", T: MapT(P(KString), User("Holder")), Defs: d(inner, holder), Attr: true, Whole: true},
		// 2. nesting depth 2-3
		{Name: "arr_outer", T: ArrT(User("Outer")), Defs: d(inner, outer), Attr: true, Whole: true, Quick: true},
		{Name: "map_user", T: MapT(P(KString), User("Inner")), Defs: d(inner), Attr: true, Whole: true, Quick: true},
		{Name: "map_arr_user", T: MapT(P(KString), ArrT(User("Inner"))), Defs: d(inner), Attr: true, Whole: true, Quick: true},
		{Name: "arr_arr_string", T: ArrT(ArrT(P(KString))), Attr: true, Whole: true, Quick: true},
		{Name: "arr_map", T: ArrT(MapT(P(KString), P(KInt))), Attr: true, Whole: true, Quick: true},
		{Name: "two_positions", T: User("Pair"), Defs: d(inner, pair), Attr: true, Whole: true, Quick: true},
		{Name: "mutual", T: User("MutA"), Defs: d(mutA, mutB), Attr: true, Whole: true, Quick: true},
		{Name: "inner_defaults", T: User("WrapD"), Defs: d(innerD, wrapD), Attr: true, Whole: true, Quick: true},
		{Name: "arr_arr_user", T: ArrT(ArrT(User("Inner"))), Defs: d(inner), Attr: true, Whole: true},
		{Name: "arr_arr_int", T: ArrT(ArrT(P(KInt))), Attr: true, Whole: true},
		{Name: "map_map", T: MapT(P(KString), MapT(P(KString), P(KString))), Attr: true, Whole: true},
		{Name: "map_int_user", T: MapT(P(KInt), User("Inner")), Defs: d(inner), Attr: true, Whole: true},
		{Name: "depth3", T: User("Top"), Defs: d(inner, mid, top), Attr: true, Whole: true},
		{Name: "inline_nested", T: ObjT([]string{"oa"}, A("oa", ObjT([]string{"ob"}, A("ob", P(KString)), AD("oc", P(KInt), 5))), A("od", P(KString))), Attr: true},
		{Name: "arr_alias", T: ArrT(User("AliasS")), Defs: d(aliasS), Attr: true, Whole: true},
		{Name: "map_alias", T: MapT(P(KString), User("AliasI")), Defs: d(aliasI), Attr: true, Whole: true},
		{Name: "reference_defaults", T: User("RefD"), Defs: d(innerD, refD), Attr: true, Whole: true},
		// 4. non-object bodies whose attribute form is already in the L1 menu
		{Name: "arr_user", T: ArrT(User("Inner")), Defs: d(inner), Whole: true, Quick: true},
		{Name: "alias_string", T: User("AliasS"), Defs: d(aliasS), Whole: true, Quick: true},
		{Name: "alias_int", T: User("AliasI"), Defs: d(aliasI), Whole: true, Quick: true},
		{Name: "arr_string", T: ArrT(P(KString)), Whole: true},
		{Name: "map_string_int", T: MapT(P(KString), P(KInt)), Whole: true},
	}
}

// deepMethod builds a POST method whose request body is body (side "payload") or a GET method
// whose 200 response body is body (side "result"); bodyForm is HTTPMap.Body / Resp.Body.
func deepMethod(side, name string, body *Type, bodyForm string) *Method {
	m := &Method{Name: name}
	if side == "payload" {
		m.Payload = body
		m.HTTP = &HTTPMap{Verb: "POST", Path: "/" + name, Body: bodyForm}
	} else {
		m.Result = body
		m.HTTP = &HTTPMap{Verb: "GET", Path: "/" + name, Responses: []Resp{{Status: 200, Body: bodyForm}}}
	}
	return m
}

func deepCopyType(t *Type) *Type {
	if t == nil {
		return nil
	}
	c := *t
	c.Elem, c.Key = deepCopyType(t.Elem), deepCopyType(t.Key)
	if t.Attrs != nil {
		c.Attrs = make([]*Attr, len(t.Attrs))
		for i, a := range t.Attrs {
			ca := *a
			ca.T = deepCopyType(a.T)
			c.Attrs[i] = &ca
		}
	}
	return &c
}

// DeepShapesDoc states the menu of DeepShapes.
const DeepShapesDoc = "deep-shape families (per side): shape menu x position, JSON body only, no validations. " +
	"quick: 13 attribute shapes (3 OneOf unions: primitives / with a user type / of aliases; user type holding a required and an optional union; array of it; array of user-in-user; " +
	"map of user; map of arrays of user; array of arrays; array of maps; one user type at three positions; mutually recursive A<->B; defaults and required inside optional/required/array inner objects) " +
	"x {required, optional} + 13 whole-body shapes (the 10 non-union ones, plus array of user, alias of string, alias of int; user types as the payload/result type itself) = 39 methods; " +
	"thorough: 26 attribute shapes (adds union of array/map/string, 5-alternative union incl. float and bytes, union whose alternative holds a union, map of union holder, array of arrays of user / of int, " +
	"map of maps, int-keyed map of user, three named levels Top>Mid>[]Inner, inline object in inline object, array / map of alias, Reference-inherited defaults) " +
	"x {required, optional, Body(\"attr\")} + 25 whole-body shapes = 103 methods"

// DeepShapes is shape x position for one side.
func DeepShapes(side string, thorough bool) []MethodCase {
	var out []MethodCase
	n := 0
	for _, sh := range deepShapeMenu() {
		if !sh.Quick && !thorough {
			continue
		}
		var positions []string
		if sh.Attr {
			positions = append(positions, "attr-required", "attr-optional")
			if thorough {
				positions = append(positions, "bodyattr")
			}
		}
		if sh.Whole {
			positions = append(positions, "whole")
		}
		for _, pos := range positions {
			name := fmt.Sprintf("m%d", n)
			n++
			var m *Method
			req := "required"
			switch pos {
			case "whole":
				m = deepMethod(side, name, deepCopyType(sh.T), "")
			default:
				an := "aa"
				if sh.Union {
					an = "u" + name
				}
				obj := ObjT(nil, A(an, deepCopyType(sh.T)))
				if pos != "attr-optional" {
					obj.Required = []string{an}
				} else {
					req = "optional"
				}
				form := ""
				if pos == "bodyattr" {
					form = "attr:" + an
				}
				m = deepMethod(side, name, obj, form)
			}
			// "feature" goes into the C02/C03 signatures, "valid"+"pos" into the C04 signatures
			m.Feat = map[string]string{"family": "deep-shape-" + side, "shape": sh.Name, "pos": pos, "req": req, "feature": "deep:" + sh.Name + "/" + pos, "valid": "shape:" + sh.Name}
			out = append(out, MethodCase{M: m, Types: sh.Defs})
		}
	}
	return out
}

// deep validation family ------------------------------------------------------------------

func deepValidMenu(thorough bool) []validEntry {
	all := validMenu()
	// the keyword menu is fixed by name (entries of the L1 keyword menu), so that the stated
	// sizes do not drift when the L1 menu grows
	names := []string{"enum_string", "min_int", "exmax_int", "minlen_string", "pattern_string"}
	if thorough {
		names = []string{"enum_string", "enum_int", "min_int", "max_int", "exmin_int", "exmax_int", "minmax_int32", "min_uint",
			"min_float64", "max_float64", "exmin_float64", "exmax_float32", "minlen_string", "maxlen_string", "minmaxlen_string",
			"minlen_bytes", "pattern_string", "pattern2_string", "eqlen_string", "eq_int", "eq_float64", "format_date", "format_uuid"}
	}
	pick := map[string]bool{}
	for _, n := range names {
		pick[n] = true
	}
	var out []validEntry
	for _, ve := range all {
		if pick[ve.Name] {
			out = append(out, ve)
		}
	}
	if len(out) != len(names) {
		panic("spec: deep validation menu refers to a keyword that is not in the L1 menu")
	}
	// "required": no keyword, the validated field is only required (missing_field at depth)
	out = append(out, validEntry{"required", P(KString), nil})
	return out
}

type deepPos struct {
	Name string
	// Elem: the rule sits directly on a collection element / alias / union alternative (no
	// enclosing object field), so the "required" pseudo keyword does not apply
	Elem bool
	// NoBytes: position not used for Bytes-based keywords
	NoBytes bool
	// build returns the body type (object with one attribute unless whole), the definitions and
	// whether the varied attribute is required
	build func(name string, v *Type) (body *Type, defs []*TypeDef, req bool)
}

func deepPositions() []deepPos {
	// it is the validated leaf type: It{fa: V (required), fb: Int}
	it := func(name string, v *Type) *TypeDef {
		return &TypeDef{Name: "It" + strings.ToUpper(name), Kind: "type", Attrs: []*Attr{A("fa", v), A("fb", P(KInt))}, Required: []string{"fa"}}
	}
	suf := func(name string) string { return strings.ToUpper(name) }
	one := func(a *Attr, req bool) *Type {
		o := ObjT(nil, a)
		if req {
			o.Required = []string{a.Name}
		}
		return o
	}
	return []deepPos{
		{Name: "user-field-in-array-in-user", build: func(n string, v *Type) (*Type, []*TypeDef, bool) {
			i := it(n, v)
			o := &TypeDef{Name: "Out" + suf(n), Kind: "type", Attrs: []*Attr{A("title", P(KString)), A("items", ArrT(User(i.Name)))}}
			return one(A("aa", User(o.Name)), true), []*TypeDef{i, o}, true
		}},
		{Name: "user-field-in-user-in-array", build: func(n string, v *Type) (*Type, []*TypeDef, bool) {
			i := it(n, v)
			o := &TypeDef{Name: "Out" + suf(n), Kind: "type", Attrs: []*Attr{A("inner", User(i.Name)), A("tag", P(KString))}, Required: []string{"inner"}}
			return one(A("aa", ArrT(User(o.Name))), true), []*TypeDef{i, o}, true
		}},
		{Name: "map-value-field", build: func(n string, v *Type) (*Type, []*TypeDef, bool) {
			i := it(n, v)
			return one(A("aa", MapT(P(KString), User(i.Name))), true), []*TypeDef{i}, true
		}},
		{Name: "map-of-arrays-field", build: func(n string, v *Type) (*Type, []*TypeDef, bool) {
			i := it(n, v)
			return one(A("aa", MapT(P(KString), ArrT(User(i.Name)))), false), []*TypeDef{i}, false
		}},
		{Name: "array-of-arrays-element", Elem: true, NoBytes: true, build: func(n string, v *Type) (*Type, []*TypeDef, bool) {
			return one(A("aa", ArrT(ArrT(v))), true), nil, true
		}},
		{Name: "array-of-maps-element", Elem: true, NoBytes: true, build: func(n string, v *Type) (*Type, []*TypeDef, bool) {
			return one(A("aa", ArrT(MapT(P(KString), v))), true), nil, true
		}},
		{Name: "union-alternative-primitive", Elem: true, build: func(n string, v *Type) (*Type, []*TypeDef, bool) {
			return one(A("u"+n, unionT(A("uv", v), A("ub", P(KBool)))), true), nil, true
		}},
		{Name: "union-alternative-user-field", build: func(n string, v *Type) (*Type, []*TypeDef, bool) {
			i := it(n, v)
			return one(A("u"+n, unionT(A("uo", User(i.Name)), A("ub", P(KBool)))), true), []*TypeDef{i}, true
		}},
		{Name: "union-alternative-alias", Elem: true, build: func(n string, v *Type) (*Type, []*TypeDef, bool) {
			al := &TypeDef{Name: "Al" + suf(n), Kind: "alias", Base: v}
			return one(A("u"+n, unionT(A("ua", User(al.Name)), A("ub", P(KBool)))), false), []*TypeDef{al}, false
		}},
		{Name: "union-in-user-in-array", Elem: true, build: func(n string, v *Type) (*Type, []*TypeDef, bool) {
			h := &TypeDef{Name: "Ho" + suf(n), Kind: "type", Attrs: []*Attr{A("hu"+n, unionT(A("uv", v), A("ub", P(KBool))))}, Required: []string{"hu" + n}}
			return one(A("aa", ArrT(User(h.Name))), true), []*TypeDef{h}, true
		}},
		{Name: "optional-object-required-field", build: func(n string, v *Type) (*Type, []*TypeDef, bool) {
			i := it(n, v)
			return one(A("aa", User(i.Name)), false), []*TypeDef{i}, false
		}},
		{Name: "mutual-recursion-field", build: func(n string, v *Type) (*Type, []*TypeDef, bool) {
			a := &TypeDef{Name: "Ra" + suf(n), Kind: "type", Attrs: []*Attr{A("name", P(KString)), A("b", User("Rb"+suf(n)))}}
			b := &TypeDef{Name: "Rb" + suf(n), Kind: "type", Attrs: []*Attr{A("fa", v), A("a", User("Ra"+suf(n)))}, Required: []string{"fa"}}
			return one(A("aa", User(a.Name)), true), []*TypeDef{a, b}, true
		}},
		{Name: "one-type-at-three-positions", build: func(n string, v *Type) (*Type, []*TypeDef, bool) {
			i := it(n, v)
			p := &TypeDef{Name: "Pa" + suf(n), Kind: "type", Attrs: []*Attr{A("left", User(i.Name)), A("right", User(i.Name)), A("rest", ArrT(User(i.Name)))}, Required: []string{"left"}}
			return one(A("aa", User(p.Name)), true), []*TypeDef{i, p}, true
		}},
		{Name: "three-named-levels", build: func(n string, v *Type) (*Type, []*TypeDef, bool) {
			i := it(n, v)
			mid := &TypeDef{Name: "Mi" + suf(n), Kind: "type", Attrs: []*Attr{A("leafs", ArrT(User(i.Name))), A("note", P(KString))}}
			top := &TypeDef{Name: "To" + suf(n), Kind: "type", Attrs: []*Attr{A("mid", User(mid.Name)), A("tn", P(KString))}, Required: []string{"mid"}}
			return one(A("aa", User(top.Name)), true), []*TypeDef{i, mid, top}, true
		}},
		{Name: "reference-inherited-field", build: func(n string, v *Type) (*Type, []*TypeDef, bool) {
			base := &TypeDef{Name: "Rf" + suf(n), Kind: "type", Attrs: []*Attr{A("fa", v), AD("fb", P(KInt), 3)}}
			ch := &TypeDef{Name: "Ch" + suf(n), Kind: "type", Reference: base.Name, Attrs: []*Attr{{Name: "fa", Inherit: true}, {Name: "fb", Inherit: true}, A("own", P(KString))}, Required: []string{"fa"}}
			return one(A("aa", User(ch.Name)), true), []*TypeDef{base, ch}, true
		}},
		{Name: "reference-inherited-field-in-array", build: func(n string, v *Type) (*Type, []*TypeDef, bool) {
			base := &TypeDef{Name: "Rf" + suf(n), Kind: "type", Attrs: []*Attr{A("fa", v), AD("fb", P(KInt), 3)}}
			ch := &TypeDef{Name: "Ch" + suf(n), Kind: "type", Reference: base.Name, Attrs: []*Attr{{Name: "fa", Inherit: true}, A("own", P(KString))}, Required: []string{"fa"}}
			return one(A("aa", ArrT(User(ch.Name))), false), []*TypeDef{base, ch}, false
		}},
		// 4. non-object bodies as the whole payload / result
		{Name: "whole-array-of-user-field", build: func(n string, v *Type) (*Type, []*TypeDef, bool) {
			i := it(n, v)
			return ArrT(User(i.Name)), []*TypeDef{i}, true
		}},
		{Name: "whole-map-of-user-field", build: func(n string, v *Type) (*Type, []*TypeDef, bool) {
			i := it(n, v)
			return MapT(P(KString), User(i.Name)), []*TypeDef{i}, true
		}},
		{Name: "whole-alias", Elem: true, build: func(n string, v *Type) (*Type, []*TypeDef, bool) {
			al := &TypeDef{Name: "Al" + suf(n), Kind: "alias", Base: v}
			return User(al.Name), []*TypeDef{al}, true
		}},
		{Name: "whole-array-element", Elem: true, NoBytes: true, build: func(n string, v *Type) (*Type, []*TypeDef, bool) {
			return ArrT(v), nil, true
		}},
		{Name: "whole-user-type-with-array-of-user", build: func(n string, v *Type) (*Type, []*TypeDef, bool) {
			i := it(n, v)
			o := &TypeDef{Name: "Out" + suf(n), Kind: "type", Attrs: []*Attr{A("title", P(KString)), A("items", ArrT(User(i.Name)))}}
			return User(o.Name), []*TypeDef{i, o}, true
		}},
	}
}

// DeepValidationDoc states the menu of DeepValidation.
const DeepValidationDoc = "deep-validation families (per side): keyword x deep position, JSON body. positions (21): field of a user type inside an array inside a user type; inside a user type inside an array; " +
	"of a map value; of an element of an array that is a map value; element of an array of arrays; element of a map inside an array; OneOf alternative (primitive, field of a user-type alternative, alias alternative); " +
	"OneOf alternative of a union held by a user type inside an array; required field of an OPTIONAL object; field across mutually recursive types; one type at three positions; three named levels; " +
	"field inherited through Reference (alone and inside an array); whole body = array of user / map of user / primitive alias / array of validated primitives / user type holding an array of user. " +
	"keywords quick (6): enum_string, min_int, exmax_int, minlen_string, pattern_string, required-only; thorough (24): the 21 non-format keywords of the L1 menu, format date, format uuid, required-only; " +
	"the required-only keyword is dropped at the 7 element positions and Bytes keywords at the 3 bare-element positions; " +
	"plus 8 collection-length cases (MaxLength / MinLength of an inner array: field of a user type inside an array, inner array of an array of arrays, map value, OneOf alternative). " +
	"quick: 5x21 + 14 + 8 = 127 methods; thorough: 23x21 - 3 + 14 + 8 = 502 methods"

// DeepValidation is keyword x deep position for one side.
func DeepValidation(side string, thorough bool) []MethodCase {
	var out []MethodCase
	n := 0
	add := func(body *Type, form string, defs []*TypeDef, valid, pos string, req bool, own bool) {
		name := fmt.Sprintf("m%d", n)
		m := deepMethod(side, name, body, form)
		r := "optional"
		if req {
			r = "required"
		}
		m.Feat = map[string]string{"family": "deep-validation-" + side, "valid": valid, "pos": pos, "loc": LocBody, "req": r}
		out = append(out, MethodCase{M: m, Types: defs, Own: own})
	}
	// A length rule declared on a OneOf alternative gets a design of its own: goa's example
	// generator panics on it (known finding), and a generator failure takes the whole design
	// with it; the neighbouring cases must not be lost.
	lengthOnUnion := func(v *Valid, pos string) bool {
		return v != nil && (v.MinLen != nil || v.MaxLen != nil) && strings.HasPrefix(pos, "union-")
	}
	for _, ve := range deepValidMenu(thorough) {
		for _, dp := range deepPositions() {
			if ve.V == nil && dp.Elem {
				continue
			}
			if dp.NoBytes && ve.Base.K == KBytes {
				continue
			}
			name := fmt.Sprintf("m%d", n)
			v := cloneType(ve.Base)
			if ve.V != nil {
				v = WithV(ve.Base, ve.V)
			}
			body, defs, req := dp.build(name, v)
			add(body, "", defs, ve.Name, dp.Name, req, lengthOnUnion(ve.V, dp.Name) && dp.Elem)
			n++
		}
	}
	// lengths of inner collections
	for _, lv := range []struct {
		name string
		v    *Valid
	}{{"maxlen_array", &Valid{MaxLen: I(2)}}, {"minlen_array", &Valid{MinLen: I(2)}}} {
		inArr := func() *Type { return WithV(ArrT(P(KString)), lv.v) }
		name := fmt.Sprintf("m%d", n)
		oc := &TypeDef{Name: "Oc" + strings.ToUpper(name), Kind: "type", Attrs: []*Attr{A("tags", inArr()), A("id", P(KString))}, Required: []string{"id", "tags"}}
		add(ObjT([]string{"aa"}, A("aa", ArrT(User(oc.Name)))), "", []*TypeDef{oc}, lv.name, "array-field-of-user-in-array", true, false)
		n++
		add(ObjT([]string{"aa"}, A("aa", ArrT(inArr()))), "", nil, lv.name, "inner-array-of-array-of-arrays", true, false)
		n++
		add(ObjT(nil, A("aa", MapT(P(KString), inArr()))), "", nil, lv.name, "array-as-map-value", false, false)
		n++
		name = fmt.Sprintf("m%d", n)
		add(ObjT([]string{"u" + name}, A("u"+name, unionT(A("ul", inArr()), A("ub", P(KBool))))), "", nil, lv.name, "union-alternative-array", true, true)
		n++
	}
	return out
}

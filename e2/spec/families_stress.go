package spec

import (
	"fmt"
	"strings"
)

// StressNames is the identifier-stress menu: Go keywords, predeclared identifiers, identifiers
// the goa templates use themselves, acronyms, and pairs that Goify to the same identifier.
func StressNames(thorough bool) []string {
	quick := []string{
		"type", "func", "range", "package", "default", "map", "interface", "select", "go", "var",
		"string", "error", "nil", "len", "any",
		"body", "err", "res", "p", "v", "ctx", "req", "resp", "w", "r", "s", "c", "ok", "val", "payload", "result", "enc", "dec",
		"client", "endpoints", "service", "server", "view", "stream", "mux", "e", "t", "i",
		"id", "url", "api", "user_id", "foo_bar", "fooBar", "x_y", "xY",
	}
	if !thorough {
		return quick
	}
	more := []string{
		"import", "chan", "struct", "switch", "case", "const", "return", "if", "for", "else", "break", "continue", "fallthrough", "defer", "goto",
		"int", "bool", "byte", "true", "false", "make", "new", "append", "panic", "print", "float64", "uint", "rune", "iota", "cap", "copy", "delete", "close",
		"handler", "svc", "data", "message", "name", "http", "json", "goa", "fmt", "io", "context", "strings", "errors", "unicode", "security", "goahttp", "strconv", "bytes", "url_", "utf8",
		"decoder", "encoder", "ep", "views", "h", "m", "n", "b", "d", "k", "u", "vres", "vals", "raw", "key", "value", "elem", "item", "key_raw", "keyRaw",
		"mount_point", "new_client", "new", "mount", "use", "method_names", "service_name", "auther", "basic_auth", "jwt_auth",
		"ID", "URL", "APIKey", "HTTPServer", "a1", "a_1", "_a", "a_", "a__b", "A",
	}
	return append(quick, more...)
}

// L3StressAttrs puts every stress name in every attribute position: payload attribute at
// path/query/header/cookie/body and result attribute at header/body.
func L3StressAttrs(thorough bool) []MethodCase {
	var out []MethodCase
	n := 0
	for _, name := range StressNames(thorough) {
		for _, loc := range allLocs {
			m := PayloadMethod(fmt.Sprintf("m%d", n), []attrAt{{A(name, P(KString)), loc, loc == LocPath}, {A("zz", P(KInt)), LocBody, false}})
			// wire names derived from the attribute must stay valid tokens
			fixWire(m.HTTP, name, loc, n)
			n++
			m.Feat = map[string]string{"family": "L3-stress-attr", "name": name, "pos": "payload-" + loc}
			out = append(out, MethodCase{M: m})
		}
		for _, loc := range []string{LocHeader, LocBody} {
			m := ResultMethod(fmt.Sprintf("m%d", n), []attrAt{{A(name, P(KString)), loc, false}, {A("zz", P(KInt)), LocBody, false}}, 200)
			fixWire(m.HTTP, name, loc, n)
			if loc == LocHeader {
				m.HTTP.Responses[0].Headers = []Map{{name, fmt.Sprintf("X-W%d", n)}}
			}
			n++
			m.Feat = map[string]string{"family": "L3-stress-attr", "name": name, "pos": "result-" + loc}
			out = append(out, MethodCase{M: m})
		}
	}
	return out
}

func fixWire(h *HTTPMap, name, loc string, n int) {
	w := fmt.Sprintf("w%d", n)
	for i := range h.Params {
		if h.Params[i].Attr == name {
			h.Params[i].Wire = w
		}
	}
	for i := range h.Headers {
		if h.Headers[i].Attr == name {
			h.Headers[i].Wire = "X-W" + fmt.Sprint(n)
		}
	}
	for i := range h.Cookies {
		if h.Cookies[i].Attr == name {
			h.Cookies[i].Wire = w
		}
	}
}

// L3StressNames puts every stress name in the other name positions: method, user type,
// result type, error, view, alias type. Each case lives in its own service.
func L3StressNames(thorough bool) []MethodCase {
	var out []MethodCase
	n := 0
	next := func() string { n++; return fmt.Sprintf("m%d", n-1) }
	for _, name := range StressNames(thorough) {
		// method name
		{
			m := PayloadMethod(name, []attrAt{{A("aa", P(KString)), LocQuery, false}})
			m.HTTP.Path = "/" + next()
			m.Result = ObjT(nil, A("ra", P(KString)))
			m.Feat = map[string]string{"family": "L3-stress-name", "name": name, "pos": "method"}
			out = append(out, MethodCase{M: m, Own: true})
		}
		// user type name (payload and nested)
		{
			tn := name
			td := &TypeDef{Name: tn, Kind: "type", Attrs: []*Attr{A("ta", P(KString)), A("tb", P(KInt))}, Required: []string{"ta"}}
			m := &Method{Name: next(), Payload: User(tn), Result: ObjT(nil, A("nested", User(tn))), HTTP: &HTTPMap{Verb: "POST"}}
			m.HTTP.Path = "/" + m.Name
			m.Feat = map[string]string{"family": "L3-stress-name", "name": name, "pos": "user-type"}
			out = append(out, MethodCase{M: m, Types: []*TypeDef{td}, Own: true})
		}
		// result type name with a view of that name too
		{
			td := &TypeDef{Name: name, Kind: "result", Attrs: []*Attr{A("ta", P(KString)), A("tb", P(KInt))}, Required: []string{"ta"},
				Views: []View{{Name: "default", Attrs: []string{"ta", "tb"}}, {Name: name, Attrs: []string{"ta"}}}}
			m := &Method{Name: next(), Result: User(name), HTTP: &HTTPMap{Verb: "GET"}}
			m.HTTP.Path = "/" + m.Name
			m.Feat = map[string]string{"family": "L3-stress-name", "name": name, "pos": "result-type+view"}
			out = append(out, MethodCase{M: m, Types: []*TypeDef{td}, Own: true})
		}
		// error name
		{
			m := &Method{Name: next(), Payload: ObjT(nil, A("aa", P(KString))), Result: ObjT(nil, A("ra", P(KString))), HTTP: &HTTPMap{Verb: "POST"}}
			m.HTTP.Path = "/" + m.Name
			m.Errors = []ErrorDef{{Name: name}, {Name: name + "_x", Type: P(KString)}}
			m.HTTP.Responses = []Resp{{Error: name, Status: 400}, {Error: name + "_x", Status: 409}}
			m.Feat = map[string]string{"family": "L3-stress-name", "name": name, "pos": "error"}
			out = append(out, MethodCase{M: m, Own: true})
		}
		// alias type name
		{
			td := &TypeDef{Name: name, Kind: "alias", Base: WithV(P(KString), &Valid{MinLen: I(1)})}
			m := PayloadMethod(next(), []attrAt{{A("aa", User(name)), LocQuery, true}, {A("bb", ArrT(User(name))), LocBody, false}})
			m.Feat = map[string]string{"family": "L3-stress-name", "name": name, "pos": "alias-type"}
			out = append(out, MethodCase{M: m, Types: []*TypeDef{td}, Own: true})
		}
	}
	return out
}

// L2Features are structural features that C01 (compilation) and C07 (OpenAPI) care about:
// multiple routes, verbs, base paths, wildcards, file servers, map params, body forms,
// content types, multipart, skip-encode, streaming.
func L2Features() []MethodCase {
	var out []MethodCase
	n := 0
	mk := func(feat string) *Method {
		m := &Method{Name: fmt.Sprintf("m%d", n), Feat: map[string]string{"family": "L2-features", "feature": feat}, HTTP: &HTTPMap{Verb: "POST"}}
		m.HTTP.Path = "/" + m.Name
		n++
		return m
	}
	for _, verb := range []string{"GET", "POST", "PUT", "PATCH", "DELETE", "HEAD", "OPTIONS", "TRACE", "CONNECT"} {
		m := mk("verb-" + strings.ToLower(verb))
		m.HTTP.Verb = verb
		m.Payload = ObjT(nil, A("qq", P(KString)))
		m.HTTP.Params = []Map{{"qq", "q"}}
		if verb != "HEAD" {
			m.Result = ObjT(nil, A("ra", P(KString)))
		}
		out = append(out, MethodCase{M: m})
	}
	{
		m := mk("multiple-routes")
		m.Payload = ObjT([]string{"id"}, A("id", P(KString)), A("qq", P(KInt)))
		m.HTTP.Path = "/" + m.Name + "/{id}"
		m.HTTP.Routes = []string{"GET /" + m.Name + "/alt/{id}", "PUT /" + m.Name + "/{id}/x"}
		m.HTTP.Params = []Map{{"qq", "q"}}
		out = append(out, MethodCase{M: m})
	}
	// services with base paths: one or two base paths x routes {relative, absolute (//...)} in
	// every order of up to three routes (an absolute route ignores the base paths)
	for _, bases := range [][]string{{"/b1"}, {"/b1", "/b2"}, {"/b1/{ver}", "/b2/{ver}"}} {
		for _, shape := range []string{"rel", "abs", "rel+abs", "abs+rel", "rel+rel", "rel+abs+rel", "abs+abs"} {
			if len(bases) == 1 && shape != "rel+abs" && shape != "abs" {
				continue
			}
			m := mk("base-paths-" + fmt.Sprint(len(bases)) + map[bool]string{true: "v", false: ""}[strings.Contains(bases[len(bases)-1], "{")] + "-" + shape)
			req := []string{"id"}
			attrs := []*Attr{A("id", P(KString)), A("qq", P(KInt))}
			if strings.Contains(bases[len(bases)-1], "{ver}") {
				// a base path with a parameter: every route must bind it, so only relative routes
				if strings.Contains(shape, "abs") {
					n--
					continue
				}
				req = append(req, "ver")
				attrs = append(attrs, A("ver", P(KString)))
			}
			m.Payload = ObjT(req, attrs...)
			m.HTTP.Verb = "GET"
			m.HTTP.Params = []Map{{"qq", "q"}}
			var routes []string
			for i, k := range strings.Split(shape, "+") {
				p := fmt.Sprintf("/%s/r%d/{id}", m.Name, i)
				if k == "abs" {
					p = "/" + p
				}
				routes = append(routes, p)
			}
			m.HTTP.Path = routes[0]
			for _, r := range routes[1:] {
				m.HTTP.Routes = append(m.HTTP.Routes, "GET "+r)
			}
			out = append(out, MethodCase{M: m, Own: true, SvcPath: bases[0], SvcPaths: bases[1:]})
		}
	}
	{
		m := mk("catch-all")
		m.Payload = ObjT([]string{"rest"}, A("rest", P(KString)))
		m.HTTP.Verb = "GET"
		m.HTTP.Path = "/" + m.Name + "/{*rest}"
		out = append(out, MethodCase{M: m})
	}
	{
		m := mk("map-params")
		m.Payload = MapT(P(KString), P(KString))
		m.HTTP.Verb = "GET"
		m.HTTP.MapParams = "*"
		out = append(out, MethodCase{M: m})
	}
	{
		m := mk("map-params-attr")
		m.Payload = ObjT(nil, A("filters", MapT(P(KString), ArrT(P(KString)))), A("aa", P(KString)))
		m.HTTP.MapParams = "filters"
		out = append(out, MethodCase{M: m})
	}
	{
		m := mk("body-attr")
		m.Payload = ObjT([]string{"doc"}, A("doc", ArrT(P(KString))), A("qq", P(KString)))
		m.HTTP.Params = []Map{{"qq", "q"}}
		m.HTTP.Body = "attr:doc"
		m.Result = ObjT([]string{"ra"}, A("ra", P(KString)), A("rh", P(KInt)))
		m.HTTP.Responses = []Resp{{Status: 200, Headers: []Map{{"rh", "X-Rh"}}, Body: "attr:ra"}}
		out = append(out, MethodCase{M: m})
	}
	// an API-level base path (with and without a service base path) x route orders: an absolute
	// route ignores both
	for _, svcBase := range []string{"", "/sb"} {
		for _, shape := range []string{"rel", "abs", "rel+abs", "abs+rel"} {
			m := mk("api-path-" + map[bool]string{true: "svc-", false: ""}[svcBase != ""] + shape)
			m.Payload = ObjT([]string{"id"}, A("id", P(KString)), A("qq", P(KInt)))
			m.HTTP.Verb = "GET"
			m.HTTP.Params = []Map{{"qq", "q"}}
			var routes []string
			for i, k := range strings.Split(shape, "+") {
				p := fmt.Sprintf("/%s/r%d/{id}", m.Name, i)
				if k == "abs" {
					p = "/" + p
				}
				routes = append(routes, p)
			}
			m.HTTP.Path = routes[0]
			for _, r := range routes[1:] {
				m.HTTP.Routes = append(m.HTTP.Routes, "GET "+r)
			}
			out = append(out, MethodCase{M: m, Own: true, APIPath: "/api", SvcPath: svcBase})
		}
	}
	// two methods of one service share one named payload type and send different, identically
	// typed attributes of it as their body (the other one travels in the query string)
	for _, elem := range []string{"string", "int"} {
		et := P(KString)
		if elem == "int" {
			et = P(KInt)
		}
		shared := &TypeDef{Name: "BShared" + strings.Title(elem), Kind: "type", Attrs: []*Attr{A("xa", ArrT(et)), A("xb", ArrT(cloneType(et)))}}
		for _, at := range []string{"xa", "xb"} {
			other := map[string]string{"xa": "xb", "xb": "xa"}[at]
			m := mk("shared-payload-body-" + elem + "-" + at)
			m.Payload = User(shared.Name)
			m.HTTP.Params = []Map{{other, "o"}}
			m.HTTP.Body = "attr:" + at
			out = append(out, MethodCase{M: m, Types: []*TypeDef{shared}, SameService: "shared-payload-body-" + elem})
		}
	}
	{
		m := mk("body-attrs")
		m.Payload = ObjT(nil, A("ba", P(KString)), A("bb", P(KInt)), A("hh", P(KString)))
		m.HTTP.Headers = []Map{{"hh", "X-Hh"}}
		m.HTTP.Body = "attrs:ba,bb"
		out = append(out, MethodCase{M: m})
	}
	{
		m := mk("empty-body")
		m.Payload = ObjT(nil, A("hh", P(KString)))
		m.HTTP.Headers = []Map{{"hh", "X-Hh"}}
		m.HTTP.Body = "empty"
		m.Result = ObjT(nil, A("rh", P(KString)))
		m.HTTP.Responses = []Resp{{Status: 204, Headers: []Map{{"rh", "X-Rh"}}, Body: "empty"}}
		out = append(out, MethodCase{M: m})
	}
	for _, ct := range []string{"application/json", "application/xml", "application/gob", "text/plain", "application/vnd.goa.thing+json"} {
		m := mk("content-type")
		m.Feat["content-type"] = ct
		m.HTTP.Verb = "GET"
		if strings.HasPrefix(ct, "text/") {
			m.Result = P(KString)
		} else {
			m.Result = ObjT(nil, A("ra", P(KString)))
		}
		m.HTTP.Responses = []Resp{{Status: 200, ContentType: ct}}
		out = append(out, MethodCase{M: m})
	}
	{
		m := mk("primitive-payload-and-result")
		m.Payload = P(KString)
		m.Result = ArrT(P(KInt))
		out = append(out, MethodCase{M: m})
	}
	{
		m := mk("multipart")
		m.Payload = ObjT([]string{"aa"}, A("aa", P(KString)), A("bb", P(KBytes)))
		m.HTTP.Multipart = true
		out = append(out, MethodCase{M: m, Own: true})
	}
	{
		m := mk("skip-request-body")
		m.Payload = ObjT(nil, A("hh", P(KString)))
		m.HTTP.Headers = []Map{{"hh", "X-Hh"}}
		m.HTTP.SkipReq = true
		out = append(out, MethodCase{M: m, Own: true})
	}
	{
		m := mk("skip-response-body")
		m.HTTP.Verb = "GET"
		m.Result = ObjT(nil, A("rh", P(KString)))
		m.HTTP.Responses = []Resp{{Status: 200, Headers: []Map{{"rh", "X-Rh"}}}}
		m.HTTP.SkipResp = true
		out = append(out, MethodCase{M: m, Own: true})
	}
	for _, kind := range []string{"server", "client", "bidi", "server-with-payload", "server-two-routes", "bidi-two-routes"} {
		m := mk("streaming-" + kind)
		m.HTTP.Verb = "GET"
		if strings.HasSuffix(kind, "-two-routes") {
			m.HTTP.Routes = []string{"GET /" + m.Name + "/alt"}
			kind = strings.TrimSuffix(kind, "-two-routes")
		}
		switch kind {
		case "server":
			m.StreamResult = ObjT(nil, A("ev", P(KString)))
		case "client":
			m.StreamPayload = ObjT(nil, A("chunk", P(KString)))
			m.Result = ObjT(nil, A("total", P(KInt)))
		case "bidi":
			m.StreamPayload = ObjT(nil, A("chunk", P(KString)))
			m.StreamResult = ObjT(nil, A("ev", P(KString)))
		case "server-with-payload":
			m.Payload = ObjT(nil, A("qq", P(KString)))
			m.HTTP.Params = []Map{{"qq", "q"}}
			m.StreamResult = User("EvType")
		}
		mc := MethodCase{M: m, Own: true}
		if kind == "server-with-payload" {
			mc.Types = []*TypeDef{{Name: "EvType", Kind: "type", Attrs: []*Attr{A("ev", P(KString)), A("seq", P(KInt))}}}
		}
		out = append(out, mc)
	}
	return out
}

// L2CrossService: designs of two services whose methods bear the SAME names (and hence the same
// names for the request/response body types goa synthesises per service) with different or
// identical shapes: {payload body, result body, path parameter type} x {differs, identical}.
func L2CrossService() []MethodCase {
	var out []MethodCase
	type variant struct {
		payload, result *Type
		path            string
	}
	mk := func(group, name, svcIdx, what string, v variant) {
		m := &Method{Name: name, Payload: v.payload, Result: v.result, HTTP: &HTTPMap{Verb: "POST", Path: "/" + group + "/" + svcIdx + "/" + name + v.path},
			Feat: map[string]string{"family": "L2-cross-service", "shape": what, "service": svcIdx, "valid": what, "pos": "cross-service", "loc": LocBody, "req": "required"}}
		out = append(out, MethodCase{M: m, Group: group})
	}
	str := func(v *Valid) *Type { return WithV(P(KString), v) }
	// 1. same method name, payload bodies differ in a validation
	mk("g1", "create", "a", "payload-validation-differs", variant{payload: ObjT([]string{"name"}, A("name", str(&Valid{MaxLen: I(3)}))), result: ObjT([]string{"id"}, A("id", P(KInt)))})
	mk("g1", "create", "b", "payload-validation-differs", variant{payload: ObjT([]string{"name"}, A("name", str(&Valid{MaxLen: I(8)}))), result: ObjT([]string{"id"}, A("id", P(KInt)))})
	// 2. same method name, result bodies differ in type and validation
	mk("g2", "show", "a", "result-differs", variant{payload: ObjT([]string{"id"}, A("id", P(KInt))), path: "/{id}", result: ObjT([]string{"title"}, A("title", str(&Valid{MinLen: I(2)})), A("n", P(KInt)))})
	mk("g2", "show", "b", "result-differs", variant{payload: ObjT([]string{"id"}, A("id", P(KString))), path: "/{id}", result: ObjT([]string{"title"}, A("title", str(&Valid{MaxLen: I(3)})), A("n", P(KString)))})
	// 3. same method name, attribute sets differ
	mk("g3", "update", "a", "attribute-sets-differ", variant{payload: ObjT([]string{"aa"}, A("aa", P(KString)), A("bb", P(KInt))), result: ObjT(nil, A("ra", P(KString)))})
	mk("g3", "update", "b", "attribute-sets-differ", variant{payload: ObjT([]string{"bb"}, A("bb", P(KString)), A("cc", P(KBool))), result: ObjT(nil, A("rb", P(KBool)))})
	// 4. control: identical methods in both services
	mk("g4", "ping", "a", "identical", variant{payload: ObjT([]string{"q"}, A("q", str(&Valid{MinLen: I(1)}))), result: ObjT(nil, A("ok", P(KString)))})
	mk("g4", "ping", "b", "identical", variant{payload: ObjT([]string{"q"}, A("q", str(&Valid{MinLen: I(1)}))), result: ObjT(nil, A("ok", P(KString)))})
	// 5. three services, enum differs
	for i, en := range [][]any{{"x"}, {"x", "y"}, {"z"}} {
		mk("g5", "tag", string(rune('a'+i)), "enum-differs", variant{payload: ObjT([]string{"t"}, A("t", str(&Valid{Enum: en}))), result: ObjT(nil, A("ok", P(KString)))})
	}
	return out
}

package spec

// Constructive format tables: every string carries, from its construction, whether it is a
// valid instance of the named format. The reference never parses a format; strings outside
// the tables are never sent for format-validated attributes.
var formatTable = map[string]struct{ valid, invalid []string }{
	"date":      {[]string{"2024-02-29", "1999-12-31"}, []string{"2023-02-30", "2024-13-01", "24-01-01"}},
	"date-time": {[]string{"2024-02-29T12:30:00Z", "1999-12-31T23:59:59+01:00"}, []string{"2024-02-29", "2024-02-30T00:00:00Z"}},
	"uuid":      {[]string{"123e4567-e89b-42d3-a456-426614174000"}, []string{"123e4567-e89b-42d3-a456-42661417400g", "123e4567"}},
	"email":     {[]string{"joe@example.com"}, []string{"joe.example.com", "joe@"}},
	"hostname":  {[]string{"example.com", "a-b.example.org"}, []string{"exa_mple..com"}},
	"ipv4":      {[]string{"192.168.0.1", "0.0.0.0"}, []string{"256.1.1.1", "1.2.3", "::1", "::ffff:10.0.0.1"}},
	"ipv6":      {[]string{"::1", "2001:db8::8a2e:370:7334", "::ffff:10.0.0.1"}, []string{"1.2.3.4", "2001:db8::g"}},
	"ip":        {[]string{"10.0.0.1", "::1"}, []string{"10.0.0.256", "nope"}},
	"uri":       {[]string{"http://example.com/a?b=c", "urn:isbn:0451450523"}, []string{"://missing-scheme"}},
	"mac":       {[]string{"01:23:45:67:89:ab", "01-23-45-67-89-ab"}, []string{"01:23:45:67:89:zz", "0123"}},
	"cidr":      {[]string{"10.0.0.0/8", "2001:db8::/32"}, []string{"10.0.0.0/33", "10.0.0.0"}},
	"regexp":    {[]string{"^a+b*$", "[0-9]{2}"}, []string{"a(b", "[a-"}},
	"json":      {[]string{`{"a":1}`, `[1,2]`, `"s"`}, []string{`{"a":1,}`, `{a:1}`}},
	"rfc1123":   {[]string{"Mon, 02 Jan 2006 15:04:05 MST"}, []string{"Monday 2 Jan 2006", "2006-01-02"}},
}

// Formats lists the format names goa defines.
func Formats() []string {
	return []string{"date", "date-time", "uuid", "email", "hostname", "ipv4", "ipv6", "ip", "uri", "mac", "cidr", "regexp", "json", "rfc1123"}
}

// FormatVerdict looks s up in the constructive table of the format.
func FormatVerdict(format, s string) (valid, known bool) {
	t, ok := formatTable[format]
	if !ok {
		return false, false
	}
	if s == "" {
		// the empty string is an instance of no format except a regular expression
		return format == "regexp", true
	}
	for _, v := range t.valid {
		if v == s {
			return true, true
		}
	}
	for _, v := range t.invalid {
		if v == s {
			return false, true
		}
	}
	return false, false
}

// FormatExamples returns the table strings usable at a location.
func FormatExamples(format, loc string) []any {
	t := formatTable[format]
	var out []any
	for _, l := range [][]string{t.valid, t.invalid} {
		for _, s := range l {
			if loc == LocCookie && (format == "json" || format == "rfc1123" || format == "regexp") {
				continue // characters RFC 6265 forbids in cookie values
			}
			out = append(out, s)
		}
	}
	return out
}

// patternTable: patterns used by the families with matching and non-matching strings.
var patternTable = map[string][]string{
	"^[a-c]+$":      {"abc", "a", "abd", "", "A"},
	"^a.c$":         {"abc", "a c", "ac", "abcd"},
	"[0-9]{2}":      {"12", "a12b", "1", "x"},
	"^(x|yy)+$":     {"x", "yyx", "y", "xyz"},
	"^[0-9]{1,3}%$": {"50%", "100%", "50", "%", "5%!$(MISSING)"},
	"^a%%b%d$":      {"a%%b%d", "a%b%d", "a%b7", "ab"},
	`^\d+\.\d+$`:    {"1.5", "15", "a.b", "12.25"},
	"^`b`$":         {"`b`", "b", "`b"},
}

// PatternExamples returns strings on both sides of the pattern (classified by the reference
// with Go's regexp, which is what the design documentation names).
func PatternExamples(p string) []string {
	if ex, ok := patternTable[p]; ok {
		return ex
	}
	return []string{"abc", "", "123"}
}

package spec

import (
	"encoding/hex"
	"fmt"
	"math"
	"sort"
	"strconv"
	"strings"
)

// Neutral values: the reference model and the driver exchange values in this neutral form,
// independent of any generated Go type.
//
//	nil                      unset
//	bool, int64, uint64, float64, string, []byte   primitives
//	Arr                      array
//	MapV                     map (list of pairs)
//	Obj                      object (attribute name -> value; missing or nil = unset)
type (
	Obj  map[string]any
	Arr  []any
	KV   struct{ K, V any }
	MapV []KV
)

// Canon renders a neutral value canonically (maps sorted by key, object keys sorted, unset
// attributes omitted).
func Canon(v any) string {
	var sb strings.Builder
	canon(&sb, v)
	return sb.String()
}

func canon(sb *strings.Builder, v any) {
	switch x := v.(type) {
	case nil:
		sb.WriteString("unset")
	case bool:
		fmt.Fprintf(sb, "%v", x)
	case int64:
		fmt.Fprintf(sb, "i%d", x)
	case int:
		fmt.Fprintf(sb, "i%d", x)
	case uint64:
		fmt.Fprintf(sb, "u%d", x)
	case float64:
		if x == 0 && math.Signbit(x) {
			x = 0
		}
		sb.WriteString("f" + strconv.FormatFloat(x, 'g', -1, 64))
	case string:
		sb.WriteString(strconv.Quote(x))
	case []byte:
		sb.WriteString("x" + hex.EncodeToString(x))
	case Arr:
		sb.WriteByte('[')
		for i, e := range x {
			if i > 0 {
				sb.WriteByte(',')
			}
			canon(sb, e)
		}
		sb.WriteByte(']')
	case MapV:
		type ent struct{ k, v string }
		ents := make([]ent, len(x))
		for i, kv := range x {
			ents[i] = ent{Canon(kv.K), Canon(kv.V)}
		}
		sort.Slice(ents, func(i, j int) bool { return ents[i].k < ents[j].k })
		sb.WriteString("map{")
		for i, e := range ents {
			if i > 0 {
				sb.WriteByte(',')
			}
			sb.WriteString(e.k + ":" + e.v)
		}
		sb.WriteByte('}')
	case Obj:
		keys := make([]string, 0, len(x))
		for k, v := range x {
			if v != nil {
				keys = append(keys, k)
			}
		}
		sort.Strings(keys)
		sb.WriteByte('{')
		for i, k := range keys {
			if i > 0 {
				sb.WriteByte(',')
			}
			sb.WriteString(k + ":")
			canon(sb, x[k])
		}
		sb.WriteByte('}')
	default:
		fmt.Fprintf(sb, "?%T(%v)", v, v)
	}
}

// IsEmptyColl reports whether v is an empty array/map/bytes (equal to unset by rule 1).
func IsEmptyColl(v any) bool {
	switch x := v.(type) {
	case Arr:
		return len(x) == 0
	case MapV:
		return len(x) == 0
	case []byte:
		return len(x) == 0
	}
	return false
}

// JSONable converts a neutral value into something encoding/json renders readably.
func JSONable(v any) any {
	switch x := v.(type) {
	case Arr:
		out := make([]any, len(x))
		for i, e := range x {
			out[i] = JSONable(e)
		}
		return out
	case MapV:
		out := map[string]any{}
		for _, kv := range x {
			out[Canon(kv.K)] = JSONable(kv.V)
		}
		return out
	case Obj:
		out := map[string]any{}
		for k, e := range x {
			out[k] = JSONable(e)
		}
		return out
	case []byte:
		return "bytes:" + hex.EncodeToString(x)
	case float64:
		if math.IsInf(x, 0) || math.IsNaN(x) {
			return fmt.Sprint(x)
		}
		return x
	}
	return v
}

// Package spec is the design-space description used by engine E2. A Spec is plain data.
// Two independent consumers read it: Build (build.go) performs the corresponding public
// goa DSL calls, and the reference model (ref.go) derives, from the Spec alone, value
// domains, validation verdicts, wire locations, defaults, statuses, security verdicts and
// view contents. Nothing in this package reads goa's expr model.
package spec

// Primitive kinds and composite kinds of Type.K.
const (
	KBool    = "bool"
	KInt     = "int"
	KInt32   = "int32"
	KInt64   = "int64"
	KUInt    = "uint"
	KUInt32  = "uint32"
	KUInt64  = "uint64"
	KFloat32 = "float32"
	KFloat64 = "float64"
	KString  = "string"
	KBytes   = "bytes"
	KAny     = "any"
	KArray   = "array"
	KMap     = "map"
	KObject  = "object"
	KUser    = "user" // reference to a TypeDef by name (user type, result type or alias)
)

// Valid holds the validations attached to one attribute / element / key / alias.
type Valid struct {
	Enum    []any    `json:"enum,omitempty"`
	Min     *float64 `json:"min,omitempty"`
	Max     *float64 `json:"max,omitempty"`
	ExMin   *float64 `json:"exmin,omitempty"`
	ExMax   *float64 `json:"exmax,omitempty"`
	MinLen  *int     `json:"minlen,omitempty"`
	MaxLen  *int     `json:"maxlen,omitempty"`
	Pattern string   `json:"pattern,omitempty"`
	Format  string   `json:"format,omitempty"`
}

// Type is a data type occurrence.
type Type struct {
	K        string   `json:"k"`
	Elem     *Type    `json:"elem,omitempty"`
	Key      *Type    `json:"key,omitempty"`
	Attrs    []*Attr  `json:"attrs,omitempty"`
	Required []string `json:"required,omitempty"`
	Ref      string   `json:"ref,omitempty"`
	V        *Valid   `json:"v,omitempty"` // validations declared on this occurrence
	View     string   `json:"view,omitempty"`
	// Extra holds further validations that apply to this occurrence (conjunction). It is never
	// part of a Spec: the reference model fills it with the validations written on the HTTP
	// mapping element of the attribute (Spec.RequestType, ref_http.go).
	Extra []*Valid `json:"-"`
}

// Attr is a named attribute of an object.
type Attr struct {
	Name       string `json:"name"`
	T          *Type  `json:"t"`
	HasDefault bool   `json:"has_default,omitempty"`
	Default    any    `json:"default,omitempty"`
	Tag        int    `json:"tag,omitempty"` // gRPC field number (Field)
	// Sec marks a credential attribute: "username", "password", "apikey:<scheme>", "token", "accesstoken"
	Sec string `json:"sec,omitempty"`
	// Inherit: the attribute is declared by name only (Attribute("name")) inside a type that has
	// a Reference: type, validations and default come from the attribute of the same name of the
	// referenced type (T is nil in the Spec; Spec.AllAttrs resolves it).
	Inherit bool `json:"inherit,omitempty"`
}

// View is a result type view: the attribute names it contains, and for attributes that are
// themselves result types the view used to render them ("" = inherit "default").
type View struct {
	Name  string            `json:"name"`
	Attrs []string          `json:"attrs"`
	Sub   map[string]string `json:"sub,omitempty"`
}

// TypeDef is a named type definition.
type TypeDef struct {
	Name       string   `json:"name"`
	Kind       string   `json:"kind"`           // "type", "result", "alias"
	Base       *Type    `json:"base,omitempty"` // alias: the primitive (with validations)
	Attrs      []*Attr  `json:"attrs,omitempty"`
	Required   []string `json:"required,omitempty"`
	Views      []View   `json:"views,omitempty"`
	Extend     string   `json:"extend,omitempty"`
	Reference  string   `json:"reference,omitempty"`
	Collection string   `json:"collection,omitempty"` // Kind "collection": CollectionOf(that result type)
	ErrorName  string   `json:"error_name,omitempty"` // attribute carrying struct:error:name
}

// Map binds an attribute to a wire name (header, query parameter, cookie).
type Map struct {
	Attr string `json:"attr"`
	Wire string `json:"wire"`
}

// MapRule says that the HTTP mapping element of a payload attribute is written with a type and
// a validation DSL of its own: Param("attr:wire", <T>, func() { <V> }), Header(...), Cookie(...).
// The element (its location and wire name) is the Map naming the same attribute in the Params /
// Headers / Cookies list of the same level (endpoint, service or API); when no Map names it, it is
// a path parameter bound by that level's path and is declared with Param("attr", <T>, func...).
type MapRule struct {
	Attr string `json:"attr"`
	T    *Type  `json:"t,omitempty"` // the explicit type the DSL needs (the payload attribute's type)
	V    *Valid `json:"v,omitempty"`
}

// TagSel selects a response by the value of a result attribute.
type TagSel struct {
	Attr  string `json:"attr"`
	Value string `json:"value"`
}

// Resp is one HTTP response of an endpoint (success) or of an error.
type Resp struct {
	Status      int     `json:"status"`
	Tag         *TagSel `json:"tag,omitempty"`
	Headers     []Map   `json:"headers,omitempty"`
	Cookies     []Map   `json:"cookies,omitempty"`
	Body        string  `json:"body,omitempty"` // "": default, "attr:<name>", "attrs:a,b", "empty"
	ContentType string  `json:"content_type,omitempty"`
	Error       string  `json:"error,omitempty"` // non-empty: response for that error name
	// Rules: response headers / cookies declared with a validation DSL of their own
	Rules []MapRule `json:"rules,omitempty"`
}

// HTTPMap is the HTTP mapping of a method.
type HTTPMap struct {
	Verb      string   `json:"verb"`
	Path      string   `json:"path"`
	Routes    []string `json:"routes,omitempty"` // extra routes "VERB path"
	Params    []Map    `json:"params,omitempty"`
	Headers   []Map    `json:"headers,omitempty"`
	Cookies   []Map    `json:"cookies,omitempty"`
	MapParams string   `json:"map_params,omitempty"` // "*": whole payload, or attribute name
	Body      string   `json:"body,omitempty"`       // like Resp.Body
	Responses []Resp   `json:"responses,omitempty"`
	Multipart bool     `json:"multipart,omitempty"`
	SkipReq   bool     `json:"skip_req,omitempty"`
	SkipResp  bool     `json:"skip_resp,omitempty"`
	// Rules: endpoint-level mapping elements declared with a validation DSL
	Rules []MapRule `json:"rules,omitempty"`
}

// ErrorDef declares an error on a method, service or API.
type ErrorDef struct {
	Name      string `json:"name"`
	Type      *Type  `json:"type,omitempty"` // nil: default ErrorResult
	Temporary bool   `json:"temporary,omitempty"`
	Timeout   bool   `json:"timeout,omitempty"`
	Fault     bool   `json:"fault,omitempty"`
}

// Scheme is a security scheme definition.
type Scheme struct {
	Name   string   `json:"name"`
	Kind   string   `json:"kind"` // "basic", "apikey", "jwt", "oauth2"
	Scopes []string `json:"scopes,omitempty"`
}

// SchemeUse is one scheme inside a requirement with the scopes required.
type SchemeUse struct {
	Scheme string   `json:"scheme"`
	Scopes []string `json:"scopes,omitempty"`
}

// Requirement is a conjunction of schemes; a list of requirements is a disjunction.
type Requirement []SchemeUse

// Security declares requirements at some level.
type Security struct {
	Reqs []Requirement `json:"reqs,omitempty"`
	None bool          `json:"none,omitempty"` // NoSecurity
}

// GRPCMap is the gRPC mapping of a method.
type GRPCMap struct {
	// Message lists request message attributes explicitly (GRPC(func(){ Message(func(){ Attribute(..) }) }));
	// attributes not listed (and not in Metadata) are added to the message by goa.
	Message  []Map `json:"message,omitempty"`
	Metadata []Map `json:"metadata,omitempty"`
	Headers  []Map `json:"headers,omitempty"`
	Trailers []Map `json:"trailers,omitempty"`
	// RespMessage lists response message attributes explicitly
	// (GRPC(func(){ Response(CodeOK, func(){ Message(func(){ Attribute(..) }) }) })); result attributes
	// not listed (and not in Headers / Trailers) are added to the message by goa.
	RespMessage []Map  `json:"resp_message,omitempty"`
	Code        string `json:"code,omitempty"`
}

// Method is one service method.
type Method struct {
	Name          string     `json:"name"`
	Payload       *Type      `json:"payload,omitempty"`
	Result        *Type      `json:"result,omitempty"`
	StreamPayload *Type      `json:"stream_payload,omitempty"`
	StreamResult  *Type      `json:"stream_result,omitempty"`
	Errors        []ErrorDef `json:"errors,omitempty"`
	Security      *Security  `json:"security,omitempty"`
	HTTP          *HTTPMap   `json:"http,omitempty"`
	GRPC          *GRPCMap   `json:"grpc,omitempty"`
	// Feature tags used by oracles and signatures (e.g. "loc=query", "type=string").
	Feat map[string]string `json:"feat,omitempty"`
}

// Service is one service.
type Service struct {
	Name     string     `json:"name"`
	Path     string     `json:"path,omitempty"`  // HTTP base path
	Paths    []string   `json:"paths,omitempty"` // further HTTP base paths (Path called more than once)
	Errors   []ErrorDef `json:"errors,omitempty"`
	HTTPErrs []Resp     `json:"http_errs,omitempty"`
	Security *Security  `json:"security,omitempty"`
	Methods  []*Method  `json:"methods"`
	Files    []string   `json:"files,omitempty"` // "path dir"
	// service-level HTTP mapping elements (HTTP(func() { Params(func() { Param(...) }); Header(...); Cookie(...) })
	// in the Service DSL): they apply to every method of the service
	Params  []Map     `json:"params,omitempty"`
	Headers []Map     `json:"headers,omitempty"`
	Cookies []Map     `json:"cookies,omitempty"`
	Rules   []MapRule `json:"rules,omitempty"`
}

// Spec is one design (one program given to goa).
type Spec struct {
	Name     string     `json:"name"`
	APIName  string     `json:"api_name"`
	APIPath  string     `json:"api_path,omitempty"`
	Errors   []ErrorDef `json:"errors,omitempty"`
	HTTPErrs []Resp     `json:"http_errs,omitempty"`
	Security *Security  `json:"security,omitempty"`
	Schemes  []Scheme   `json:"schemes,omitempty"`
	Types    []*TypeDef `json:"types,omitempty"`
	Services []*Service `json:"services"`
	Family   string     `json:"family,omitempty"`
	// API-level HTTP mapping elements (HTTP DSL of the API expression): they apply to every method
	// of every service of the design
	APIParams  []Map     `json:"api_params,omitempty"`
	APIHeaders []Map     `json:"api_headers,omitempty"`
	APICookies []Map     `json:"api_cookies,omitempty"`
	APIRules   []MapRule `json:"api_rules,omitempty"`
}

// TypeDefByName returns the named definition or nil.
func (s *Spec) TypeDefByName(n string) *TypeDef {
	for _, t := range s.Types {
		if t.Name == n {
			return t
		}
	}
	return nil
}

// IsPrimitive reports whether k names a primitive kind.
func IsPrimitive(k string) bool {
	switch k {
	case KBool, KInt, KInt32, KInt64, KUInt, KUInt32, KUInt64, KFloat32, KFloat64, KString, KBytes, KAny:
		return true
	}
	return false
}

// P builds a primitive type.
func P(k string) *Type { return &Type{K: k} }

// ArrT builds an array type.
func ArrT(e *Type) *Type { return &Type{K: KArray, Elem: e} }

// MapT builds a map type.
func MapT(k, e *Type) *Type { return &Type{K: KMap, Key: k, Elem: e} }

// User builds a reference to a named type.
func User(n string) *Type { return &Type{K: KUser, Ref: n} }

// ObjT builds an inline object type.
func ObjT(required []string, attrs ...*Attr) *Type {
	return &Type{K: KObject, Attrs: attrs, Required: required}
}

// A builds an attribute.
func A(name string, t *Type) *Attr { return &Attr{Name: name, T: t} }

// AD builds an attribute with a default value.
func AD(name string, t *Type, def any) *Attr {
	return &Attr{Name: name, T: t, HasDefault: true, Default: def}
}

// WithV returns a copy of t with validations v.
func WithV(t *Type, v *Valid) *Type {
	c := *t
	c.V = v
	return &c
}

// F is a float pointer helper.
func F(f float64) *float64 { return &f }

// I is an int pointer helper.
func I(i int) *int { return &i }

// HasDefaultSafe reports whether the attribute (possibly nil) declares a default.
func (a *Attr) HasDefaultSafe() bool { return a != nil && a.HasDefault }

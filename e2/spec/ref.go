package spec

import (
	"fmt"
	"math"
	"regexp"
	"unicode/utf8"
)

// Eff is the effective shape of a type occurrence once named types are resolved: the
// structural kind plus the conjunction of every validation declared at any level (alias
// definition, alias of alias, the occurrence itself).
type Eff struct {
	K        string
	Vs       []*Valid
	Elem     *Type
	Key      *Type
	Attrs    []*Attr
	Required []string
	Def      *TypeDef
}

// Eff resolves t.
func (s *Spec) Eff(t *Type) Eff {
	e := Eff{K: t.K, Elem: t.Elem, Key: t.Key, Attrs: t.Attrs, Required: t.Required}
	if t.V != nil {
		e.Vs = append(e.Vs, t.V)
	}
	e.Vs = append(e.Vs, t.Extra...)
	for depth := 0; e.K == KUser && depth < 8; depth++ {
		td := s.TypeDefByName(t.Ref)
		if td == nil {
			panic("spec: dangling type " + t.Ref)
		}
		e.Def = td
		switch td.Kind {
		case "alias":
			e.K = td.Base.K
			if td.Base.V != nil {
				e.Vs = append(e.Vs, td.Base.V)
			}
			t = td.Base
		case "collection":
			e.K = KArray
			e.Elem = User(td.Collection)
		default:
			e.K = KObject
			e.Attrs, e.Required = s.AllAttrs(td)
		}
	}
	return e
}

// AllAttrs returns the attributes of a type definition including those inherited by Extend.
func (s *Spec) AllAttrs(td *TypeDef) ([]*Attr, []string) {
	attrs := append([]*Attr{}, td.Attrs...)
	req := append([]string{}, td.Required...)
	if td.Reference != "" {
		attrs = s.inheritFromReference(td, attrs)
		// the required names of the referenced type apply to the attributes of the same name
		// the referring type defines (goa merges the whole list; names it does not define have
		// no attribute to apply to)
		if base := s.TypeDefByName(td.Reference); base != nil {
			_, br := s.AllAttrs(base)
			for _, n := range br {
				for _, a := range attrs {
					if a.Name == n && !IsRequired(req, n) {
						req = append(req, n)
					}
				}
			}
		}
	}
	if td.Extend != "" {
		if base := s.TypeDefByName(td.Extend); base != nil {
			ba, br := s.AllAttrs(base)
			have := map[string]bool{}
			for _, a := range attrs {
				have[a.Name] = true
			}
			for _, a := range ba {
				if !have[a.Name] {
					attrs = append(attrs, a)
				}
			}
			req = append(req, br...)
		}
	}
	return attrs, req
}

// IsRequired reports whether name is in the list.
func IsRequired(req []string, name string) bool {
	for _, r := range req {
		if r == name {
			return true
		}
	}
	return false
}

// Issue is one violated rule found by the reference validator.
type Issue struct {
	Rule string // goa's standard error names: invalid_range, invalid_length, ...
	Path string // attribute path, e.g. "body.aa[0]"
}

func (i Issue) String() string { return i.Rule + "@" + i.Path }

func asFloat(v any) (float64, bool) {
	switch x := v.(type) {
	case int64:
		return float64(x), true
	case int:
		return float64(x), true
	case uint64:
		return float64(x), true
	case float64:
		return x, true
	}
	return 0, false
}

func length(v any) (int, bool) {
	switch x := v.(type) {
	case string:
		return utf8.RuneCountInString(x), true
	case []byte:
		return len(x), true
	case Arr:
		return len(x), true
	case MapV:
		return len(x), true
	}
	return 0, false
}

func sameScalar(a, b any) bool {
	if fa, ok := asFloat(a); ok {
		if fb, ok := asFloat(b); ok {
			return fa == fb
		}
		return false
	}
	return Canon(a) == Canon(b)
}

// CheckValid applies the validation keywords of v to the (set) value val.
func CheckValid(v *Valid, val any, path string) []Issue {
	var out []Issue
	if v == nil || val == nil {
		return nil
	}
	if len(v.Enum) > 0 {
		found := false
		for _, e := range v.Enum {
			if sameScalar(e, val) {
				found = true
			}
		}
		if !found {
			out = append(out, Issue{"invalid_enum_value", path})
		}
	}
	if f, ok := asFloat(val); ok {
		if v.Min != nil && f < *v.Min {
			out = append(out, Issue{"invalid_range", path})
		}
		if v.Max != nil && f > *v.Max {
			out = append(out, Issue{"invalid_range", path})
		}
		if v.ExMin != nil && f <= *v.ExMin {
			out = append(out, Issue{"invalid_range", path})
		}
		if v.ExMax != nil && f >= *v.ExMax {
			out = append(out, Issue{"invalid_range", path})
		}
	}
	if n, ok := length(val); ok {
		if v.MinLen != nil && n < *v.MinLen {
			out = append(out, Issue{"invalid_length", path})
		}
		if v.MaxLen != nil && n > *v.MaxLen {
			out = append(out, Issue{"invalid_length", path})
		}
	}
	if s, ok := val.(string); ok {
		if v.Pattern != "" {
			if !regexp.MustCompile(v.Pattern).MatchString(s) {
				out = append(out, Issue{"invalid_pattern", path})
			}
		}
		if v.Format != "" {
			ok, known := FormatVerdict(v.Format, s)
			if !known {
				panic(fmt.Sprintf("spec: string %q is outside the constructive table of format %s", s, v.Format))
			}
			if !ok {
				out = append(out, Issue{"invalid_format", path})
			}
		}
	}
	return out
}

// Check is the reference validator: every constraint the design places on a value of type t
// (required attributes, enumerations, bounds, lengths, patterns, formats), recursively through
// arrays, maps, aliases and nested types.
func (s *Spec) Check(t *Type, val any, path string) []Issue {
	return s.check(t, val, path, 0)
}

func (s *Spec) check(t *Type, val any, path string, depth int) []Issue {
	if val == nil || depth > 12 {
		return nil
	}
	e := s.Eff(t)
	var out []Issue
	for _, v := range e.Vs {
		out = append(out, CheckValid(v, val, path)...)
	}
	switch x := val.(type) {
	case Arr:
		if e.Elem != nil {
			for i, el := range x {
				out = append(out, s.check(e.Elem, el, fmt.Sprintf("%s[%d]", path, i), depth+1)...)
			}
		}
	case MapV:
		for _, kv := range x {
			if e.Key != nil {
				out = append(out, s.check(e.Key, kv.K, path+".key", depth+1)...)
			}
			if e.Elem != nil {
				out = append(out, s.check(e.Elem, kv.V, fmt.Sprintf("%s[%s]", path, Canon(kv.K)), depth+1)...)
			}
		}
	case Obj:
		for _, a := range e.Attrs {
			av := x[a.Name]
			if av == nil {
				if IsRequired(e.Required, a.Name) && !a.HasDefault {
					out = append(out, Issue{"missing_field", path + "." + a.Name})
				}
				continue
			}
			out = append(out, s.check(a.T, av, path+"."+a.Name, depth+1)...)
		}
	}
	return out
}

// Loc is where an attribute travels.
const (
	LocPath   = "path"
	LocQuery  = "query"
	LocHeader = "header"
	LocCookie = "cookie"
	LocBody   = "body"
)

// stringMenu returns the string alphabet for a location. Strings that the transport itself
// cannot carry in that location are left out (stated in the evidence assumptions): an empty
// path segment, control characters outside bodies, and characters that RFC 6265 forbids in
// cookie values.
func stringMenu(loc string) []string {
	base := []string{"a", "a b", "%41", "%2F", "100%", "a/b", "a&b=c", "+", "é", "日本", ",", "a,b", "x?y#z", "", "A"}
	switch loc {
	case LocPath:
		var out []string
		for _, s := range base {
			if s != "" {
				out = append(out, s)
			}
		}
		// values that are path syntax when read as segments
		return append(out, ".", "..", "a..b")
	case LocQuery:
		return base
	case LocHeader:
		return []string{"a", "a b", "%41", "100%", "a/b", "a&b=c", "+", "é", ",", "a,b", "", "A"}
	case LocCookie:
		return []string{"a", "%41", "100%", "a/b", "a&b=c", "+", "A", "a b", ""}
	}
	return append(base, "\"q\"", "line1\nline2", "<x>&")
}

// PrimDomain is the value menu of a primitive kind at a location, before validations.
func PrimDomain(k, loc string) []any {
	switch k {
	case KBool:
		return []any{false, true}
	case KInt, KInt64:
		return []any{int64(0), int64(1), int64(-1), int64(math.MinInt64), int64(math.MaxInt64), int64(42)}
	case KInt32:
		return []any{int64(0), int64(1), int64(-1), int64(math.MinInt32), int64(math.MaxInt32), int64(42)}
	case KUInt, KUInt64:
		return []any{uint64(0), uint64(1), uint64(math.MaxUint64), uint64(42)}
	case KUInt32:
		return []any{uint64(0), uint64(1), uint64(math.MaxUint32), uint64(42)}
	case KFloat32:
		return []any{float64(0), float64(-0.5), float64(1.5), float64(math.MaxFloat32), float64(math.SmallestNonzeroFloat32), float64(float32(1e21))}
	case KFloat64:
		return []any{float64(0), float64(-0.5), float64(1.5), 1e21, math.MaxFloat64, math.SmallestNonzeroFloat64, 0.1}
	case KString:
		var out []any
		for _, s := range stringMenu(loc) {
			out = append(out, s)
		}
		return out
	case KBytes:
		if loc == LocBody {
			return []any{[]byte{}, []byte{0}, []byte{0xff, 0xfe}, []byte("ab")}
		}
		return []any{[]byte("ab"), []byte("a b"), []byte{}}
	case KAny:
		return []any{"s", float64(1.5), true}
	}
	panic("spec: PrimDomain " + k)
}

func fitsKind(k string, f float64) (any, bool) {
	switch k {
	case KInt, KInt64:
		if f != math.Trunc(f) || f < -9e18 || f > 9e18 {
			return nil, false
		}
		return int64(f), true
	case KInt32:
		if f != math.Trunc(f) || f < math.MinInt32 || f > math.MaxInt32 {
			return nil, false
		}
		return int64(f), true
	case KUInt, KUInt64:
		if f != math.Trunc(f) || f < 0 || f > 1.8e19 {
			return nil, false
		}
		return uint64(f), true
	case KUInt32:
		if f != math.Trunc(f) || f < 0 || f > math.MaxUint32 {
			return nil, false
		}
		return uint64(f), true
	case KFloat32:
		return float64(float32(f)), true
	case KFloat64:
		return f, true
	}
	return nil, false
}

// Candidates returns the candidate values for a type occurrence at a location: the primitive
// menu plus both sides of every validation boundary. Each candidate is classified by the
// reference validator, never by construction.
func (s *Spec) Candidates(t *Type, loc string, depth int) []any {
	e := s.Eff(t)
	var out []any
	seen := map[string]bool{}
	add := func(v any) {
		c := Canon(v)
		if !seen[c] {
			seen[c] = true
			out = append(out, v)
		}
	}
	hasFormat := false
	for _, v := range e.Vs {
		if v.Format != "" {
			hasFormat = true
		}
	}
	switch {
	case IsPrimitive(e.K):
		if !hasFormat {
			for _, v := range PrimDomain(e.K, loc) {
				add(v)
			}
		}
		for _, v := range e.Vs {
			for _, en := range v.Enum {
				if f, ok := asFloat(en); ok {
					if x, ok := fitsKind(e.K, f); ok {
						add(x)
					}
				} else {
					add(en)
				}
			}
			if len(v.Enum) > 0 && e.K == KString {
				add("not-in-enum")
			}
			for _, b := range []*float64{v.Min, v.Max, v.ExMin, v.ExMax} {
				if b == nil {
					continue
				}
				deltas := []float64{-1, 0, 1}
				if e.K == KFloat32 || e.K == KFloat64 {
					deltas = []float64{-0.5, 0, 0.5}
				}
				for _, d := range deltas {
					if x, ok := fitsKind(e.K, *b+d); ok {
						add(x)
					}
				}
			}
			for _, b := range []*int{v.MinLen, v.MaxLen} {
				if b == nil {
					continue
				}
				for _, d := range []int{-1, 0, 1} {
					n := *b + d
					if n < 0 {
						continue
					}
					if e.K == KString {
						if !(loc == LocPath && n == 0) {
							add(repeat("a", n))
							if loc != LocCookie && loc != LocHeader && n > 0 {
								add(repeat("é", n)) // rune count n, byte count 2n
							}
						}
					} else if e.K == KBytes {
						add([]byte(repeat("b", n)))
					}
				}
			}
			if v.Pattern != "" {
				for _, p := range PatternExamples(v.Pattern) {
					if !(loc == LocPath && p == "") {
						add(p)
					}
				}
			}
			if v.Format != "" {
				for _, p := range FormatExamples(v.Format, loc) {
					add(p)
				}
			}
		}
	case e.K == KArray:
		elems := s.Candidates(e.Elem, loc, depth+1)
		valid, invalid := s.split(e.Elem, elems)
		add(Arr{})
		if len(valid) > 0 {
			add(Arr{valid[0]})
		}
		if len(valid) > 1 {
			add(Arr{valid[0], valid[1]})
			add(Arr{valid[1], valid[0], valid[1]})
		}
		for _, iv := range s.pickInvalid(e.Elem, invalid, 3) {
			if len(valid) > 0 {
				add(Arr{valid[0], iv})
			}
		}
		if s.deep() {
			// deep families: every valid element candidate once, as a one-element array
			for _, v := range valid {
				add(Arr{v})
			}
		}
		for _, v := range e.Vs {
			for _, b := range []*int{v.MinLen, v.MaxLen} {
				if b == nil || len(valid) == 0 {
					continue
				}
				for _, d := range []int{-1, 0, 1} {
					n := *b + d
					if n < 0 {
						continue
					}
					a := Arr{}
					for i := 0; i < n; i++ {
						a = append(a, valid[i%len(valid)])
					}
					add(a)
				}
			}
		}
	case e.K == KMap:
		keys := s.Candidates(e.Key, LocBody, depth+1)
		elems := s.Candidates(e.Elem, LocBody, depth+1)
		vk, ik := s.split(e.Key, keys)
		ve, ie := s.split(e.Elem, elems)
		add(MapV{})
		if len(vk) > 0 && len(ve) > 0 {
			add(MapV{{vk[0], ve[0]}})
			if len(vk) > 1 {
				add(MapV{{vk[0], ve[0]}, {vk[1], ve[len(ve)-1]}})
			}
			for _, k := range s.pickInvalid(e.Key, ik, 2) {
				add(MapV{{k, ve[0]}})
			}
			for _, v := range s.pickInvalid(e.Elem, ie, 2) {
				add(MapV{{vk[0], v}})
			}
			if s.deep() {
				// deep families: every valid element candidate once, as a one-entry map
				for _, v := range ve {
					add(MapV{{vk[0], v}})
				}
			}
			for _, v := range e.Vs {
				for _, b := range []*int{v.MinLen, v.MaxLen} {
					if b == nil {
						continue
					}
					for _, d := range []int{-1, 0, 1} {
						n := *b + d
						if n < 0 || n > len(vk) {
							continue
						}
						m := MapV{}
						for i := 0; i < n; i++ {
							m = append(m, KV{vk[i], ve[i%len(ve)]})
						}
						add(m)
					}
				}
			}
		}
	case e.K == KObject:
		for _, o := range s.ObjectCandidates(e, func(string) string { return loc }, depth) {
			add(o)
		}
	case e.K == KUnion:
		for _, u := range s.unionCandidates(e, loc, depth) {
			add(u)
		}
	}
	return out
}

func (s *Spec) split(t *Type, vals []any) (valid, invalid []any) {
	for _, v := range vals {
		if len(s.Check(t, v, "")) == 0 {
			valid = append(valid, v)
		} else {
			invalid = append(invalid, v)
		}
	}
	return
}

// ObjectCandidates enumerates object values: the complete product of attribute candidates
// when it has at most ProductCap elements, otherwise the star around a base point (every
// attribute varied over its whole domain while the others sit at their first valid value).
func (s *Spec) ObjectCandidates(e Eff, locOf func(attr string) string, depth int) []any {
	if depth > s.maxDepth() {
		return []any{Obj{}}
	}
	type dom struct {
		name string
		vals []any
	}
	var doms []dom
	total := 1
	for _, a := range e.Attrs {
		vals := s.Candidates(a.T, locOf(a.Name), depth+1)
		// unset is always a candidate (invalid for required attributes by the reference)
		vals = append([]any{nil}, vals...)
		doms = append(doms, dom{a.Name, vals})
		if total <= ProductCap {
			total *= len(vals)
		}
	}
	var out []any
	if total <= ProductCap {
		idx := make([]int, len(doms))
		for {
			o := Obj{}
			for i, d := range doms {
				if v := d.vals[idx[i]]; v != nil {
					o[d.name] = v
				}
			}
			out = append(out, o)
			i := len(idx) - 1
			for ; i >= 0; i-- {
				idx[i]++
				if idx[i] < len(doms[i].vals) {
					break
				}
				idx[i] = 0
			}
			if i < 0 {
				break
			}
		}
		return out
	}
	base := Obj{}
	for i, d := range doms {
		a := e.Attrs[i]
		for _, v := range d.vals {
			if v != nil && len(s.Check(a.T, v, "")) == 0 {
				base[d.name] = v
				break
			}
		}
	}
	out = append(out, base)
	for _, d := range doms {
		for _, v := range d.vals {
			o := Obj{}
			for k, bv := range base {
				o[k] = bv
			}
			if v == nil {
				delete(o, d.name)
			} else {
				o[d.name] = v
			}
			out = append(out, o)
		}
	}
	return out
}

// ProductCap bounds complete products over object attributes.
var ProductCap = 600

func repeat(s string, n int) string {
	out := ""
	for i := 0; i < n; i++ {
		out += s
	}
	return out
}

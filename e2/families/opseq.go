package families

import (
	"fmt"
	"os"
	"path/filepath"
	"strings"
	"time"

	"verif/core"
	"verif/e2/check"
	"verif/e2/spec"
)

// Operation-sequence family: services that MIX method kinds, so that one generated client object
// and one generated server (handlers, encoders, decoders, mux) serve calls of different kinds one
// after the other. Every other E2 family executes one call on a freshly mounted pair.
//
//	kinds     get   unary GET, path parameter + required and optional query parameter; result in the body
//	          post  unary POST, JSON body (required string, optional array, optional int); result 201 with an
//	                optional response header
//	          hc    unary PUT, required + optional header and required + optional cookie; result with an
//	                optional response cookie and an optional response header
//	          srv   server streaming (WebSocket) with an initial payload (optional query + required header)
//	          cli   client streaming with a final result
//	          bidi  bidirectional streaming with an initial payload
//	services  unary = {get, post, hc}; mixed = {get, hc, srv, cli}; all = the six kinds
//
// One service per design. Every method has one small fixed payload / result shape with at least one
// required and one optional attribute per location, because the driver's value menu is {every
// attribute set, only the required ones set (to other values)}: state that a call leaves behind
// shows either as a value of the previous call or as a value where none was sent.
//
// The definitions live here (not in e2/spec) on purpose: e2/spec is part of the digest that keys
// every corpus, this package is not.
const OpSequencesDoc = "operation sequences: services mixing method kinds {unary GET path+query, unary POST body, unary PUT header+cookie, server streaming with payload, client streaming with result, bidirectional streaming with payload}, services unary{get,post,hc}, mixed{get,hc,srv,cli}, all{6 kinds}, one service per design; " +
	"operations = method x value variant {full: every attribute set; minimal: only required attributes, all values different from full; streams: full = 2 messages per direction, minimal = 1}; " +
	"every sequence of operations of length <= 3 (thorough <= 4) over one service is executed in a fresh process on ONE mounted generated server and ONE generated client object (real sockets: net/http client and gorilla/websocket dialer against an httptest.Server listening on a unix domain socket); " +
	"oracle (differential): the observation of the last operation of every sequence equals the observation of that operation executed alone in a fresh process; all prefixes are sequences themselves, so every position of every sequence is covered"

func opSeqMethod(n int, kind, service string) *spec.Method {
	m := &spec.Method{Name: fmt.Sprintf("m%d", n), Feat: map[string]string{"family": "op-sequences", "kind": kind, "service": service}, HTTP: &spec.HTTPMap{}}
	h := m.HTTP
	h.Path = "/" + m.Name
	msgIn := func() *spec.Type {
		return spec.ObjT([]string{"chunk"}, spec.A("chunk", spec.P(spec.KString)), spec.A("idx", spec.P(spec.KInt)))
	}
	msgOut := func() *spec.Type {
		return spec.ObjT([]string{"ev"}, spec.A("ev", spec.P(spec.KString)), spec.A("seq", spec.P(spec.KInt)))
	}
	initial := func() {
		m.Payload = spec.ObjT([]string{"hh"}, spec.A("qq", spec.P(spec.KString)), spec.A("hh", spec.P(spec.KInt)))
		h.Params = []spec.Map{{Attr: "qq", Wire: "q"}}
		h.Headers = []spec.Map{{Attr: "hh", Wire: "X-Hh"}}
	}
	switch kind {
	case "get":
		h.Verb = "GET"
		h.Path += "/{key}"
		m.Payload = spec.ObjT([]string{"key", "rr"}, spec.A("key", spec.P(spec.KInt)), spec.A("qq", spec.P(spec.KString)), spec.A("rr", spec.P(spec.KInt)))
		h.Params = []spec.Map{{Attr: "qq", Wire: "q"}, {Attr: "rr", Wire: "r"}}
		m.Result = spec.ObjT([]string{"name"}, spec.A("name", spec.P(spec.KString)), spec.A("num", spec.P(spec.KInt)))
	case "post":
		h.Verb = "POST"
		m.Payload = spec.ObjT([]string{"title"}, spec.A("title", spec.P(spec.KString)), spec.A("tags", spec.ArrT(spec.P(spec.KString))), spec.A("count", spec.P(spec.KInt)))
		m.Result = spec.ObjT([]string{"rid"}, spec.A("rid", spec.P(spec.KString)), spec.A("etag", spec.P(spec.KString)))
		h.Responses = []spec.Resp{{Status: 201, Headers: []spec.Map{{Attr: "etag", Wire: "X-Etag"}}}}
	case "hc":
		h.Verb = "PUT"
		m.Payload = spec.ObjT([]string{"tok", "sess"}, spec.A("tok", spec.P(spec.KString)), spec.A("opt", spec.P(spec.KString)), spec.A("sess", spec.P(spec.KString)), spec.A("pref", spec.P(spec.KString)))
		h.Headers = []spec.Map{{Attr: "tok", Wire: "X-Tok"}, {Attr: "opt", Wire: "X-Opt"}}
		h.Cookies = []spec.Map{{Attr: "sess", Wire: "sess"}, {Attr: "pref", Wire: "pref"}}
		m.Result = spec.ObjT([]string{"ok"}, spec.A("ok", spec.P(spec.KBool)), spec.A("cval", spec.P(spec.KString)), spec.A("hval", spec.P(spec.KString)))
		h.Responses = []spec.Resp{{Status: 200, Headers: []spec.Map{{Attr: "hval", Wire: "X-Hval"}}, Cookies: []spec.Map{{Attr: "cval", Wire: "cval"}}}}
	case "srv":
		h.Verb = "GET"
		initial()
		m.StreamResult = msgOut()
	case "cli":
		h.Verb = "GET"
		m.StreamPayload = msgIn()
		m.Result = spec.ObjT([]string{"total"}, spec.A("total", spec.P(spec.KInt)), spec.A("last", spec.P(spec.KString)))
	case "bidi":
		h.Verb = "GET"
		initial()
		m.StreamPayload = msgIn()
		m.StreamResult = msgOut()
	default:
		panic("families: operation kind " + kind)
	}
	return m
}

// OpSequenceCases lists the method cases of the operation-sequence family.
func OpSequenceCases() []spec.MethodCase {
	var out []spec.MethodCase
	for _, svc := range []struct {
		name  string
		kinds []string
	}{
		{"unary", []string{"get", "post", "hc"}},
		{"mixed", []string{"get", "hc", "srv", "cli"}},
		{"all", []string{"get", "post", "hc", "srv", "cli", "bidi"}},
	} {
		for i, k := range svc.kinds {
			out = append(out, spec.MethodCase{M: opSeqMethod(i, k, svc.name), SvcKey: svc.name, DesignKey: svc.name})
		}
	}
	return out
}

// OpSequences is the operation-sequence family (C02 mode C02Q, C03 mode C03Q, compiled by C01).
func OpSequences() check.Family {
	return check.Family{Name: "op-sequences", Cases: OpSequenceCases(), PerService: 8, PerDesign: 1}
}

// OnlySequences reports whether VERIF_ONLY_SEQUENCES is set (development and mutation runs: only
// the operation-sequence family is run). Such a run is never exhaustive.
func OnlySequences(c *core.Ctx) bool {
	if os.Getenv("VERIF_ONLY_SEQUENCES") == "" {
		return false
	}
	c.Incomplete("VERIF_ONLY_SEQUENCES is set: only the operation-sequence family was run")
	return true
}

// RunSequences builds the operation-sequence family and runs driver mode C02Q (request side) or
// C03Q (response side) over it in both tiers.
func RunSequences(c *core.Ctx, mode string) {
	side := "request side: service invoked once, payload received by the service, request line, request headers, request body, messages delivered by the server stream"
	if mode == "C03Q" {
		side = "response side: status, response headers, response body, result / error returned by the client endpoint, messages delivered by the client stream, final result of a client stream"
	}
	bound := "length <= 3"
	if c.Thorough() {
		bound = "length <= 4"
	}
	c.Note("operation_sequences_rule", OpSequencesDoc+"; bound: every sequence of "+bound+"; one case = one sequence; observed here: "+side+
		"; a failing sequence is reported when no shorter sequence (a subsequence of its predecessors followed by the same operation) fails in the same way; signature = operation kind, predecessor kinds (with the value variant when only some variants fail), what differs")
	c.Assume("operation sequences: a fresh state is a fresh process (one process per sequence), so that package-level state of generated code and of goa's runtime packages starts initial as well; the state after a prefix is reached by replaying the prefix")
	c.Assume("operation sequences: observations leave out what legitimately differs between two mounts or two connections: Date, the WebSocket handshake nonce and its digest; a panic is observed by message and site, not by stack; nothing else is normalised")
	if c.Expired() {
		c.Incomplete("operation-sequence family not run: budget exhausted before it started")
		return
	}
	f := OpSequences()
	corpus, err := check.BuildFamily(c, f)
	if err != nil {
		c.HarnessError("%s: %v", f.Name, err)
		return
	}
	marker := filepath.Join(corpus.Dir, "incomplete-"+mode+".txt")
	_ = os.Remove(marker)
	os.Setenv("VERIF_STREAM_INCOMPLETE", marker)
	os.Setenv("VERIF_STREAM_DEADLINE", fmt.Sprint(c.Deadline().Add(-20*time.Second).Unix()))
	if err := check.RunMode(c, corpus, mode); err != nil {
		c.HarnessError("%s: %v", f.Name, err)
	}
	if b, err := os.ReadFile(marker); err == nil && len(b) > 0 {
		for _, l := range strings.Split(strings.TrimSpace(string(b)), "\n") {
			c.Incomplete(l)
		}
		_ = os.Remove(marker)
	}
}

package families

import (
	"verif/e2/check"
	"verif/e2/spec"
)

// StreamValidation is the family of validated streamed messages over HTTP (WebSocket)
// (e2/spec/families_streamval.go): run by C04 in both tiers (driver mode C04S), compiled by C01.
func StreamValidation(thorough bool) check.Family {
	return check.Family{Name: "streamval-" + tierName(thorough), Cases: spec.L2StreamValidation(thorough), PerService: 4, PerDesign: 1}
}

// HTTPLevel lists the families added for validations outside the payload type proper: on the
// HTTP mapping elements and on streamed messages.
func HTTPLevel(thorough bool) []check.Family {
	return []check.Family{HTTPValidation(thorough), StreamValidation(thorough)}
}

package families

import (
	"verif/e2/check"
	"verif/e2/spec"
)

// gRPC families (C10; C01 may iterate over them as well: see GRPC).

// GRPCTypes is type x side x requiredness, one message attribute per method.
func GRPCTypes(thorough bool) check.Family {
	return check.Family{Name: "g-types-" + tierName(thorough), Cases: spec.GRPCTypes(thorough)}
}

// GRPCTags is the field-number family.
func GRPCTags() check.Family {
	return check.Family{Name: "g-tags", Cases: spec.GRPCTags()}
}

// GRPCMeta is the request metadata / response headers / trailers partition family.
func GRPCMeta(thorough bool) check.Family {
	return check.Family{Name: "g-meta-" + tierName(thorough), Cases: spec.GRPCMeta(thorough)}
}

// GRPCStreams is the four streaming kinds x element shapes.
func GRPCStreams() check.Family {
	return check.Family{Name: "g-stream", Cases: spec.GRPCStreams()}
}

// GRPCValidation is validation keyword x position in the request message / metadata.
func GRPCValidation(thorough bool) check.Family {
	return check.Family{Name: "g-valid-" + tierName(thorough), Cases: spec.GRPCValidation(thorough)}
}

// GRPCStreamValidation is validated streamed messages x streaming kind x result kind
// (e2/spec/families_grpc_stream.go; oracle e2/drv/c10streamval.go).
func GRPCStreamValidation(thorough bool) check.Family {
	return check.Family{Name: "g-streamval-" + tierName(thorough), Cases: spec.GRPCStreamValidation(thorough), PerService: 4, PerDesign: 1}
}

// GRPCReuse is the services of the client-reuse oracle (e2/drv/c10reuse.go), one per design.
func GRPCReuse(thorough bool) check.Family {
	return check.Family{Name: "g-reuse-" + tierName(thorough), Cases: spec.GRPCReuse(thorough), PerService: 4, PerDesign: 1}
}

// GRPC lists the gRPC families.
func GRPC(thorough bool) []check.Family {
	return []check.Family{GRPCTypes(thorough), GRPCTags(), GRPCMeta(thorough), GRPCStreams(), GRPCValidation(thorough), GRPCStreamValidation(thorough), GRPCReuse(thorough)}
}

package families

import (
	"verif/e2/check"
	"verif/e2/spec"
)

// HTTPValidation is the family of validations written on the HTTP mapping elements
// (Param/Header/Cookie with a DSL of their own, at endpoint, service and API level) instead of,
// and in addition to, the payload attribute (e2/spec/families_httpval.go). It is run by C04
// (both tiers) and compiled by C01; like the deep families it is not part of All().
func HTTPValidation(thorough bool) check.Family {
	return check.Family{Name: "httpval-" + tierName(thorough), Cases: spec.L1HTTPValidation(thorough), PerDesign: 3}
}

package families

import (
	"fmt"
	"strings"

	"verif/core"
	"verif/e2/check"
	"verif/e2/pipe"
	"verif/e2/spec"
)

// The route-feature family of C07 (OpenAPI documents vs mounted routes). The shared method-case
// families all use one POST or GET route per method and no base path, so they cannot expose a
// route variant, verb or base-path combination that the document builders and the server
// generator treat differently. This family is a hand-written list of small designs (1-3
// services x 1-4 methods) covering, one feature per design where possible:
//
//   - every verb goa's DSL offers (GET POST PUT PATCH DELETE HEAD OPTIONS TRACE CONNECT),
//   - several routes per endpoint (same path/different verbs, same verb/different paths),
//   - base paths at API and service level, with a path parameter in the service path,
//   - trailing slashes, the root path, absolute ("//") routes,
//   - {*wildcard} path parameters,
//   - file servers (single file, directory with wildcard), alone and under an API base path,
//   - several services sharing path suffixes under different base paths,
//   - security requirements at API / service level with a method opting out (NoSecurity),
//   - path parameters declared explicitly with Param() before / between / after query parameters,
//   - a file server on the very path of an endpoint that uses another verb.
//
// The designs are given to goa as they are: a design goa rejects is simply not linked (it is
// outside the property's quantifier "accepted designs") and is counted in the evidence notes.

func routeMethod(n int, verb, path string, feat map[string]string, attrs ...*spec.Attr) *spec.Method {
	m := &spec.Method{Name: fmt.Sprintf("m%d", n), Feat: map[string]string{"family": "oa-routes"}}
	for k, v := range feat {
		m.Feat[k] = v
	}
	m.HTTP = &spec.HTTPMap{Verb: verb, Path: path}
	if len(attrs) > 0 {
		obj := &spec.Type{K: spec.KObject}
		for _, a := range attrs {
			obj.Attrs = append(obj.Attrs, a)
		}
		m.Payload = obj
	}
	return m
}

func required(m *spec.Method, names ...string) *spec.Method {
	m.Payload.Required = append(m.Payload.Required, names...)
	return m
}

func query(m *spec.Method, attr, wire string) *spec.Method {
	m.HTTP.Params = append(m.HTTP.Params, spec.Map{Attr: attr, Wire: wire})
	return m
}

func bodyVerb(v string) bool { return v == "POST" || v == "PUT" || v == "PATCH" }

// RoutesSpecs returns the designs of the route-feature family.
func RoutesSpecs() []*spec.Spec {
	var out []*spec.Spec
	add := func(s *spec.Spec) {
		s.Family = "oa-routes"
		out = append(out, s)
	}
	str := func() *spec.Type { return spec.P(spec.KString) }
	// every verb: one design per verb (a verb the generators mishandle then does not disturb
	// the others) and one design with all nine spread over three services
	verbs := []string{"GET", "POST", "PUT", "PATCH", "DELETE", "HEAD", "OPTIONS", "TRACE", "CONNECT"}
	mkVerb := func(n int, v string) *spec.Method {
		attrs := []*spec.Attr{spec.A("id", str()), spec.A("qq", spec.P(spec.KInt))}
		if bodyVerb(v) {
			attrs = append(attrs, spec.A("bb", str()))
		}
		m := routeMethod(n, v, fmt.Sprintf("/m%d/{id}", n), map[string]string{"route": "verb", "verb": v}, attrs...)
		required(m, "id")
		query(m, "qq", "qq")
		return m
	}
	for _, v := range verbs {
		add(&spec.Spec{Services: []*spec.Service{{Name: "s0", Methods: []*spec.Method{mkVerb(0, v)}}}})
	}
	{
		s := &spec.Spec{}
		for i := 0; i < 3; i++ {
			svc := &spec.Service{Name: fmt.Sprintf("s%d", i)}
			for j := 0; j < 3; j++ {
				svc.Methods = append(svc.Methods, mkVerb(i*3+j, verbs[i*3+j]))
			}
			s.Services = append(s.Services, svc)
		}
		add(s)
	}
	// several routes per endpoint
	{
		m0 := routeMethod(0, "GET", "/a/{id}", map[string]string{"route": "multi", "shape": "same-path-3-verbs+other-path"}, spec.A("id", str()), spec.A("bb", str()))
		required(m0, "id")
		m0.HTTP.Routes = []string{"POST /b/{id}", "PUT /a/{id}", "DELETE /a/{id}"}
		m1 := routeMethod(1, "GET", "/c", map[string]string{"route": "multi", "shape": "same-verb-2-paths"}, spec.A("qq", str()))
		query(m1, "qq", "qq")
		m1.HTTP.Routes = []string{"GET /d/e"}
		// the path parameter is bound by one route only
		m2 := routeMethod(2, "GET", "/f/{id}", map[string]string{"route": "multi", "shape": "param-in-one-route-only"}, spec.A("id", str()))
		m2.HTTP.Routes = []string{"GET /g"}
		add(&spec.Spec{Services: []*spec.Service{{Name: "s0", Methods: []*spec.Method{m0, m1}}}})
		add(&spec.Spec{Services: []*spec.Service{{Name: "s0", Methods: []*spec.Method{m2}}}})
	}
	// base paths
	basic := func(n int, verb, path string, feat map[string]string) *spec.Method {
		attrs := []*spec.Attr{spec.A("qq", str())}
		if bodyVerb(verb) {
			attrs = append(attrs, spec.A("bb", str()))
		}
		return query(routeMethod(n, verb, path, feat, attrs...), "qq", "qq")
	}
	for _, bp := range []struct{ api, svc, label string }{
		{"/api/v1", "", "api"}, {"", "/svc", "service"}, {"/api/v1", "/svc", "api+service"}, {"/api/", "/svc/", "trailing-slashes"},
	} {
		f := func(kind string) map[string]string {
			return map[string]string{"route": "base-path", "base": bp.label, "path": kind}
		}
		add(&spec.Spec{APIPath: bp.api, Services: []*spec.Service{{Name: "s0", Path: bp.svc, Methods: []*spec.Method{
			basic(0, "GET", "/m0", f("plain")),
			basic(1, "POST", "/", f("root")),
			basic(2, "GET", "/m2/", f("trailing-slash")),
			basic(3, "PUT", "//abs/m3", f("absolute")),
		}}}})
	}
	// no base path: root, trailing slash
	add(&spec.Spec{Services: []*spec.Service{{Name: "s0", Methods: []*spec.Method{
		basic(0, "GET", "/", map[string]string{"route": "base-path", "base": "none", "path": "root"}),
		basic(1, "GET", "/m1/", map[string]string{"route": "base-path", "base": "none", "path": "trailing-slash"}),
	}}}})
	// path parameter in the service base path
	{
		m0 := required(routeMethod(0, "GET", "/items/{id}", map[string]string{"route": "base-path", "base": "service-with-param", "path": "param"}, spec.A("oid", str()), spec.A("id", spec.P(spec.KInt))), "oid", "id")
		m1 := required(routeMethod(1, "POST", "/items", map[string]string{"route": "base-path", "base": "service-with-param", "path": "plain"}, spec.A("oid", str()), spec.A("bb", str())), "oid")
		add(&spec.Spec{Services: []*spec.Service{{Name: "s0", Path: "/orgs/{oid}", Methods: []*spec.Method{m0, m1}}}})
	}
	// wildcards
	{
		m0 := required(routeMethod(0, "GET", "/files/{*rest}", map[string]string{"route": "wildcard", "shape": "alone"}, spec.A("rest", str())), "rest")
		m1 := required(routeMethod(1, "GET", "/t/{id}/{*rest}", map[string]string{"route": "wildcard", "shape": "after-param"}, spec.A("id", str()), spec.A("rest", str())), "id", "rest")
		add(&spec.Spec{Services: []*spec.Service{{Name: "s0", Methods: []*spec.Method{m0, m1}}}})
		add(&spec.Spec{APIPath: "/api", Services: []*spec.Service{{Name: "s0", Path: "/w", Methods: []*spec.Method{
			required(routeMethod(0, "GET", "/files/{*rest}", map[string]string{"route": "wildcard", "shape": "under-base-paths"}, spec.A("rest", str())), "rest")}}}})
	}
	// file servers
	for _, fsd := range []struct {
		api   string
		files []string
		label string
	}{
		{"", []string{"/index.html /srv/index.html"}, "single-file"},
		{"", []string{"/static/{*path} /srv/static/"}, "directory"},
		{"", []string{"/index.html /srv/index.html", "/static/{*path} /srv/static/", "/ /srv/index.html"}, "file+directory+root"},
		{"/api/v1", []string{"/docs/{*path} /srv/docs/", "/openapi.json /srv/openapi.json"}, "under-api-base-path"},
	} {
		f := map[string]string{"route": "files", "files": fsd.label}
		add(&spec.Spec{APIPath: fsd.api, Services: []*spec.Service{{Name: "s0", Files: fsd.files, Methods: []*spec.Method{basic(0, "GET", "/m0", f)}}}})
	}
	// security inheritance: requirement at API or service level, one method inheriting it and
	// one method opting out with NoSecurity (the shared security family's override cases carry
	// credential attributes on the NoSecurity method, which goa rejects)
	{
		secM := func(n int, kind string, feat map[string]string) *spec.Method {
			m := routeMethod(n, "POST", fmt.Sprintf("/m%d", n), feat, spec.A("data", str()))
			m.Feat["route"] = "security"
			add := func(a *spec.Attr) {
				m.Payload.Attrs = append(m.Payload.Attrs, a)
				m.Payload.Required = append(m.Payload.Required, a.Name)
			}
			switch kind {
			case "basic":
				add(&spec.Attr{Name: "usr", T: str(), Sec: "username"})
				add(&spec.Attr{Name: "pwd", T: str(), Sec: "password"})
			case "apikey":
				add(&spec.Attr{Name: "keyh", T: str(), Sec: "apikey:aks"})
				m.HTTP.Headers = append(m.HTTP.Headers, spec.Map{Attr: "keyh", Wire: "X-Key"})
			case "jwt":
				add(&spec.Attr{Name: "tok", T: str(), Sec: "token"})
				m.HTTP.Headers = append(m.HTTP.Headers, spec.Map{Attr: "tok", Wire: "Authorization"})
			}
			return m
		}
		none := &spec.Security{None: true}
		for _, k := range []struct{ kind, scheme string }{{"basic", "bsc"}, {"apikey", "aks"}, {"jwt", "jwt"}} {
			req := &spec.Security{Reqs: []spec.Requirement{{{Scheme: k.scheme}}}}
			m1 := secM(1, "", map[string]string{"level": "api", "override": "nosecurity", "reqs": k.scheme})
			m1.Security = none
			add(&spec.Spec{Schemes: spec.SecSchemes(), Security: req, Services: []*spec.Service{{Name: "s0", Methods: []*spec.Method{
				secM(0, k.kind, map[string]string{"level": "api", "override": "none", "reqs": k.scheme}), m1}}}})
			m3 := secM(1, "", map[string]string{"level": "service", "override": "nosecurity", "reqs": k.scheme})
			m3.Security = none
			add(&spec.Spec{Schemes: spec.SecSchemes(), Services: []*spec.Service{{Name: "s0", Security: req, Methods: []*spec.Method{
				secM(0, k.kind, map[string]string{"level": "service", "override": "none", "reqs": k.scheme}), m3}},
				{Name: "s1", Methods: []*spec.Method{secM(2, "", map[string]string{"level": "none", "override": "none", "reqs": "-"})}}}})
		}
	}
	// several services sharing path suffixes under different base paths
	add(&spec.Spec{APIPath: "/v2", Services: []*spec.Service{
		{Name: "s0", Path: "/a", Methods: []*spec.Method{basic(0, "GET", "/x", map[string]string{"route": "services", "shape": "same-suffix"}), basic(1, "POST", "/x", map[string]string{"route": "services", "shape": "same-suffix"})}},
		{Name: "s1", Path: "/b", Methods: []*spec.Method{basic(2, "GET", "/x", map[string]string{"route": "services", "shape": "same-suffix"})}},
		{Name: "s2", Methods: []*spec.Method{basic(3, "GET", "/x", map[string]string{"route": "services", "shape": "no-service-path"})}},
	}})
	// (designs below were added later; they are appended so that the numbering of the earlier
	// designs does not change)
	// path parameter declared explicitly with Param(), before / between / after the query
	// parameters (goa appends implicitly declared path parameters at the end of the endpoint
	// parameters, an explicit Param() keeps its place), with and without a body
	for _, v := range []struct {
		verb  string
		order []string
		label string
	}{
		{"GET", []string{"id", "qa", "qb"}, "path-param-first"},
		{"GET", []string{"qa", "id", "qb"}, "path-param-between"},
		{"GET", []string{"qa", "qb", "id"}, "path-param-last"},
		{"POST", []string{"id", "qa", "qb"}, "path-param-first"},
		{"PUT", []string{"qa", "id", "qb"}, "path-param-between"},
	} {
		attrs := []*spec.Attr{spec.A("qa", str()), spec.A("id", spec.P(spec.KInt)), spec.A("qb", spec.P(spec.KInt))}
		if bodyVerb(v.verb) {
			attrs = append(attrs, spec.A("bb", str()))
		}
		m := required(routeMethod(0, v.verb, "/items/{id}", map[string]string{"route": "explicit-params", "order": v.label, "verb": v.verb}, attrs...), "id", "qa")
		for _, n := range v.order {
			query(m, n, n)
		}
		add(&spec.Spec{Services: []*spec.Service{{Name: "s0", Methods: []*spec.Method{m}}}})
	}
	// two path parameters declared explicitly around a query parameter, under a service base path
	{
		m := required(routeMethod(0, "GET", "/a/{ida}/b/{idb}", map[string]string{"route": "explicit-params", "order": "two-path-params-around-query", "verb": "GET"},
			spec.A("ida", str()), spec.A("qa", str()), spec.A("idb", str())), "ida", "idb")
		query(query(query(m, "ida", "ida"), "qa", "qa"), "idb", "idb")
		add(&spec.Spec{Services: []*spec.Service{{Name: "s0", Path: "/svc", Methods: []*spec.Method{m}}}})
	}
	// a file server on the very path of an endpoint that uses another verb: same service, an
	// earlier service, a later service
	{
		post := func(n int, path string) *spec.Method {
			return routeMethod(n, "POST", path, map[string]string{"route": "files", "files": "same-path-as-endpoint"}, spec.A("bb", str()))
		}
		add(&spec.Spec{Services: []*spec.Service{{Name: "s0", Files: []string{"/feedback /srv/feedback.html"}, Methods: []*spec.Method{
			post(0, "/feedback"), routeMethod(1, "DELETE", "/feedback", map[string]string{"route": "files", "files": "same-path-as-endpoint"})}}}})
		add(&spec.Spec{Services: []*spec.Service{
			{Name: "s0", Methods: []*spec.Method{post(0, "/shared")}},
			{Name: "s1", Files: []string{"/shared /srv/shared.html"}, Methods: []*spec.Method{basic(1, "GET", "/m1", map[string]string{"route": "files", "files": "same-path-as-endpoint-of-earlier-service"})}},
		}})
		add(&spec.Spec{Services: []*spec.Service{
			{Name: "s0", Files: []string{"/shared /srv/shared.html"}, Methods: []*spec.Method{basic(0, "GET", "/m0", map[string]string{"route": "files", "files": "same-path-as-endpoint-of-later-service"})}},
			{Name: "s1", Methods: []*spec.Method{post(1, "/shared")}},
		}})
	}
	return out
}

// RequiredDefault is the "required and default" family: one scalar attribute per method that is
// both listed in Required and given a non-zero Default, carried in the query string, a header
// or a cookie (wire name different from the attribute name), plus the same attribute required
// without default as control. What the server does when such a parameter is absent and what the
// documents say about it must agree (C14); C07 compares the documented location and flags.
func RequiredDefault() check.Family {
	var cases []spec.MethodCase
	n := 0
	for _, te := range []struct {
		name string
		t    *spec.Type
		def  any
	}{
		{"int", spec.P(spec.KInt), 7}, {"int32", spec.P(spec.KInt32), 7}, {"int64", spec.P(spec.KInt64), 7},
		{"uint", spec.P(spec.KUInt), 7}, {"uint32", spec.P(spec.KUInt32), 7}, {"uint64", spec.P(spec.KUInt64), 7},
		{"float32", spec.P(spec.KFloat32), 2.5}, {"float64", spec.P(spec.KFloat64), 2.5},
		{"bool", spec.P(spec.KBool), true}, {"string", spec.P(spec.KString), "dflt"},
	} {
		for _, loc := range []string{spec.LocQuery, spec.LocHeader, spec.LocCookie} {
			for _, req := range []string{"required+default", "required"} {
				if req == "required" && te.name != "int" && te.name != "string" && te.name != "bool" {
					continue // controls: three kinds are enough
				}
				t := *te.t
				a := spec.A("aa", &t)
				if req == "required+default" {
					a = spec.AD("aa", &t, te.def)
				}
				m := &spec.Method{Name: fmt.Sprintf("m%d", n), Feat: map[string]string{"family": "oa-reqdef", "type": te.name, "loc": loc, "req": req}}
				n++
				m.Payload = &spec.Type{K: spec.KObject, Attrs: []*spec.Attr{a}, Required: []string{"aa"}}
				m.HTTP = &spec.HTTPMap{Verb: "POST", Path: "/" + m.Name}
				wire := spec.Map{Attr: "aa", Wire: map[string]string{spec.LocQuery: "qaa", spec.LocHeader: "X-Aa", spec.LocCookie: "caa"}[loc]}
				switch loc {
				case spec.LocQuery:
					m.HTTP.Params = []spec.Map{wire}
				case spec.LocHeader:
					m.HTTP.Headers = []spec.Map{wire}
				case spec.LocCookie:
					m.HTTP.Cookies = []spec.Map{wire}
				}
				cases = append(cases, spec.MethodCase{M: m})
			}
		}
	}
	return check.Family{Name: "oa-reqdef", Cases: cases}
}

// BuildRoutes builds (or reuses) the corpus of the route-feature family.
func BuildRoutes(c *core.Ctx) (*pipe.Corpus, error) {
	specs := RoutesSpecs()
	corpus, err := pipe.Build("oa-routes", specs, pipe.Options{Cmds: "gen"})
	if err != nil {
		return nil, err
	}
	linked := 0
	var rejected []string
	for _, d := range corpus.Designs {
		if d.Linked {
			linked++
			continue
		}
		feat := ""
		if d.Spec != nil && len(d.Spec.Services) > 0 && len(d.Spec.Services[0].Methods) > 0 {
			feat = fmt.Sprint(d.Spec.Services[0].Methods[0].Feat)
		}
		msg := d.Gen.Error + d.Gen.Panic
		if len(msg) > 160 {
			msg = msg[:160]
		}
		if len(d.BuildDiags) > 0 {
			msg += " build: " + d.BuildDiags[0]
		}
		rejected = append(rejected, feat+": "+msg)
	}
	c.Note("family_oa-routes_designs", len(corpus.Designs))
	c.Note("family_oa-routes_designs_linked", linked)
	c.Note("family_oa-routes_cached", corpus.Cached)
	if len(rejected) > 0 {
		c.Note("family_oa-routes_not_accepted_or_not_compiling", rejected)
	}
	return corpus, nil
}

// Note on names: pipe.Build removes stale corpora by the prefix "<family>-", so a family name
// must not extend another family's name ("l1p-single-iso" would be deleted whenever
// "l1p-single" is rebuilt); the isolated families are named "iso-...".

// ValidationIsolated is the body-located part of the validation family packed one method per
// design. goa's OpenAPI 3 builder names one schema per structural hash, so in the shared
// validation corpora (eight methods per service, all with a body {aa: T}) most operations are
// documented with the schema of the first method of the same shape; with one method per design
// every operation owns its schemas and a divergence is attributable to the keyword under test
// (C14). Cases in which the validated attribute travels outside the body use inline parameter
// schemas and stay in the shared corpora.
func ValidationIsolated(side string, thorough bool) check.Family {
	var cases []spec.MethodCase
	for _, mc := range spec.L1Validation(side, thorough) {
		if mc.M.Feat["loc"] == spec.LocBody {
			cases = append(cases, mc)
		}
	}
	return check.Family{Name: "iso-val-" + side[:1] + "-" + tierName(thorough), Cases: cases, PerService: 1, PerDesign: 1}
}

// SingleIsolated is the body-located part of the type x requiredness singles, one method per
// design (same reason as ValidationIsolated: "optional" and "default" variants of one type
// share a structural hash).
func SingleIsolated(side string) check.Family {
	var cases []spec.MethodCase
	for _, mc := range spec.L1Single(side) {
		if mc.M.Feat["loc"] == spec.LocBody {
			cases = append(cases, mc)
		}
	}
	return check.Family{Name: "iso-l1" + side[:1] + "-single", Cases: cases, PerService: 1, PerDesign: 1}
}

var _ = strings.HasPrefix

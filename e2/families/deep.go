package families

import (
	"verif/e2/check"
	"verif/e2/spec"
)

// Deep type-structure families (e2/spec/families_deep.go): OneOf unions in JSON bodies, nesting
// depth 2-3, validations at inner positions, non-object payloads/results as the whole body.
// They are kept out of All() on purpose: All() also feeds the OpenAPI checks (C07, C14) and the
// determinism check (C09), whose references do not model unions; C01..C04 add them explicitly.

// DeepPayloadShapes is shape x position on the request side (C01, C02).
func DeepPayloadShapes(thorough bool) check.Family {
	return check.Family{Name: "deep-p-" + tierName(thorough), Cases: spec.DeepShapes("payload", thorough)}
}

// DeepResultShapes is shape x position on the response side (C01, C03).
func DeepResultShapes(thorough bool) check.Family {
	return check.Family{Name: "deep-r-" + tierName(thorough), Cases: spec.DeepShapes("result", thorough)}
}

// DeepPayloadValidation is keyword x deep position on the request side (C01, C04).
func DeepPayloadValidation(thorough bool) check.Family {
	return check.Family{Name: "deepval-p-" + tierName(thorough), Cases: spec.DeepValidation("payload", thorough)}
}

// DeepResultValidation is keyword x deep position on the response side (C01, C04).
func DeepResultValidation(thorough bool) check.Family {
	return check.Family{Name: "deepval-r-" + tierName(thorough), Cases: spec.DeepValidation("result", thorough)}
}

// Deep lists the deep type-structure families (C01 compiles all of them).
func Deep(thorough bool) []check.Family {
	return []check.Family{DeepPayloadShapes(thorough), DeepResultShapes(thorough), DeepPayloadValidation(thorough), DeepResultValidation(thorough)}
}

// Package families names the design families shared by the E2 checks so that they share
// corpora (and the build cache).
package families

import (
	"verif/e2/check"
	"verif/e2/spec"
)

func tierName(thorough bool) string {
	if thorough {
		return "thorough"
	}
	return "quick"
}

// PayloadSingle is type x location x requiredness, one request attribute per method.
func PayloadSingle() check.Family {
	return check.Family{Name: "l1p-single", Cases: spec.L1Single("payload")}
}

// PayloadPair is ordered pairs of request attributes.
func PayloadPair(thorough bool) check.Family {
	return check.Family{Name: "l1p-pair-" + tierName(thorough), Cases: spec.L1Pair("payload", thorough)}
}

// ResultSingle is type x location x requiredness, one response attribute per method.
func ResultSingle() check.Family {
	return check.Family{Name: "l1r-single", Cases: spec.L1Single("result")}
}

// ResultPair is ordered pairs of response attributes.
func ResultPair(thorough bool) check.Family {
	return check.Family{Name: "l1r-pair-" + tierName(thorough), Cases: spec.L1Pair("result", thorough)}
}

// ResultStatus is status selection and tags.
func ResultStatus() check.Family {
	return check.Family{Name: "l2r-status", Cases: spec.L2ResultStatus()}
}

// PayloadValidation is keyword x position x location x requiredness on the request side.
func PayloadValidation(thorough bool) check.Family {
	return check.Family{Name: "val-p-" + tierName(thorough), Cases: spec.L1Validation("payload", thorough)}
}

// ResultValidation is the same on the response side.
func ResultValidation(thorough bool) check.Family {
	return check.Family{Name: "val-r-" + tierName(thorough), Cases: spec.L1Validation("result", thorough)}
}

// Errors is the declared / undeclared error family.
func Errors() check.Family {
	return check.Family{Name: "l2-errors", Cases: spec.L2Errors(), PerService: 4}
}

// Security is the security requirement family.
func Security(thorough bool) check.Family {
	return check.Family{Name: "l2-security-" + tierName(thorough), Cases: spec.L2Security(thorough), PerService: 1, PerDesign: 4}
}

// Views is the result-type view family (one result type per design).
func Views(thorough bool) check.Family {
	return check.Family{Name: "l2-views", Cases: spec.L2Views(thorough), PerService: 1, PerDesign: 1}
}

// StressAttrs / StressNames are the identifier-stress families (C01 only: compile, not executed).
func StressAttrs(thorough bool) check.Family {
	return check.Family{Name: "l3-stress-attrs-" + tierName(thorough), Cases: spec.L3StressAttrs(thorough), CompileOnly: true}
}

// StressNames puts stress names in method/type/view/error/alias positions.
func StressNames(thorough bool) check.Family {
	return check.Family{Name: "l3-stress-names-" + tierName(thorough), Cases: spec.L3StressNames(thorough), PerService: 1, PerDesign: 1, CompileOnly: true}
}

// Features are structural features (verbs, routes, wildcards, body forms, content types,
// multipart, skip-encode, streaming).
func Features() check.Family {
	return check.Family{Name: "l2-features", Cases: spec.L2Features(), PerService: 4}
}

// PayloadValidationPairs / ResultValidationPairs: cross-talk between two attributes' rules.
func PayloadValidationPairs() check.Family {
	return check.Family{Name: "val-pairs-p", Cases: spec.L1ValidationPairs("payload")}
}

// ResultValidationPairs is the response-side counterpart.
func ResultValidationPairs() check.Family {
	return check.Family{Name: "val-pairs-r", Cases: spec.L1ValidationPairs("result")}
}

// GRPCExamples: gRPC designs generated with BOTH gen and example (C10 itself runs gen only), so
// that C01 also type-checks what goa writes for gRPC servers and examples.
func GRPCExamples() check.Family {
	return check.Family{Name: "grpc-examples", Cases: spec.GRPCStreams(), PerService: 4, PerDesign: 1, CompileOnly: true}
}

// CrossService: two or three services per design whose methods bear the same names.
func CrossService() check.Family {
	return check.Family{Name: "l2-cross-service", Cases: spec.L2CrossService(), PerService: 1, PerDesign: 3}
}

// All lists every family (C01, C07, C09 run over all of them).
func All(thorough bool) []check.Family {
	return []check.Family{PayloadSingle(), PayloadPair(thorough), ResultSingle(), ResultPair(thorough), ResultStatus(), PayloadValidation(thorough), ResultValidation(thorough), Errors(), Security(thorough), Views(thorough), Features(), StressAttrs(thorough), StressNames(thorough), PayloadValidationPairs(), ResultValidationPairs(), GRPCExamples(), CrossService()}
}

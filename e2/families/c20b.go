package families

import (
	"verif/e2/check"
	"verif/e2/spec"
)

// C20B is the small corpus of C20 FAMILY B (generated servers and clients under the controlled
// scheduler): four methods per service, one service per design, every handler shape present.
func C20B(thorough bool) check.Family {
	return check.Family{Name: "c20b-" + tierName(thorough), Cases: spec.C20B(thorough), PerService: 4, PerDesign: 1}
}

package families

import (
	"fmt"
	"os"
	"path/filepath"
	"strings"
	"time"

	"verif/core"
	"verif/e2/check"
	"verif/e2/spec"
)

// Streams is the HTTP (WebSocket) streaming family: kind x element type, one method per design.
// It is executed by the thorough tier of C02 (mode C02S) and C03 (mode C03S) only; it is not
// part of All().
func Streams() check.Family {
	return check.Family{Name: "l2-streams", Cases: spec.L2Streams(), PerService: 1, PerDesign: 1}
}

// OnlyStreams reports whether VERIF_ONLY_STREAMS is set (development and mutation runs: only the
// streaming family is run). Such a run is never exhaustive.
func OnlyStreams(c *core.Ctx) bool {
	if os.Getenv("VERIF_ONLY_STREAMS") == "" {
		return false
	}
	c.Incomplete("VERIF_ONLY_STREAMS is set: only the streaming family was run")
	return true
}

// RunStreams builds the streaming family and runs driver mode C02S or C03S over it, recording
// alphabet, bound and oracle. The driver stops enumerating when the check's internal deadline
// passes and names the frontier it reached; the run is then marked incomplete.
func RunStreams(c *core.Ctx, mode string) {
	if !c.Thorough() {
		return
	}
	dir := "requests (client -> service) and the initial payload"
	if mode == "C03S" {
		dir = "results (service -> client) and the final result of client-streaming endpoints"
	}
	c.Note("streaming_rule", "thorough tier, HTTP (WebSocket) streaming endpoints: kinds server, client, bidirectional, server-with-payload (plus client without result, bidirectional with payload) x element types inline object, user type with a required attribute, string, int, array of string, one method per design; "+
		"direction checked here: "+dir+"; per direction the alphabet is every candidate value of the element type that satisfies the design (body menu), sequences are the complete set of length 0..3 over its first/middle/last value (40) plus every value as a one-message sequence; "+
		"bidirectional endpoints: complete product requests x replies x schedule (RS requests first and the service ends, SC replies first and the client ends, ALT ping-pong); the initial payload ranges over its complete candidate product as in C02; "+
		"one case = (method, schedule, payload, request sequence, reply sequence, result); every case is one execution generated client stream <-> loopback TCP (httptest.Server, gorilla/websocket) <-> generated server stream <-> scripted stub")
	c.Assume("streaming: both ends follow scripts fixed before the exchange (Send/Recv/Close by reflection on the generated stream objects); a Recv blocks until the peer's next frame, so observations do not depend on timing; a side still blocked after 20 s is a harness error, never a violation")
	c.Assume("streaming: the error returned by Close on the side that ends second (its peer has already closed the connection) is not observed; a nil streamed message (JSON null is goa's end-of-stream marker) is outside the alphabet")
	if c.Expired() {
		c.Incomplete("streaming family not run: budget exhausted before it started")
		return
	}
	f := Streams()
	corpus, err := check.BuildFamily(c, f)
	if err != nil {
		c.HarnessError("%s: %v", f.Name, err)
		return
	}
	marker := filepath.Join(corpus.Dir, "incomplete-"+mode+".txt")
	_ = os.Remove(marker)
	os.Setenv("VERIF_STREAM_INCOMPLETE", marker)
	os.Setenv("VERIF_STREAM_DEADLINE", fmt.Sprint(c.Deadline().Add(-20*time.Second).Unix()))
	if err := check.RunMode(c, corpus, mode); err != nil {
		c.HarnessError("%s: %v", f.Name, err)
	}
	if b, err := os.ReadFile(marker); err == nil && len(b) > 0 {
		for _, l := range strings.Split(strings.TrimSpace(string(b)), "\n") {
			c.Incomplete(l)
		}
		_ = os.Remove(marker)
	}
}

// Package check glues the E2 pipeline to core.Ctx for the checks that execute generated code.
package check

import (
	"bufio"
	"encoding/json"
	"fmt"
	"sort"
	"strings"
	"time"

	"verif/core"
	"verif/e2/drv"
	"verif/e2/pipe"
	"verif/e2/spec"
)

// Family is a named list of method cases packed into designs.
type Family struct {
	Name       string
	Cases      []spec.MethodCase
	PerService int
	PerDesign  int
	// CompileOnly families are generated and compiled but not linked into a driver (C01).
	CompileOnly bool
}

// BuildFamily filters the cases through goa's own DSL evaluation, packs the accepted ones and
// builds (or reuses) the corpus.
func BuildFamily(c *core.Ctx, f Family) (*pipe.Corpus, error) {
	acc, rej, err := pipe.Filter(f.Cases)
	if err != nil {
		return nil, err
	}
	c.Note("family_"+f.Name+"_cases", len(f.Cases))
	c.Note("family_"+f.Name+"_accepted_by_goa", len(acc))
	if len(rej) > 0 {
		var ex []string
		idx := make([]int, 0, len(rej))
		for i := range rej {
			idx = append(idx, i)
		}
		sort.Ints(idx)
		for _, i := range idx {
			r := rej[i]
			if r.Panic != "" || r.Timeout || r.Stage == "crash" {
				// a crash on a design is C12/C01 territory; it is reported there. Here it only
				// shrinks the executed corpus, which is recorded.
				c.AddNote("family_"+f.Name+"_eval_crashes", 1)
			}
			if len(ex) < 5 {
				ex = append(ex, fmt.Sprintf("%v: %s", f.Cases[i].M.Feat, firstLine(r.Error+r.Panic)))
			}
		}
		c.Note("family_"+f.Name+"_rejected_examples", ex)
	}
	ps, pd := f.PerService, f.PerDesign
	if ps == 0 {
		ps = 8
	}
	if pd == 0 {
		pd = 1
	}
	specs := spec.Pack(acc, ps, pd, f.Name)
	corpus, err := pipe.Build(f.Name, specs, pipe.Options{Cmds: "gen,example", NoDriver: f.CompileOnly})
	if err != nil {
		return nil, err
	}
	linked, broken := 0, 0
	for _, d := range corpus.Designs {
		if d.Linked {
			linked++
		} else {
			broken++
		}
	}
	c.Note("family_"+f.Name+"_designs", len(corpus.Designs))
	c.Note("family_"+f.Name+"_designs_linked", linked)
	c.Note("family_"+f.Name+"_designs_not_generated_or_not_compiling", broken)
	c.Note("family_"+f.Name+"_cached", corpus.Cached)
	excluded := 0
	for _, d := range corpus.Designs {
		excluded += len(d.Excluded)
	}
	c.Note("family_"+f.Name+"_methods_excluded_uncompilable", excluded)
	return corpus, nil
}

func firstLine(s string) string {
	if i := strings.IndexByte(s, '\n'); i >= 0 {
		return s[:i]
	}
	return s
}

// RunMode runs a driver mode over the corpus and folds the results into c.
func RunMode(c *core.Ctx, corpus *pipe.Corpus, mode string, extra ...string) error {
	args := append([]string{"-mode", mode, "-tier", c.Tier()}, extra...)
	budget := time.Until(c.Deadline())
	if budget < time.Minute {
		budget = time.Minute
	}
	out, err := corpus.RunDriver(budget, args...)
	if err != nil {
		return err
	}
	sc := bufio.NewScanner(strings.NewReader(out))
	sc.Buffer(make([]byte, 1<<20), 1<<28)
	for sc.Scan() {
		line := sc.Text()
		if !strings.HasPrefix(line, "{") {
			continue
		}
		var r drv.MethodResult
		if err := json.Unmarshal([]byte(line), &r); err != nil {
			c.HarnessError("driver output: %v", err)
			continue
		}
		for _, e := range r.HarnessErr {
			c.HarnessError("%s %s/%s/%s: %s", mode, r.Design, r.Service, r.Method, e)
		}
		if r.Skipped != "" {
			c.AddNote("methods_skipped", 1)
			continue
		}
		c.AddNote("methods_executed", 1)
		c.Exec(r.Execs)
		for i := int64(0); i < r.Cases; i++ {
			c.State(fmt.Sprintf("%s/%s/%s/%s/%d", corpus.Family, r.Design, r.Service, r.Method, i), i < r.Nontrivial)
		}
		for k, n := range r.Outcomes {
			for i := int64(0); i < n && i < 1; i++ {
				c.Outcome(k)
			}
		}
		for k, n := range r.Notes {
			c.AddNote(k, n)
		}
		for _, s := range r.Samples {
			c.Sample(map[string]any{"design": r.Design, "method": r.Method, "feat": r.Feat, "case": s})
		}
		for _, v := range r.Viols {
			cs := map[string]any{"corpus": corpus.Family, "design": r.Design, "service": r.Service, "method": r.Method, "feat": r.Feat, "mode": mode, "case": v.Case, "count": v.Count}
			c.Violation(v.Sig, v.What, cs, nil) // the driver already re-executed it five times
		}
	}
	return nil
}

package drv

import (
	"errors"
	"fmt"
	"io"

	"verif/e2/spec"
)

// C03S — the streaming part of C03 (thorough tier): every result message the service streams
// through an HTTP (WebSocket) endpoint reaches the caller of the generated client, in order.
//
//	oracle   the client receives, through the generated client stream's Recv, exactly the messages
//	         the stub service handed to the generated server stream's Send, in order, equal under
//	         drv.Equal's normalisations: none lost, duplicated, added, reordered or changed; after
//	         the last one (also when there is none) Recv reports io.EOF once the service has closed
//	         its stream; the server's Send / Close / SendAndClose return no error; the final result
//	         of a client-streaming endpoint (SendAndClose -> CloseAndRecv) arrives equal.
//	not asserted: the error of a Close issued by the side that ends second, timing, frame layout.
func init() { RegisterMode("C03S", runC03S) }

func runC03S(s *Svc, m *spec.Method, tier string) *MethodResult {
	r := &MethodResult{}
	kind := streamKind(m)
	if m.HTTP == nil || kind == "" {
		r.Skipped = "not an HTTP streaming endpoint"
		return r
	}
	if tier != "thorough" {
		r.Skipped = "streaming endpoints are driven in the thorough tier"
		return r
	}
	if m.StreamResult == nil && m.Result == nil {
		r.Skipped = "client streaming without result: nothing travels from the service to the client (C02S covers the requests)"
		return r
	}
	ss, err := MountStreaming(s)
	if err != nil {
		r.HarnessErr = append(r.HarnessErr, "mount streaming: "+err.Error())
		return r
	}
	defer ss.Close()
	env := newStreamEnv(s, m)
	if m.StreamResult != nil && len(env.resVals) == 0 || m.StreamResult == nil && len(env.results) == 0 {
		r.HarnessErr = append(r.HarnessErr, "no valid streamed result value")
		return r
	}
	plans := env.plans("replies")
	r.note("stream_reply_values", int64(len(env.resVals)))
	r.note("stream_result_values", int64(len(env.results)))
	for i, p := range plans {
		if streamExpired() {
			streamIncomplete(s, m, "C03S", i, len(plans))
			r.note("stream_cases_not_run_budget", int64(len(plans)-i))
			break
		}
		if ss.timedOut {
			break
		}
		r.Cases++
		r.Nontrivial++
		c03sOne(ss, env, p, r, true)
	}
	return r
}

func c03sOne(ss *StreamSvc, env *streamEnv, p streamPlan, r *MethodResult, report bool) []string {
	s, m, sp := env.s, env.m, env.s.Spec
	ex := ss.runPlan(m, p)
	if report {
		r.Execs++
	}
	if ex.Herr != nil {
		if report {
			r.HarnessErr = append(r.HarnessErr, "c03s: "+ex.Herr.Error())
		}
		return nil
	}
	var sigs []string
	fail := func(sig, what string) {
		sigs = append(sigs, sig)
		if report {
			r.violation(sig, what, ex.caseJSON(s, p), func() []string { return c03sOne(ss, env, p, r, false) })
		}
	}
	outcome := func(o string) {
		if report {
			r.outcome(o)
		}
	}
	elemT := m.StreamResult
	if elemT == nil {
		elemT = m.Result
	}
	feat := fmt.Sprintf("kind=%s elem=%s%s", env.kind, typeClass(sp, elemT), schedFeat(p))
	if pn := ex.streamPanic(); pn != "" {
		fail(fmt.Sprintf("C03 stream-panic %s %s", feat, panicSite(pn)), "generated code panicked: "+pn)
		return sigs
	}
	if ex.Invoked != 1 {
		outcome("request-not-delivered (a C02S matter)")
		if report {
			r.note("request_not_delivered_cases_(C02_matter)", 1)
		}
		return sigs
	}
	first := ex.firstFailure()
	// ---- client streaming: the final result
	if m.StreamResult == nil {
		sentN := p.Result
		if ev, err := expressed(s, env.finT, m.Result, p.Result); err == nil {
			sentN = ev
		}
		if so := ex.Srv.failedObs(); first == "server" && so != nil && so.Op == opSendAndClose {
			outcome("server-op-error")
			fail(fmt.Sprintf("C03 stream-op-error %s side=server op=%s observed=%s", feat, so.Op, streamErrClass(so.Err)),
				fmt.Sprintf("server stream SendAndClose(%s) returned %v", spec.Canon(sentN), so.Err))
			return sigs
		}
		if first == "server" || ex.OpenErr != nil {
			outcome("requests-not-delivered (a C02S matter)")
			return sigs
		}
		co := ex.Cli.obsOf(opCloseAndRecv)
		if co == nil {
			outcome("client-send-failed (a C02S matter)")
			return sigs
		}
		if co.Err != nil {
			outcome("result-error")
			fail(fmt.Sprintf("C03 stream-result-error %s observed=%s", feat, streamErrClass(co.Err)),
				fmt.Sprintf("the service returned %s through SendAndClose, the client's CloseAndRecv returned %v", spec.Canon(sentN), co.Err))
			return sigs
		}
		var gotN any
		if len(co.Vals) == 1 {
			gotN = co.Vals[0]
		}
		if d := Equal(sp, m.Result, nil, sentN, gotN, "result"); d != nil {
			outcome("result-different")
			fail(fmt.Sprintf("C03 stream-result-changed %s value=%s observed=%s", feat, valueClass(d.Sent), valueClass(d.Recv)),
				fmt.Sprintf("%s: %s (service returned %s through SendAndClose, client's CloseAndRecv got %s)", d.Path, d.Why, spec.Canon(sentN), spec.Canon(gotN)))
			return sigs
		}
		outcome(fmt.Sprintf("result-equal kind=%s requests=%s", env.kind, seqLenClass(len(p.Requests))))
		if report && r.Cases%41 == 1 {
			r.sample(map[string]any{"kind": env.kind, "result": spec.JSONable(sentN), "client_result": spec.JSONable(gotN), "requests": len(p.Requests)})
		}
		return sigs
	}
	// ---- streamed results, service -> client
	sent := expressedSeq(s, env.resT, m.StreamResult, p.Replies)
	got := ex.Cli.recvd()
	if ex.OpenErr != nil {
		outcome("stream-not-opened replies=" + seqLenClass(len(sent)))
		// the failure to open does not depend on the element type or the schedule: kind, the number
		// of replies and whether the server upgraded the connection classify it
		fail(fmt.Sprintf("C03 stream-open-failed kind=%s replies=%s upgraded=%v observed=%s", env.kind, seqLenClass(len(sent)), ex.Upgraded, streamErrClass(ex.OpenErr)),
			fmt.Sprintf("the service streamed %d results and closed its stream without error; the client endpoint returned no stream but the error %v (%s)",
				len(sent), ex.OpenErr, ex.responseText()))
		return sigs
	}
	// the client's view is authoritative when its script ran to its end (see c02stream.go)
	cliClean := ex.Cli.Finished && !ex.Cli.Aborted
	if first == "server" && !(cliClean && !seqEqual(sp, m.StreamResult, sent, got)) {
		so := ex.Srv.failedObs()
		if so != nil && (so.Op == opSend || so.Op == opClose) {
			pos := 0
			for _, o := range ex.Srv.Obs {
				if o.Op == opSend && o.Err == nil {
					pos++
				}
			}
			var v any
			if so.Op == opSend && pos < len(sent) {
				v = sent[pos]
			}
			outcome("server-op-error")
			_ = v
			fail(fmt.Sprintf("C03 stream-op-error %s side=server op=%s observed=%s", feat, so.Op, streamErrClass(so.Err)),
				fmt.Sprintf("server stream %s returned %v (operation %d of the server script %v)", so.Op, so.Err, ex.Srv.AbortAt, opNames(ex.SrvOps)))
			return sigs
		}
		if so != nil && (so.Op == opRecv || so.Op == opRecvAll) {
			nsent := 0
			for _, o := range ex.Srv.Obs {
				if o.Op == opSend && o.Err == nil {
					nsent++
				}
			}
			if nsent < len(sent) {
				outcome("server-receive-failed-before-all-replies-were-sent (a C02S matter)")
				return sigs
			}
		}
	}
	if first == "client" {
		if o := ex.Cli.failedObs(); o != nil && (o.Op == opRecv || o.Op == opRecvAll) && o.Err != nil && !errors.Is(o.Err, io.EOF) {
			pos := len(got)
			if pos < len(sent) {
				outcome("client-recv-error")
				fail(fmt.Sprintf("C03 stream-recv-error %s pos=%s value=%s observed=%s", feat, posClass(pos, len(sent)), valueClass(sent[pos]), streamErrClass(o.Err)),
					fmt.Sprintf("client stream Recv returned %v instead of message %d of %d (%s); delivered before: %v", o.Err, pos+1, len(sent), spec.Canon(sent[pos]), seqJSON(got)))
				return sigs
			}
			if seqEqual(sp, m.StreamResult, sent, got) {
				outcome("client-end-error")
				fail(fmt.Sprintf("C03 stream-end %s observed=%s", feat, streamErrClass(o.Err)),
					fmt.Sprintf("after the %d results the service streamed and its Close, client stream Recv returned %v instead of io.EOF", len(sent), o.Err))
				return sigs
			}
		}
		if o := ex.Cli.failedObs(); o != nil && o.Op != opRecv && o.Op != opRecvAll && len(got) < len(sent) {
			outcome("client-send-failed-before-all-replies-were-read (a C02S matter)")
			return sigs
		}
	}
	if first == "server" && len(got) < len(sent) && !cliClean {
		outcome("server-failed-first (a C02S matter)")
		return sigs
	}
	if v := compareSeq(sp, m.StreamResult, sent, got); v.Class != "" {
		outcome("replies-" + v.Class)
		what := fmt.Sprintf("service streamed %v, client stream delivered %v: %s", seqJSON(sent), seqJSON(got), v.What)
		switch v.Class {
		case "changed":
			fail(fmt.Sprintf("C03 stream-message-changed %s pos=%s value=%s observed=%s", feat, posClass(v.Pos, len(sent)), valueClass(v.Sent), valueClass(v.Recv)), what)
		case "lost":
			fail(fmt.Sprintf("C03 stream-message-lost %s pos=%s value=%s", feat, posClass(v.Pos, len(sent)), valueClass(v.Sent)), what)
		case "extra", "duplicated":
			fail(fmt.Sprintf("C03 stream-message-%s %s pos=%s", v.Class, feat, posClass(v.Pos, len(got))), what)
		case "order":
			fail(fmt.Sprintf("C03 stream-order %s", feat), what)
		default:
			fail(fmt.Sprintf("C03 stream-sequence-changed %s sent=%d observed=%d", feat, len(sent), len(got)), what)
		}
		return sigs
	}
	outcome(fmt.Sprintf("replies-delivered-in-order kind=%s n=%s%s", env.kind, seqLenClass(len(sent)), schedFeat(p)))
	if report && r.Cases%97 == 1 {
		r.sample(map[string]any{"kind": env.kind, "schedule": p.Sched, "replies": seqJSON(sent), "client_received": seqJSON(got), "requests": len(p.Requests)})
	}
	return sigs
}

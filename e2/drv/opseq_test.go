package drv

import (
	"testing"

	"verif/e2/spec"
)

func TestSeqKeyRoundTrip(t *testing.T) {
	ops := []seqOp{{3, 0}, {0, 1}, {5, 1}}
	k := seqKey(ops)
	if k != "3f.0m.5m" {
		t.Fatalf("key %q", k)
	}
	back, err := parseSeq(k, 6)
	if err != nil || len(back) != 3 || back[0] != ops[0] || back[1] != ops[1] || back[2] != ops[2] {
		t.Fatalf("parse %v %v", back, err)
	}
	if _, err := parseSeq("6f", 6); err == nil {
		t.Fatal("method index out of range accepted")
	}
	if _, err := parseSeq("1x", 6); err == nil {
		t.Fatal("unknown variant accepted")
	}
}

func TestProperSubPrefixes(t *testing.T) {
	ops := []seqOp{{0, 0}, {1, 0}, {2, 0}, {3, 1}}
	subs := properSubPrefixes(ops)
	if len(subs) != 7 { // 2^3 subsets of the predecessors minus the full one
		t.Fatalf("%d sub-sequences", len(subs))
	}
	for _, s := range subs {
		if s[len(s)-1] != ops[3] || len(s) >= len(ops) {
			t.Fatalf("bad sub-sequence %v", s)
		}
	}
}

// the two variants of the menu differ in every attribute, minimal leaves the optional ones unset
func TestSeqValueVariantsDiffer(t *testing.T) {
	sp := &spec.Spec{}
	ty := spec.ObjT([]string{"title"}, spec.A("title", spec.P(spec.KString)), spec.A("tags", spec.ArrT(spec.P(spec.KString))), spec.A("count", spec.P(spec.KInt)), spec.A("ok", spec.P(spec.KBool)))
	full := seqValue(sp, ty, "a", "post.p", true).(spec.Obj)
	min := seqValue(sp, ty, "b", "post.p", false).(spec.Obj)
	if len(full) != 4 || len(min) != 1 {
		t.Fatalf("full %v minimal %v", full, min)
	}
	other := seqValue(sp, ty, "b", "post.p", true).(spec.Obj)
	for k, v := range full {
		if spec.Canon(v) == spec.Canon(other[k]) {
			t.Fatalf("attribute %s has the same value in both variants: %s", k, spec.Canon(v))
		}
	}
	// the same attribute name in another method or role gets another value
	if spec.Canon(seqValue(sp, spec.P(spec.KInt), "a", "get.p.qq", true)) == spec.Canon(seqValue(sp, spec.P(spec.KInt), "a", "srv.p.qq", true)) {
		t.Fatal("values are not salted with the method kind")
	}
}

func TestHeaderDiffOrigin(t *testing.T) {
	pred := &OpObs{RespHeader: map[string][]string{"Set-Cookie": {"cval=a-hc.r.cval"}}, ResSent: map[string]string{"cval": `"a-hc.r.cval"`}}
	earlier := earlierTexts([]*OpObs{pred})
	alone := map[string][]string{"Cookie": {"sess=b-hc.p.sess"}}
	got := map[string][]string{"Cookie": {"sess=b-hc.p.sess; cval=a-hc.r.cval"}}
	d := headerDiff("request-header", alone, got, earlier)
	if len(d) != 1 || d[0].Class != "request-header name=Cookie alone=present observed=value-of-an-earlier-call" {
		t.Fatalf("%+v", d)
	}
	d = headerDiff("request-header", nil, map[string][]string{"X-New": {"zzz"}}, earlier)
	if len(d) != 1 || d[0].Class != "request-header name=X-New alone=absent observed=more-values" {
		t.Fatalf("%+v", d)
	}
	d = attrDiff("payload", func(string) string { return "loc=query req=optional" }, map[string]string{}, map[string]string{"qq": `"a-hc.r.cval"`}, earlier)
	if len(d) != 1 || d[0].Class != "payload loc=query req=optional alone=unset observed=value-of-an-earlier-call" {
		t.Fatalf("%+v", d)
	}
	if headerDiff("request-header", alone, alone, earlier) != nil {
		t.Fatal("equal headers differ")
	}
}

func TestErrSlug(t *testing.T) {
	if s := errSlug(`[s0 m0]: Get "ws://HOST/m0/1078?q=x": unsupported protocol scheme "ws"`); s != "unsupported-protocol-scheme-ws" {
		t.Fatal(s)
	}
	if errSlug("") != "none" {
		t.Fatal("empty")
	}
}

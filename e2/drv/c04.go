package drv

import (
	"bytes"
	"fmt"
	"io"
	"net/http"
	"net/url"
	"strings"

	"verif/e2/spec"
)

func init() { RegisterMode("C04", runC04) }

// c02DeliveryClass reports whether the payload contains a value whose mere delivery is the
// subject of C02 (and fails there for reasons unrelated to validation): an empty string
// outside the body, a path value containing '/' or '%', a path array with a space, path bytes.
func c02DeliveryClass(sp *spec.Spec, l *Layout, v any) bool {
	for _, p := range l.Places {
		var pv any
		if l.Whole {
			pv = v
		} else if o, ok := v.(spec.Obj); ok {
			pv = o[p.Attr]
		}
		var strs []string
		switch x := pv.(type) {
		case string:
			strs = []string{x}
		case spec.Arr:
			for _, e := range x {
				if s, ok := e.(string); ok {
					strs = append(strs, s)
				}
			}
		case []byte:
			if p.Loc == spec.LocPath {
				return true
			}
		}
		for _, s := range strs {
			if p.Loc != spec.LocBody && s == "" {
				return true
			}
			if p.Loc == spec.LocPath && strings.ContainsAny(s, "/% ") {
				return true
			}
		}
	}
	return false
}

// ambiguousEmpty reports whether the value contains a collection-typed attribute (array, map,
// bytes) that is nil where required, or empty where validated: by normalisation 1 nil and empty
// collections are the same value, so "missing" versus "present but empty" is not decidable from
// the statement and such values are asserted neither valid nor invalid.
func ambiguousEmpty(sp *spec.Spec, t *spec.Type, v any) bool {
	e := sp.Eff(t)
	switch x := v.(type) {
	case spec.Arr:
		// the same question one level down: elements of arrays, values of maps
		for _, el := range x {
			if e.Elem != nil && ambiguousEmpty(sp, e.Elem, el) {
				return true
			}
		}
		return false
	case spec.MapV:
		for _, kv := range x {
			if e.Elem != nil && ambiguousEmpty(sp, e.Elem, kv.V) {
				return true
			}
		}
		return false
	}
	o, ok := v.(spec.Obj)
	if !ok {
		return false
	}
	if e.K == spec.KUnion {
		// only the chosen alternative holds a value
		for _, a := range e.Attrs {
			if av := o[a.Name]; av != nil {
				ae := sp.Eff(a.T)
				if (ae.K == spec.KArray || ae.K == spec.KMap || ae.K == spec.KBytes) && spec.IsEmptyColl(av) && len(ae.Vs) > 0 {
					return true
				}
				return ambiguousEmpty(sp, a.T, av)
			}
		}
		return false
	}
	for _, a := range e.Attrs {
		ae := sp.Eff(a.T)
		coll := ae.K == spec.KArray || ae.K == spec.KMap || ae.K == spec.KBytes
		av := o[a.Name]
		if coll && unsetLike(av) {
			if spec.IsRequired(e.Required, a.Name) || (av != nil && len(ae.Vs) > 0) {
				return true
			}
			if av == nil {
				// unset optional collection whose validations the empty collection violates
				// (MinLength >= 1): "unset" and "empty" are one value, the verdicts differ
				var empty any
				switch ae.K {
				case spec.KArray:
					empty = spec.Arr{}
				case spec.KMap:
					empty = spec.MapV{}
				case spec.KBytes:
					empty = []byte{}
				}
				if len(sp.Check(a.T, empty, "")) > 0 {
					return true
				}
			}
		}
		if (ae.K == spec.KObject || ae.K == spec.KArray || ae.K == spec.KMap || ae.K == spec.KUnion) && av != nil && ambiguousEmpty(sp, a.T, av) {
			return true
		}
	}
	return false
}

func issueRules(issues []spec.Issue) []string {
	var out []string
	seen := map[string]bool{}
	for _, i := range issues {
		if !seen[i.Rule] {
			seen[i.Rule] = true
			out = append(out, i.Rule)
		}
	}
	return out
}

func featSig(m *spec.Method, p *Place) string {
	f := m.Feat
	loc, req := f["loc"], f["req"]
	if p != nil {
		loc, req = p.Loc, p.Req
	}
	return fmt.Sprintf("valid=%s pos=%s loc=%s req=%s", f["valid"], f["pos"], loc, req)
}

func runC04(s *Svc, m *spec.Method, tier string) *MethodResult {
	r := &MethodResult{}
	if m.HTTP == nil {
		r.Skipped = "no HTTP mapping"
		return r
	}
	if m.StreamPayload != nil || m.StreamResult != nil || m.HTTP.Multipart || m.HTTP.SkipReq || m.HTTP.SkipResp {
		r.Skipped = "streaming/multipart/skip-encode endpoints are not driven by C04 in this revision"
		return r
	}
	sp := s.Spec
	if m.Payload != nil {
		if rt := sp.RequestType(s.Service, m); rt != m.Payload {
			// validations written on the HTTP mapping elements (endpoint, service, API level) are
			// constraints on the payload like any other: value menus and verdicts are computed on
			// the payload type with those rules folded in
			mc := *m
			mc.Payload = rt
			m = &mc
		}
		l := RequestLayout(sp, s.Service, m)
		seen := map[string]bool{}
		for _, v := range payloadValues(s, m, l) {
			if !sendable(l, v) {
				continue
			}
			// the constraint verdict is computed on the value the typed client can express
			ev, err := expressed(s, s.PayloadType(m.Name), m.Payload, v)
			if err != nil {
				r.HarnessErr = append(r.HarnessErr, "c04: "+err.Error())
				continue
			}
			key := spec.Canon(ev)
			if seen[key] {
				continue
			}
			seen[key] = true
			issues := sp.Check(m.Payload, ev, "payload")
			if c02DeliveryClass(sp, l, ev) || emptyRequiredOutsideBody(l, ev) {
				r.note("values_left_to_C02_delivery_classes", 1)
				continue
			}
			if ambiguousEmpty(sp, m.Payload, ev) {
				r.note("values_ambiguous_nil_vs_empty_collection", 1)
				continue
			}
			r.Cases++
			if len(issues) > 0 {
				r.Nontrivial++
			}
			c04Request(s, m, l, v, issues, r, true)
		}
		c04Malformed(s, m, l, r)
	}
	if m.Result != nil && s.NumResults(m.Name) == 2 {
		first := successResponses(m)[0]
		if rt := sp.ResponseType(m, &first); rt != m.Result {
			// validations written on the response's headers / cookies: folded into the result type
			mc := *m
			mc.Result = rt
			m = &mc
		}
		l := ResponseLayout(sp, m, &first)
		seen := map[string]bool{}
		for _, v := range resultValues(s, m, l) {
			if v == nil {
				continue
			}
			ev, err := expressed(s, s.ResultType(m.Name), m.Result, v)
			if err != nil {
				r.HarnessErr = append(r.HarnessErr, "c04 result: "+err.Error())
				continue
			}
			if seen[spec.Canon(ev)] {
				continue
			}
			seen[spec.Canon(ev)] = true
			issues := sp.Check(m.Result, ev, "result")
			if len(issues) == 0 {
				continue // valid results are C03's subject
			}
			if ambiguousEmpty(sp, m.Result, ev) {
				r.note("values_ambiguous_nil_vs_empty_collection", 1)
				continue
			}
			r.Cases++
			r.Nontrivial++
			c04Result(s, m, l, v, issues, r, true)
		}
	}
	return r
}

func c04Request(s *Svc, m *spec.Method, l *Layout, v any, issues []spec.Issue, r *MethodResult, report bool) []string {
	call, sentN, _, err, herr := exchange(s, m, v, nil)
	if report {
		r.Execs++
	}
	if herr != nil {
		if report {
			r.HarnessErr = append(r.HarnessErr, "c04: "+herr.Error())
		}
		return nil
	}
	var sigs []string
	fail := func(sig, what string) {
		sigs = append(sigs, sig)
		if report {
			cs := map[string]any{"design": s.Design, "service": s.Service.Name, "method": m.Name, "payload": spec.JSONable(v), "expected_issues": fmt.Sprint(issues)}
			if call.ServerReq != nil {
				cs["request"] = call.ServerReq.Method + " " + call.ServerReq.RequestURI
				cs["request_body"] = string(call.ReqBody)
			}
			if call.Rec != nil {
				cs["status"] = call.Rec.Code
				cs["response_body"] = truncate(call.Rec.Body.String(), 300)
			}
			r.violation(sig, what, cs, func() []string { return c04Request(s, m, l, v, issues, r, false) })
		}
	}
	p, pv := suspect(l, sentN)
	if call.ServerPanic != "" {
		if call.ServerReq == nil && len(issues) > 0 {
			// the generated client itself failed (nil dereference in a body constructor) on a
			// payload that violates the design, before anything was sent: no request exists, user
			// code did not run; the statement asks nothing of the client here (as for the server
			// and a result that violates the design, see c04Result)
			if report {
				r.outcome("client-panic-on-invalid-payload")
			}
			return sigs
		}
		fail("C04 server-panic "+featSig(m, p)+" "+panicSite(call.ServerPanic), "server handler panicked: "+call.ServerPanic)
		return sigs
	}
	if call.ServerReq == nil {
		// the client refused to send the request
		if len(issues) > 0 {
			if report {
				r.outcome("client-refused-invalid")
			}
			return sigs
		}
		fail("C04 client-refused-valid "+featSig(m, p)+" value="+valueClass(pv), fmt.Sprintf("client did not send valid payload %s: %v", spec.Canon(sentN), err))
		return sigs
	}
	status := call.Rec.Code
	if len(issues) == 0 {
		if call.Invoked != 1 {
			if report {
				r.outcome("valid-rejected")
			}
			fail(fmt.Sprintf("C04 valid-rejected %s value=%s observed=status-%d-%s", featSig(m, p), valueClass(pv), status, errorName(call)),
				fmt.Sprintf("payload %s satisfies every constraint of the design but user code was not invoked (status %d, body %s)", spec.Canon(sentN), status, truncate(call.Rec.Body.String(), 200)))
		} else if report {
			r.outcome("valid-invoked")
		}
		return sigs
	}
	rules := issueRules(issues)
	if call.Invoked != 0 {
		if report {
			r.outcome("invalid-invoked")
		}
		fail(fmt.Sprintf("C04 invalid-accepted %s rule=%s value=%s", featSig(m, p), rules[0], valueClass(pv)),
			fmt.Sprintf("payload %s violates %v but user code was invoked", spec.Canon(sentN), issues))
		return sigs
	}
	name := errorName(call)
	if status < 400 || status > 499 {
		fail(fmt.Sprintf("C04 wrong-status %s rule=%s observed=status-%d", featSig(m, p), rules[0], status),
			fmt.Sprintf("payload %s violates %v: expected a 400-class answer, got %d %s", spec.Canon(sentN), issues, status, truncate(call.Rec.Body.String(), 200)))
		return sigs
	}
	named := false
	for _, ru := range rules {
		if ru == name {
			named = true
		}
	}
	if !named {
		fail(fmt.Sprintf("C04 wrong-error-name %s rule=%s observed=%s", featSig(m, p), rules[0], name),
			fmt.Sprintf("payload %s violates %v but the error is named %q: %s", spec.Canon(sentN), issues, name, truncate(call.Rec.Body.String(), 200)))
		return sigs
	}
	if report {
		r.outcome("invalid-rejected-" + name)
		if r.Cases%11 == 1 {
			r.sample(map[string]any{"payload": spec.JSONable(sentN), "issues": fmt.Sprint(issues), "status": status, "error": name})
		}
	}
	return sigs
}

func c04Result(s *Svc, m *spec.Method, l *Layout, v any, issues []spec.Issue, r *MethodResult, report bool) []string {
	var herr error
	call, _, res, err, herr2 := exchange(s, m, minimalPayload(s, m), replyWith(s, m, v, "", nil, &herr))
	if report {
		r.Execs++
	}
	if herr == nil {
		herr = herr2
	}
	if herr != nil {
		if report {
			r.HarnessErr = append(r.HarnessErr, "c04 result: "+herr.Error())
		}
		return nil
	}
	var sigs []string
	if call.Invoked != 1 {
		return nil
	}
	p, pv := suspect(l, v)
	rules := issueRules(issues)
	// An empty string in a header/cookie is seen as absent by the client (C03 known class):
	// the violated rule may then be reported as missing_field or not at all for optional
	// attributes; those values are left to C03.
	if c02DeliveryClass(s.Spec, l, v) {
		if report {
			r.note("invalid_results_left_to_C03_delivery_classes", 1)
		}
		return nil
	}
	if call.ServerPanic != "" {
		if report {
			r.outcome("server-panic-on-invalid-result")
		}
		return nil // the server is free to fail on a result that violates the design
	}
	if err == nil {
		sig := fmt.Sprintf("C04 client-accepted-invalid-result %s rule=%s value=%s", featSig(m, p), rules[0], valueClass(pv))
		sigs = append(sigs, sig)
		if report {
			r.outcome("invalid-result-accepted")
			cs := map[string]any{"design": s.Design, "service": s.Service.Name, "method": m.Name, "result": spec.JSONable(v), "expected_issues": fmt.Sprint(issues),
				"status": call.Rec.Code, "response_headers": call.Rec.Header(), "response_body": truncate(call.Rec.Body.String(), 300), "client_result": fmt.Sprintf("%+v", res)}
			r.violation(sig, fmt.Sprintf("result %s violates %v but the generated client returned it without error", spec.Canon(v), issues), cs,
				func() []string { return c04Result(s, m, l, v, issues, r, false) })
		}
		return sigs
	}
	if report {
		r.outcome("invalid-result-refused-" + errClass(err))
	}
	return sigs
}

// c04Malformed sends hand-built malformed encodings of the method's single varied attribute.
func c04Malformed(s *Svc, m *spec.Method, l *Layout, r *MethodResult) {
	sp := s.Spec
	// capture a valid request as template
	var tmpl *Call
	for _, v := range payloadValues(s, m, l) {
		if v == nil || len(sp.Check(m.Payload, v, "")) > 0 || !sendable(l, v) || c02DeliveryClass(sp, l, v) || emptyRequiredOutsideBody(l, v) {
			continue
		}
		allSet := true
		if o, ok := v.(spec.Obj); ok {
			for _, p := range l.Places {
				if o[p.Attr] == nil {
					allSet = false
				}
			}
		}
		if !allSet {
			continue
		}
		call, _, _, _, herr := exchange(s, m, v, nil)
		if herr == nil && call.Invoked == 1 {
			tmpl = call
			break
		}
	}
	if tmpl == nil || len(l.Places) == 0 {
		return
	}
	type variant struct {
		kind string
		mut  func(req *http.Request, body *[]byte)
	}
	for _, p := range l.Places {
		e := sp.Eff(p.T)
		k := e.K
		if k == spec.KArray {
			k = sp.Eff(e.Elem).K
		}
		numeric := k != spec.KString && k != spec.KBytes && k != spec.KAny && spec.IsPrimitive(k)
		var vs []variant
		bad := []string{}
		if numeric {
			bad = append(bad, "zz")
			if k != spec.KBool && k != spec.KFloat32 && k != spec.KFloat64 {
				bad = append(bad, "99999999999999999999999")
			}
			if strings.HasPrefix(k, "uint") {
				bad = append(bad, "-1")
			}
			if k == spec.KInt32 || k == spec.KUInt32 {
				bad = append(bad, "4294967296")
			}
		}
		for _, b := range bad {
			b := b
			switch p.Loc {
			case spec.LocPath:
				vs = append(vs, variant{"path-text-" + textClass(b), func(req *http.Request, _ *[]byte) {
					tsegs := strings.Split(strings.Trim(l.FullPath, "/"), "/")
					rsegs := strings.Split(strings.Trim(req.URL.EscapedPath(), "/"), "/")
					for i, seg := range tsegs {
						if mm := wildcardRe.FindStringSubmatch(seg); mm != nil && mm[1] == p.Wire && i < len(rsegs) {
							rsegs[i] = url.PathEscape(b)
						}
					}
					req.URL.Path = "/" + strings.Join(rsegs, "/")
					req.URL.RawPath = ""
				}})
			case spec.LocQuery:
				vs = append(vs, variant{"query-text-" + textClass(b), func(req *http.Request, _ *[]byte) {
					q := req.URL.Query()
					q.Set(p.Wire, b)
					req.URL.RawQuery = q.Encode()
				}})
			case spec.LocHeader:
				vs = append(vs, variant{"header-text-" + textClass(b), func(req *http.Request, _ *[]byte) { req.Header.Set(p.Wire, b) }})
			case spec.LocCookie:
				vs = append(vs, variant{"cookie-text-" + textClass(b), func(req *http.Request, _ *[]byte) {
					req.Header.Del("Cookie")
					req.AddCookie(&http.Cookie{Name: p.Wire, Value: b})
				}})
			}
		}
		if p.Loc == spec.LocBody && l.BodyKind == "object" {
			if e.K != spec.KString && e.K != spec.KAny && e.K != spec.KBytes {
				vs = append(vs, variant{"body-wrong-json-type", func(_ *http.Request, body *[]byte) { *body = []byte(`{"` + p.Wire + `":"zz"}`) }})
			}
			if e.K == spec.KString || e.K == spec.KBytes {
				vs = append(vs, variant{"body-wrong-json-type", func(_ *http.Request, body *[]byte) { *body = []byte(`{"` + p.Wire + `":12}`) }})
			}
			if e.K == spec.KUnion {
				// OneOf union: {"Type": alternative, "Value": JSON text}; malformed Value texts,
				// an undeclared alternative and a missing Value
				for _, alt := range e.Attrs {
					alt := alt
					ak := sp.Eff(alt.T).K
					wrong := `"zz"`
					if ak == spec.KString || ak == spec.KBytes || ak == spec.KAny {
						wrong = `12`
					}
					if ak != spec.KAny {
						vs = append(vs, variant{"union-value-wrong-json-type-" + typeClass(sp, alt.T), func(_ *http.Request, body *[]byte) {
							*body = []byte(`{"` + p.Wire + `":{"Type":"` + alt.Name + `","Value":` + fmt.Sprintf("%q", wrong) + `}}`)
						}})
					}
					vs = append(vs, variant{"union-value-invalid-json-" + typeClass(sp, alt.T), func(_ *http.Request, body *[]byte) {
						*body = []byte(`{"` + p.Wire + `":{"Type":"` + alt.Name + `","Value":"{"}}`)
					}})
				}
				vs = append(vs, variant{"union-undeclared-alternative", func(_ *http.Request, body *[]byte) {
					*body = []byte(`{"` + p.Wire + `":{"Type":"nope","Value":"1"}}`)
				}})
				vs = append(vs, variant{"union-missing-value", func(_ *http.Request, body *[]byte) {
					*body = []byte(`{"` + p.Wire + `":{"Type":"` + e.Attrs[0].Name + `"}}`)
				}})
			}
			vs = append(vs, variant{"body-invalid-json", func(_ *http.Request, body *[]byte) { *body = []byte(`{"` + p.Wire + `":`) }})
			vs = append(vs, variant{"body-wrong-top-level-type", func(_ *http.Request, body *[]byte) { *body = []byte(`[1]`) }})
			if p.Req == "required" {
				vs = append(vs, variant{"body-empty", func(_ *http.Request, body *[]byte) { *body = nil }})
				vs = append(vs, variant{"body-null-for-required", func(_ *http.Request, body *[]byte) { *body = []byte(`{"` + p.Wire + `":null}`) }})
			}
		}
		for _, vr := range vs {
			vr := vr
			r.Cases++
			r.Nontrivial++
			one := func(report bool) []string {
				body := append([]byte{}, tmpl.ReqBody...)
				u := *tmpl.ServerReq.URL
				u.Scheme, u.Host = "http", "verif.test"
				req, _ := http.NewRequest(tmpl.ServerReq.Method, u.String(), nil)
				req.URL.RawPath = tmpl.ServerReq.URL.RawPath
				for k, v := range tmpl.ServerReq.Header {
					req.Header[k] = append([]string{}, v...)
				}
				vr.mut(req, &body)
				req.Body = io.NopCloser(bytes.NewReader(body))
				req.ContentLength = int64(len(body))
				call := &Call{}
				_, err := s.RawDo(call, req)
				if report {
					r.Execs++
				}
				var sigs []string
				fail := func(sig, what string) {
					sigs = append(sigs, sig)
					if report {
						cs := map[string]any{"design": s.Design, "method": m.Name, "variant": vr.kind, "request": req.Method + " " + req.URL.RequestURI(), "headers": req.Header, "body": string(body)}
						if call.Rec != nil {
							cs["status"] = call.Rec.Code
							cs["response_body"] = truncate(call.Rec.Body.String(), 300)
						}
						r.violation(sig, what, cs, nil)
					}
				}
				ts := fmt.Sprintf("type=%s loc=%s req=%s", typeClass(sp, p.T), p.Loc, p.Req)
				if call.ServerPanic != "" {
					fail("C04 malformed server-panic "+vr.kind+" "+ts+" "+panicSite(call.ServerPanic), "server handler panicked on a malformed request: "+call.ServerPanic)
					return sigs
				}
				if err != nil || call.Rec == nil {
					return sigs
				}
				if call.Invoked != 0 {
					fail("C04 malformed accepted "+vr.kind+" "+ts, fmt.Sprintf("malformed request (%s) reached user code", vr.kind))
					return sigs
				}
				st := call.Rec.Code
				name := errorName(call)
				if st < 400 || st > 499 {
					fail(fmt.Sprintf("C04 malformed wrong-status %s %s observed=status-%d", vr.kind, ts, st), fmt.Sprintf("malformed request (%s) answered %d %s", vr.kind, st, truncate(call.Rec.Body.String(), 200)))
					return sigs
				}
				switch name {
				case "invalid_field_type", "decode_payload", "missing_payload", "missing_field", "invalid_range", "invalid_length", "invalid_enum_value", "invalid_format", "invalid_pattern":
				default:
					fail(fmt.Sprintf("C04 malformed wrong-error-name %s %s observed=%s", vr.kind, ts, name), fmt.Sprintf("malformed request (%s) answered with error %q: %s", vr.kind, name, truncate(call.Rec.Body.String(), 200)))
				}
				if report {
					r.outcome("malformed-rejected-" + name)
				}
				return sigs
			}
			one(true)
		}
	}
}

func textClass(s string) string {
	switch {
	case s == "zz":
		return "letters"
	case strings.HasPrefix(s, "-"):
		return "negative"
	case len(s) > 15:
		return "overflow-64"
	}
	return "overflow-32"
}

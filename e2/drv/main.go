package drv

import (
	"encoding/json"
	"flag"
	"fmt"
	"os"
	"path/filepath"
	"runtime"
	"runtime/debug"
	"sort"
	"strings"
	"sync"

	"verif/e2/spec"
)

// Viol is one oracle failure class observed by the driver.
type Viol struct {
	Sig   string `json:"sig"`
	What  string `json:"what"`
	Case  any    `json:"case"`
	Count int    `json:"count"`
}

// MethodResult is what the driver reports per (design, service, method).
type MethodResult struct {
	Design     string            `json:"design"`
	Service    string            `json:"service"`
	Method     string            `json:"method"`
	Feat       map[string]string `json:"feat,omitempty"`
	Execs      int64             `json:"execs"`
	Cases      int64             `json:"cases"`
	Nontrivial int64             `json:"nontrivial"`
	Outcomes   map[string]int64  `json:"outcomes"`
	Samples    []any             `json:"samples,omitempty"`
	Viols      []*Viol           `json:"viols,omitempty"`
	Skipped    string            `json:"skipped,omitempty"`
	HarnessErr []string          `json:"harness_err,omitempty"`
	Notes      map[string]int64  `json:"notes,omitempty"`

	viol map[string]*Viol
}

func (r *MethodResult) outcome(c string) {
	if r.Outcomes == nil {
		r.Outcomes = map[string]int64{}
	}
	r.Outcomes[c]++
}

func (r *MethodResult) note(k string, n int64) {
	if r.Notes == nil {
		r.Notes = map[string]int64{}
	}
	r.Notes[k] += n
}

func (r *MethodResult) sample(v any) {
	if len(r.Samples) < 2 {
		r.Samples = append(r.Samples, v)
	}
}

// violation registers a failure; recheck re-executes the case and returns the signatures it
// produces: the failure is reported only if it reproduces on five re-executions.
func (r *MethodResult) violation(sig, what string, cs any, recheck func() []string) {
	if r.viol == nil {
		r.viol = map[string]*Viol{}
	}
	if v, ok := r.viol[sig]; ok {
		v.Count++
		return
	}
	if recheck != nil {
		for i := 0; i < 5; i++ {
			again := recheck()
			found := false
			for _, s := range again {
				if s == sig {
					found = true
				}
			}
			if !found {
				r.HarnessErr = append(r.HarnessErr, fmt.Sprintf("violation %q did not reproduce on re-execution %d/5: %s", sig, i+1, what))
				return
			}
		}
	}
	v := &Viol{Sig: sig, What: what, Case: cs, Count: 1}
	r.viol[sig] = v
	r.Viols = append(r.Viols, v)
}

// DesignInfo mirrors pipe.Design (only what the driver needs).
type DesignInfo struct {
	Name   string `json:"name"`
	Dir    string `json:"dir"`
	Linked bool   `json:"linked"`
}

type corpusInfo struct {
	Family  string        `json:"family"`
	Designs []*DesignInfo `json:"designs"`
}

// ModeFunc runs one oracle family on one mounted service method.
type ModeFunc func(s *Svc, m *spec.Method, tier string) *MethodResult

var modes = map[string]ModeFunc{}

// RegisterMode adds a driver mode.
func RegisterMode(name string, f ModeFunc) { modes[name] = f }

// Main is the driver entry point:
//
//	driver -corpus dir -mode C02 -tier quick [-design d0001] [-method m1] [-replay json]
func Main() {
	corpus := flag.String("corpus", "", "corpus directory")
	mode := flag.String("mode", "", "oracle family")
	tier := flag.String("tier", "quick", "quick or thorough")
	only := flag.String("design", "", "restrict to one design")
	onlyM := flag.String("method", "", "restrict to one method")
	seq := flag.String("seq", "", "operation sequences (opseq.go): run this one sequence on a fresh pair and print the observations")
	specfile := flag.String("specfile", "", "with -seq: the design's spec.json")
	service := flag.String("service", "", "with -seq: the service")
	flag.Parse()
	if *seq != "" {
		seqChildMain(*specfile, *only, *service, *seq)
		return
	}
	f, ok := modes[*mode]
	if !ok {
		fmt.Fprintf(os.Stderr, "unknown mode %q\n", *mode)
		os.Exit(2)
	}
	b, err := os.ReadFile(filepath.Join(*corpus, "CORPUS.json"))
	var ci corpusInfo
	if err == nil {
		err = json.Unmarshal(b, &ci)
	}
	if err != nil {
		fmt.Fprintf(os.Stderr, "corpus: %v\n", err)
		os.Exit(2)
	}
	var mu sync.Mutex
	enc := json.NewEncoder(os.Stdout)
	emit := func(r *MethodResult) {
		mu.Lock()
		defer mu.Unlock()
		sort.Slice(r.Viols, func(i, j int) bool { return r.Viols[i].Sig < r.Viols[j].Sig })
		_ = enc.Encode(r)
	}
	var designs []*DesignInfo
	for _, d := range ci.Designs {
		if d.Linked && (*only == "" || *only == d.Name) {
			designs = append(designs, d)
			designDirs.Store(d.Name, d.Dir)
		}
	}
	var wg sync.WaitGroup
	sem := make(chan struct{}, runtime.GOMAXPROCS(0))
	for _, d := range designs {
		d := d
		wg.Add(1)
		sem <- struct{}{}
		go func() {
			defer wg.Done()
			defer func() { <-sem }()
			sb, err := os.ReadFile(filepath.Join(d.Dir, "spec.json"))
			var sp spec.Spec
			if err == nil {
				err = json.Unmarshal(sb, &sp)
			}
			if err != nil {
				emit(&MethodResult{Design: d.Name, HarnessErr: []string{"spec: " + err.Error()}})
				return
			}
			for _, svc := range sp.Services {
				s, err := func() (s *Svc, err error) {
					defer func() {
						if r := recover(); r != nil {
							err = fmt.Errorf("mount panicked: %v", r)
						}
					}()
					return Mount(d.Name, &sp, svc)
				}()
				if err != nil {
					emit(&MethodResult{Design: d.Name, Service: svc.Name, HarnessErr: []string{"mount: " + err.Error()}})
					continue
				}
				for _, m := range svc.Methods {
					if *onlyM != "" && m.Name != *onlyM {
						continue
					}
					r := func() (r *MethodResult) {
						defer func() {
							if p := recover(); p != nil {
								r = &MethodResult{HarnessErr: []string{fmt.Sprintf("driver panicked: %v | %s", p, trimStackAll(debug.Stack()))}}
							}
						}()
						return f(s, m, *tier)
					}()
					if r == nil {
						continue
					}
					r.Design, r.Service, r.Method, r.Feat = d.Name, svc.Name, m.Name, m.Feat
					emit(r)
				}
			}
		}()
	}
	wg.Wait()
}

func trimStackAll(b []byte) string {
	lines := strings.Split(string(b), "\n")
	var keep []string
	for _, l := range lines {
		if strings.Contains(l, "verif/e2/") {
			keep = append(keep, strings.TrimSpace(l))
		}
		if len(keep) > 8 {
			break
		}
	}
	return strings.Join(keep, " < ")
}

package drv

// HTTP (WebSocket) streaming harness shared by the C02S and C03S modes.
//
// A streaming endpoint cannot be driven over the in-memory wire of Mount (the generated server
// hijacks the connection, the generated client dials): MountStreaming puts the generated server
// of one service on a goa muxer behind a real httptest.Server (loopback TCP) and gives the
// generated client a gorilla/websocket dialer. Both ends of one exchange follow a script fixed
// before the exchange starts (a list of Send / Recv / Close operations performed by reflection on
// the generated stream objects): the client script runs in the calling goroutine's helper, the
// stub script runs inside the server goroutine (the VStub hook receives the server stream as the
// last argument of the Service method). A script never depends on timing: every Recv blocks until
// the peer's next frame, the two directions of a connection are FIFO, so what each side observes
// is a function of the scripts and of goa's code only. A blocked side is released after a generous
// timeout by closing the sockets; that is reported as a harness error, never as a violation.

import (
	"bufio"
	"bytes"
	"context"
	"errors"
	"fmt"
	"io"
	"log"
	"net"
	"net/http"
	"net/http/httptest"
	"path/filepath"
	"reflect"
	"runtime/debug"
	"strings"
	"sync"
	"sync/atomic"
	"time"

	"github.com/gorilla/websocket"
	goahttp "goa.design/goa/v3/http"
	goa "goa.design/goa/v3/pkg"

	"verif/e2/spec"
	"verif/e2/vreg"
)

// streamTimeout bounds every wait of one exchange (a normal exchange takes about a millisecond).
var streamTimeout = 20 * time.Second

// Operations of a script.
const (
	opSend         = "send"           // Send(V)
	opRecv         = "recv"           // Recv() must deliver a message
	opRecvAll      = "recv-all"       // Recv() until it returns an error (expected: io.EOF)
	opClose        = "close"          // Close()
	opCloseLenient = "close-lenient"  // Close() by the side that ends second: its error is not observed
	opCloseAndRecv = "close-and-recv" // CloseAndRecv() (client streaming, client side)
	opSendAndClose = "send-and-close" // SendAndClose(V) (client streaming, server side)
)

type streamOp struct {
	Op string
	V  any
}

// wsObs is what one side observed for one operation.
type wsObs struct {
	Op   string
	Vals []any // messages delivered by recv / recv-all / close-and-recv
	Err  error // error returned by the operation (recv-all: the error that ended the loop)
}

// streamSide is the record of one end of an exchange.
type streamSide struct {
	Obs      []wsObs
	Aborted  bool   // an operation did not behave as the script requires; the rest was not run
	AbortAt  int    // index of that operation
	Ticket   int64  // order of abnormal ends (the lower ticket failed first)
	Panic    string // panic raised by generated code while the script ran
	Finished bool
}

// recvd lists every message the side received, in order.
func (sd *streamSide) recvd() []any {
	var out []any
	for _, o := range sd.Obs {
		switch o.Op {
		case opRecv, opRecvAll:
			out = append(out, o.Vals...)
		}
	}
	return out
}

// obsOf returns the first observation of the given operation.
func (sd *streamSide) obsOf(op string) *wsObs {
	for i := range sd.Obs {
		if sd.Obs[i].Op == op {
			return &sd.Obs[i]
		}
	}
	return nil
}

// streamEx is one exchange: scripts in, observations out.
type streamEx struct {
	M       *spec.Method
	Payload any // neutral initial payload (nil: none)
	CliOps  []streamOp
	SrvOps  []streamOp

	Invoked    int32
	GotPayload any
	SentN      any // the initial payload as the generated type expresses it
	OpenErr    error
	Cli, Srv   streamSide
	ServerReq  *http.Request
	Status     int // status written by the server when the connection was not upgraded (0: none)
	Body       string
	Upgraded   bool
	ErrHandler []error
	HandlerPan string
	Herr       error // harness failure (cannot build a value, missing method, timeout)

	// unary calls on the same mounted pair (operation sequences, opseq.go): what the stub
	// answers, what the client endpoint returned, the complete response the server wrote
	Reply      func(method string, args []any) []any
	Res        any
	RespHeader http.Header
	RespBody   []byte
	ReqBody    []byte

	reqSeen     atomic.Bool
	handlerDone chan struct{}
	tickets     *int64
	mu          sync.Mutex
	cliConn     *websocket.Conn
	srvConn     *websocket.Conn
}

func (ex *streamEx) closeConns() {
	ex.mu.Lock()
	c, s := ex.cliConn, ex.srvConn
	ex.mu.Unlock()
	if c != nil {
		_ = c.Close()
	}
	if s != nil {
		_ = s.Close()
	}
}

type streamKey struct{}

// StreamSvc is one generated service mounted on real sockets.
type StreamSvc struct {
	S         *Svc
	stub      reflect.Value
	client    reflect.Value
	mux       goahttp.Muxer
	ts        *httptest.Server
	tickets   int64
	timedOut  bool
	newClient any
	bound     int
	unixDir   string // listen on a unix domain socket in this directory instead of a TCP port
	binds     int
	httpc     *http.Client // the generated client's Doer when the server listens on a unix socket
	// KeepEndpoints: one endpoint function per method and client object (operation sequences)
	KeepEndpoints bool
	eps           map[string]goa.Endpoint
	mu            sync.Mutex
	cur           *streamEx
}

// rwTap records the status and body the server wrote without upgrading, and stays a Hijacker.
type rwTap struct {
	http.ResponseWriter
	ex *streamEx
}

func (w *rwTap) WriteHeader(code int) {
	if w.ex.Status == 0 {
		w.ex.Status = code
		w.ex.RespHeader = w.Header().Clone()
	}
	w.ResponseWriter.WriteHeader(code)
}

func (w *rwTap) Write(b []byte) (int, error) {
	if w.ex.Status == 0 {
		w.ex.Status = 200
		w.ex.RespHeader = w.Header().Clone()
	}
	if len(w.ex.Body) < 400 {
		w.ex.Body += string(b)
	}
	if len(w.ex.RespBody) < 1<<16 {
		w.ex.RespBody = append(w.ex.RespBody, b...)
	}
	return w.ResponseWriter.Write(b)
}

func (w *rwTap) Hijack() (net.Conn, *bufio.ReadWriter, error) {
	h, ok := w.ResponseWriter.(http.Hijacker)
	if !ok {
		return nil, nil, fmt.Errorf("harness: response writer is not a Hijacker")
	}
	return h.Hijack()
}

type trackUpgrader struct{}

func (trackUpgrader) Upgrade(w http.ResponseWriter, r *http.Request, h http.Header) (*websocket.Conn, error) {
	up := websocket.Upgrader{}
	conn, err := up.Upgrade(w, r, h)
	if ex, ok := r.Context().Value(streamKey{}).(*streamEx); ok && conn != nil {
		ex.mu.Lock()
		ex.srvConn = conn
		ex.Upgraded = true
		ex.mu.Unlock()
	}
	return conn, err
}

// trackDialer dials the exchange's server: over TCP to the address in the URL, or, when sock is
// set, over the unix domain socket the server listens on (the URL keeps its meaning otherwise).
type trackDialer struct{ sock string }

func (t trackDialer) DialContext(ctx context.Context, url string, h http.Header) (*websocket.Conn, *http.Response, error) {
	d := &websocket.Dialer{HandshakeTimeout: streamTimeout} // no proxy, no environment
	if t.sock != "" {
		d.NetDialContext = func(ctx context.Context, _, _ string) (net.Conn, error) {
			return (&net.Dialer{}).DialContext(ctx, "unix", t.sock)
		}
	}
	conn, resp, err := d.DialContext(ctx, url, h)
	if ex, ok := ctx.Value(streamKey{}).(*streamEx); ok && conn != nil {
		ex.mu.Lock()
		ex.cliConn = conn
		ex.mu.Unlock()
	}
	return conn, resp, err
}

// MountStreaming builds stub, endpoints and server of s's service behind a real HTTP server and a
// generated client that dials it.
func MountStreaming(s *Svc) (*StreamSvc, error) { return mountStreaming(s, "") }

// MountStreamingUnix is MountStreaming with the HTTP server listening on a unix domain socket in
// dir instead of a loopback TCP port: same stream semantics (kernel-buffered, ordered, half-close,
// errors after the peer has gone), but no port is consumed and no socket stays in TIME_WAIT, so
// any number of mounts can be made in a short time (operation sequences mount one pair per
// sequence, tens of thousands in a minute). The generated client is given the host "verif.test";
// its HTTP client and its WebSocket dialer connect to the socket whatever the host says.
func MountStreamingUnix(s *Svc, dir string) (*StreamSvc, error) { return mountStreaming(s, dir) }

func mountStreaming(s *Svc, unixDir string) (*StreamSvc, error) {
	ss := &StreamSvc{S: s, unixDir: unixDir}
	dir := norm(s.Service.Name)
	var syms, ssyms, csyms map[string]any
	for _, e := range vreg.All() {
		if e.Design != s.Design || norm(e.Service) != dir {
			continue
		}
		switch e.Role {
		case "service":
			syms = e.Syms
		case "server":
			ssyms = e.Syms
		case "client":
			csyms = e.Syms
		}
	}
	if syms == nil || ssyms == nil || csyms == nil {
		return nil, fmt.Errorf("%s/%s: service/server/client packages not registered", s.Design, s.Service.Name)
	}
	stub := syms["NewStub"].(func(vreg.Hook) any)(ss.hook)
	ss.stub = reflect.ValueOf(stub)
	endpoints := callFunc(reflect.ValueOf(syms["NewEndpoints"]), stub)[0]
	ss.mux = goahttp.NewMuxer()
	errh := func(ctx context.Context, w http.ResponseWriter, err error) {
		if ex, ok := ctx.Value(streamKey{}).(*streamEx); ok {
			ex.mu.Lock()
			ex.ErrHandler = append(ex.ErrHandler, err)
			ex.mu.Unlock()
		}
	}
	var up goahttp.Upgrader = trackUpgrader{}
	server := callFunc(reflect.ValueOf(ssyms["New"]), endpoints.Interface(), ss.mux, goahttp.RequestDecoder, goahttp.ResponseEncoder, errh, up, http.Dir("/nonexistent"))[0]
	callFunc(reflect.ValueOf(ssyms["Mount"]), ss.mux, server.Interface())
	ss.newClient = csyms["NewClient"]
	if err := ss.bind(); err != nil {
		return nil, err
	}
	return ss, nil
}

// bind starts a fresh HTTP server (new loopback port) in front of the muxer and points a fresh
// generated client at it.
func (ss *StreamSvc) bind() error {
	handler := http.HandlerFunc(ss.serve)
	var doer goahttp.Doer
	var dl goahttp.Dialer
	host := ""
	if ss.unixDir != "" {
		ss.binds++
		sock := filepath.Join(ss.unixDir, fmt.Sprintf("srv%d.sock", ss.binds))
		l, err := net.Listen("unix", sock)
		if err != nil {
			return fmt.Errorf("cannot listen on %s: %w", sock, err)
		}
		ss.ts = &httptest.Server{Listener: l, Config: &http.Server{Handler: handler}}
		ss.ts.Config.ErrorLog = log.New(io.Discard, "", 0)
		ss.ts.Start()
		if ss.httpc != nil {
			ss.httpc.CloseIdleConnections()
		}
		ss.httpc = &http.Client{Transport: &http.Transport{DialContext: func(ctx context.Context, _, _ string) (net.Conn, error) {
			return (&net.Dialer{}).DialContext(ctx, "unix", sock)
		}}}
		doer, dl, host = ss.httpc, trackDialer{sock: sock}, "verif.test"
	} else {
		ss.ts = httptest.NewUnstartedServer(handler)
		ss.ts.Config.ErrorLog = log.New(io.Discard, "", 0)
		ss.ts.Start()
		doer, dl, host = ss.ts.Client(), trackDialer{}, strings.TrimPrefix(ss.ts.URL, "http://")
	}
	ss.client = callFunc(reflect.ValueOf(ss.newClient), "http", host, doer, goahttp.RequestEncoder, goahttp.ResponseDecoder, false, dl)[0]
	ss.bound = 0
	ss.eps = nil
	return nil
}

// endpoint returns the client endpoint of a method. A caller normally asks the generated client
// for its endpoints once (the generated service client is built from them) and calls them many
// times: with KeepEndpoints the endpoint function of a method is created once per client object,
// so that whatever it captures lives across calls; otherwise a new one is made for every call.
func (ss *StreamSvc) endpoint(method string) (goa.Endpoint, error) {
	if ep, ok := ss.eps[method]; ok && ss.KeepEndpoints {
		return ep, nil
	}
	epm := ss.client.MethodByName(ss.S.GoMethod(method))
	if !epm.IsValid() {
		return nil, fmt.Errorf("client has no endpoint method for %q", method)
	}
	ep := epm.Call(nil)[0].Interface().(goa.Endpoint)
	if ss.KeepEndpoints {
		if ss.eps == nil {
			ss.eps = map[string]goa.Endpoint{}
		}
		ss.eps[method] = ep
	}
	return ep, nil
}

// rebindEvery bounds the number of connections made to one listening port (each exchange leaves
// one loopback socket in TIME_WAIT).
const rebindEvery = 4000

// Close stops the HTTP server.
func (ss *StreamSvc) Close() {
	if ss.httpc != nil {
		ss.httpc.CloseIdleConnections()
	}
	if ss.timedOut {
		// a handler may still be blocked: do not wait for it
		_ = ss.ts.Listener.Close()
		return
	}
	ss.ts.Close()
}

// serve is the HTTP handler: exchanges on one StreamSvc are sequential, the request belongs to
// the exchange in progress; it is put in the request context, from where the upgrader, the error
// handler and the stub hook (through the endpoint context) retrieve it.
func (ss *StreamSvc) serve(w http.ResponseWriter, r *http.Request) {
	ex := ss.current()
	if ex == nil || ex.reqSeen.Swap(true) {
		http.Error(w, "harness: no exchange in progress, or second request of one exchange", 599)
		return
	}
	defer close(ex.handlerDone)
	ex.ServerReq = r.Clone(context.Background())
	if streamKind(ex.M) == "" && r.Body != nil {
		ex.ReqBody, _ = io.ReadAll(r.Body)
		r.Body = io.NopCloser(bytes.NewReader(ex.ReqBody))
	}
	r = r.WithContext(context.WithValue(r.Context(), streamKey{}, ex))
	defer func() {
		if p := recover(); p != nil {
			ex.HandlerPan = fmt.Sprintf("%v\n%s", p, trimStack(debug.Stack()))
		}
		// whatever the handler left open is closed once it has returned
		ex.mu.Lock()
		c := ex.srvConn
		ex.mu.Unlock()
		if c != nil {
			_ = c.Close()
		}
	}()
	ss.mux.ServeHTTP(&rwTap{ResponseWriter: w, ex: ex}, r)
}

func (ss *StreamSvc) current() *streamEx {
	ss.mu.Lock()
	defer ss.mu.Unlock()
	return ss.cur
}

func (ss *StreamSvc) setCurrent(ex *streamEx) {
	ss.mu.Lock()
	ss.cur = ex
	ss.mu.Unlock()
}

// hook is the stub: it records the initial payload and runs the server script on the stream.
func (ss *StreamSvc) hook(method string, args []any) []any {
	var ex *streamEx
	if len(args) > 0 {
		if ctx, ok := args[0].(context.Context); ok {
			ex, _ = ctx.Value(streamKey{}).(*streamEx)
		}
	}
	if isAuthMethod(method) {
		ctx, _ := args[0].(context.Context)
		return []any{ctx, nil}
	}
	if ex == nil {
		return nil
	}
	atomic.AddInt32(&ex.Invoked, 1)
	if streamKind(ex.M) == "" {
		// a unary method of a service mounted on sockets (operation sequences)
		if ex.M.Payload != nil && len(args) >= 2 {
			ex.GotPayload = ss.S.V.Get(reflect.ValueOf(args[1]), ex.M.Payload)
		}
		if ex.Reply != nil {
			return ex.Reply(method, args)
		}
		return nil
	}
	if ex.M.Payload != nil && len(args) >= 3 {
		ex.GotPayload = ss.S.V.Get(reflect.ValueOf(args[1]), ex.M.Payload)
	}
	if len(args) < 2 {
		ex.Herr = fmt.Errorf("service method %s has no stream argument", method)
		return nil
	}
	st := reflect.ValueOf(args[len(args)-1])
	ss.runSide(ex, &ex.Srv, st, ex.SrvOps, true)
	return nil
}

func errOfValue(v reflect.Value) error {
	if !v.IsValid() || v.IsNil() {
		return nil
	}
	e, _ := v.Interface().(error)
	return e
}

// elemType returns the design type of the values an operation carries on one side.
func streamElem(m *spec.Method, server bool, op string) *spec.Type {
	switch op {
	case opSend:
		if server {
			return m.StreamResult
		}
		return m.StreamPayload
	case opRecv, opRecvAll:
		if server {
			return m.StreamPayload
		}
		return m.StreamResult
	case opSendAndClose, opCloseAndRecv:
		return m.Result
	}
	return nil
}

// runSide performs ops on the generated stream object st. It stops at the first operation that
// does not behave as the script requires (error on send/close, no message on recv).
func (ss *StreamSvc) runSide(ex *streamEx, sd *streamSide, st reflect.Value, ops []streamOp, server bool) {
	V := ss.S.V
	abort := func(i int) {
		sd.Aborted, sd.AbortAt = true, i
		sd.Ticket = atomic.AddInt64(ex.tickets, 1)
	}
	defer func() {
		if p := recover(); p != nil {
			sd.Panic = fmt.Sprintf("%v\n%s", p, trimStack(debug.Stack()))
			abort(len(sd.Obs))
		}
		sd.Finished = true
	}()
	method := func(name string) (reflect.Value, bool) {
		if !st.IsValid() {
			return reflect.Value{}, false
		}
		mv := st.MethodByName(name)
		return mv, mv.IsValid()
	}
	for i, op := range ops {
		t := streamElem(ex.M, server, op.Op)
		switch op.Op {
		case opSend, opSendAndClose:
			name := "Send"
			if op.Op == opSendAndClose {
				name = "SendAndClose"
			}
			mv, ok := method(name)
			if !ok {
				ex.Herr = fmt.Errorf("stream %s has no %s", st.Type(), name)
				abort(i)
				return
			}
			rv, err := V.New(mv.Type().In(0), t, op.V)
			if err != nil {
				ex.Herr = fmt.Errorf("cannot build message: %w", err)
				abort(i)
				return
			}
			e := errOfValue(mv.Call([]reflect.Value{rv})[0])
			sd.Obs = append(sd.Obs, wsObs{Op: op.Op, Err: e})
			if e != nil {
				abort(i)
				return
			}
		case opRecv:
			mv, ok := method("Recv")
			if !ok {
				ex.Herr = fmt.Errorf("stream %s has no Recv", st.Type())
				abort(i)
				return
			}
			out := mv.Call(nil)
			if e := errOfValue(out[1]); e != nil {
				sd.Obs = append(sd.Obs, wsObs{Op: op.Op, Err: e})
				abort(i)
				return
			}
			sd.Obs = append(sd.Obs, wsObs{Op: op.Op, Vals: []any{V.Get(out[0], t)}})
		case opRecvAll:
			mv, ok := method("Recv")
			if !ok {
				ex.Herr = fmt.Errorf("stream %s has no Recv", st.Type())
				abort(i)
				return
			}
			o := wsObs{Op: op.Op}
			for n := 0; n < 16; n++ {
				out := mv.Call(nil)
				if e := errOfValue(out[1]); e != nil {
					o.Err = e
					break
				}
				o.Vals = append(o.Vals, V.Get(out[0], t))
			}
			sd.Obs = append(sd.Obs, o)
			if o.Err == nil || !errors.Is(o.Err, io.EOF) {
				abort(i)
				return
			}
		case opClose, opCloseLenient:
			mv, ok := method("Close")
			if !ok {
				ex.Herr = fmt.Errorf("stream %s has no Close", st.Type())
				abort(i)
				return
			}
			e := errOfValue(mv.Call(nil)[0])
			if op.Op == opCloseLenient {
				e = nil
			}
			sd.Obs = append(sd.Obs, wsObs{Op: op.Op, Err: e})
			if e != nil {
				abort(i)
				return
			}
		case opCloseAndRecv:
			mv, ok := method("CloseAndRecv")
			if !ok {
				ex.Herr = fmt.Errorf("stream %s has no CloseAndRecv", st.Type())
				abort(i)
				return
			}
			out := mv.Call(nil)
			o := wsObs{Op: op.Op, Err: errOfValue(out[len(out)-1])}
			if o.Err == nil && len(out) == 2 {
				o.Vals = []any{V.Get(out[0], t)}
			}
			sd.Obs = append(sd.Obs, o)
			if o.Err != nil {
				abort(i)
				return
			}
		default:
			ex.Herr = fmt.Errorf("unknown stream operation %q", op.Op)
			abort(i)
			return
		}
	}
}

// Exchange performs one streaming call: the client script runs here (in a helper goroutine so
// that it can be timed out), the server script in the stub.
func (ss *StreamSvc) Exchange(ex *streamEx) {
	s := ss.S
	m := ex.M
	ex.handlerDone = make(chan struct{})
	ex.tickets = &ss.tickets
	var payload any
	if pt := s.PayloadType(m.Name); pt != nil && m.Payload != nil {
		rv, err := s.V.New(pt, m.Payload, ex.Payload)
		if err != nil {
			ex.Herr = fmt.Errorf("cannot build payload: %w", err)
			return
		}
		ex.SentN = s.V.Get(rv, m.Payload)
		payload = rv.Interface()
	}
	if ss.bound++; ss.bound > rebindEvery && !ss.timedOut && ss.unixDir == "" {
		ss.ts.Close()
		if err := ss.bind(); err != nil {
			ex.Herr = err
			return
		}
	}
	ep, err := ss.endpoint(m.Name)
	if err != nil {
		ex.Herr = err
		return
	}
	ss.setCurrent(ex)
	defer ss.setCurrent(nil)
	cliDone := make(chan struct{})
	go func() {
		defer close(cliDone)
		defer func() {
			if p := recover(); p != nil {
				ex.Cli.Panic = fmt.Sprintf("%v\n%s", p, trimStack(debug.Stack()))
				ex.Cli.Aborted = true
				ex.Cli.Ticket = atomic.AddInt64(ex.tickets, 1)
			}
			if ex.Cli.Aborted || ex.OpenErr != nil {
				// release the server side: the client will not speak any more
				ex.mu.Lock()
				c := ex.cliConn
				ex.mu.Unlock()
				if c != nil {
					_ = c.Close()
				}
			}
		}()
		ctx := context.WithValue(context.Background(), streamKey{}, ex)
		res, err := ep(ctx, payload)
		if err != nil {
			ex.OpenErr = err
			ex.Cli.Ticket = atomic.AddInt64(ex.tickets, 1)
			return
		}
		st := reflect.ValueOf(res)
		if !st.IsValid() || !st.MethodByName("Recv").IsValid() && !st.MethodByName("Send").IsValid() {
			ex.OpenErr = fmt.Errorf("the client endpoint returned %T instead of a stream", res)
			ex.Cli.Ticket = atomic.AddInt64(ex.tickets, 1)
			return
		}
		ss.runSide(ex, &ex.Cli, st, ex.CliOps, false)
	}()
	wait := func(ch chan struct{}, what string) bool {
		select {
		case <-ch:
			return true
		case <-time.After(streamTimeout):
		}
		ss.timedOut = true
		ex.closeConns()
		if ex.Herr == nil {
			ex.Herr = fmt.Errorf("timeout: %s did not finish within %s (client ops %v, server ops %v, client observed %d, server observed %d)",
				what, streamTimeout, opNames(ex.CliOps), opNames(ex.SrvOps), len(ex.Cli.Obs), len(ex.Srv.Obs))
		}
		select {
		case <-ch:
		case <-time.After(streamTimeout):
		}
		return false
	}
	if !wait(cliDone, "client script") {
		return
	}
	if ex.reqSeen.Load() {
		if !wait(ex.handlerDone, "server handler") {
			return
		}
	} else if ex.OpenErr != nil {
		// nothing reached the server: a failure of the loopback connection itself is the harness's
		var ne *net.OpError
		if errors.As(ex.OpenErr, &ne) && ne.Op == "dial" {
			ex.Herr = fmt.Errorf("loopback dial failed: %v", ex.OpenErr)
		}
	}
	ex.closeConns()
}

func opNames(ops []streamOp) []string {
	out := make([]string, len(ops))
	for i, o := range ops {
		out[i] = o.Op
	}
	return out
}

// ---- scripts -------------------------------------------------------------------------------

// streamKind classifies a method by its shape.
func streamKind(m *spec.Method) string {
	k := ""
	switch {
	case m.StreamPayload != nil && m.StreamResult != nil:
		k = "bidi"
	case m.StreamResult != nil:
		k = "server"
	case m.StreamPayload != nil && m.Result != nil:
		k = "client"
	case m.StreamPayload != nil:
		k = "client-noresult"
	default:
		return ""
	}
	if m.Payload != nil {
		k += "-with-payload"
	}
	return k
}

// Schedules of a bidirectional exchange. In every schedule each side knows from its script how
// many messages to expect before it speaks again, so no side ever waits on wall-clock time.
//
//	RS   requests first, server ends: client Send*k, Recv until EOF; stub Recv*k, Send*j, Close
//	SC   replies first, client ends:  stub Send*j, Recv until EOF, Close; client Recv*j, Send*k, Close
//	ALT  ping-pong, server ends:      round i: client Send a_i, stub Recv; stub Send b_i, client Recv
var bidiSchedules = []string{"RS", "SC", "ALT"}

// streamPlan is one case: what each side says.
type streamPlan struct {
	Sched    string `json:"schedule,omitempty"`
	Payload  any    `json:"-"`
	Requests []any  `json:"-"`
	Replies  []any  `json:"-"`
	Result   any    `json:"-"`
}

func sends(vals []any) []streamOp {
	out := make([]streamOp, len(vals))
	for i, v := range vals {
		out[i] = streamOp{opSend, v}
	}
	return out
}

func recvs(n int) []streamOp {
	out := make([]streamOp, n)
	for i := range out {
		out[i] = streamOp{Op: opRecv}
	}
	return out
}

// scripts turns a plan into the two scripts of an exchange.
func scripts(m *spec.Method, p streamPlan) (cli, srv []streamOp) {
	switch {
	case m.StreamPayload == nil: // server streaming
		srv = append(sends(p.Replies), streamOp{Op: opClose})
		cli = []streamOp{{Op: opRecvAll}}
	case m.StreamResult == nil && m.Result != nil: // client streaming
		cli = append(sends(p.Requests), streamOp{Op: opCloseAndRecv})
		srv = []streamOp{{Op: opRecvAll}, {opSendAndClose, p.Result}}
	case m.StreamResult == nil: // client streaming without result
		cli = append(sends(p.Requests), streamOp{Op: opClose})
		srv = []streamOp{{Op: opRecvAll}, {Op: opCloseLenient}}
	default:
		k, j := len(p.Requests), len(p.Replies)
		switch p.Sched {
		case "SC":
			srv = append(sends(p.Replies), streamOp{Op: opRecvAll}, streamOp{Op: opCloseLenient})
			cli = append(append(recvs(j), sends(p.Requests)...), streamOp{Op: opClose})
		case "ALT":
			for i := 0; i < k || i < j; i++ {
				if i < k {
					cli = append(cli, streamOp{opSend, p.Requests[i]})
					srv = append(srv, streamOp{Op: opRecv})
				}
				if i < j {
					srv = append(srv, streamOp{opSend, p.Replies[i]})
					cli = append(cli, streamOp{Op: opRecv})
				}
			}
			srv = append(srv, streamOp{Op: opClose})
			cli = append(cli, streamOp{Op: opRecvAll})
		default: // RS
			cli = append(sends(p.Requests), streamOp{Op: opRecvAll})
			srv = append(append(recvs(k), sends(p.Replies)...), streamOp{Op: opClose})
		}
	}
	return cli, srv
}

// runPlan executes one plan.
func (ss *StreamSvc) runPlan(m *spec.Method, p streamPlan) *streamEx {
	ex := &streamEx{M: m, Payload: p.Payload}
	ex.CliOps, ex.SrvOps = scripts(m, p)
	ss.Exchange(ex)
	return ex
}

// ---- value menus ---------------------------------------------------------------------------

// streamGoTypes finds the Go types of the streamed payload and result elements from the server
// stream interface the Service method takes as its last parameter.
func streamGoTypes(s *Svc, m *spec.Method) (req, res, final reflect.Type) {
	mt, ok := s.stub.Type().MethodByName(s.GoMethod(m.Name))
	if !ok || mt.Type.NumIn() < 3 {
		return nil, nil, nil
	}
	st := mt.Type.In(mt.Type.NumIn() - 1)
	if st.Kind() != reflect.Interface {
		return nil, nil, nil
	}
	if rm, ok := st.MethodByName("Recv"); ok && rm.Type.NumOut() == 2 {
		req = rm.Type.Out(0)
	}
	if sm, ok := st.MethodByName("Send"); ok && sm.Type.NumIn() == 1 {
		res = sm.Type.In(0)
	}
	if sm, ok := st.MethodByName("SendAndClose"); ok && sm.Type.NumIn() == 1 {
		final = sm.Type.In(0)
	}
	return req, res, final
}

// messageValues returns every candidate value of a streamed element type that satisfies the
// design, as the generated Go type expresses it, without duplicates. Messages travel as JSON
// text frames: the body menu applies.
func messageValues(s *Svc, rt reflect.Type, t *spec.Type) []any {
	if t == nil {
		return nil
	}
	sp := s.Spec
	seen := map[string]bool{}
	var out []any
	for _, v := range sp.Candidates(t, spec.LocBody, 0) {
		if v == nil || len(sp.Check(t, v, "message")) > 0 {
			continue
		}
		ev, err := expressed(s, rt, t, v)
		if err != nil || ev == nil || seen[spec.Canon(ev)] {
			continue
		}
		seen[spec.Canon(ev)] = true
		out = append(out, v)
	}
	return out
}

// menu3 picks the sequence alphabet: first, middle and last value of the candidate list.
func menu3(vals []any) []any {
	switch n := len(vals); {
	case n <= 3:
		return vals
	default:
		return []any{vals[0], vals[n/2], vals[n-1]}
	}
}

// ---- comparison ----------------------------------------------------------------------------

// seqVerdict classifies the difference between the messages one side sent and the messages the
// other side's Recv delivered.
type seqVerdict struct {
	Class string // "", "changed", "lost", "extra", "duplicated", "order", "sequence"
	Pos   int
	Sent  any
	Recv  any
	What  string
}

func sameMsg(sp *spec.Spec, t *spec.Type, a, b any) bool {
	return Equal(sp, t, nil, a, b, "message") == nil
}

func seqEqual(sp *spec.Spec, t *spec.Type, a, b []any) bool {
	if len(a) != len(b) {
		return false
	}
	for i := range a {
		if !sameMsg(sp, t, a[i], b[i]) {
			return false
		}
	}
	return true
}

func compareSeq(sp *spec.Spec, t *spec.Type, sent, got []any) seqVerdict {
	if seqEqual(sp, t, sent, got) {
		return seqVerdict{}
	}
	without := func(l []any, i int) []any {
		out := append([]any{}, l[:i]...)
		return append(out, l[i+1:]...)
	}
	switch {
	case len(got) == len(sent):
		// a permutation?
		used := make([]bool, len(got))
		perm := true
		for _, sv := range sent {
			found := false
			for j, gv := range got {
				if !used[j] && sameMsg(sp, t, sv, gv) {
					used[j], found = true, true
					break
				}
			}
			if !found {
				perm = false
			}
		}
		for i := range sent {
			if !sameMsg(sp, t, sent[i], got[i]) {
				if perm {
					return seqVerdict{Class: "order", Pos: i, Sent: sent[i], Recv: got[i], What: fmt.Sprintf("the messages arrived in another order: position %d holds %s instead of %s", i, spec.Canon(got[i]), spec.Canon(sent[i]))}
				}
				d := Equal(sp, t, nil, sent[i], got[i], fmt.Sprintf("message[%d]", i))
				return seqVerdict{Class: "changed", Pos: i, Sent: d.Sent, Recv: d.Recv, What: fmt.Sprintf("%s: %s", d.Path, d.Why)}
			}
		}
	case len(got) < len(sent):
		if len(got) == len(sent)-1 {
			for i := len(sent) - 1; i >= 0; i-- {
				if seqEqual(sp, t, without(sent, i), got) {
					return seqVerdict{Class: "lost", Pos: i, Sent: sent[i], What: fmt.Sprintf("message %d of %d (%s) never arrived", i+1, len(sent), spec.Canon(sent[i]))}
				}
			}
		}
		if seqEqual(sp, t, sent[:len(got)], got) {
			return seqVerdict{Class: "lost", Pos: len(got), Sent: sent[len(got)], What: fmt.Sprintf("only the first %d of %d messages arrived", len(got), len(sent))}
		}
	default:
		if len(got) == len(sent)+1 {
			for i := len(got) - 1; i >= 0; i-- {
				if seqEqual(sp, t, without(got, i), sent) {
					cl := "extra"
					if (i > 0 && sameMsg(sp, t, got[i-1], got[i])) || (i+1 < len(got) && sameMsg(sp, t, got[i+1], got[i])) {
						cl = "duplicated"
					}
					return seqVerdict{Class: cl, Pos: i, Recv: got[i], What: fmt.Sprintf("%d messages arrived for %d sent: position %d holds the additional %s", len(got), len(sent), i, spec.Canon(got[i]))}
				}
			}
		}
	}
	return seqVerdict{Class: "sequence", Pos: 0, What: fmt.Sprintf("%d messages sent, %d arrived, not related by one loss, one addition, one change or a permutation", len(sent), len(got))}
}

// streamErrClass abstracts an error met on a stream into a small class for signatures.
func streamErrClass(err error) string {
	if err == nil {
		return "none"
	}
	var ce *websocket.CloseError
	if errors.As(err, &ce) {
		return fmt.Sprintf("ws-close-%d", ce.Code)
	}
	s := err.Error()
	switch {
	case errors.Is(err, io.EOF):
		return "eof"
	case errors.Is(err, io.ErrUnexpectedEOF):
		return "unexpected-eof"
	case errors.Is(err, websocket.ErrCloseSent):
		return "ws-close-sent"
	case errors.Is(err, websocket.ErrBadHandshake) || strings.Contains(s, "bad handshake"):
		return "bad-handshake"
	case strings.Contains(s, "use of closed network connection"):
		return "closed-connection"
	case strings.Contains(s, "connection reset") || strings.Contains(s, "broken pipe"):
		return "connection-reset"
	}
	if c := errClass(err); c != "other" {
		return c
	}
	if strings.Contains(s, "json") || strings.Contains(s, "invalid character") || strings.Contains(s, "cannot unmarshal") {
		return "json"
	}
	return "other"
}

func seqLenClass(n int) string {
	switch n {
	case 0:
		return "0"
	case 1:
		return "1"
	}
	return "many"
}

// caseJSON renders a plan and what both sides saw for replay files.
func (ex *streamEx) caseJSON(s *Svc, p streamPlan) map[string]any {
	cs := map[string]any{"design": s.Design, "service": s.Service.Name, "method": ex.M.Name, "kind": streamKind(ex.M),
		"client_script": opNames(ex.CliOps), "server_script": opNames(ex.SrvOps),
		"requests": seqJSON(p.Requests), "replies": seqJSON(p.Replies),
		"server_received": seqJSON(ex.Srv.recvd()), "client_received": seqJSON(ex.Cli.recvd()),
		"service_invoked": ex.Invoked, "upgraded": ex.Upgraded}
	if p.Sched != "" {
		cs["schedule"] = p.Sched
	}
	if ex.M.Payload != nil {
		cs["payload"] = spec.JSONable(p.Payload)
		cs["payload_received"] = spec.JSONable(ex.GotPayload)
	}
	if ex.M.Result != nil {
		cs["result"] = spec.JSONable(p.Result)
		if o := ex.Cli.obsOf(opCloseAndRecv); o != nil && len(o.Vals) == 1 {
			cs["client_result"] = spec.JSONable(o.Vals[0])
		}
	}
	if ex.ServerReq != nil {
		cs["request"] = ex.ServerReq.Method + " " + ex.ServerReq.RequestURI
	}
	if ex.OpenErr != nil {
		cs["client_open_error"] = ex.OpenErr.Error()
	}
	if ex.Status != 0 {
		cs["status_without_upgrade"] = ex.Status
		cs["body_without_upgrade"] = truncate(ex.Body, 200)
	}
	errs := func(sd *streamSide) []string {
		var out []string
		for _, o := range sd.Obs {
			if o.Err != nil {
				out = append(out, o.Op+": "+o.Err.Error())
			}
		}
		return out
	}
	if e := errs(&ex.Cli); len(e) > 0 {
		cs["client_errors"] = e
	}
	if e := errs(&ex.Srv); len(e) > 0 {
		cs["server_errors"] = e
	}
	return cs
}

// responseText describes what the server did with the HTTP request of the exchange.
func (ex *streamEx) responseText() string {
	switch {
	case ex.Upgraded:
		return "the server upgraded the connection to WebSocket"
	case !ex.reqSeen.Load():
		return "no request reached the server"
	case ex.Status == 0:
		return "the server never upgraded the connection and wrote nothing: net/http answered the WebSocket handshake with an implicit 200 and an empty body"
	}
	return fmt.Sprintf("the server never upgraded the connection and answered status %d, body %q", ex.Status, truncate(ex.Body, 120))
}

// streamPanic returns the panic text of an exchange ("" when none).
func (ex *streamEx) streamPanic() string {
	switch {
	case ex.HandlerPan != "":
		return ex.HandlerPan
	case ex.Srv.Panic != "":
		return ex.Srv.Panic
	case ex.Cli.Panic != "":
		return "client-side panic: " + ex.Cli.Panic
	}
	return ""
}

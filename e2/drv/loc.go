package drv

import (
	"fmt"
	"math"
	"regexp"
	"strconv"
	"strings"
	"unicode/utf8"

	"verif/e2/spec"
)

// Place is the designed wire location of one payload/result attribute, derived from the Spec
// (never from goa's expr model).
type Place struct {
	Attr string
	Loc  string // spec.LocPath, LocQuery, LocHeader, LocCookie, LocBody
	Wire string
	T    *spec.Type
	Req  string // "required", "optional", "default"
	A    *spec.Attr
}

var wildcardRe = regexp.MustCompile(`\{\*?([A-Za-z0-9_]+)(?::([^}]+))?\}`)

// PathVars returns the attribute names bound in a path template.
func PathVars(path string) []string {
	var out []string
	for _, m := range wildcardRe.FindAllStringSubmatch(path, -1) {
		out = append(out, m[1])
	}
	return out
}

// Layout is the designed partition of a method's payload over the request.
type Layout struct {
	Whole    bool // payload is not an object: a single Place named "" carries it
	Places   []*Place
	BodyKind string // "object": JSON object of body places; "attr": one attribute is the whole body; "none"
	FullPath string // API path + service path + route path
}

func (l *Layout) ByAttr(a string) *Place {
	for _, p := range l.Places {
		if p.Attr == a {
			return p
		}
	}
	return nil
}

func joinPath(parts ...string) string {
	out := ""
	for _, p := range parts {
		if p == "" {
			continue
		}
		if strings.HasPrefix(p, "//") {
			out = p[1:]
			continue
		}
		out = strings.TrimSuffix(out, "/") + "/" + strings.TrimPrefix(p, "/")
	}
	if out == "" {
		out = "/"
	}
	return out
}

func reqClass(e spec.Eff, a *spec.Attr) string {
	switch {
	case a.HasDefault:
		return "default"
	case spec.IsRequired(e.Required, a.Name):
		return "required"
	}
	return "optional"
}

// RequestLayout computes where each payload attribute travels.
func RequestLayout(sp *spec.Spec, svc *spec.Service, m *spec.Method) *Layout {
	h := m.HTTP
	l := &Layout{FullPath: joinPath(sp.APIPath, svc.Path, h.Path), BodyKind: "none"}
	if m.Payload == nil {
		return l
	}
	e := sp.Eff(m.Payload)
	wireOf := func(maps []spec.Map, attr string) (string, bool) {
		for _, mp := range maps {
			if mp.Attr == attr {
				if mp.Wire == "" {
					return mp.Attr, true
				}
				return mp.Wire, true
			}
		}
		return "", false
	}
	pathVars := PathVars(l.FullPath) // base paths may bind parameters too
	// mapping elements written at service level and at API level apply to every endpoint
	hParams := append(append(append([]spec.Map{}, h.Params...), svc.Params...), sp.APIParams...)
	hHeaders := append(append(append([]spec.Map{}, h.Headers...), svc.Headers...), sp.APIHeaders...)
	hCookies := append(append(append([]spec.Map{}, h.Cookies...), svc.Cookies...), sp.APICookies...)
	if e.K != spec.KObject {
		l.Whole = true
		p := &Place{Attr: "", T: m.Payload, Req: "required", Loc: spec.LocBody}
		switch {
		case h.MapParams == "*":
			p.Loc = "mapparams"
		case len(pathVars) == 1:
			p.Loc, p.Wire = spec.LocPath, pathVars[0]
		case len(h.Params) == 1:
			p.Loc, p.Wire = spec.LocQuery, h.Params[0].Wire
			if p.Wire == "" {
				p.Wire = h.Params[0].Attr
			}
		case len(h.Headers) == 1:
			p.Loc, p.Wire = spec.LocHeader, h.Headers[0].Wire
			if p.Wire == "" {
				p.Wire = h.Headers[0].Attr
			}
		case len(h.Cookies) == 1:
			p.Loc, p.Wire = spec.LocCookie, h.Cookies[0].Wire
			if p.Wire == "" {
				p.Wire = h.Cookies[0].Attr
			}
		default:
			l.BodyKind = "attr"
		}
		l.Places = []*Place{p}
		return l
	}
	for _, a := range e.Attrs {
		p := &Place{Attr: a.Name, T: a.T, A: a, Req: reqClass(e, a)}
		inPath := false
		for _, v := range pathVars {
			if v == a.Name {
				inPath = true
			}
		}
		if h.MapParams == a.Name {
			p.Loc, p.Wire = "mapparams", a.Name
		} else if w, ok := wireOf(hParams, a.Name); ok && !inPath {
			p.Loc, p.Wire = spec.LocQuery, w
		} else if inPath {
			p.Loc, p.Wire = spec.LocPath, a.Name
		} else if w, ok := wireOf(hHeaders, a.Name); ok {
			p.Loc, p.Wire = spec.LocHeader, w
		} else if w, ok := wireOf(hCookies, a.Name); ok {
			p.Loc, p.Wire = spec.LocCookie, w
		} else {
			p.Loc, p.Wire = spec.LocBody, a.Name
			switch {
			case h.Body == "attr:"+a.Name:
				l.BodyKind = "attr"
			case h.Body == "" || strings.HasPrefix(h.Body, "attrs:"):
				if l.BodyKind == "none" {
					l.BodyKind = "object"
				}
			}
		}
		l.Places = append(l.Places, p)
	}
	return l
}

// parseWire parses wire text as the primitive kind k (the reference's own parser).
func parseWire(k, text string) (any, error) {
	switch k {
	case spec.KBool:
		switch text {
		case "true":
			return true, nil
		case "false":
			return false, nil
		}
		return nil, fmt.Errorf("not a boolean: %q", text)
	case spec.KInt, spec.KInt64:
		v, err := strconv.ParseInt(text, 10, 64)
		return v, err
	case spec.KInt32:
		v, err := strconv.ParseInt(text, 10, 32)
		return v, err
	case spec.KUInt, spec.KUInt64:
		v, err := strconv.ParseUint(text, 10, 64)
		return v, err
	case spec.KUInt32:
		v, err := strconv.ParseUint(text, 10, 32)
		return v, err
	case spec.KFloat32:
		v, err := strconv.ParseFloat(text, 32)
		return v, err
	case spec.KFloat64:
		v, err := strconv.ParseFloat(text, 64)
		return v, err
	case spec.KString, spec.KAny:
		return text, nil
	case spec.KBytes:
		return []byte(text), nil
	}
	return nil, fmt.Errorf("parseWire: kind %s", k)
}

// valueClass abstracts a neutral value into a class used in violation signatures.
func valueClass(v any) string {
	switch x := v.(type) {
	case nil:
		return "unset"
	case bool:
		return fmt.Sprintf("bool-%v", x)
	case int64:
		switch {
		case x == 0:
			return "int-zero"
		case x == math.MinInt64 || x == math.MinInt32:
			return "int-min"
		case x == math.MaxInt64 || x == math.MaxInt32:
			return "int-max"
		case x < 0:
			return "int-negative"
		}
		return "int-positive"
	case uint64:
		switch {
		case x == 0:
			return "uint-zero"
		case x == math.MaxUint64 || x == math.MaxUint32:
			return "uint-max"
		}
		return "uint-positive"
	case float64:
		switch {
		case x == 0:
			return "float-zero"
		case math.Abs(x) >= 1e21:
			return "float-huge"
		case math.Abs(x) < 1e-30:
			return "float-tiny"
		case x != math.Trunc(x):
			return "float-fraction"
		}
		return "float-integral"
	case string:
		return "string-" + stringClass(x)
	case []byte:
		if len(x) == 0 {
			return "bytes-empty"
		}
		if !utf8.Valid(x) || strings.ContainsRune(string(x), 0) {
			return "bytes-binary"
		}
		return "bytes-text"
	case spec.Arr:
		if len(x) == 0 {
			return "array-empty"
		}
		return fmt.Sprintf("array-of-%s", valueClass(x[len(x)-1]))
	case spec.MapV:
		if len(x) == 0 {
			return "map-empty"
		}
		return "map-nonempty"
	case spec.Obj:
		return "object"
	}
	return fmt.Sprintf("%T", v)
}

var pctHex = regexp.MustCompile(`%[0-9A-Fa-f]{2}`)

func stringClass(s string) string {
	switch {
	case s == "":
		return "empty"
	case s == "." || s == "..":
		return "dot-segment"
	case pctHex.MatchString(s):
		return "pct-hexpair"
	case strings.Contains(s, "%"):
		return "pct-literal"
	case strings.Contains(s, "/"):
		return "slash"
	case strings.Contains(s, "\n"):
		return "newline"
	case strings.Contains(s, ","):
		return "comma"
	case strings.Contains(s, " "):
		return "space"
	case strings.ContainsAny(s, "&=?#"):
		return "url-reserved"
	case strings.Contains(s, "+"):
		return "plus"
	case strings.ContainsAny(s, "\"<>"):
		return "quote-or-angle"
	}
	for _, r := range s {
		if r > 127 {
			return "non-ascii"
		}
	}
	return "plain"
}

// typeClass abstracts a type for signatures.
func typeClass(sp *spec.Spec, t *spec.Type) string {
	if t == nil {
		return "none"
	}
	e := sp.Eff(t)
	pre := ""
	if t.K == spec.KUser && e.Def != nil {
		pre = e.Def.Kind + ":"
	}
	switch e.K {
	case spec.KArray:
		return pre + "array<" + typeClass(sp, e.Elem) + ">"
	case spec.KMap:
		return pre + "map<" + typeClass(sp, e.Key) + "," + typeClass(sp, e.Elem) + ">"
	}
	return pre + e.K
}

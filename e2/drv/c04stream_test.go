package drv

import (
	"reflect"
	"testing"

	"verif/e2/spec"
)

// The C04S bound: every sequence of length 0..3 over {V, I}.
func TestC04SPatterns(t *testing.T) {
	got := c04sPatterns(true)
	want := []string{"", "V", "I", "VV", "VI", "IV", "II", "VVV", "VVI", "VIV", "VII", "IVV", "IVI", "IIV", "III"}
	if !reflect.DeepEqual(got, want) {
		t.Fatalf("patterns with a valid message: %v", got)
	}
	if got := c04sPatterns(false); !reflect.DeepEqual(got, []string{"", "I", "II", "III"}) {
		t.Fatalf("patterns without a valid message: %v", got)
	}
}

// The reference folds the rules of the HTTP mapping into the payload type: conjunction with the
// attribute's own rule, identity when there is no rule.
func TestRequestTypeFoldsHTTPRules(t *testing.T) {
	pay := spec.ObjT([]string{"aa"}, spec.A("aa", spec.WithV(spec.P(spec.KInt), &spec.Valid{Max: spec.F(5)})))
	m := &spec.Method{Name: "m0", Payload: pay, HTTP: &spec.HTTPMap{Verb: "GET", Path: "/m0", Params: []spec.Map{{Attr: "aa", Wire: "q"}}}}
	svc := &spec.Service{Name: "s0", Methods: []*spec.Method{m}}
	sp := &spec.Spec{Services: []*spec.Service{svc}}
	if sp.RequestType(svc, m) != pay {
		t.Fatal("without rules the payload type itself must be returned")
	}
	svc.Rules = []spec.MapRule{{Attr: "aa", T: spec.P(spec.KInt), V: &spec.Valid{Min: spec.F(3)}}}
	rt := sp.RequestType(svc, m)
	for v, nissues := range map[int64]int{2: 1, 3: 0, 5: 0, 6: 1} {
		if n := len(sp.Check(rt, spec.Obj{"aa": v}, "payload")); n != nissues {
			t.Errorf("aa=%d: %d issues, want %d", v, n, nissues)
		}
	}
	if n := len(sp.Check(pay, spec.Obj{"aa": int64(2)}, "payload")); n != 0 {
		t.Errorf("the payload type itself must not be modified (%d issues for aa=2)", n)
	}
}

package drv

import (
	"context"
	"fmt"
	"sort"
	"strings"

	"github.com/getkin/kin-openapi/openapi2conv"
	"github.com/getkin/kin-openapi/openapi3"

	"verif/e2/spec"
)

// C07 — OpenAPI documents are valid and list exactly the server's operations.
//
// Alphabet: every linked design of every E2 family plus the route-feature family
// (e2/families/openapi.go). Bound: the families' bounds; per design the four generated
// documents, every service's Mount, every route of every method. Oracle (statement only):
//
//  1. validity: openapi3.json loads and validates with kin-openapi (examples are not validated:
//     the specification only says an example SHOULD match) and passes the OpenAPI 3.0.3 MUSTs
//     kin does not check (security requirement names resolve, scopes only on oauth2 schemes,
//     template variables declared, unique operationIds); openapi.json unmarshals into
//     openapi2.T, converts to OpenAPI 3 and validates, and passes a structural checker written
//     from the Swagger 2.0 text; JSON and YAML renderings decode to the same generic value;
//  2. mount-set equality: the (verb, pattern) pairs every generated Mount registers on a
//     recording muxer equal, as multisets and in both directions, the operations of each
//     document ({*x} written {x}; base paths applied as written);
//  3. per operation: documented (name, in, required) parameters = designed path / query /
//     header / cookie places; request body documented iff the design has body places;
//     documented status codes = designed success statuses + statuses of the declared errors;
//     documented security requirements = effective requirements of the design.
//
// Not asserted (statement silent): descriptions, examples, schemas (C14), scopes, whether a
// credential attribute is documented as a parameter or only through its security scheme.
func init() { RegisterMode("C07", runC07) }

type c07Finding struct {
	sig, what string
	cs        map[string]any
}

func runC07(s *Svc, m *spec.Method, tier string) *MethodResult {
	r := &MethodResult{}
	if m.HTTP == nil {
		r.Skipped = "no HTTP mapping"
		return r
	}
	if s.Service == s.Spec.Services[0] && m == s.Service.Methods[0] {
		// design-level work is done once, while the first method of the first service is processed
		fs := c07Design(s, r, true, true)
		for _, f := range fs {
			f := f
			r.violation(f.sig, f.what, f.cs, func() []string {
				oaCache.Delete(designDir(s.Design)) // re-read the documents, re-mount the servers
				var sigs []string
				for _, g := range c07Design(s, r, false, true) {
					sigs = append(sigs, g.sig)
				}
				return sigs
			})
		}
	}
	if m.StreamPayload != nil || m.StreamResult != nil || m.HTTP.Multipart || m.HTTP.MapParams != "" || m.HTTP.SkipReq || m.HTTP.SkipResp {
		r.note("methods_with_streaming_multipart_mapparams_not_compared_per_operation", 1)
		return r
	}
	for _, f := range c07Method(s, m, r, true) {
		f := f
		r.violation(f.sig, f.what, f.cs, func() []string {
			oaCache.Delete(designDir(s.Design))
			var sigs []string
			for _, g := range c07Method(s, m, r, false) {
				sigs = append(sigs, g.sig)
			}
			return sigs
		})
	}
	return r
}

// ---------------------------------------------------------------------------------------------
// (1) validity, JSON = YAML, (2) mount-set equality

func c07Design(s *Svc, r *MethodResult, count, mount bool) []c07Finding {
	var out []c07Finding
	d := loadDocs(s.Design)
	base := func() map[string]any {
		return map[string]any{"design": s.Design, "dir": d.dir, "first_method_feat": s.Service.Methods[0].Feat}
	}
	add := func(sig, what string, extra map[string]any) {
		cs := base()
		for k, v := range extra {
			cs[k] = v
		}
		out = append(out, c07Finding{sig, what, cs})
	}
	tick := func(outcome string) {
		if count {
			r.Cases++
			r.Nontrivial++
			r.Execs++
			r.outcome(outcome)
		}
	}
	for _, n := range d.miss {
		add("C07 document-missing file="+n, "the design has HTTP endpoints but "+n+" was not generated", nil)
	}
	// OpenAPI 3
	if d.raw["openapi3.json"] != nil {
		switch {
		case d.v3LoadErr != nil:
			tick("v3-unloadable")
			add("C07 v3-invalid reason=load:"+errClassOA(d.v3LoadErr), "openapi3.json cannot be loaded as an OpenAPI 3.0 document: "+truncate(d.v3LoadErr.Error(), 400), map[string]any{"file": "openapi3.json"})
		case d.v3Valid != nil:
			tick("v3-invalid")
			add("C07 v3-invalid reason="+errClassOA(d.v3Valid), "openapi3.json is not a valid OpenAPI 3.0 document: "+truncate(d.v3Valid.Error(), 600), map[string]any{"file": "openapi3.json"})
		default:
			tick("v3-valid")
		}
		if d.gen3 != nil {
			issues := checkOpenAPI3Extra(d.gen3)
			if len(issues) == 0 {
				tick("v3-structure-ok")
			} else {
				tick("v3-structure-issues")
			}
			for _, is := range issues {
				add("C07 v3-invalid reason="+is.class, "openapi3.json violates OpenAPI 3.0.3: "+is.what, map[string]any{"file": "openapi3.json"})
			}
		}
	}
	// Swagger 2.0
	if raw := d.raw["openapi.json"]; raw != nil {
		v2, err := unmarshalV2(raw)
		if err != nil {
			tick("v2-unloadable")
			add("C07 v2-invalid reason=unmarshal:"+errClassOA(err), "openapi.json cannot be decoded as a Swagger 2.0 document: "+truncate(err.Error(), 400), map[string]any{"file": "openapi.json"})
		} else {
			if v2.Info.Title == "" {
				// kin-openapi demands a non-empty title; the Swagger 2.0 schema only demands a string
				v2.Info.Title = "untitled"
			}
			d3, err := openapi2conv.ToV3(v2)
			if err != nil {
				tick("v2-unconvertible")
				add("C07 v2-invalid reason=convert:"+errClassOA(err), "openapi.json cannot be converted to OpenAPI 3: "+truncate(err.Error(), 400), map[string]any{"file": "openapi.json"})
			} else if err := d3.Validate(context.Background(), openapi3.DisableExamplesValidation()); err != nil {
				tick("v2-invalid")
				add("C07 v2-invalid reason="+errClassOA(err), "openapi.json (converted to OpenAPI 3) does not validate: "+truncate(err.Error(), 600), map[string]any{"file": "openapi.json"})
			} else {
				tick("v2-valid")
			}
		}
		if d.gen2 != nil {
			issues := checkSwagger2(d.gen2)
			if len(issues) == 0 {
				tick("v2-structure-ok")
			} else {
				tick("v2-structure-issues")
			}
			for _, is := range issues {
				add("C07 v2-invalid reason="+is.class, "openapi.json violates Swagger 2.0: "+is.what, map[string]any{"file": "openapi.json"})
			}
		}
	}
	// JSON = YAML
	for _, pair := range [][2]string{{"openapi.json", "openapi.yaml"}, {"openapi3.json", "openapi3.yaml"}} {
		j, y := d.raw[pair[0]], d.raw[pair[1]]
		if j == nil || y == nil {
			continue
		}
		diff, err := yamlJSONDiff(j, y)
		switch {
		case err != nil:
			tick("yaml-json-undecodable")
			add(fmt.Sprintf("C07 rendering-undecodable file=%s reason=%s", pair[0][:len(pair[0])-5], errClassOA(err)), "a rendering cannot be decoded: "+truncate(err.Error(), 300), map[string]any{"files": pair})
		case diff != "":
			tick("yaml-json-different")
			add(fmt.Sprintf("C07 yaml-json-differ file=%s at=%s", pair[0][:len(pair[0])-5], diffClass(diff)), "JSON and YAML renderings decode to different content at "+truncate(diff, 300), map[string]any{"files": pair})
		default:
			tick("yaml-json-equal")
		}
	}
	// mount set
	mounted := map[string]int{}
	var mountList []string
	mountOK := mount
	if !mount {
		return out
	}
	for _, svc := range s.Spec.Services {
		recs, err := mountedRoutes(s.Design, s.Spec, svc)
		if count {
			r.Execs++
		}
		if err != nil {
			mountOK = false
			if count {
				r.HarnessErr = append(r.HarnessErr, "c07 mount: "+err.Error())
			}
			continue
		}
		for _, rc := range recs {
			k := routeKey(rc.Verb, rc.Pattern)
			mounted[k]++
			mountList = append(mountList, rc.Verb+" "+rc.Pattern)
		}
	}
	if mountOK {
		for _, dv := range []struct {
			name string
			doc  map[string]any
			v2   bool
		}{{"v3", d.gen3, false}, {"v2", d.gen2, true}} {
			if dv.doc == nil {
				continue
			}
			documented := map[string]int{}
			var docList []string
			for _, o := range docOps(dv.doc, dv.v2) {
				documented[routeKey(o.Verb, o.Path)]++
				docList = append(docList, o.Verb+" "+o.Path)
			}
			equal := true
			for _, k := range sortedKeys(mounted) {
				if verb, _, _ := strings.Cut(k, " "); verb == "CONNECT" || (dv.v2 && verb == "TRACE") {
					// the document format has no field for this verb: nothing can be demanded
					if count {
						r.note("mounted_routes_with_verb_the_document_format_cannot_express_doc="+dv.name, int64(mounted[k]))
					}
					continue
				}
				if mounted[k] > documented[k] {
					equal = false
					verb, pat, _ := strings.Cut(k, " ")
					add(fmt.Sprintf("C07 mount-missing-in-doc doc=%s verb=%s shape=%s", dv.name, verb, patternShape(pat, s.Spec)),
						fmt.Sprintf("the generated server mounts %s (x%d) but the %s document lists it %d times", k, mounted[k], dv.name, documented[k]),
						map[string]any{"mounted": mountList, "documented": docList})
				}
			}
			for _, k := range sortedKeys(documented) {
				if documented[k] > mounted[k] {
					equal = false
					verb, pat, _ := strings.Cut(k, " ")
					add(fmt.Sprintf("C07 doc-op-not-mounted doc=%s verb=%s shape=%s", dv.name, verb, patternShape(pat, s.Spec)),
						fmt.Sprintf("the %s document lists operation %s which no generated Mount registers", dv.name, k),
						map[string]any{"mounted": mountList, "documented": docList})
				}
			}
			if equal {
				tick(fmt.Sprintf("mount-set-equal doc=%s", dv.name))
			} else {
				tick(fmt.Sprintf("mount-set-different doc=%s", dv.name))
			}
			if count && dv.name == "v3" {
				r.note("mounted_routes", int64(len(mountList)))
				r.sample(map[string]any{"mounted": mountList, "documented_v3": docList})
			}
		}
	}
	return out
}

// patternShape abstracts a route pattern for signatures.
func patternShape(p string, sp *spec.Spec) string {
	var f []string
	if strings.Contains(p, "{") {
		f = append(f, "param")
	}
	if p == "/" {
		f = append(f, "root")
	} else if strings.HasSuffix(p, "/") {
		f = append(f, "trailing-slash")
	}
	if sp.APIPath != "" {
		f = append(f, "api-base")
	}
	if len(f) == 0 {
		return "plain"
	}
	return strings.Join(f, "+")
}

// ---------------------------------------------------------------------------------------------
// (3) per operation

type oaParam struct {
	Name, In string
	Required bool
}

func (p oaParam) key() string { return p.In + ":" + p.Name }

type c07Expect struct {
	params     []oaParam          // must be documented
	optional   map[string]oaParam // may be documented (credentials, headers the specification ignores)
	place      map[string]*Place
	body       bool
	codes      map[string]string // code -> "success" | "error"
	reqUnknown map[string]bool   // parameters whose required flag is not asserted (required + default)
	codesOK    bool              // false: some declared error has no designed HTTP response, extra codes not asserted
	security   []string          // requirement descriptors, sorted
}

// fullPathOf is the designed full path of a route: API path + service path + route path; a
// route path starting with "//" is absolute.
func fullPathOf(sp *spec.Spec, svc *spec.Service, path string) string {
	return joinPath(sp.APIPath, svc.Path, path)
}

// fullPathsOf lists the full paths of a route under every base path of the service (Path may
// be called more than once); an absolute route has exactly one.
func fullPathsOf(sp *spec.Spec, svc *spec.Service, path string) []string {
	out := []string{joinPath(sp.APIPath, svc.Path, path)}
	if strings.HasPrefix(path, "//") {
		return out
	}
	for _, b := range svc.Paths {
		out = append(out, joinPath(sp.APIPath, b, path))
	}
	return out
}

func methodRoutes(m *spec.Method) [][2]string {
	out := [][2]string{{m.HTTP.Verb, m.HTTP.Path}}
	for _, r := range m.HTTP.Routes {
		v, p, _ := strings.Cut(r, " ")
		out = append(out, [2]string{v, p})
	}
	return out
}

func c07Expected(s *Svc, m *spec.Method, full string, v2 bool) *c07Expect {
	sp := s.Spec
	// the layout of this route: path variables are those of the full path (base paths included)
	mm := *m
	hh := *m.HTTP
	hh.Path = full
	mm.HTTP = &hh
	l := RequestLayout(&spec.Spec{Types: sp.Types}, &spec.Service{}, &mm)
	ex := &c07Expect{optional: map[string]oaParam{}, place: map[string]*Place{}, reqUnknown: map[string]bool{}, codes: map[string]string{}, codesOK: true}
	bodyPlaces := 0
	for _, p := range l.Places {
		cred := p.A != nil && p.A.Sec != ""
		if p.Loc == spec.LocBody {
			if cred {
				// credential without explicit mapping: it travels in the Authorization header
				ex.optional["header:Authorization"] = oaParam{"Authorization", "header", p.Req == "required"}
				continue
			}
			bodyPlaces++
			continue
		}
		op := oaParam{Name: p.Wire, In: p.Loc, Required: p.Loc == spec.LocPath || p.Req == "required"}
		ex.place[op.key()] = p
		if p.Loc != spec.LocPath && reqLabel(sp, m, p) == "required+default" {
			// listed in Required and given a default: the statement does not say which of the two
			// decides; C14 compares the document with what the server does when it is absent
			ex.reqUnknown[op.key()] = true
		}
		switch {
		case v2 && p.Loc == spec.LocCookie:
			// Swagger 2.0 has no cookie parameters: nothing can be demanded
		case cred:
			ex.optional[op.key()] = op
		case !v2 && p.Loc == spec.LocHeader && ignoredHeader3(p.Wire):
			ex.optional[op.key()] = op
		default:
			ex.params = append(ex.params, op)
		}
	}
	if m.HTTP.Body != "" {
		ex.body = l.BodyKind != "none"
	} else {
		ex.body = bodyPlaces > 0
	}
	for _, rs := range successResponses(m) {
		ex.codes[fmt.Sprint(rs.Status)] = "success"
	}
	defs, resps := declaredErrors(sp, s.Service, m)
	for _, e := range defs {
		if rp, ok := resps[e.Name]; ok {
			if _, dup := ex.codes[fmt.Sprint(rp.Status)]; !dup {
				ex.codes[fmt.Sprint(rp.Status)] = "error"
			}
		} else {
			ex.codesOK = false
		}
	}
	// security
	e := sp.Eff(&spec.Type{K: spec.KObject})
	if m.Payload != nil {
		e = sp.Eff(m.Payload)
	}
	credPlace := func(sec string) string {
		for _, a := range e.Attrs {
			if a.Sec != sec {
				continue
			}
			if p := l.ByAttr(a.Name); p != nil && p.Loc != spec.LocBody {
				return p.Loc + ":" + p.Wire
			}
			return "header:Authorization"
		}
		return "unmapped"
	}
	for _, rq := range effectiveSecurity(sp, s.Service, m) {
		var ds []string
		for _, u := range rq {
			sc := schemeByName(sp, u.Scheme)
			if sc == nil {
				continue
			}
			switch sc.Kind {
			case "basic":
				ds = append(ds, "basic")
			case "apikey":
				ds = append(ds, "apikey:"+credPlace("apikey:"+sc.Name))
			case "jwt":
				if v2 {
					ds = append(ds, "apikey:"+credPlace("token")) // Swagger 2.0 has no bearer scheme
				} else {
					ds = append(ds, "jwt")
				}
			case "oauth2":
				ds = append(ds, "oauth2")
			}
		}
		sort.Strings(ds)
		ex.security = append(ex.security, strings.Join(ds, "&"))
	}
	sort.Strings(ex.security)
	return ex
}

// ignoredHeader3: OpenAPI 3 says header parameters named Accept, Content-Type or Authorization
// SHALL be ignored (they are described elsewhere), so their presence is not demanded.
func ignoredHeader3(name string) bool {
	switch strings.ToLower(name) {
	case "accept", "content-type", "authorization":
		return true
	}
	return false
}

func docParams(o docOp, v2 bool) (params []oaParam, body bool) {
	byKey := map[string]oaParam{}
	var order []string
	for _, lvl := range []any{o.Item["parameters"], o.Op["parameters"]} {
		ps, _ := lvl.([]any)
		for _, pv := range ps {
			pm, _ := pv.(map[string]any)
			n, _ := pm["name"].(string)
			in, _ := pm["in"].(string)
			req, _ := pm["required"].(bool)
			if v2 && (in == "body" || in == "formData") {
				body = true
				continue
			}
			p := oaParam{n, in, req}
			if _, ok := byKey[p.key()]; !ok {
				order = append(order, p.key())
			}
			byKey[p.key()] = p
		}
	}
	for _, k := range order {
		params = append(params, byKey[k])
	}
	if !v2 {
		_, body = o.Op["requestBody"].(map[string]any)
	}
	return params, body
}

// docSecurity returns the requirement descriptors the document states for the operation: the
// operation's own "security" when the field is present, the document-level one otherwise.
func docSecurity(doc map[string]any, o docOp, v2 bool) []string {
	sec, own := o.Op["security"]
	if !own {
		sec = doc["security"]
	}
	var schemes map[string]any
	if v2 {
		schemes, _ = doc["securityDefinitions"].(map[string]any)
	} else {
		comps, _ := doc["components"].(map[string]any)
		schemes, _ = comps["securitySchemes"].(map[string]any)
	}
	var out []string
	reqs, _ := sec.([]any)
	for _, rv := range reqs {
		rm, _ := rv.(map[string]any)
		var ds []string
		for _, name := range sortedKeys(rm) {
			sc, ok := schemes[name].(map[string]any)
			if !ok {
				ds = append(ds, "dangling-reference")
				continue
			}
			t, _ := sc["type"].(string)
			switch {
			case t == "basic" || (t == "http" && strings.EqualFold(fmt.Sprint(sc["scheme"]), "basic")):
				ds = append(ds, "basic")
			case t == "http" && strings.EqualFold(fmt.Sprint(sc["scheme"]), "bearer"):
				ds = append(ds, "jwt")
			case t == "apiKey":
				ds = append(ds, fmt.Sprintf("apikey:%v:%v", sc["in"], sc["name"]))
			case t == "oauth2":
				ds = append(ds, "oauth2")
			default:
				ds = append(ds, "type-"+safeTok(t))
			}
		}
		sort.Strings(ds)
		out = append(out, strings.Join(ds, "&"))
	}
	sort.Strings(out)
	return out
}

// secClass removes wire names from requirement descriptors (signatures).
func secClass(reqs []string) string {
	if len(reqs) == 0 {
		return "none"
	}
	var out []string
	for _, r := range reqs {
		var ds []string
		for _, d := range strings.Split(r, "&") {
			parts := strings.Split(d, ":")
			if len(parts) == 3 {
				name := "custom"
				if strings.EqualFold(parts[2], "Authorization") {
					name = "Authorization"
				}
				d = parts[0] + ":" + parts[1] + ":" + name
			}
			ds = append(ds, d)
		}
		out = append(out, strings.Join(ds, "&"))
	}
	return strings.Join(out, "|")
}

func c07Method(s *Svc, m *spec.Method, r *MethodResult, count bool) []c07Finding {
	var out []c07Finding
	d := loadDocs(s.Design)
	sp := s.Spec
	for _, dv := range []struct {
		name string
		doc  map[string]any
		v2   bool
	}{{"v3", d.gen3, false}, {"v2", d.gen2, true}} {
		if dv.doc == nil {
			continue
		}
		ops := map[string]docOp{}
		for _, o := range docOps(dv.doc, dv.v2) {
			ops[routeKey(o.Verb, o.Path)] = o
		}
		var routes [][2]string
		for _, rt := range methodRoutes(m) {
			for _, full := range fullPathsOf(sp, s.Service, rt[1]) {
				routes = append(routes, [2]string{rt[0], full})
			}
		}
		for _, rt := range routes {
			full := rt[1]
			o, ok := ops[routeKey(rt[0], full)]
			if !ok {
				// trailing slash conventions are goa's; the mount-set comparison covers the route
				alt := strings.TrimSuffix(full, "/")
				if alt == "" {
					alt = "/"
				}
				if o, ok = ops[routeKey(rt[0], alt)]; !ok {
					o, ok = ops[routeKey(rt[0], alt+"/")]
				}
			}
			if !ok {
				if count {
					r.note("routes_without_documented_operation_(see_mount-set)", 1)
					r.outcome("operation-not-documented doc=" + dv.name)
				}
				continue
			}
			ex := c07Expected(s, m, o.Path, dv.v2)
			add := func(sig, what string) {
				out = append(out, c07Finding{sig, what, map[string]any{"design": s.Design, "service": s.Service.Name, "method": m.Name, "doc": dv.name, "operation": o.Verb + " " + o.Path,
					"documented_parameters": o.Op["parameters"], "documented_responses": sortedKeys(asMap(o.Op["responses"])), "documented_security": o.Op["security"], "method_http": m.HTTP, "dir": d.dir}})
			}
			nbad := len(out)
			// parameters
			got, gotBody := docParams(o, dv.v2)
			gotBy := map[string]oaParam{}
			for _, p := range got {
				gotBy[p.key()] = p
			}
			for _, e := range ex.params {
				p := ex.place[e.key()]
				g, ok := gotBy[e.key()]
				switch {
				case !ok:
					add(fmt.Sprintf("C07 param-missing-in-doc doc=%s loc=%s req=%s", dv.name, e.In, p.Req),
						fmt.Sprintf("%s %s: the design carries attribute %q in %s %q but the document has no such parameter", o.Verb, o.Path, p.Attr, e.In, e.Name))
				case ex.reqUnknown[e.key()]:
					if count {
						r.note("parameters_required_and_default_whose_required_flag_is_left_to_C14", 1)
					}
				case g.Required != e.Required:
					add(fmt.Sprintf("C07 param-required-mismatch doc=%s loc=%s req=%s documented=%v", dv.name, e.In, p.Req, g.Required),
						fmt.Sprintf("%s %s: parameter %s %q is %s in the design (the server requires it: %v) but documented required=%v", o.Verb, o.Path, e.In, e.Name, p.Req, e.Required, g.Required))
				}
			}
			want := map[string]bool{}
			for _, e := range ex.params {
				want[e.key()] = true
			}
			for _, g := range got {
				if want[g.key()] {
					continue
				}
				if opt, ok := ex.optional[g.key()]; ok {
					if p := ex.place[g.key()]; p != nil && opt.Required != g.Required {
						add(fmt.Sprintf("C07 param-required-mismatch doc=%s loc=%s req=%s documented=%v credential=yes", dv.name, g.In, p.Req, g.Required),
							fmt.Sprintf("%s %s: credential parameter %s %q is %s in the design but documented required=%v", o.Verb, o.Path, g.In, g.Name, p.Req, g.Required))
					}
					continue
				}
				nameClass := "other"
				if strings.EqualFold(g.Name, "Authorization") {
					nameClass = "Authorization"
				}
				add(fmt.Sprintf("C07 param-undesigned-in-doc doc=%s in=%s name=%s", dv.name, safeTok(g.In), nameClass),
					fmt.Sprintf("%s %s: the document lists parameter %s %q which the design does not carry there", o.Verb, o.Path, g.In, g.Name))
			}
			// body
			if gotBody != ex.body {
				add(fmt.Sprintf("C07 body-mismatch doc=%s verb=%s designed=%v documented=%v", dv.name, o.Verb, ex.body, gotBody),
					fmt.Sprintf("%s %s: the design has request body attributes: %v; the document describes a request body: %v", o.Verb, o.Path, ex.body, gotBody))
			}
			// response codes
			resps := asMap(o.Op["responses"])
			for _, code := range sortedKeys(ex.codes) {
				if _, ok := resps[code]; !ok {
					add(fmt.Sprintf("C07 response-code-missing-in-doc doc=%s code=%s kind=%s", dv.name, code, ex.codes[code]),
						fmt.Sprintf("%s %s: the design declares a %s response with status %s which the document does not list (documented: %v)", o.Verb, o.Path, ex.codes[code], code, sortedKeys(resps)))
				}
			}
			if ex.codesOK {
				for _, code := range sortedKeys(resps) {
					if strings.HasPrefix(code, "x-") {
						continue
					}
					if _, ok := ex.codes[code]; !ok {
						add(fmt.Sprintf("C07 response-code-undesigned doc=%s code=%s", dv.name, code),
							fmt.Sprintf("%s %s: the document lists status %s which the design does not declare (designed: %v)", o.Verb, o.Path, code, sortedKeys(ex.codes)))
					}
				}
			}
			// security
			gotSec := docSecurity(dv.doc, o, dv.v2)
			if strings.Join(gotSec, "|") != strings.Join(ex.security, "|") {
				add(fmt.Sprintf("C07 security-mismatch doc=%s level=%s override=%s designed=%s documented=%s", dv.name, featOr(m, "level", "none"), featOr(m, "override", "none"), secClass(ex.security), secClass(gotSec)),
					fmt.Sprintf("%s %s: effective security requirements of the design are %v, the document states %v", o.Verb, o.Path, ex.security, gotSec))
			}
			if count {
				r.Cases++
				r.Execs++
				if len(ex.params) > 0 || ex.body || len(ex.security) > 0 || len(ex.codes) > 1 {
					r.Nontrivial++
				}
				if len(out) == nbad {
					r.outcome(fmt.Sprintf("operation-agrees doc=%s params=%d body=%v codes=%d security=%d", dv.name, len(ex.params), ex.body, len(ex.codes), len(ex.security)))
				} else {
					r.outcome("operation-differs doc=" + dv.name)
				}
				if r.Cases%5 == 1 {
					r.sample(map[string]any{"doc": dv.name, "operation": o.Verb + " " + o.Path, "designed_params": ex.params, "documented_params": got, "body": ex.body, "codes": sortedKeys(ex.codes), "security": ex.security})
				}
			}
		}
	}
	return out
}

func asMap(v any) map[string]any {
	m, _ := v.(map[string]any)
	return m
}

func featOr(m *spec.Method, k, def string) string {
	if v := m.Feat[k]; v != "" {
		return v
	}
	return def
}

// C07Static runs the parts of C07 that need no linked server (document validity, JSON = YAML,
// per-operation comparison with the designed layout) on one generated design of a compile-only
// family. The mount-set comparison needs the generated code and is not done here.
func C07Static(corpusDir, design string, sp *spec.Spec) []*MethodResult {
	staticCorpusDir = corpusDir
	var out []*MethodResult
	first := true
	for _, svc := range sp.Services {
		for _, m := range svc.Methods {
			s := &Svc{Design: design, Spec: sp, Service: svc, V: V{S: sp}}
			r := &MethodResult{Design: design, Service: svc.Name, Method: m.Name, Feat: m.Feat}
			out = append(out, r)
			if m.HTTP == nil {
				r.Skipped = "no HTTP mapping"
				continue
			}
			if first {
				first = false
				for _, f := range c07Design(s, r, true, false) {
					r.violation(f.sig, f.what, f.cs, nil)
				}
				r.note("designs_checked_without_mount-set_(compile-only_family)", 1)
			}
			if m.StreamPayload != nil || m.StreamResult != nil || m.HTTP.Multipart || m.HTTP.MapParams != "" || m.HTTP.SkipReq || m.HTTP.SkipResp {
				r.note("methods_with_streaming_multipart_mapparams_not_compared_per_operation", 1)
				continue
			}
			func() {
				defer func() {
					if p := recover(); p != nil {
						r.HarnessErr = append(r.HarnessErr, fmt.Sprintf("c07 static: %v", p))
					}
				}()
				for _, f := range c07Method(s, m, r, true) {
					r.violation(f.sig, f.what, f.cs, nil)
				}
			}()
		}
	}
	return out
}

// reqLabel is the requiredness class of a place for signatures: Layout's "required", "optional",
// "default", and "required+default" for an attribute that is both listed in Required and given
// a default value.
func reqLabel(sp *spec.Spec, m *spec.Method, p *Place) string {
	if p == nil {
		return "none"
	}
	if p.A != nil && p.A.HasDefault && m.Payload != nil {
		if e := sp.Eff(m.Payload); spec.IsRequired(e.Required, p.Attr) {
			return "required+default"
		}
	}
	return p.Req
}

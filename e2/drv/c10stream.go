package drv

import (
	"errors"
	"fmt"
	"io"
	"reflect"
	"time"

	"verif/e2/spec"
)

// Streaming part of C10: sequences of messages in order for the four streaming kinds.
//
//	server streaming  Payload? + StreamingResult          client: Recv*            stub: Send*, Close
//	client streaming  StreamingPayload + Result?          client: Send*, CloseAndRecv   stub: Recv*, SendAndClose
//	bidirectional     StreamingPayload + StreamingResult  client: Send*, Close, Recv*   stub: Recv*, Send*, Close
//
// The two ends follow a fixed sequential protocol (all requests, then all responses) so that
// the outcome does not depend on scheduling.

type streamRun struct {
	payload  any    // non-streamed payload (nil: none)
	requests []any  // streamed payload elements sent by the client
	replies  []any  // streamed results sent by the stub
	result   any    // non-streamed result returned by the stub (client streaming)
	view     string // view the stub selects with the server stream's SetView ("": none)
	// on: the generated client to call (zero: the service's default client, one call at a time);
	// gate, when set, runs inside the service method before it touches the stream (c10reuse.go)
	// hold, when set, runs in the client interceptor before the RPC starts (only with on)
	on   reflect.Value
	gate func()
	hold func()
}

type streamObs struct {
	invoked     int
	gotPayload  any
	srvRecv     []any
	srvRecvErr  error // first non-EOF error returned by the server stream's Recv
	srvSendErr  error
	cliRecv     []any
	cliResult   any
	cliErr      error
	cliSendErr  error
	cliRecvErr  error // the error (not io.EOF) that ended the client stream's Recv loop / CloseAndRecv
	cliSent     int   // messages the client stream's Send accepted
	srvSendFail int   // index of the reply the server stream's Send refused (-1: none)
	call        *Call
	obs         *GRPCObs
	herr        error
	sentPayload any
	sentResult  any // the non-streamed result as the generated type expresses it
}

func errOf(v reflect.Value) error {
	if v.IsNil() {
		return nil
	}
	return v.Interface().(error)
}

// streamExchange performs one streaming call.
func streamExchange(g *GRPCSvc, m *spec.Method, run streamRun) *streamObs {
	s := g.S
	so := &streamObs{srvSendFail: -1}
	reply := func(method string, args []any) []any {
		so.invoked++
		if m.Payload != nil && len(args) >= 3 {
			so.gotPayload = g.GetValue(reflect.ValueOf(args[1]), m.Payload)
		}
		if run.gate != nil {
			run.gate()
		}
		st := reflect.ValueOf(args[len(args)-1])
		if sv := st.MethodByName("SetView"); sv.IsValid() && run.view != "" {
			sv.Call([]reflect.Value{reflect.ValueOf(run.view)})
		}
		if m.StreamPayload != nil {
			recv := st.MethodByName("Recv")
			if !recv.IsValid() {
				so.herr = fmt.Errorf("server stream %s has no Recv", st.Type())
				return []any{nil}
			}
			for i := 0; i < len(run.requests)+8; i++ {
				out := recv.Call(nil)
				if err := errOf(out[1]); err != nil {
					if !errors.Is(err, io.EOF) {
						so.srvRecvErr = err
					}
					break
				}
				so.srvRecv = append(so.srvRecv, g.GetValue(out[0], m.StreamPayload))
			}
		}
		if so.srvRecvErr != nil {
			return []any{so.srvRecvErr}
		}
		switch {
		case m.StreamResult != nil:
			send := st.MethodByName("Send")
			if !send.IsValid() {
				so.herr = fmt.Errorf("server stream %s has no Send", st.Type())
				return []any{nil}
			}
			for i, v := range run.replies {
				rv, err := g.NewValue(send.Type().In(0), m.StreamResult, v)
				if err != nil {
					so.herr = err
					return []any{nil}
				}
				if err := errOf(send.Call([]reflect.Value{rv})[0]); err != nil {
					so.srvSendErr = err
					so.srvSendFail = i
					return []any{err}
				}
			}
			if cl := st.MethodByName("Close"); cl.IsValid() {
				if err := errOf(cl.Call(nil)[0]); err != nil {
					so.srvSendErr = err
				}
			}
		default:
			if sc := st.MethodByName("SendAndClose"); sc.IsValid() {
				rv, err := g.NewValue(sc.Type().In(0), m.Result, run.result)
				if err != nil {
					so.herr = err
					return []any{nil}
				}
				so.sentResult = g.GetValue(rv, m.Result)
				if err := errOf(sc.Call([]reflect.Value{rv})[0]); err != nil {
					so.srvSendErr = err
				}
			} else if cl := st.MethodByName("Close"); cl.IsValid() {
				if err := errOf(cl.Call(nil)[0]); err != nil {
					so.srvSendErr = err
				}
			}
		}
		return []any{nil}
	}
	drive := func(stream any) (any, error) {
		st := reflect.ValueOf(stream)
		if !st.IsValid() {
			return nil, fmt.Errorf("harness: the client endpoint returned no stream")
		}
		// gRPC streams do not carry the view of a multi-view result: the generated client stream
		// has a SetView of its own and the caller states the view it expects
		if sv := st.MethodByName("SetView"); sv.IsValid() && run.view != "" {
			sv.Call([]reflect.Value{reflect.ValueOf(run.view)})
		}
		if m.StreamPayload != nil {
			send := st.MethodByName("Send")
			if !send.IsValid() {
				return nil, fmt.Errorf("harness: client stream %s has no Send", st.Type())
			}
			for _, v := range run.requests {
				rv, err := g.NewValue(send.Type().In(0), m.StreamPayload, v)
				if err != nil {
					so.herr = err
					return nil, nil
				}
				if err := errOf(send.Call([]reflect.Value{rv})[0]); err != nil {
					so.cliSendErr = err
					break
				}
				so.cliSent++
			}
		}
		switch {
		case m.StreamResult != nil:
			if m.StreamPayload != nil {
				if cl := st.MethodByName("Close"); cl.IsValid() {
					if err := errOf(cl.Call(nil)[0]); err != nil {
						return nil, fmt.Errorf("client stream Close: %w", err)
					}
				}
			}
			recv := st.MethodByName("Recv")
			if !recv.IsValid() {
				return nil, fmt.Errorf("harness: client stream %s has no Recv", st.Type())
			}
			for i := 0; i < len(run.replies)+8; i++ {
				out := recv.Call(nil)
				if err := errOf(out[1]); err != nil {
					if errors.Is(err, io.EOF) {
						return nil, nil
					}
					so.cliRecvErr = err
					return nil, err
				}
				so.cliRecv = append(so.cliRecv, g.GetValue(out[0], m.StreamResult))
			}
			return nil, fmt.Errorf("client stream did not end after %d messages", len(so.cliRecv))
		default:
			if cr := st.MethodByName("CloseAndRecv"); cr.IsValid() {
				out := cr.Call(nil)
				if err := errOf(out[len(out)-1]); err != nil {
					so.cliRecvErr = err
					return nil, err
				}
				if len(out) == 2 && m.Result != nil {
					so.cliResult = g.GetValue(out[0], m.Result)
				}
				return nil, nil
			}
			if cl := st.MethodByName("Close"); cl.IsValid() {
				return nil, errOf(cl.Call(nil)[0])
			}
		}
		return nil, nil
	}
	call := &Call{Reply: reply}
	obs := &GRPCObs{}
	so.call, so.obs = call, obs
	var payload any
	if pt := s.PayloadType(m.Name); pt != nil && m.Payload != nil {
		rv, err := g.NewValue(pt, m.Payload, run.payload)
		if err != nil {
			so.herr = fmt.Errorf("cannot build payload: %w", err)
			return so
		}
		so.sentPayload = g.GetValue(rv, m.Payload)
		payload = rv.Interface()
	}
	if run.on.IsValid() {
		_, so.cliErr = g.InvokeOn(run.on, call, obs, m.Name, payload, drive, run.hold)
	} else {
		_, so.cliErr = g.Invoke(call, obs, m.Name, payload, drive)
	}
	// the client may be done before the service method is (a client Recv that fails ends the call
	// while the service is still sending): what the service side observed is read only once the
	// server handler has returned
	obs.waitHandlers(5 * time.Second)
	return so
}

// sequences enumerates all sequences of length 0..maxLen over vals.
func sequences(vals []any, maxLen int) [][]any {
	out := [][]any{{}}
	prev := [][]any{{}}
	for n := 1; n <= maxLen; n++ {
		var cur [][]any
		for _, p := range prev {
			for _, v := range vals {
				seq := append(append([]any{}, p...), v)
				cur = append(cur, seq)
			}
		}
		out = append(out, cur...)
		prev = cur
	}
	return out
}

func validElems(g *GRPCSvc, m *spec.Method, rt reflect.Type, t *spec.Type) (valid, invalid []any) {
	sp := g.S.Spec
	seen := map[string]bool{}
	for _, v := range gValues(sp, t, grpcLayout(sp, t, false, nil)) {
		if skipWide(m, sp, t, v) {
			continue
		}
		ev, err := gExpressed(g, rt, t, v)
		if err != nil || seen[spec.Canon(ev)] {
			continue
		}
		seen[spec.Canon(ev)] = true
		if gAmbiguous(sp, t, ev) {
			continue
		}
		if len(sp.Check(t, ev, "")) == 0 {
			valid = append(valid, ev)
		} else {
			invalid = append(invalid, ev)
		}
	}
	return
}

func seqClass(n int) string {
	switch n {
	case 0:
		return "0"
	case 1:
		return "1"
	}
	return "many"
}

func seqJSON(seq []any) []any {
	out := make([]any, len(seq))
	for i, v := range seq {
		out[i] = spec.JSONable(v)
	}
	return out
}

// seqDiff compares two sequences elementwise.
func seqDiff(sp *spec.Spec, t *spec.Type, sent, got []any) (class string, what string, val any) {
	for i := range sent {
		if i >= len(got) {
			return "missing", fmt.Sprintf("message %d of %d never arrived", i+1, len(sent)), sent[i]
		}
		if d := Equal(sp, t, nil, sent[i], got[i], fmt.Sprintf("message[%d]", i)); d != nil {
			return valueClass(d.Recv), fmt.Sprintf("%s: %s", d.Path, d.Why), d.Sent
		}
	}
	if len(got) > len(sent) {
		return "extra", fmt.Sprintf("%d messages arrived for %d sent", len(got), len(sent)), nil
	}
	return "", "", nil
}

// streamElemTypes finds the Go types of the streamed payload and result from the server stream
// interface the Service method takes as its last parameter.
func streamElemTypes(g *GRPCSvc, m *spec.Method) (req, res reflect.Type) {
	mt, ok := g.S.stub.Type().MethodByName(g.S.GoMethod(m.Name))
	if !ok || mt.Type.NumIn() < 3 {
		return nil, nil
	}
	st := mt.Type.In(mt.Type.NumIn() - 1)
	if st.Kind() != reflect.Interface {
		return nil, nil
	}
	if rm, ok := st.MethodByName("Recv"); ok && rm.Type.NumOut() == 2 {
		req = rm.Type.Out(0)
	}
	if sm, ok := st.MethodByName("Send"); ok && sm.Type.NumIn() == 1 {
		res = sm.Type.In(0)
	}
	return req, res
}

func runC10Stream(g *GRPCSvc, m *spec.Method, tier string, r *MethodResult) {
	sp := g.S.Spec
	k, maxLen := 2, 2
	if tier == "thorough" {
		k, maxLen = 3, 3
	}
	feat := c10Feat(m)
	var reqValid, reqInvalid, resValid []any
	reqT, resT := streamElemTypes(g, m)
	if m.StreamPayload != nil {
		reqValid, reqInvalid = validElems(g, m, reqT, m.StreamPayload)
	}
	if m.StreamResult != nil {
		resValid, _ = validElems(g, m, resT, m.StreamResult)
	}
	pl := payloadGLayout(sp, m)
	pvals := gValues(sp, m.Payload, pl)
	plainP := plainOf(sp, m.Payload, pl, pvals)
	rl := resultGLayout(sp, m)
	var plainR any
	var rvals []any
	if m.Result != nil {
		rvals = gValues(sp, m.Result, rl)
		plainR = plainOf(sp, m.Result, rl, rvals)
	}
	nonEmpty := func(vals []any) []any {
		var out []any
		for _, v := range vals {
			if !unsetLike(v) {
				out = append(out, v)
			}
		}
		if len(out) == 0 {
			return vals
		}
		return out
	}
	head := func(vals []any, n int) []any {
		vals = nonEmpty(vals)
		if len(vals) > n {
			return vals[:n]
		}
		return vals
	}
	base := streamRun{payload: plainP, result: plainR}
	if m.StreamPayload != nil && len(reqValid) > 0 {
		base.requests = head(reqValid, 1)
	}
	if m.StreamResult != nil && len(resValid) > 0 {
		base.replies = head(resValid, 1)
	}

	one := func(run streamRun, aspect string) {
		r.Cases++
		r.Nontrivial++
		c10StreamOne(g, m, feat, run, aspect, r, true)
	}
	// request sequences
	if m.StreamPayload != nil {
		seqs := sequences(head(reqValid, k), maxLen)
		for _, v := range reqValid {
			seqs = append(seqs, []any{v})
		}
		seen := map[string]bool{}
		for _, seq := range seqs {
			key := spec.Canon(spec.Arr(seq))
			if seen[key] {
				continue
			}
			seen[key] = true
			run := base
			run.requests = seq
			one(run, "requests")
		}
		// a message that violates the design is not delivered to user code as a message
		for i, iv := range reqInvalid {
			if i >= 6 && tier != "thorough" {
				break
			}
			run := base
			run.requests = append(append([]any{}, head(reqValid, 1)...), iv)
			one(run, "invalid-request")
		}
	}
	// response sequences
	if m.StreamResult != nil {
		seqs := sequences(head(resValid, k), maxLen)
		for _, v := range resValid {
			seqs = append(seqs, []any{v})
		}
		seen := map[string]bool{}
		for _, seq := range seqs {
			key := spec.Canon(spec.Arr(seq))
			if seen[key] {
				continue
			}
			seen[key] = true
			run := base
			run.replies = seq
			one(run, "replies")
		}
	}
	// non-streamed result of a client stream
	if m.StreamResult == nil && m.Result != nil {
		seen := map[string]bool{}
		for _, v := range rvals {
			if v == nil || !carriable(rl, v) || len(sp.Check(m.Result, v, "")) > 0 || gAmbiguous(sp, m.Result, v) || seen[spec.Canon(v)] || skipWide(m, sp, m.Result, v) {
				continue
			}
			seen[spec.Canon(v)] = true
			run := base
			run.result = v
			one(run, "result")
		}
	}
	// non-streamed payload
	if m.Payload != nil {
		seen := map[string]bool{}
		for _, v := range pvals {
			if !carriable(pl, v) {
				r.note("values_outside_the_metadata_alphabet", 1)
				continue
			}
			ev, err := gExpressed(g, g.S.PayloadType(m.Name), m.Payload, v)
			if err != nil || seen[spec.Canon(ev)] || gAmbiguous(sp, m.Payload, ev) || skipWide(m, sp, m.Payload, v) {
				continue
			}
			seen[spec.Canon(ev)] = true
			run := base
			run.payload = v
			one(run, "payload")
		}
	}
}

func c10StreamOne(g *GRPCSvc, m *spec.Method, feat string, run streamRun, aspect string, r *MethodResult, report bool) []string {
	sp := g.S.Spec
	so := streamExchange(g, m, run)
	if report {
		r.Execs++
	}
	if so.herr != nil {
		if report {
			r.HarnessErr = append(r.HarnessErr, "c10 stream: "+so.herr.Error())
		}
		return nil
	}
	var sigs []string
	fail := func(sig, what string) {
		sigs = append(sigs, sig)
		if report {
			cs := map[string]any{"design": g.S.Design, "service": g.S.Service.Name, "method": m.Name, "aspect": aspect,
				"payload": spec.JSONable(run.payload), "requests": seqJSON(run.requests), "replies": seqJSON(run.replies), "result": spec.JSONable(run.result),
				"server_received": seqJSON(so.srvRecv), "client_received": seqJSON(so.cliRecv), "client_result": spec.JSONable(so.cliResult),
				"client_error": fmt.Sprint(so.cliErr), "server_recv_error": fmt.Sprint(so.srvRecvErr), "request_metadata": mdView(so.obs.ReqMD)}
			r.violation(sig, what, cs, func() []string { return c10StreamOne(g, m, feat, run, aspect, r, false) })
		}
	}
	if so.call.ServerPanic != "" {
		fail(fmt.Sprintf("C10 panic %s aspect=%s %s", feat, aspect, panicSite(so.call.ServerPanic)), "generated code panicked: "+so.call.ServerPanic)
		return sigs
	}
	payloadIssues := []spec.Issue(nil)
	if m.Payload != nil {
		payloadIssues = sp.Check(m.Payload, so.sentPayload, "payload")
	}
	if len(payloadIssues) > 0 {
		pl := payloadGLayout(sp, m)
		p := variedPlace(pl, payloadIssues[0].Path)
		pf := placeFeat(sp, p, attrOf(pl, p, so.sentPayload))
		if so.invoked != 0 {
			fail(fmt.Sprintf("C10 invalid-accepted %s %s rule=%s", c10ValidFeat(m), pf, issueRule(payloadIssues)),
				fmt.Sprintf("payload %s violates %v but the service method was invoked", spec.Canon(so.sentPayload), payloadIssues))
		} else if so.cliErr == nil && so.cliSendErr == nil {
			fail(fmt.Sprintf("C10 invalid-no-error %s %s rule=%s", c10ValidFeat(m), pf, issueRule(payloadIssues)),
				fmt.Sprintf("payload %s violates %v: the service method was not invoked but the client got no error", spec.Canon(so.sentPayload), payloadIssues))
		} else if report {
			r.outcome("stream invalid-payload-rejected code=" + grpcCode(so.cliErr))
		}
		return sigs
	}
	if aspect == "invalid-request" {
		bad := run.requests[len(run.requests)-1]
		issues := sp.Check(m.StreamPayload, bad, "message")
		delivered := false
		for _, got := range so.srvRecv {
			if spec.Canon(got) == spec.Canon(bad) {
				delivered = true
			}
		}
		if delivered || (so.srvRecvErr == nil && len(so.srvRecv) >= len(run.requests)) {
			fail(fmt.Sprintf("C10 invalid-accepted %s at=streamed-message value=%s rule=%s", c10ValidFeat(m), valueClass(bad), issueRule(issues)),
				fmt.Sprintf("streamed message %s violates %v but the server stream delivered it to user code (received %v)", spec.Canon(bad), issues, seqJSON(so.srvRecv)))
		} else if report {
			r.outcome("stream invalid-message-refused")
		}
		return sigs
	}
	if so.invoked != 1 {
		if report {
			r.outcome("stream not-invoked code=" + grpcCode(so.cliErr))
		}
		var pv any = so.sentPayload
		fail(fmt.Sprintf("C10 not-delivered %s aspect=%s value=%s observed=%s", feat, aspect, valueClass(pv), grpcCode(so.cliErr)),
			fmt.Sprintf("streaming call with valid payload %s did not reach the service method (invoked=%d, client error=%v)", spec.Canon(so.sentPayload), so.invoked, so.cliErr))
		return sigs
	}
	if m.Payload != nil {
		if d := Equal(sp, m.Payload, nil, so.sentPayload, so.gotPayload, "payload"); d != nil {
			pl := payloadGLayout(sp, m)
			p := variedPlace(pl, d.Path)
			fail(fmt.Sprintf("C10 value-changed %s %s observed=%s", feat, placeFeat(sp, p, d.Sent), valueClass(d.Recv)),
				fmt.Sprintf("%s: %s (sent payload %s, arrived %s)", d.Path, d.Why, spec.Canon(so.sentPayload), spec.Canon(so.gotPayload)))
			return sigs
		}
	}
	if so.cliErr != nil || so.cliSendErr != nil || so.srvRecvErr != nil || so.srvSendErr != nil {
		err := so.cliErr
		for _, e := range []error{so.cliSendErr, so.srvRecvErr, so.srvSendErr} {
			if err == nil {
				err = e
			}
		}
		var v any
		switch aspect {
		case "requests":
			if len(run.requests) > 0 {
				v = run.requests[len(run.requests)-1]
			}
		case "replies":
			if len(run.replies) > 0 {
				v = run.replies[len(run.replies)-1]
			}
		case "result":
			v = run.result
		}
		if report {
			r.outcome("stream error code=" + grpcCode(err))
		}
		fail(fmt.Sprintf("C10 stream-error %s aspect=%s len=%s value=%s observed=%s", feat, aspect, seqClass(len(run.requests)+len(run.replies)), valueClass(v), grpcCode(err)),
			fmt.Sprintf("valid streaming exchange failed: client error %v, client send error %v, server recv error %v, server send error %v", so.cliErr, so.cliSendErr, so.srvRecvErr, so.srvSendErr))
		return sigs
	}
	if m.StreamPayload != nil {
		if class, what, v := seqDiff(sp, m.StreamPayload, run.requests, so.srvRecv); class != "" {
			fail(fmt.Sprintf("C10 stream-changed %s dir=request len=%s value=%s observed=%s", feat, seqClass(len(run.requests)), valueClass(v), class),
				fmt.Sprintf("client sent %v, server stream delivered %v: %s", seqJSON(run.requests), seqJSON(so.srvRecv), what))
			return sigs
		}
	}
	if m.StreamResult != nil {
		if class, what, v := seqDiff(sp, m.StreamResult, run.replies, so.cliRecv); class != "" {
			fail(fmt.Sprintf("C10 stream-changed %s dir=response len=%s value=%s observed=%s", feat, seqClass(len(run.replies)), valueClass(v), class),
				fmt.Sprintf("service sent %v, client stream delivered %v: %s", seqJSON(run.replies), seqJSON(so.cliRecv), what))
			return sigs
		}
	} else if m.Result != nil {
		sentN := so.sentResult
		if sentN == nil {
			sentN = run.result
		}
		if d := Equal(sp, m.Result, nil, sentN, so.cliResult, "result"); d != nil {
			fail(fmt.Sprintf("C10 result-changed %s at=message value=%s observed=%s", feat, valueClass(d.Sent), valueClass(d.Recv)),
				fmt.Sprintf("%s: %s (service returned %s, client got %s)", d.Path, d.Why, spec.Canon(sentN), spec.Canon(so.cliResult)))
			return sigs
		}
	}
	if report {
		r.outcome(fmt.Sprintf("stream-equal aspect=%s requests=%s replies=%s", aspect, seqClass(len(run.requests)), seqClass(len(run.replies))))
		if r.Cases%9 == 1 {
			r.sample(map[string]any{"aspect": aspect, "requests": seqJSON(run.requests), "replies": seqJSON(run.replies), "server_received": seqJSON(so.srvRecv), "client_received": seqJSON(so.cliRecv)})
		}
	}
	return sigs
}

package drv

import (
	"testing"

	"verif/e2/spec"
)

// The sequence comparison is the reference model of the streaming oracles: check its classes.
func TestCompareSeq(t *testing.T) {
	sp := &spec.Spec{}
	ty := spec.P(spec.KString)
	a, b, c := any("a"), any("b"), any("c")
	cases := []struct {
		name      string
		sent, got []any
		class     string
		pos       int
	}{
		{"equal", []any{a, b, c}, []any{a, b, c}, "", 0},
		{"both-empty", nil, nil, "", 0},
		{"changed", []any{a, b, c}, []any{a, "x", c}, "changed", 1},
		{"order", []any{a, b, c}, []any{a, c, b}, "order", 1},
		{"lost-last", []any{a, b, c}, []any{a, b}, "lost", 2},
		{"lost-first", []any{a, b, c}, []any{b, c}, "lost", 0},
		{"lost-middle", []any{a, b, c}, []any{a, c}, "lost", 1},
		{"lost-only", []any{a}, nil, "lost", 0},
		{"lost-tail-of-two", []any{a, b, c}, []any{a}, "lost", 1},
		{"duplicated", []any{a, b}, []any{a, a, b}, "duplicated", 1},
		{"extra", []any{a, b}, []any{a, b, c}, "extra", 2},
		{"extra-when-none-sent", nil, []any{a}, "extra", 0},
		{"previous-message-sent-again", []any{a, b, c}, []any{a, a, b}, "changed", 1},
		{"unrelated", []any{a}, []any{b, c, a}, "sequence", 0},
	}
	for _, k := range cases {
		v := compareSeq(sp, ty, k.sent, k.got)
		if v.Class != k.class || (k.class != "" && v.Pos != k.pos) {
			t.Errorf("%s: got class %q pos %d, want %q pos %d (%s)", k.name, v.Class, v.Pos, k.class, k.pos, v.What)
		}
	}
	// nil and empty collections are equal (normalisation 1)
	at := spec.ArrT(spec.P(spec.KString))
	if v := compareSeq(sp, at, []any{spec.Arr{}}, []any{nil}); v.Class != "" {
		t.Errorf("empty array vs nil: %+v", v)
	}
}

func TestScripts(t *testing.T) {
	m := &spec.Method{StreamPayload: spec.P(spec.KString), StreamResult: spec.P(spec.KString)}
	for _, sc := range bidiSchedules {
		for k := 0; k <= 3; k++ {
			for j := 0; j <= 3; j++ {
				p := streamPlan{Sched: sc, Requests: make([]any, k), Replies: make([]any, j)}
				cli, srv := scripts(m, p)
				count := func(ops []streamOp, op string) int {
					n := 0
					for _, o := range ops {
						if o.Op == op {
							n++
						}
					}
					return n
				}
				if count(cli, opSend) != k || count(srv, opSend) != j {
					t.Errorf("%s k=%d j=%d: sends %d/%d", sc, k, j, count(cli, opSend), count(srv, opSend))
				}
				// every message is awaited by a counted Recv or by the final recv-all
				if count(srv, opRecv)+count(srv, opRecvAll)*k != k && count(srv, opRecvAll) == 0 {
					t.Errorf("%s k=%d j=%d: server recvs %v", sc, k, j, opNames(srv))
				}
				if count(cli, opRecvAll)+count(srv, opRecvAll) != 1 {
					t.Errorf("%s k=%d j=%d: exactly one side must read until the end: %v / %v", sc, k, j, opNames(cli), opNames(srv))
				}
			}
		}
	}
}
